------------------------------ MODULE SeqModel ------------------------------
(***************************************************************************)
(* Sequences as biogo's seq packages present them (properties C05, C06).    *)
(* A letter is a byte; a cell is <<letter, quality>>; a row is              *)
(* [off, cells, strand]: it occupies positions off .. off+Len(cells)-1.     *)
(* Complementing alphabets are given by their pairing strings, copied from  *)
(* alphabet.go.                                                             *)
(***************************************************************************)
EXTENDS Integers, Sequences, FiniteSets

GAP == 45

Pair_DNA_from == <<97, 99, 103, 116, 110, 120, 65, 67, 71, 84, 78, 88, 45>>
Pair_DNA_to   == <<116, 103, 99, 97, 110, 120, 84, 71, 67, 65, 78, 88, 45>>
Pair_DNAredundant_from == <<97, 99, 109, 103, 114, 115, 118, 116, 119, 121, 104, 107, 100, 98, 110, 120, 65, 67, 77, 71, 82, 83, 86, 84, 87, 89, 72, 75, 68, 66, 78, 88, 45>>
Pair_DNAredundant_to   == <<116, 103, 107, 99, 121, 115, 98, 97, 119, 114, 100, 109, 104, 118, 110, 120, 84, 71, 75, 67, 89, 83, 66, 65, 87, 82, 68, 77, 72, 86, 78, 88, 45>>
Pair_RNA_from == <<97, 99, 103, 117, 110, 120, 65, 67, 71, 85, 78, 88, 45>>
Pair_RNA_to   == <<117, 103, 99, 97, 110, 120, 85, 71, 67, 65, 78, 88, 45>>

PairFrom(alpha) == CASE alpha = "DNA" -> Pair_DNA_from [] alpha = "DNAredundant" -> Pair_DNAredundant_from [] alpha = "RNA" -> Pair_RNA_from
PairTo(alpha)   == CASE alpha = "DNA" -> Pair_DNA_to   [] alpha = "DNAredundant" -> Pair_DNAredundant_to   [] alpha = "RNA" -> Pair_RNA_to

\* letters the alphabet's pairing covers
Paired(alpha) == {PairFrom(alpha)[i] : i \in 1..Len(PairFrom(alpha))}
Comp(alpha, l) == LET i == CHOOSE k \in 1..Len(PairFrom(alpha)) : PairFrom(alpha)[k] = l IN PairTo(alpha)[i]

Rev(s) == [i \in 1..Len(s) |-> s[Len(s) + 1 - i]]

\* reverse complement of a cell sequence: qualities travel with their letters
RevCompCells(alpha, cells) == [i \in 1..Len(cells) |-> <<Comp(alpha, cells[Len(cells) + 1 - i][1]), cells[Len(cells) + 1 - i][2]>>]

RowStart(r) == r.off
RowEnd(r) == r.off + Len(r.cells)

(***************************************************************************)
(* sequtils (C06).  src = [off, cells, circular].                           *)
(***************************************************************************)
\* letters at positions [a, b) of src (a >= off, b <= end)
Span(src, a, b) == SubSeq(src.cells, a - src.off + 1, b - src.off)

Truncate(src, start, end) ==
  IF start < src.off \/ end > src.off + Len(src.cells) THEN [err |-> TRUE]
  ELSE IF start <= end THEN [err |-> FALSE, off |-> start, cells |-> Span(src, start, end)]
  ELSE IF ~src.circular THEN [err |-> TRUE]
  ELSE IF end < src.off \/ start > src.off + Len(src.cells) THEN [err |-> TRUE]
  \* wrapping through the origin: start .. End, then Start .. end
  ELSE [err |-> FALSE, off |-> start,
        cells |-> Span(src, start, src.off + Len(src.cells)) \o Span(src, src.off, end)]

\* positions of src covered by some feature [s, e), ascending
Covered(src, fs) == {p \in src.off..(src.off + Len(src.cells) - 1) : \E i \in 1..Len(fs) : fs[i].s <= p /\ p < fs[i].e}
RECURSIVE AscSeq(_)
AscSeq(S) == IF S = {} THEN <<>> ELSE LET m == CHOOSE x \in S : \A y \in S : x <= y IN <<m>> \o AscSeq(S \ {m})
Stitch(src, fs) ==
  IF \E i \in 1..Len(fs) : fs[i].e < fs[i].s THEN [err |-> TRUE]
  ELSE [err |-> FALSE, cells |-> [k \in 1..Cardinality(Covered(src, fs)) |-> src.cells[AscSeq(Covered(src, fs))[k] - src.off + 1]]]

Max2(a, b) == IF a > b THEN a ELSE b
Min2(a, b) == IF a < b THEN a ELSE b
\* the clipped segment of one feature; reverse-oriented ones are reverse complemented
\* (reversed when the alphabet does not complement: alpha = "")
Segment(src, f, alpha) ==
  LET seg == Span(src, Max2(f.s, src.off), Min2(f.e, src.off + Len(src.cells))) IN
  IF f.o = -1 THEN (IF alpha = "" THEN Rev(seg) ELSE RevCompCells(alpha, seg)) ELSE seg
RECURSIVE ConcatSegs(_, _, _)
ConcatSegs(src, fs, alpha) ==
  IF fs = <<>> THEN <<>> ELSE Segment(src, Head(fs), alpha) \o ConcatSegs(src, Tail(fs), alpha)
\* features must intersect the sequence (a wholly outside feature is outside the property's quantifier)
ComposeDefined(src, fs) ==
  \A i \in 1..Len(fs) : fs[i].s <= fs[i].e /\ Max2(fs[i].s, src.off) <= Min2(fs[i].e, src.off + Len(src.cells))
Compose(src, fs, alpha) == [err |-> FALSE, cells |-> ConcatSegs(src, fs, alpha)]

\* Trim: e[i] are error probabilities scaled by Scale (integers), limit likewise.
\* WindowSum(e, limit, a, b) over positions a..b-1 (1-based indices into e)
RECURSIVE SumFrom(_, _, _, _)
SumFrom(e, limit, a, b) == IF a >= b THEN 0 ELSE (limit - e[a]) + SumFrom(e, limit, a + 1, b)
BestSum(e, limit) ==
  LET sums == {SumFrom(e, limit, a, b) : a \in 1..(Len(e) + 1), b \in 1..(Len(e) + 1)} IN
  CHOOSE m \in sums : \A x \in sums : x <= m
=============================================================================
