SPECIFICATION Spec
CONSTANTS
  Kinds = {"lin", "qlin", "aln", "qaln", "multi", "qmulti"}
  MaxRows = 2
  MaxCols = 2
  MaxOff = 1
  MaxEdits = 2
  MirrorAboutSpan = TRUE
  TrimTracksStart = TRUE
  FreshReverser = TRUE
INVARIANTS RevCompLaw RevCompInvolution ReverseTwice ShapeKept AppendLaw DeleteLaw FlushLaw CutLaw
CHECK_DEADLOCK FALSE
