-------------------------------- MODULE SeqMC --------------------------------
(***************************************************************************)
(* Bounded exhaustive exploration of Containers and SeqModel: all tiny      *)
(* containers, all short histories of edits, with the laws of C05, C06 and  *)
(* C07 as invariants relating the state before and after each edit.         *)
(* Operational definitions written like the code (Trim's running sum,       *)
(* Compose's scratch reverser, Multi's re-offsetting) are checked against    *)
(* the declarative ones; constants select the as-found variants, which TLC  *)
(* must refute.                                                             *)
(***************************************************************************)
EXTENDS Containers, Json, IOUtils

CONSTANTS
  Kinds, MaxRows, MaxCols, MaxOff, MaxEdits,
  MirrorAboutSpan,     \* TRUE = repaired Multi.RevComp/Reverse; FALSE: every row re-offset to end - End() = 0
  TrimTracksStart,     \* TRUE = repaired Trim; FALSE: returns the start of the last run
  FreshReverser        \* TRUE = repaired Compose; FALSE: the first reversed segment is reused

Alpha == "DNA"
LettersS == {97, 67}                \* 'a', 'C'
CellsQ == {<<l, q>> : l \in LettersS, q \in {0, 30}}
CellsP == {<<l, 0>> : l \in LettersS}
RECURSIVE SeqsUpTo(_, _)
SeqsUpTo(S, n) == IF n = 0 THEN {<<>>} ELSE SeqsUpTo(S, n - 1) \cup {Append(s, x) : s \in SeqsUpTo(S, n - 1), x \in S}
SeqsOf(S, n) == {s \in SeqsUpTo(S, n) : Len(s) = n}
CellSet(kind) == IF HasQ(kind) THEN CellsQ ELSE CellsP

InitContainers(kind) ==
  IF ColumnStored(kind) THEN
    {[kind |-> kind, alpha |-> Alpha, rows |-> [i \in 1..n |-> [off |-> 0, cells |-> rs[i], strand |-> 1]]] :
       n \in 1..MaxRows, rs \in UNION {[1..MaxRows -> SeqsOf(CellSet(kind), c)] : c \in 0..MaxCols}}
  ELSE
    {[kind |-> kind, alpha |-> Alpha, rows |-> [i \in 1..n |-> [off |-> os[i], cells |-> rs[i], strand |-> 1]]] :
       n \in (IF RowStored(kind) THEN 1..MaxRows ELSE {1}),
       rs \in [1..MaxRows -> SeqsUpTo(CellSet(kind), MaxCols)], os \in [1..MaxRows -> (-1)..MaxOff]}

\* the implementation-shaped re-offsetting of Multi.RevComp / Reverse
MirrorImpl(g, complement) ==
  IF MirrorAboutSpan \/ ~RowStored(g.kind) THEN Mirror(g, complement)
  ELSE [Mirror(g, complement) EXCEPT !.rows = [i \in 1..Len(g.rows) |-> [Mirror(g, complement).rows[i] EXCEPT !.off = 0]]]

Edits(g) ==
  {[op |-> "revcomp"], [op |-> "reverse"]}
  \cup (IF g.kind \notin {"lin", "qlin"} THEN {[op |-> o, i |-> i] : o \in {"rowrevcomp", "rowreverse"}, i \in 1..Len(g.rows)} ELSE {})
  \cup (IF Len(g.rows) >= 2 /\ g.kind \notin {"lin", "qlin"} THEN {[op |-> "delete", i |-> i] : i \in 1..Len(g.rows)} ELSE {})
  \cup (IF g.kind \notin {"lin", "qlin"}
          THEN {[op |-> "appendcolumns", cols |-> <<c>>] : c \in [1..Len(g.rows) -> CellSet(g.kind)]}
               \cup {[op |-> "appendeach", runs |-> r] : r \in [1..Len(g.rows) -> SeqsUpTo({<<97, 0>>}, 2)]}
          ELSE {})
  \cup (IF RowStored(g.kind) THEN {[op |-> "flush", where |-> w, fill |-> GAP] : w \in 1..3} ELSE {})
  \cup {[op |-> "truncate", s |-> s, e |-> e] : s \in Start(g)..End(g), e \in Start(g)..End(g)}

VARIABLES g, prev, last, n, g0, edits
vars == <<g, prev, last, n, g0, edits>>

Init ==
  /\ \E k \in Kinds : g \in InitContainers(k)
  /\ prev = g /\ last = [op |-> "init"] /\ n = 0
  /\ g0 = g /\ edits = <<>>

Next ==
  /\ n < MaxEdits
  /\ \E e \in Edits(g) :
       /\ Defined(g, e)
       /\ g' = (IF e.op = "revcomp" THEN MirrorImpl(g, TRUE) ELSE IF e.op = "reverse" THEN MirrorImpl(g, FALSE) ELSE Apply(g, e))
       /\ last' = e
       /\ edits' = Append(edits, e)
  /\ prev' = g /\ n' = n + 1 /\ UNCHANGED g0

\* RevComp / Reverse of one row through the row view: only that row's letters change, twice is the identity
RowMirrorLaw ==
  last.op \in {"rowrevcomp", "rowreverse"} =>
    /\ \A j \in 1..Len(g.rows) : j # last.i => g.rows[j] = prev.rows[j]
    /\ g.rows[last.i].off = prev.rows[last.i].off
    /\ Len(g.rows[last.i].cells) = Len(prev.rows[last.i].cells)
    /\ Apply(g, last).rows[last.i].cells = prev.rows[last.i].cells
    /\ \A k \in 1..Len(g.rows[last.i].cells) :
          g.rows[last.i].cells[k][1] = (IF last.op = "rowreverse" THEN prev.rows[last.i].cells[Len(g.rows[last.i].cells) + 1 - k][1]
                                        ELSE Comp(g.alpha, prev.rows[last.i].cells[Len(g.rows[last.i].cells) + 1 - k][1]))

View == <<g, prev, last, n>>

\* every history of the bounded model, for the real containers
EmitHistories ==
  (n = MaxEdits) =>
    Serialize(ToJson([kind |-> g0.kind, rows |-> g0.rows, edits |-> edits]) \o "\n", IOEnv.OUT,
              [format |-> "TXT", charset |-> "UTF-8",
               openOptions |-> <<"WRITE", "CREATE", "APPEND">>]).exitValue = 0

Spec == Init /\ [][Next]_vars

(***************************************************************************)
(* C05                                                                      *)
(***************************************************************************)
LettersOf(r) == [i \in 1..Len(r.cells) |-> r.cells[i][1]]
\* RevComp = reversal then letterwise complement, qualities travelling, strand negated, rows mirrored about the span
RevCompLaw ==
  last.op = "revcomp" =>
    /\ Start(g) = Start(prev) /\ End(g) = End(prev)
    /\ \A i \in 1..Len(g.rows) :
         /\ g.rows[i].strand = -prev.rows[i].strand
         /\ \A p \in Start(prev)..(End(prev) - 1) :
              LET q == Start(prev) + End(prev) - 1 - p IN      \* mirror image of position p
              (RowStart(prev.rows[i]) <= p /\ p < RowEnd(prev.rows[i])) =>
                /\ RowStart(g.rows[i]) <= q /\ q < RowEnd(g.rows[i])
                /\ CellAt(g.rows[i], q) = <<Comp(g.alpha, CellAt(prev.rows[i], p)[1]), CellAt(prev.rows[i], p)[2]>>
\* applying it twice restores letters, qualities, strand and coordinates
RevCompInvolution == Mirror(Mirror(g, TRUE), TRUE) = g /\ (MirrorAboutSpan => MirrorImpl(MirrorImpl(g, TRUE), TRUE) = g)
ImplInvolution == MirrorImpl(MirrorImpl(g, TRUE), TRUE) = g
ReverseTwice ==
  \A i \in 1..Len(g.rows) : LettersOf(MirrorImpl(MirrorImpl(g, FALSE), FALSE).rows[i]) = LettersOf(g.rows[i])

(***************************************************************************)
(* C07                                                                      *)
(***************************************************************************)
ShapeKept == WellFormed(g)
AppendLaw ==
  (last.op = "appendcolumns" =>
     \A i \in 1..Len(g.rows) : g.rows[i].cells = prev.rows[i].cells \o <<last.cols[1][i]>> /\ g.rows[i].off = prev.rows[i].off)
  /\ (last.op = "appendeach" =>
     \A i \in 1..Len(g.rows) :
       /\ SubSeq(g.rows[i].cells, 1, Len(prev.rows[i].cells) + Len(last.runs[i])) = prev.rows[i].cells \o last.runs[i]
       /\ \A k \in (Len(prev.rows[i].cells) + Len(last.runs[i]) + 1)..Len(g.rows[i].cells) : g.rows[i].cells[k] = GapCell)
DeleteLaw ==
  last.op = "delete" => g.rows = RemoveAt(prev.rows, last.i)
FlushLaw ==
  last.op = "flush" =>
    /\ \A i \in 1..Len(g.rows) :
         /\ (last.where \in {1, 3} => RowStart(g.rows[i]) = Start(prev))
         /\ (last.where \in {2, 3} => RowEnd(g.rows[i]) = End(prev))
         /\ \A p \in RowStart(prev.rows[i])..(RowEnd(prev.rows[i]) - 1) : CellAt(g.rows[i], p) = CellAt(prev.rows[i], p)
         /\ \A p \in RowStart(g.rows[i])..(RowEnd(g.rows[i]) - 1) :
              ~(RowStart(prev.rows[i]) <= p /\ p < RowEnd(prev.rows[i])) => CellAt(g.rows[i], p) = <<last.fill, 0>>
CutLaw ==
  last.op = "truncate" =>
    \A i \in 1..Len(g.rows) :
      /\ RowStart(g.rows[i]) = last.s /\ RowEnd(g.rows[i]) = last.e
      /\ \A p \in last.s..(last.e - 1) : CellAt(g.rows[i], p) = CellAt(prev.rows[i], p)

(***************************************************************************)
(* C06: operational definitions against the declarative ones, over all     *)
(* small inputs (constant-level, evaluated once as ASSUME-like invariants). *)
(***************************************************************************)
\* Trim as the code computes it (modified Mott): running sum, restart when negative
RECURSIVE MottFrom(_, _, _, _, _, _, _, _)
MottFrom(e, limit, i, sum, mx, runStart, start, end) ==
  IF i > Len(e) THEN <<start, end>>
  ELSE LET s1 == sum + limit - e[i]
           neg == s1 < 0
           s2 == IF neg THEN 0 ELSE s1
           rs == IF neg THEN i + 1 ELSE runStart
           st0 == IF ~TrimTracksStart /\ neg THEN i + 1 ELSE start      \* as found: start moves with every restart
       IN IF s2 >= mx
            THEN MottFrom(e, limit, i + 1, s2, s2, rs, IF TrimTracksStart THEN rs ELSE st0, i + 1)
            ELSE MottFrom(e, limit, i + 1, s2, mx, rs, st0, end)
\* returns <<start, end>> as 1-based index of the first kept element and one past the last
Mott(e, limit) == MottFrom(e, limit, 1, 0, 0, 1, 1, 1)

ErrVals == {0, 1, 2, 8}          \* error probabilities scaled by 8: 0, 1/8, 1/4, 1
TrimOptimal ==
  \A e \in SeqsUpTo(ErrVals, 5) : \A limit \in {1, 4} :
    LET w == Mott(e, limit) IN
    w[1] <= w[2] /\ SumFrom(e, limit, w[1], w[2]) = BestSum(e, limit)

\* Compose as the code computes it: one scratch reverser
RECURSIVE ComposeImplFrom(_, _, _, _)
ComposeImplFrom(src, fs, alpha, firstRev) ==
  IF fs = <<>> THEN <<>>
  ELSE LET f == Head(fs)
           seg == Span(src, Max2(f.s, src.off), Min2(f.e, src.off + Len(src.cells)))
           rc == IF alpha = "" THEN Rev(seg) ELSE RevCompCells(alpha, seg)
       IN IF f.o = -1
            THEN LET used == IF FreshReverser \/ firstRev = <<>> THEN rc ELSE firstRev[1] IN
                 used \o ComposeImplFrom(src, Tail(fs), alpha, IF firstRev = <<>> THEN <<rc>> ELSE firstRev)
            ELSE seg \o ComposeImplFrom(src, Tail(fs), alpha, firstRev)

SmallSrc == [off |-> 1, cells |-> <<<<97, 0>>, <<99, 0>>, <<103, 0>>, <<116, 0>>>>, circular |-> FALSE]
SmallFeats == {[s |-> s, e |-> e, o |-> o] : s \in 0..4, e \in 1..6, o \in {1, -1}}
ComposeAgrees ==
  \A f1 \in SmallFeats, f2 \in SmallFeats :
    LET fs == <<f1, f2>> IN
    ComposeDefined(SmallSrc, fs) => ComposeImplFrom(SmallSrc, fs, "DNA", <<>>) = Compose(SmallSrc, fs, "DNA").cells

\* Stitch: ascending positions of the union, whatever the order and overlap of the features
StitchLaw ==
  \A f1 \in SmallFeats, f2 \in SmallFeats :
    (f1.s <= f1.e /\ f2.s <= f2.e) =>
      LET r == Stitch(SmallSrc, <<f1, f2>>) IN
      /\ ~r.err
      /\ r.cells = Stitch(SmallSrc, <<f2, f1>>).cells
      /\ Len(r.cells) = Cardinality(Covered(SmallSrc, <<f1, f2>>))

\* Truncate: inside -> those positions; outside -> error; circular wrap
TruncateLaw ==
  \A c \in BOOLEAN : \A s \in 0..6, e \in 0..6 :
    LET src == [SmallSrc EXCEPT !.circular = c]
        r == Truncate(src, s, e)
        inside == s >= 1 /\ e <= 5
    IN /\ (s <= e /\ inside) => (~r.err /\ r.off = s /\ r.cells = Span(src, s, e))
       /\ (s <= e /\ ~inside) => r.err
       /\ (s > e /\ ~c) => r.err
       /\ (s > e /\ c /\ inside /\ ~r.err) => r.cells = Span(src, s, 5) \o Span(src, 1, e)

PureLaws == TrimOptimal /\ ComposeAgrees /\ StitchLaw /\ TruncateLaw
=============================================================================
