SPECIFICATION Spec
CONSTANTS MaxRows = 2
  MaxCells = 2
  Offsets = {0, 1}
  Letters = {97, 99}
  FlushedCompose = TRUE
INVARIANTS FlushMakesFlush FlushKeepsLetters FilledColumnHasAllRows JoinThenCut JoinLengths StitchIsRowStitch ComposeFlush
CHECK_DEADLOCK FALSE
