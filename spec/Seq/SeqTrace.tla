------------------------------ MODULE SeqTrace -------------------------------
(***************************************************************************)
(* Judges logs of the real sequence types (C05, C06, C07).                  *)
(*                                                                          *)
(* Container histories: a "reset" event gives the kind, alphabet and rows a *)
(* container was built from; every later event is one edit with its         *)
(* arguments and what was then observed through the public API: the row     *)
(* view (Row(i).At(p) over each row's [Start,End)), the column view         *)
(* (Column/ColumnQL(p, fill) over [Start,End)), Rows/Len/Start/End and the  *)
(* consensus letters.  The model applies the edit (Containers!Apply) and    *)
(* both views must be those of the model's grid.  Probe events (the harness *)
(* wrote into buffers it had passed in, or into a clone) must leave the     *)
(* container as it was.  After a rejected event the history is skipped up   *)
(* to the next reset.                                                       *)
(*                                                                          *)
(* Pure calls of sequtils (truncate, join, stitch, compose, trim) carry     *)
(* their inputs and outputs and are judged by the SeqModel operators.       *)
(***************************************************************************)
EXTENDS MultiExt, Json, IOUtils

Trace == ndJsonDeserialize(IOEnv.TRACE)

VARIABLES l, g, ok, fails, drift

RowOf(r) == [off |-> r.off, cells |-> r.cells, strand |-> r.strand]
RowsOf(rs) == [i \in 1..Len(rs) |-> RowOf(rs[i])]

\* compare a logged cell sequence with the model's, letters always, qualities for q kinds
SameCells(kind, a, b) ==
  Len(a) = Len(b) /\ \A i \in 1..Len(a) : a[i][1] = b[i][1] /\ (HasQ(kind) => a[i][2] = b[i][2])

SameRows(kind, obs, rows) ==
  Len(obs) = Len(rows) /\
  \A i \in 1..Len(rows) : obs[i].off = rows[i].off /\ SameCells(kind, obs[i].cells, rows[i].cells)

\* the strand is specified for RevComp (negated) and Reverse (none) only: C05
StrandsOK(e, m) ==
  e.op \in {"revcomp", "reverse"} => \A i \in 1..Len(m.rows) : e.obs.rows[i].strand = m.rows[i].strand
\* a row of a container is a sequence too: RevComp through the row view negates the strand the row carries itself
\* (sb before, sa after), Reverse clears it
RowStrandOK(e) ==
  /\ (e.op = "rowrevcomp" /\ "sb" \in DOMAIN e) => e.sa = -e.sb
  /\ (e.op = "rowreverse" /\ "sb" \in DOMAIN e) => e.sa = 0
\* other edits: whatever strand the implementation reports is carried on
WithObservedStrands(e, m) ==
  IF e.op \in {"revcomp", "reverse"} THEN m
  ELSE [m EXCEPT !.rows = [i \in 1..Len(m.rows) |-> [m.rows[i] EXCEPT !.strand = e.obs.rows[i].strand]]]

SameCols(kind, obs, m) ==
  LET cols == ColsOf(m) IN
  Len(obs) = Len(cols) /\ \A k \in 1..Len(cols) : SameCells(kind, obs[k], cols[k])
\* alignment.QSeq.Column: the letter where its quality reaches the threshold (2), the ambiguous letter n below it
QThreshold == 2
SameColsL(kind, obsl, m) ==
  kind = "qaln" =>
    LET cols == ColsOf(m) IN
    Len(obsl) = Len(cols) /\ \A k \in 1..Len(cols) : Len(obsl[k]) = Len(cols[k]) /\
       \A i \in 1..Len(cols[k]) : obsl[k][i] = (IF cols[k][i][2] >= QThreshold THEN cols[k][i][1] ELSE 110)

\* a column in which every row holds the same paired letter: the consensus is that letter up to case
Lower(x) == IF x \in 65..90 THEN x + 32 ELSE x
Unanimous(m, k) ==
  LET col == ColsOf(m)[k] IN
  /\ \A i \in 1..Len(col) : Lower(col[i][1]) = Lower(col[1][1])
  /\ Lower(col[1][1]) \in {97, 99, 103, 116, GAP}      \* the gap is a valid letter of the gapped alphabet the driver uses
  /\ \A i \in 1..Len(m.rows) : RowStart(m.rows[i]) <= Start(m) + k - 1 /\ Start(m) + k - 1 < RowEnd(m.rows[i])
ConsensusOK(obs, m) ==
  obs = <<>> \/ (Len(obs) = End(m) - Start(m) /\
                 \A k \in 1..Len(obs) : Unanimous(m, k) => Lower(obs[k]) = Lower(ColsOf(m)[k][1][1]))

ObsMatches(e, m) ==
  /\ e.obs.nrows = Len(m.rows)
  /\ e.obs.start = Start(m) /\ e.obs.end = End(m) /\ e.obs.len = End(m) - Start(m)
  /\ SameRows(m.kind, e.obs.rows, m.rows)
  /\ SameCols(m.kind, e.obs.cols, m)
  /\ SameColsL(m.kind, e.obs.colsl, m)
  /\ ConsensusOK(e.obs.cons, m)
  /\ ("op" \in DOMAIN e => StrandsOK(e, m))
  /\ ("op" \in DOMAIN e => RowStrandOK(e))

Why(e, m) ==
  IF e.obs.panic # "" THEN "panic: " \o e.obs.panic
  ELSE IF e.obs.nrows # Len(m.rows) THEN "number of rows"
  ELSE IF ~(e.obs.start = Start(m) /\ e.obs.end = End(m) /\ e.obs.len = End(m) - Start(m)) THEN "Start/End/Len"
  ELSE IF ~SameRows(m.kind, e.obs.rows, m.rows) THEN "row view differs from the specified result"
  ELSE IF ~SameCols(m.kind, e.obs.cols, m) THEN "column view differs from the row view"
  ELSE IF ~SameColsL(m.kind, e.obs.colsl, m) THEN "letters-only column view differs from the row view (quality threshold)"
  ELSE IF "op" \in DOMAIN e /\ ~StrandsOK(e, m) THEN "strand"
  ELSE IF "op" \in DOMAIN e /\ ~RowStrandOK(e) THEN "strand of the row after RevComp / Reverse through the row view"
  ELSE "consensus of a unanimous column"

(***************************************************************************)
(* sequtils calls                                                           *)
(***************************************************************************)
SameSeq(kindq, a, b) == Len(a) = Len(b) /\ \A i \in 1..Len(a) : a[i][1] = b[i][1] /\ (kindq => a[i][2] = b[i][2])

JudgeCall(e) ==
  LET src == [off |-> e.src.off, cells |-> e.src.cells, circular |-> e.src.circular] IN
  IF e.op = "compose" /\ ~ComposeDefined(src, e.fs) THEN ""   \* a feature wholly outside the sequence: outside the property's quantifier
  ELSE IF e.panic # "" THEN "panic: " \o e.panic
  ELSE IF ~e.inplace /\ ~SameSeq(e.q, e.srcafter, e.src.cells) THEN "the source sequence was changed"
  ELSE IF ~e.inplace /\ e.aliased THEN "the result shares storage with the source"
  ELSE CASE e.op = "truncate" ->
         LET r == Truncate(src, e.s, e.e) IN
         IF r.err # (e.err # "") THEN "error/no error"
         ELSE IF ~r.err /\ ~(SameSeq(e.q, e.res.cells, r.cells) /\ e.res.off = r.off /\ ~e.res.circular) THEN "result"
         ELSE ""
    [] e.op = "stitch" ->
         LET r == Stitch(src, e.fs) IN
         IF r.err # (e.err # "") THEN "error/no error"
         ELSE IF ~r.err /\ ~SameSeq(e.q, e.res.cells, r.cells) THEN "result"
         ELSE IF ~r.err /\ ~(e.res.off = 0 /\ ~e.res.circular) THEN "result offset or conformation (a stitched sequence is linear and starts at 0)"
         ELSE ""
    [] e.op = "compose" ->
         IF ~ComposeDefined(src, e.fs) THEN ""        \* outside the property's quantifier
         ELSE IF e.err # "" THEN "error"
         ELSE IF ~SameSeq(e.q, e.res.cells, Compose(src, e.fs, e.alpha).cells) THEN "result"
         ELSE IF ~(e.res.off = 0 /\ ~e.res.circular) THEN "result offset or conformation (a composed sequence is linear and starts at 0)"
         ELSE ""
    [] e.op = "join" ->
         \* e.src is the destination before the call, e.other the joined sequence
         LET want == IF e.where = 1 THEN e.other \o e.src.cells ELSE e.src.cells \o e.other IN
         IF e.err # "" THEN "error" ELSE IF ~SameSeq(e.q, e.res.cells, want) THEN "result" ELSE ""
    [] e.op = "trim" ->
         \* e.errs scaled integers at positions e.src.off.., window [e.ts, e.te)
         LET a == e.ts - e.src.off + 1   b == e.te - e.src.off + 1 IN
         IF ~(1 <= a /\ a <= b /\ b <= Len(e.errs) + 1) THEN "window outside the feature"
         ELSE IF SumFrom(e.errs, e.limit, a, b) # BestSum(e.errs, e.limit) THEN "window is not maximal" ELSE ""
    [] OTHER -> "unknown call"

(***************************************************************************)
(* Extension (MultiExt.tla): whole-alignment operations of multi.Multi;     *)
(* a disagreement is model drift, never a violation.                        *)
(***************************************************************************)
ExtAgrees(e) ==
  LET m == [kind |-> e.kind, alpha |-> e.alpha, rows |-> RowsOf(e.rows)] IN
  CASE e.op = "isflush" -> e.panic = "" /\ e.flag = MIsFlush(m, e.where) /\ SameRows(e.kind, e.res, m.rows)
    [] e.op = "column" ->
         IF ~ColumnDefined(m, e.pos) THEN e.panic # ""
         ELSE e.panic = "" /\ SameCells(e.kind, e.col, MColumn(m, e.pos, e.fill)) /\ SameRows(e.kind, e.res, m.rows)
    [] e.op = "join" ->
         LET a == [kind |-> e.kind, alpha |-> e.alpha, rows |-> RowsOf(e.other)]
             j == MJoin(m, a, e.where) IN
         e.panic = "" /\ (e.err # "") = j.err /\ SameRows(e.kind, e.res, j.m.rows) /\ SameRows(e.kind, e.otherafter, j.a.rows)
    [] e.op = "stitch" ->
         IF (\A k \in 1..Len(e.fs) : e.fs[k].s <= e.fs[k].e) /\ OutsideSome(m, Merged(e.fs)) THEN TRUE
         ELSE LET r == MStitch(m, e.fs) IN e.panic = "" /\ (e.err # "") = r.err /\ SameRows(e.kind, e.res, r.m.rows)
    [] e.op = "compose" ->
         IF OutsideSome(m, e.fs) THEN TRUE
         ELSE LET r == MCompose(m, e.fs) IN e.panic = "" /\ (e.err # "") = r.err /\ SameRows(e.kind, e.res, r.m.rows)
    [] OTHER -> FALSE

\* Extension: the sequtils calls on quality vectors (seq/quality.Phred, Solexa), letters 0 in every cell.  They
\* cannot reverse a segment (no RevComp), so Compose with a reverse-oriented feature is an error; Reverse keeps
\* the offset.
QCallAgrees(e) ==
  IF e.op = "reverse" THEN e.panic = "" /\ e.err = "" /\ e.res.off = e.src.off /\ SameSeq(TRUE, e.res.cells, Rev(e.src.cells))
  ELSE IF e.op = "compose" /\ ComposeDefined([off |-> e.src.off, cells |-> e.src.cells, circular |-> FALSE], e.fs)
          /\ \E k \in 1..Len(e.fs) : e.fs[k].o = -1 THEN e.panic = "" /\ e.err # ""
  ELSE JudgeCall(e) = ""

Step ==
  /\ l <= Len(Trace) /\ l' = l + 1
  /\ drift' = IF (Trace[l].ev = "ext" /\ ~ExtAgrees(Trace[l])) \/ (Trace[l].ev = "qcall" /\ ~QCallAgrees(Trace[l])) THEN Append(drift, l) ELSE drift
  /\ LET e == Trace[l] IN
     IF e.ev \in {"ext", "qcall"} THEN UNCHANGED <<g, ok, fails>>
     ELSE IF e.ev = "emptyprobe" THEN
       \* C05 at length 0: RevComp, Reverse and Clone of an empty sequence / alignment do nothing but set the strand
       /\ UNCHANGED <<g, ok>>
       /\ fails' = IF e.panic = "" /\ e.len = 0 /\ e.strands = <<-1, 1, 0>> THEN fails
                   ELSE Append(fails, <<l, "empty " \o e.kind \o ": " \o (IF e.panic # "" THEN "panic: " \o e.panic ELSE "length or strand after RevComp, RevComp, Reverse")>>)
     ELSE IF e.ev = "reset" THEN
       /\ g' = [kind |-> e.kind, alpha |-> e.alpha, rows |-> RowsOf(e.rows)]
       /\ ok' = TRUE
       /\ fails' = IF e.obs.panic = "" /\ ObsMatches(e, g') THEN fails
                   ELSE Append(fails, <<l, "construction: " \o Why(e, g')>>)
     ELSE IF e.ev = "call" THEN
       /\ UNCHANGED <<g, ok>>
       /\ fails' = IF JudgeCall(e) = "" THEN fails ELSE Append(fails, <<l, e.op \o ": " \o JudgeCall(e)>>)
     ELSE IF ~ok THEN UNCHANGED <<g, ok, fails>>
     ELSE IF ~Defined(g, e) THEN
       \* an edit outside the property's quantifier (e.g. a range some row does not cover): an error is fine
       /\ ok' = FALSE /\ UNCHANGED <<g, fails>>
     ELSE
       LET m == Apply(g, e) IN
       IF e.obs.panic = "" /\ ObsMatches(e, m)
            /\ (e.op = "cloneprobe" => SameRows(g.kind, e.cloneobs, SetCell(g, e.i, e.p, e.c).rows) /\ e.cloneann = e.obs.ann)
            /\ (e.op = "badappendcolumns" => e.rejected)      \* and, by Apply, nothing was appended
            /\ (e.op = "cloneappend" => SameRows(g.kind, e.cloneobs, [g EXCEPT !.rows[1].cells = Append(@, e.c2)].rows))
         THEN g' = WithObservedStrands(e, m) /\ UNCHANGED <<ok, fails>>
         ELSE /\ ok' = FALSE /\ UNCHANGED g
              /\ fails' = Append(fails, <<l, e.op \o ": " \o (IF e.obs.panic = "" /\ ObsMatches(e, m) THEN (IF e.op = "badappendcolumns" THEN "a column of the wrong height was accepted" ELSE "clone is not an independent copy") ELSE Why(e, m))>>)

TInit == l = 1 /\ ok = FALSE /\ fails = <<>> /\ drift = <<>> /\ g = [kind |-> "lin", alpha |-> "DNA", rows |-> <<[off |-> 0, cells |-> <<>>, strand |-> 1]>>]
TSpec == TInit /\ [][Step]_<<l, g, ok, fails, drift>>

Emit ==
  (l = Len(Trace) + 1) =>
    Serialize(ToJson([events |-> Len(Trace), fails |-> fails, drift |-> drift]), IOEnv.OUT,
              [format |-> "TXT", charset |-> "UTF-8",
               openOptions |-> <<"WRITE", "CREATE", "TRUNCATE_EXISTING">>]).exitValue = 0
Consumed == TLCGet("stats").diameter - 1 = Len(Trace)
=============================================================================
