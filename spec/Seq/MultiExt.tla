------------------------------ MODULE MultiExt -------------------------------
(***************************************************************************)
(* Extension beyond C05-C07: the whole-alignment operations of multi.Multi  *)
(* (IsFlush, Column without filling, Join, Stitch, Compose) on the grid     *)
(* model of Containers.tla.  Rows are [off, cells, strand]; cells are       *)
(* <<letter, quality>>.  Modelled as the code behaves:                      *)
(*  - Join at the start sets each row's offset to -(length of the joined    *)
(*    row) (sequtils.Join: dst.SetOffset(-srcLen)), whatever it was before; *)
(*  - Join flushes BOTH operands (the argument is modified);                *)
(*  - Compose flushes both ends first and leaves every row at offset 0;     *)
(*  - Stitch merges the features and calls Compose, so a feature that lies  *)
(*    wholly outside the alignment is not clipped away as sequtils.Stitch   *)
(*    does: Defined... says when the call is inside the modelled domain.    *)
(***************************************************************************)
EXTENDS Containers

MIsFlush(g, where) ==
  \/ Len(g.rows) <= 1
  \/ \A i \in 1..Len(g.rows) :
       /\ (where \in {1, 3} => RowStart(g.rows[i]) = RowStart(g.rows[1]))
       /\ (where \in {2, 3} => RowEnd(g.rows[i]) = RowEnd(g.rows[1]))

\* Column(pos, fill): rows in order; a row that does not cover pos gives the gap letter when filling, nothing otherwise
RECURSIVE ColumnFrom(_, _, _, _)
ColumnFrom(g, pos, fill, i) ==
  IF i > Len(g.rows) THEN <<>>
  ELSE LET r == g.rows[i] IN
       (IF RowStart(r) <= pos /\ pos < RowEnd(r) THEN <<CellAt(r, pos)>> ELSE IF fill THEN <<GapCell>> ELSE <<>>)
       \o ColumnFrom(g, pos, fill, i + 1)
MColumn(g, pos, fill) == ColumnFrom(g, pos, fill, 1)
ColumnDefined(g, pos) == Start(g) <= pos /\ pos < End(g)

MFlushed(g, where) == IF MIsFlush(g, where) THEN g ELSE Flush(g, where, GAP)

\* Join(a, where): [err, m, a] - the receiver and the argument afterwards
MJoin(m, a, where) ==
  IF Len(m.rows) # Len(a.rows) THEN [err |-> TRUE, m |-> m, a |-> a]
  ELSE LET a2 == MFlushed(a, IF where = 1 THEN 2 ELSE 1)
           m2 == MFlushed(m, where) IN
       [err |-> FALSE, a |-> a2,
        m |-> [m2 EXCEPT !.rows = [i \in 1..Len(m2.rows) |->
                 IF where = 1
                   THEN [m2.rows[i] EXCEPT !.off = 0 - Len(a2.rows[i].cells), !.cells = a2.rows[i].cells \o @]
                   ELSE [m2.rows[i] EXCEPT !.cells = @ \o a2.rows[i].cells]]]]

RowSrc(r) == [off |-> r.off, cells |-> r.cells, circular |-> FALSE]
MComposeDefined(g, fs) == \A i \in 1..Len(g.rows) : ComposeDefined(RowSrc(Flush(g, 3, GAP).rows[i]), fs)
\* some well-formed feature misses the flushed alignment altogether: the code panics (negative make), unmodelled
OutsideSome(g, fs) ==
  LET f == Flush(g, 3, GAP) IN
  \E k \in 1..Len(fs) : fs[k].s <= fs[k].e /\ Max2(fs[k].s, Start(f)) > Min2(fs[k].e, End(f))
MCompose(g, fs) ==
  LET f == MFlushed(g, 3) IN
  IF \E k \in 1..Len(fs) : fs[k].e < fs[k].s THEN [err |-> TRUE, m |-> f]
  ELSE [err |-> FALSE,
        m |-> [f EXCEPT !.rows = [i \in 1..Len(f.rows) |->
                 [f.rows[i] EXCEPT !.off = 0, !.cells = Compose(RowSrc(f.rows[i]), fs, g.alpha).cells]]]]

\* the features merged into disjoint ascending intervals (touching intervals merge), all forward
RECURSIVE MergeSorted(_, _)
MergeSorted(sorted, acc) ==
  IF sorted = <<>> THEN acc
  ELSE LET f == Head(sorted) IN
       IF acc = <<>> \/ f.s > acc[Len(acc)].e THEN MergeSorted(Tail(sorted), Append(acc, [s |-> f.s, e |-> f.e, o |-> 1]))
       ELSE MergeSorted(Tail(sorted), [acc EXCEPT ![Len(acc)].e = Max2(@, f.e)])
RECURSIVE SortByStart(_)
SortByStart(fs) ==
  IF fs = <<>> THEN <<>>
  ELSE LET k == CHOOSE i \in 1..Len(fs) : \A j \in 1..Len(fs) : fs[i].s <= fs[j].s IN
       <<fs[k]>> \o SortByStart(RemoveAt(fs, k))
Merged(fs) == MergeSorted(SortByStart(fs), <<>>)
MStitchDefined(g, fs) == (\E k \in 1..Len(fs) : fs[k].e < fs[k].s) \/ MComposeDefined(g, Merged(fs))
MStitch(g, fs) ==
  IF \E k \in 1..Len(fs) : fs[k].e < fs[k].s THEN [err |-> TRUE, m |-> g]
  ELSE MCompose(g, Merged(fs))
=============================================================================
