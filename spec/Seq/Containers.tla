----------------------------- MODULE Containers -----------------------------
(***************************************************************************)
(* Sequence containers as partial grids (properties C05, C07).              *)
(*                                                                          *)
(* A container g = [kind, alpha, rows]; a row is [off, cells, strand] and   *)
(* occupies positions off .. off+Len(cells)-1; a cell is <<letter, qual>>.  *)
(* Kinds: "lin"/"qlin" one linear sequence (any offset); "aln"/"qaln"       *)
(* column-stored alignments (all rows at offset 0, equal length);           *)
(* "multi"/"qmulti" row-stored alignments with arbitrary row offsets.       *)
(* Kinds without the q carry no qualities (qual is 0 in the model).         *)
(*                                                                          *)
(* Apply(g, e) is the effect the property prescribes for an edit e; the     *)
(* row view and the column view are both derived from the grid, so          *)
(* "row view = column view" is structural in the model and is what the      *)
(* trace specification demands of the implementation.                       *)
(***************************************************************************)
EXTENDS SeqModel, TLC

ColumnStored(kind) == kind \in {"aln", "qaln"}
RowStored(kind) == kind \in {"multi", "qmulti"}
HasQ(kind) == kind \in {"qlin", "qaln", "qmulti"}

MinOf(S) == CHOOSE x \in S : \A y \in S : x <= y
MaxOf(S) == CHOOSE x \in S : \A y \in S : y <= x
Start(g) == MinOf({RowStart(g.rows[i]) : i \in 1..Len(g.rows)})
End(g) == MaxOf({RowEnd(g.rows[i]) : i \in 1..Len(g.rows)})
GapCell == <<GAP, 0>>

\* cell of row r at position p, the gap standing in where the row does not reach
CellAt(r, p) == IF RowStart(r) <= p /\ p < RowEnd(r) THEN r.cells[p - r.off + 1] ELSE GapCell
\* the column view: for every position of the span, one cell per row
ColsOf(g) == [k \in 1..(End(g) - Start(g)) |-> [i \in 1..Len(g.rows) |-> CellAt(g.rows[i], Start(g) + k - 1)]]

Repeat(c, n) == [i \in 1..n |-> c]
RemoveAt(s, i) == [j \in 1..(Len(s) - 1) |-> IF j < i THEN s[j] ELSE s[j + 1]]

WellFormed(g) ==
  /\ Len(g.rows) >= 1
  /\ ColumnStored(g.kind) => \A i \in 1..Len(g.rows) : g.rows[i].off = g.rows[1].off /\ Len(g.rows[i].cells) = Len(g.rows[1].cells)
  /\ g.kind \in {"lin", "qlin"} => Len(g.rows) = 1

(***************************************************************************)
(* Edits                                                                    *)
(***************************************************************************)
\* mirror every row about the container's span; complement unless plain reversal
Mirror(g, complement) ==
  LET S == Start(g)  E == End(g) IN
  [g EXCEPT !.rows = [i \in 1..Len(g.rows) |->
     LET r == g.rows[i] IN
     [off |-> S + E - RowEnd(r),
      cells |-> IF complement THEN RevCompCells(g.alpha, r.cells) ELSE Rev(r.cells),
      strand |-> IF complement THEN -r.strand ELSE 0]]]

AppendColumns(g, cols) ==
  [g EXCEPT !.rows = [i \in 1..Len(g.rows) |->
     [g.rows[i] EXCEPT !.cells = @ \o [k \in 1..Len(cols) |-> cols[k][i]]]]]

AppendEach(g, runs) ==
  LET m == MaxOf({Len(runs[i]) : i \in 1..Len(runs)}) IN
  [g EXCEPT !.rows = [i \in 1..Len(g.rows) |->
     [g.rows[i] EXCEPT !.cells = @ \o runs[i] \o
        (IF ColumnStored(g.kind) THEN Repeat(GapCell, m - Len(runs[i])) ELSE <<>>)]]]

Delete(g, i) == [g EXCEPT !.rows = RemoveAt(@, i)]

\* where: 1 start, 2 end, 3 both (seq.Start | seq.End)
Flush(g, where, fill) ==
  LET S == Start(g)  E == End(g) IN
  [g EXCEPT !.rows = [i \in 1..Len(g.rows) |->
     LET r == g.rows[i]
         a == IF where \in {1, 3} THEN Repeat(<<fill, 0>>, r.off - S) ELSE <<>>
         b == IF where \in {2, 3} THEN Repeat(<<fill, 0>>, E - RowEnd(r)) ELSE <<>>
     IN [r EXCEPT !.off = IF where \in {1, 3} THEN S ELSE @, !.cells = a \o @ \o b]]]

\* keep exactly the columns [s, e); defined when every row covers the range
Covers(g, s, e) == s <= e /\ \A i \in 1..Len(g.rows) : RowStart(g.rows[i]) <= s /\ e <= RowEnd(g.rows[i])
Cut(g, s, e) ==
  [g EXCEPT !.rows = [i \in 1..Len(g.rows) |->
     LET r == g.rows[i] IN [r EXCEPT !.off = s, !.cells = SubSeq(@, s - r.off + 1, e - r.off)]]]

SetCell(g, i, p, c) == [g EXCEPT !.rows[i].cells[p - g.rows[i].off + 1] = c]

\* Add to a column-stored alignment (at offset 0): each new sequence [off, cells] becomes a row,
\* clipped to the alignment and filled with the gap letter
AddRows(g, news) ==
  LET n == Len(g.rows[1].cells) IN
  [g EXCEPT !.rows = @ \o [k \in 1..Len(news) |->
     [off |-> 0, strand |-> g.rows[1].strand,
      cells |-> [p \in 1..n |-> LET c == CellAt([off |-> news[k].off, cells |-> news[k].cells], p - 1) IN
                                 IF HasQ(g.kind) THEN c ELSE <<c[1], 0>>]]]]

Apply(g, e) ==
  CASE e.op = "revcomp"       -> Mirror(g, TRUE)
    [] e.op = "reverse"       -> Mirror(g, FALSE)
    [] e.op = "appendcolumns" -> AppendColumns(g, e.cols)
    [] e.op = "appendeach"    -> AppendEach(g, e.runs)
    [] e.op = "delete"        -> Delete(g, e.i)
    [] e.op = "flush"         -> Flush(g, e.where, e.fill)
    [] e.op = "truncate"      -> Cut(g, e.s, e.e)
    [] e.op = "subseq"        -> Cut(g, e.s, e.e)
    [] e.op = "set"           -> SetCell(g, e.i, e.p, e.c)
    [] e.op = "add"           -> AddRows(g, e.news)
    \* RevComp / Reverse of ONE row through the row view (alignment.Row, QRow; a Multi's row is its own
    \* sequence): that row's letters are mirrored in place, its offset and the other rows are untouched
    \* a clone was taken, then one cell appended to the original (c) and another to the clone (c2)
    [] e.op = "cloneappend"   -> [g EXCEPT !.rows[1].cells = Append(@, IF HasQ(g.kind) THEN e.c ELSE <<e.c[1], 0>>)]
    [] e.op = "rowrevcomp"    -> [g EXCEPT !.rows[e.i].cells = RevCompCells(g.alpha, @)]
    [] e.op = "rowreverse"    -> [g EXCEPT !.rows[e.i].cells = Rev(@)]
    [] OTHER                  -> g          \* probes: the container must not change

Defined(g, e) ==
  CASE e.op \in {"truncate", "subseq"} -> Covers(g, e.s, e.e)
    [] e.op = "delete" -> e.i \in 1..Len(g.rows) /\ Len(g.rows) >= 2
    [] OTHER -> TRUE
=============================================================================
