----------------------------- MODULE MultiExtMC ------------------------------
(* Laws of the Multi operations on every small grid (extension; TLC).        *)
EXTENDS MultiExt, TLC
CONSTANTS MaxRows, MaxCells, Offsets, Letters, FlushedCompose
VARIABLES g, fs
RECURSIVE SeqsUpTo(_, _)
SeqsUpTo(S, n) == IF n = 0 THEN {<<>>} ELSE LET P == SeqsUpTo(S, n - 1) IN P \cup {Append(s, x) : s \in {t \in P : Len(t) = n - 1}, x \in S}
Cells == {<<x, 0>> : x \in Letters}
RowSet == {[off |-> o, cells |-> c, strand |-> 1] : o \in Offsets, c \in SeqsUpTo(Cells, MaxCells) \ {<<>>}}
Feats == {[s |-> a, e |-> b, o |-> 1] : a \in -1..2, b \in -1..3}
Init == g = [kind |-> "multi", alpha |-> "DNA", rows |-> <<>>] /\ fs = <<>>
Next == \/ Len(g.rows) < MaxRows /\ \E r \in RowSet : g' = [g EXCEPT !.rows = Append(@, r)] /\ UNCHANGED fs
        \/ Len(fs) < 2 /\ \E f \in Feats : fs' = Append(fs, f) /\ UNCHANGED g
Spec == Init /\ [][Next]_<<g, fs>>
NonEmpty == Len(g.rows) >= 1

FlushMakesFlush == NonEmpty => \A w \in {1, 2, 3} : MIsFlush(Flush(g, w, GAP), w)
FlushKeepsLetters == NonEmpty => \A w \in {1, 2, 3} : \A i \in 1..Len(g.rows) : \A p \in RowStart(g.rows[i])..(RowEnd(g.rows[i]) - 1) :
                        CellAt(Flush(g, w, GAP).rows[i], p) = CellAt(g.rows[i], p)
FilledColumnHasAllRows == NonEmpty => \A p \in Start(g)..(End(g) - 1) :
                        Len(MColumn(g, p, TRUE)) = Len(g.rows) /\ Len(MColumn(g, p, FALSE)) = Cardinality({i \in 1..Len(g.rows) : RowStart(g.rows[i]) <= p /\ p < RowEnd(g.rows[i])})
\* joining a copy at the end and cutting it off again gives the flushed original
JoinThenCut == NonEmpty => LET j == MJoin(g, g, 2)  f == MFlushed(g, 2) IN
                 ~j.err /\ \A i \in 1..Len(g.rows) : SubSeq(j.m.rows[i].cells, 1, Len(f.rows[i].cells)) = f.rows[i].cells
JoinLengths == NonEmpty => \A w \in {1, 2} : LET j == MJoin(g, g, w) IN MIsFlush(j.m, 3 - w) => End(j.m) - Start(j.m) >= End(g) - Start(g)
\* Stitch = letters at the union of the intervals, ascending, of the flushed alignment (as sequtils.Stitch on each row)
StitchIsRowStitch == (NonEmpty /\ fs # <<>> /\ MStitchDefined(g, fs)) =>
   LET r == MStitch(g, fs)  f == IF FlushedCompose THEN Flush(g, 3, GAP) ELSE g IN
   IF r.err THEN \E k \in 1..Len(fs) : fs[k].e < fs[k].s
   ELSE \A i \in 1..Len(g.rows) : r.m.rows[i].off = 0 /\ r.m.rows[i].cells = Stitch(RowSrc(f.rows[i]), fs).cells
ComposeFlush == (NonEmpty /\ fs # <<>> /\ MComposeDefined(g, fs)) => LET r == MCompose(g, fs) IN MIsFlush(r.m, 3)
=============================================================================
