SPECIFICATION Spec
CONSTANTS
  Kinds = {"lin"}
  MaxRows = 1
  MaxCols = 0
  MaxOff = 0
  MaxEdits = 0
  MirrorAboutSpan = TRUE
  TrimTracksStart = TRUE
  FreshReverser = TRUE
VIEW View
INVARIANTS PureLaws
CHECK_DEADLOCK FALSE
