SPECIFICATION Spec
CONSTANTS
  Kinds = {"lin", "qlin", "aln", "qaln", "multi", "qmulti"}
  MaxRows = 2
  MaxCols = 1
  MaxOff = 1
  MaxEdits = 2
  MirrorAboutSpan = TRUE
  TrimTracksStart = TRUE
  FreshReverser = TRUE
INVARIANTS EmitHistories
CHECK_DEADLOCK FALSE
