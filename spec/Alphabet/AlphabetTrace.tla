--------------------------- MODULE AlphabetTrace ----------------------------
(***************************************************************************)
(* Judges what the real biogo/alphabet package did (C17).  Every event      *)
(* carries the arguments of a constructor (or the name of a built-in        *)
(* alphabet) and everything its accessors returned for all 256 letters;     *)
(* the expected tables are recomputed here from the arguments with the      *)
(* operators of Alphabet.tla and the laws of C17 are evaluated on the       *)
(* logged tables.                                                           *)
(*                                                                          *)
(* Alphabet fields of an event (from a built-in, NewAlphabet or             *)
(* NewComplementor):                                                        *)
(*   len, iscased, rgap, ramb, rmol   Len(), IsCased(), Gap(), Ambiguous(), *)
(*                                    int(Moltype())                        *)
(*   letters                          Letters() as bytes                    *)
(*   letter                           <<Letter(0), ..., Letter(Len()-1)>>   *)
(*   valid, index                     IsValid(l), IndexOf(l), l = 0..255    *)
(*   validletters, letterindex        ValidLetters(), *LetterIndex()        *)
(* Pairing fields (from NewPairing or a Complementor):                      *)
(*   pair, pairok                     Complement(l), l = 0..255             *)
(*   table                            ComplementTable()                     *)
(*                                                                          *)
(* Events                                                                   *)
(*   [op |-> "builtin", name, comp, panic, alphabet fields, pairing fields] *)
(*   [op |-> "alpha", def, cased, gap, amb, mol, err, panic, alphabet f.]   *)
(*   [op |-> "pairing", s, c, err, panic, pairing fields]                   *)
(*   [op |-> "comp", def, cased, gap, amb, mol, s, c, perr, err, panic,     *)
(*           alphabet fields, pairing fields]                               *)
(*   [op |-> "allvalid", name, def, cased, w, err, panic, ok, pos, qok,     *)
(*           qpos, wvalid, single, qsingle]                                 *)
(*           AllValid(w) and AllValidQLetter(w with scores); for every      *)
(*           letter of w: IsValid(w[i]), and the verdicts of AllValid and   *)
(*           AllValidQLetter on the one-letter slice <<w[i]>>               *)
(* err: "" or the class of the constructor's error ("nonascii", "length",   *)
(* "bijection", "invalidpair", "other:..."); tables are empty after an      *)
(* error.                                                                   *)
(*                                                                          *)
(* Verdicts (fails) are only what the statement of C17 demands; other       *)
(* disagreements with Alphabet.tla are drift notes:                         *)
(*   - a different error class for a definition both sides reject           *)
(*   - tables for definitions that repeat a letter (not "valid definitions")*)
(*     and rejections of consistent definitions that repeat a letter        *)
(*   - a complementor the specification rejects because a changing pair     *)
(*     lies wholly outside the alphabet, when valid letters still have      *)
(*     valid complements                                                    *)
(***************************************************************************)
EXTENDS Alphabet

Trace == ndJsonDeserialize(IOEnv.TRACE)

VARIABLES l, fails, drift

Tab(t) == [x \in Byte |-> t[x + 1]]
First(S) == CHOOSE x \in S : \A y \in S : x <= y
Why(msg, S) == msg \o " (first witness " \o ToString(First(S)) \o ")"

AView(e) == [err |-> "", len |-> e.len, cased |-> e.iscased, letters |-> e.letters,
             valid |-> Tab(e.valid), index |-> Tab(e.index)]
PView(e) == [err |-> "", pair |-> Tab(e.pair), ok |-> Tab(e.pairok), table |-> Tab(e.table)]

Distinct(s) == \A i, j \in 1..Len(s) : i # j => s[i] # s[j]

OK == [v |-> "", d |-> ""]
Fail(s) == [v |-> s, d |-> ""]
Drift(s) == [v |-> "", d |-> s]

\* the alphabet part of an event against a definition; "" when every law holds
AlphaVerdict(def, cased, gap, amb, mol, e) ==
  LET a == AView(e)
      m == NewAlphabet(def, cased)
  IN IF Len(e.valid) # 256 \/ Len(e.index) # 256 \/ Len(e.validletters) # 256 \/ Len(e.letterindex) # 256
       THEN "accessor tables incomplete"
     ELSE IF BadValid(def, cased, a) # {}
       THEN Why("IsValid differs from membership in the definition", BadValid(def, cased, a))
     ELSE IF ~LettersOK(def, cased, a) THEN "Len, IsCased or Letters differ from the definition"
     ELSE IF e.letter # SubSeq(e.letters, 1, e.len) THEN "Letter(i) differs from Letters()[i]"
     ELSE IF BadIndexOfLetter(a) # {} THEN Why("IndexOf(Letter(i)) # i", BadIndexOfLetter(a))
     ELSE IF BadLetterOfIndex(a) # {}
       THEN Why("Letter(IndexOf(l)) is not l for a valid letter", BadLetterOfIndex(a))
     ELSE IF BadInvalidIndex(a) # {} THEN Why("IndexOf is not negative for an invalid letter", BadInvalidIndex(a))
     ELSE IF e.validletters # e.valid \/ e.letterindex # e.index
       THEN "ValidLetters or LetterIndex disagree with IsValid or IndexOf"
     ELSE IF e.rgap # gap \/ e.ramb # amb \/ e.rmol # mol THEN "Gap, Ambiguous or Moltype differ from the arguments"
     ELSE IF a.valid # m.valid \/ a.index # m.index \/ a.letters # m.letters
       THEN "tables differ from the NewAlphabet specification"
     ELSE ""

\* the pairing part of an event; "" when every law holds
PairVerdict(s, c, e) ==
  LET p == PView(e)
      m == NewPairing(s, c)
  IN IF Len(e.pair) # 256 \/ Len(e.pairok) # 256 \/ Len(e.table) # 256 THEN "complement tables incomplete"
     ELSE IF BadInvolution(p) # {} THEN Why("Complement is not an involution", BadInvolution(p))
     ELSE IF BadTable(p) # {} THEN Why("Complement and ComplementTable disagree", BadTable(p))
     ELSE IF BadHonour(s, c, p) # {} THEN Why("a pair of the definition is not in the table: position", BadHonour(s, c, p))
     ELSE IF p.pair # m.pair \/ p.ok # m.ok \/ p.table # m.table THEN "tables differ from the NewPairing specification"
     ELSE ""

JudgeBuiltin(e) ==
  IF e.panic # "" THEN Fail("panic: " \o e.panic)
  ELSE IF e.name \notin BuiltinNames THEN Fail("SPEC: unknown built-in alphabet")
  ELSE
    LET b == Builtin(e.name)
        av == AlphaVerdict(b.def, b.cased, b.gap, b.amb, b.mol, e)
    IN IF av # "" THEN Fail(av)
       ELSE IF e.comp # b.comp THEN Fail("complementing alphabets differ from alphabet.go")
       ELSE IF ~b.comp THEN OK
       ELSE
         LET pv == PairVerdict(b.ps, b.pc, e)
             a == AView(e)
             p == PView(e)
         IN IF pv # "" THEN Fail(pv)
            ELSE IF BadClosed(a, p) # {} THEN Fail(Why("complement of a valid letter is invalid", BadClosed(a, p)))
            ELSE IF BadCase(p) # {} THEN Fail(Why("complement is not case preserving", BadCase(p)))
            ELSE IF e.name \in FourLetter /\ (a.len # 4 \/ BadThree(a, p) # {})
              THEN Fail(Why("index(complement(l)) # 3 - index(l)", BadThree(a, p) \cup {-1}))
            ELSE OK

JudgeAlpha(e) ==
  LET m == NewAlphabet(e.def, e.cased) IN
  IF e.panic # "" THEN Fail("panic: " \o e.panic)
  ELSE IF IsErr(m)
    THEN IF e.err = "" THEN Fail("non-ASCII definition accepted")
         ELSE IF e.err # m.err THEN Drift("error class " \o e.err \o ", specification " \o m.err) ELSE OK
  ELSE IF e.err # ""
    THEN IF ValidDef(e.def, e.cased) THEN Fail("valid definition (distinct ASCII letters) rejected: " \o e.err)
         ELSE Drift("ASCII definition that repeats a letter rejected: " \o e.err)
  ELSE LET av == AlphaVerdict(e.def, e.cased, e.gap, e.amb, e.mol, e)
       IN IF av = "" THEN OK
          ELSE IF ValidDef(e.def, e.cased) THEN Fail(av)
          ELSE Drift("definition repeats a letter: " \o av)

RejectionMissed(m) ==
  CASE m.err = "length" -> "pairing definitions of different lengths accepted"
    [] m.err = "nonascii" -> "non-ASCII pairing definition accepted"
    [] OTHER -> "non-bijective pairing definition accepted"

JudgePairing(e) ==
  LET m == NewPairing(e.s, e.c) IN
  IF e.panic # "" THEN Fail("panic: " \o e.panic)
  ELSE IF IsErr(m)
    THEN IF e.err = ""
           THEN IF m.err = "bijection" /\ Involutive(e.s, e.c)
                  THEN Fail(Why("non-bijective pairing definition accepted: a letter is given two different complements, position",
                                {i \in 1..Len(e.s) : PairTable(e.s, e.c)[e.s[i]] # e.c[i]}))
                  ELSE Fail(RejectionMissed(m))
         ELSE IF e.err # m.err THEN Drift("error class " \o e.err \o ", specification " \o m.err) ELSE OK
  ELSE IF e.err # ""
    THEN IF Distinct(e.s) THEN Fail("symmetric, bijective pairing definition rejected: " \o e.err)
         ELSE Drift("consistent pairing definition that lists a letter twice rejected: " \o e.err)
  ELSE LET pv == PairVerdict(e.s, e.c, e) IN IF pv = "" THEN OK ELSE Fail(pv)

JudgeComp(e) ==
  LET pm == NewPairing(e.s, e.c) IN
  IF e.panic # "" THEN Fail("panic: " \o e.panic)
  ELSE IF IsErr(pm)
    THEN IF e.perr = "" THEN Drift("built on a pairing the specification rejects (judged by its pairing event)") ELSE OK
  ELSE IF e.perr # ""
    THEN IF Distinct(e.s) THEN Fail("symmetric, bijective pairing definition rejected: " \o e.perr)
         ELSE Drift("consistent pairing definition that lists a letter twice rejected: " \o e.perr)
  ELSE
    LET m == NewComplementor(e.def, e.cased, pm) IN
    IF e.err # ""
      THEN IF ~IsErr(m)
             THEN IF ValidDef(e.def, e.cased) /\ Distinct(e.s)
                    THEN Fail("valid complementing alphabet rejected: " \o e.err)
                    ELSE Drift("complementing alphabet whose definition repeats a letter rejected: " \o e.err)
           ELSE IF e.err # m.err THEN Drift("error class " \o e.err \o ", specification " \o m.err) ELSE OK
    ELSE IF m.err = "nonascii" THEN Fail("non-ASCII definition accepted")
    ELSE
      LET a == AView(e)
          p == PView(e)
          av == AlphaVerdict(e.def, e.cased, e.gap, e.amb, e.mol, e)
          pv == PairVerdict(e.s, e.c, e)
      IN IF av = "accessor tables incomplete" \/ pv = "complement tables incomplete" THEN Fail(av \o pv)
         ELSE IF BadClosed(a, p) # {}
           THEN Fail(Why("complementing alphabet accepted although the complement of a valid letter is not a valid letter",
                         BadClosed(a, p)))
         ELSE IF pv # "" THEN Fail(pv)
         ELSE IF av # "" THEN (IF ValidDef(e.def, e.cased) THEN Fail(av) ELSE Drift("definition repeats a letter: " \o av))
         ELSE IF IsErr(m) THEN Drift("a changing pair outside the alphabet is accepted (valid letters keep valid complements)")
         ELSE OK

\* A slice is a sequence of letters (bytes), whatever it would mean as text: the expected answer is the first
\* index whose byte is not a valid letter; IsValid, AllValid and AllValidQLetter must agree on every letter of it.
JudgeAllValid(e) ==
  LET a == IF e.name # "" THEN NewAlphabet(Builtin(e.name).def, Builtin(e.name).cased) ELSE NewAlphabet(e.def, e.cased) IN
  IF e.panic # "" THEN Fail("panic: " \o e.panic)
  ELSE IF IsErr(a) \/ e.err # "" THEN (IF IsErr(a) /\ e.err # "" THEN OK ELSE Drift("constructor outcome differs (judged by its own event)"))
  ELSE LET want == FirstInvalid(a, e.w)
           n == Len(e.w)
           badvalid == {i \in 1..n : e.wvalid[i] # a.valid[e.w[i]]}
           badsingle == {i \in 1..n : e.single[i] # e.wvalid[i] \/ e.qsingle[i] # e.wvalid[i]}
           firstbyisvalid == {i \in 1..n : ~e.wvalid[i] /\ \A j \in 1..(i - 1) : e.wvalid[j]}
       IN
       IF Len(e.wvalid) # n \/ Len(e.single) # n \/ Len(e.qsingle) # n THEN Fail("per-letter results of the slice incomplete")
       ELSE IF badvalid # {}
         THEN Fail(Why("IsValid of a letter of the slice differs from membership in the definition: position", {i - 1 : i \in badvalid}))
       ELSE IF want.ok # e.ok \/ want.pos # e.pos THEN Fail("AllValid does not report the first invalid position")
       ELSE IF want.ok # e.qok \/ want.pos # e.qpos THEN Fail("AllValidQLetter does not report the first invalid position")
       ELSE IF e.ok # e.qok \/ e.pos # e.qpos \/ e.ok # (firstbyisvalid = {}) \/ (~e.ok /\ firstbyisvalid # {e.pos + 1})
         THEN Fail("AllValid, AllValidQLetter and IsValid disagree on the slice")
       ELSE IF badsingle # {}
         THEN Fail(Why("AllValid or AllValidQLetter of a one-letter slice disagrees with IsValid: position", {i - 1 : i \in badsingle}))
       ELSE OK

Judge(e) ==
  CASE e.op = "builtin" -> JudgeBuiltin(e)
    [] e.op = "alpha" -> JudgeAlpha(e)
    [] e.op = "pairing" -> JudgePairing(e)
    [] e.op = "comp" -> JudgeComp(e)
    [] e.op = "allvalid" -> JudgeAllValid(e)

TInit ==
  /\ kind = "trace" /\ name = "" /\ ldef = <<>> /\ csens = FALSE /\ sdef = <<>> /\ cdef = <<>>
  /\ l = 1 /\ fails = <<>> /\ drift = <<>>

Step ==
  /\ l <= Len(Trace) /\ l' = l + 1
  /\ LET j == Judge(Trace[l]) IN
     /\ fails' = IF j.v = "" THEN fails ELSE Append(fails, <<l, j.v>>)
     /\ drift' = IF j.d = "" THEN drift ELSE Append(drift, <<l, j.d>>)
  /\ UNCHANGED vars

TSpec == TInit /\ [][Step]_<<vars, l, fails, drift>>

Emit ==
  (l = Len(Trace) + 1) =>
    Serialize(ToJson([events |-> Len(Trace), fails |-> fails, drift |-> drift]), IOEnv.OUT,
              [format |-> "TXT", charset |-> "UTF-8",
               openOptions |-> <<"WRITE", "CREATE", "TRUNCATE_EXISTING">>]).exitValue = 0
Consumed == TLCGet("stats").diameter - 1 = Len(Trace)
=============================================================================
