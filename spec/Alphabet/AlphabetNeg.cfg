\* C17 negative control: checks/c17.py substitutes every wrong Variant; TLC must report a violated invariant.
SPECIFICATION Spec
CONSTANTS
  Variant = "asfound_complementor"
  Sample = {97, 65, 99, 67, 116, 45, 42, 200}
  MaxDef = 4
  PairSample = {97, 65, 116, 84, 99, 200}
  MaxPair = 3
  CompSample = {97, 65, 116, 84, 103}
  MaxCompDef = 3
  MaxCompPair = 2
  WordSample = {97, 65, 116, 45, 0, 200}
  MaxWord = 3
  SliceDefSample = {97, 84}
  MaxSliceDef = 2
  SliceSample = {97, 197, 161, 180, 224}
  MaxSlice = 5
INVARIANTS
  BuiltinsConstruct BuiltinAlphabetLaws BuiltinComplementLaws NucleotideIndexComplement
  AlphabetRejects AlphabetLaws AllValidLaw SliceLaw
  PairingRejects PairingLaws
  ComplementorLaws
CHECK_DEADLOCK FALSE
