SPECIFICATION TSpec
CONSTANTS
  Variant = "intended"
  Sample = {}
  MaxDef = 0
  PairSample = {}
  MaxPair = 0
  CompSample = {}
  MaxCompDef = 0
  MaxCompPair = 0
  WordSample = {}
  MaxWord = 0
  SliceDefSample = {}
  MaxSliceDef = 0
  SliceSample = {}
  MaxSlice = 0
INVARIANT Emit
POSTCONDITION Consumed
CHECK_DEADLOCK FALSE
