------------------------------ MODULE Alphabet ------------------------------
(***************************************************************************)
(* biogo/alphabet (property C17): alphabets, pairings and complementors.    *)
(*                                                                          *)
(* Letters are the byte values 0..255; a definition is a sequence of        *)
(* bytes (a Go string is a byte string: it "contains a non-ASCII rune"      *)
(* exactly when one of its bytes is >= 128).                                *)
(*                                                                          *)
(*   NewAlphabet(def, cased)        alphabet.go newAlphabet: valid[256] and *)
(*                                  index[256], lower half then upper half  *)
(*                                  for case-insensitive alphabets          *)
(*   NewPairing(s, c)               alphabet.go NewPairing: complement      *)
(*                                  table, the bit 0x80 marks unpaired      *)
(*                                  letters in the table form               *)
(*   NewComplementor(def, cased, p) the alphabet plus the pairing, after    *)
(*                                  the check of the pairs against the      *)
(*                                  alphabet                                *)
(*   Builtin(name)                  the seven definitions of alphabet.go    *)
(*                                                                          *)
(* The operators return [err |-> class] or a record of tables ("view").     *)
(* The laws of C17 are written over views, so that the same text judges the *)
(* views these operators build (model checking, this module) and the views  *)
(* logged from the real code (AlphabetTrace).                               *)
(*                                                                          *)
(* Variant selects the specification ("intended") or a wrong one:           *)
(*   "asfound_complementor"  NewComplementor's test of the pairs as it is   *)
(*                           written in alphabet.go:332 (it cannot fail)    *)
(*   "asfound_pairing"       NewPairing checks only the final table, so an  *)
(*                           earlier, different complement for the same     *)
(*                           letter is silently dropped (alphabet.go:282-)  *)
(*   "index_by_position"     upper case letters indexed by their position   *)
(*                           in Letters() instead of their lower case index *)
(*   "table_no_highbit"      table form without the unpaired mark           *)
(*   "allvalid_as_text"      AllValid reads the slice as UTF-8 text and     *)
(*                           judges the low byte of every code point: a run *)
(*                           of letters >= 128 that is a well-formed        *)
(*                           sequence counts as one letter                  *)
(* TLC must refute each of them (negative controls).                        *)
(*                                                                          *)
(* The model: a definition grows letter by letter from a small sample; the  *)
(* laws are invariants, evaluated over all 256 letters in every state.      *)
(* AlphabetMC.cfg checks them; AlphabetNeg.cfg (Variant replaced by each    *)
(* wrong variant) must be refuted.  With $OUT set, EmitCases appends every  *)
(* case of the model and the specification's verdict on it to that file.    *)
(*                                                                          *)
(* Letter slices (kind "allvalid"): an alphabet over SliceDefSample and a   *)
(* slice grown letter by letter from SliceSample, which holds letters       *)
(* >= 128 that form well-formed 2- and 3-byte UTF-8 sequences whose code    *)
(* point has the low byte of a valid letter, next to malformed ones.        *)
(***************************************************************************)
EXTENDS Integers, Sequences, FiniteSets, TLC, Json, IOUtils

CONSTANTS
  Variant,
  Sample, MaxDef,                       \* alphabet definitions: <= MaxDef letters of Sample, cased and uncased
  PairSample, MaxPair,                  \* pairing definitions: all (s, c) with <= MaxPair letters of PairSample each
  CompSample, MaxCompDef, MaxCompPair,  \* complementors: alphabet x pairing over CompSample
  WordSample, MaxWord,                  \* letter slices for AllValid, every one in every alphabet state
  SliceDefSample, MaxSliceDef,          \* letter slices as cases of their own: alphabets of <= MaxSliceDef letters
  SliceSample, MaxSlice                 \*   and slices of <= MaxSlice letters of SliceSample (letters >= 128 included)

Byte == 0..255

ToLower(l) == IF l \in 65..90 THEN l + 32 ELSE l
ToUpper(l) == IF l \in 97..122 THEN l - 32 ELSE l
Lower(s) == [i \in 1..Len(s) |-> ToLower(s[i])]
Upper(s) == [i \in 1..Len(s) |-> ToUpper(s[i])]
Range(s) == {s[i] : i \in 1..Len(s)}
AllASCII(s) == \A i \in 1..Len(s) : s[i] < 128
SetHigh(l) == IF l < 128 THEN l + 128 ELSE l       \* l | 0x80

Err(k) == [err |-> k]
IsErr(r) == r.err # ""

\* t[keys[i]] := vals[i] for i = 1..Len(keys), in this order (later assignments win)
RECURSIVE Store(_, _, _, _)
Store(t, keys, vals, i) ==
  IF i > Len(keys) THEN t ELSE Store([t EXCEPT ![keys[i]] = vals[i]], keys, vals, i + 1)

\* t[dst[i]] := t[src[i]] for i = 1..Len(dst), in this order, reading the table as it is then
RECURSIVE CopyEntries(_, _, _, _)
CopyEntries(t, dst, src, i) ==
  IF i > Len(dst) THEN t ELSE CopyEntries([t EXCEPT ![dst[i]] = t[src[i]]], dst, src, i + 1)

NoLetter == [l \in Byte |-> FALSE]
NoIndex == [l \in Byte |-> -1]
Identity == [l \in Byte |-> l]

(***************************************************************************)
(* NewAlphabet                                                              *)
(***************************************************************************)
NewAlphabet(def, cased) ==
  IF ~AllASCII(def) THEN Err("nonascii")
  ELSE
    LET n == Len(def)
        pos == [i \in 1..n |-> i - 1]
        yes == [i \in 1..n |-> TRUE]
    IN IF cased
       THEN [err |-> "", len |-> n, cased |-> TRUE, letters |-> def,
             valid |-> Store(NoLetter, def, yes, 1),
             index |-> Store(NoIndex, def, pos, 1)]
       ELSE
         LET lo == Lower(def)
             up == Upper(def)
             ix == Store(NoIndex, lo, pos, 1)
         IN [err |-> "", len |-> n, cased |-> FALSE, letters |-> lo \o up,
             valid |-> Store(Store(NoLetter, lo, yes, 1), up, yes, 1),
             index |-> IF Variant = "index_by_position"
                         THEN Store(ix, up, [i \in 1..n |-> n + i - 1], 1)
                         ELSE CopyEntries(ix, up, lo, 1)]

\* accessors of a view
LetterAt(a, i) == a.letters[i + 1]          \* Letter(i), i in 0..a.len-1

\* AllValid as the code computes it: scan, report the first invalid position
RECURSIVE Scan(_, _, _)
Scan(a, w, i) ==
  IF i > Len(w) THEN [ok |-> TRUE, pos |-> -1]
  ELSE IF ~a.valid[w[i]] THEN [ok |-> FALSE, pos |-> i - 1]
  ELSE Scan(a, w, i + 1)

\* The slice read as UTF-8 text, the way Go's unicode/utf8 (range over a string, bytes.IndexFunc, ...) does:
\* the code point and the width of the sequence starting at w[i]; a malformed sequence is U+FFFD of width 1.
Cont(b) == b \in 128..191
RuneAt(w, i) ==
  LET b == w[i]
      n == Len(w)
  IN IF b < 128 THEN [r |-> b, n |-> 1]
     ELSE IF b \in 194..223 /\ i + 1 <= n /\ Cont(w[i + 1])
       THEN [r |-> (b - 192) * 64 + (w[i + 1] - 128), n |-> 2]
     ELSE IF /\ b \in 224..239 /\ i + 2 <= n
             /\ w[i + 1] \in (IF b = 224 THEN 160 ELSE 128)..(IF b = 237 THEN 159 ELSE 191)
             /\ Cont(w[i + 2])
       THEN [r |-> (b - 224) * 4096 + (w[i + 1] - 128) * 64 + (w[i + 2] - 128), n |-> 3]
     ELSE IF /\ b \in 240..244 /\ i + 3 <= n
             /\ w[i + 1] \in (IF b = 240 THEN 144 ELSE 128)..(IF b = 244 THEN 143 ELSE 191)
             /\ Cont(w[i + 2]) /\ Cont(w[i + 3])
       THEN [r |-> (b - 240) * 262144 + (w[i + 1] - 128) * 4096 + (w[i + 2] - 128) * 64 + (w[i + 3] - 128), n |-> 4]
     ELSE [r |-> 65533, n |-> 1]

\* the wrong reading: one verdict per code point, on its low byte
RECURSIVE ScanText(_, _, _)
ScanText(a, w, i) ==
  IF i > Len(w) THEN [ok |-> TRUE, pos |-> -1]
  ELSE LET d == RuneAt(w, i)
       IN IF ~a.valid[d.r % 256] THEN [ok |-> FALSE, pos |-> i - 1] ELSE ScanText(a, w, i + d.n)

AllValid(a, w) == IF Variant = "allvalid_as_text" THEN ScanText(a, w, 1) ELSE Scan(a, w, 1)

\* the widest well-formed sequence of the slice read as text (1 when there is none of several letters)
RECURSIVE MaxWidth(_, _, _)
MaxWidth(w, i, m) ==
  IF i > Len(w) THEN m
  ELSE LET d == RuneAt(w, i) IN MaxWidth(w, i + d.n, IF d.n > m THEN d.n ELSE m)

(***************************************************************************)
(* NewPairing                                                               *)
(***************************************************************************)
PairTable(s, c) == Store(Identity, s, c, 1)
\* the final table is its own inverse on every letter mentioned (alphabet.go:289-296)
Involutive(s, c) ==
  LET pair == PairTable(s, c)
  IN \A i \in 1..Len(s) : pair[pair[s[i]]] = s[i] /\ pair[pair[c[i]]] = c[i]
\* no letter is given two different complements: every listed pair is in the final table
Honoured(s, c) ==
  LET pair == PairTable(s, c) IN \A i \in 1..Len(s) : pair[s[i]] = c[i]

NewPairing(s, c) ==
  IF Len(s) # Len(c) THEN Err("length")
  ELSE IF ~AllASCII(s) \/ ~AllASCII(c) THEN Err("nonascii")
  ELSE IF ~Involutive(s, c) \/ (Variant # "asfound_pairing" /\ ~Honoured(s, c)) THEN Err("bijection")
  ELSE
    LET pair == PairTable(s, c)
        ok == Store(NoLetter, s, [i \in 1..Len(s) |-> TRUE], 1)
    IN [err |-> "", pair |-> pair, ok |-> ok,
        table |-> [l \in Byte |-> IF ok[l] \/ Variant = "table_no_highbit" THEN pair[l] ELSE SetHigh(pair[l])]]

(***************************************************************************)
(* NewComplementor: p is an accepted pairing.  A pair that changes a letter *)
(* must consist of two valid letters ("Pairings that result in no change    *)
(* but would otherwise be invalid are allowed").                            *)
(***************************************************************************)
InvalidPairs(a, p) ==
  IF Variant = "asfound_complementor"
  THEN {l \in Byte : ~(p.ok[l] \/ (l % 128) = (p.pair[l] % 128)) /\ ~(a.valid[l] /\ a.valid[p.pair[l]])}
  ELSE {l \in Byte : p.ok[l] /\ p.pair[l] # l /\ ~(a.valid[l] /\ a.valid[p.pair[l]])}

NewComplementor(def, cased, p) ==
  LET a == NewAlphabet(def, cased)
  IN IF IsErr(a) THEN a
     ELSE IF InvalidPairs(a, p) # {} THEN Err("invalidpair")
     ELSE [err |-> "", a |-> a, p |-> p]

(***************************************************************************)
(* The built-in alphabets (alphabet.go:25-80).  All are case insensitive,   *)
(* gap '-' (45); ambiguous 'n' (110), Protein 'x' (120);                    *)
(* mol: feat.DNA = 0, feat.RNA = 1, feat.Protein = 2.                       *)
(***************************************************************************)
BuiltinNames == {"DNA", "DNAgapped", "DNAredundant", "RNA", "RNAgapped", "RNAredundant", "Protein"}
FourLetter == {"DNA", "RNA"}

Builtin(n) ==
  CASE
  \* DNA: "acgt" pairing "acgtnxACGTNX-" / "tgcanxTGCANX-"
       n = "DNA" ->
       [def |-> <<97, 99, 103, 116>>,
        ps |-> <<97, 99, 103, 116, 110, 120, 65, 67, 71, 84, 78, 88, 45>>,
        pc |-> <<116, 103, 99, 97, 110, 120, 84, 71, 67, 65, 78, 88, 45>>,
        comp |-> TRUE, mol |-> 0, gap |-> 45, amb |-> 110, cased |-> FALSE]
  \* DNAgapped: "-acgt" pairing "acgtnxACGTNX-" / "tgcanxTGCANX-"
  [] n = "DNAgapped" ->
       [def |-> <<45, 97, 99, 103, 116>>,
        ps |-> <<97, 99, 103, 116, 110, 120, 65, 67, 71, 84, 78, 88, 45>>,
        pc |-> <<116, 103, 99, 97, 110, 120, 84, 71, 67, 65, 78, 88, 45>>,
        comp |-> TRUE, mol |-> 0, gap |-> 45, amb |-> 110, cased |-> FALSE]
  \* DNAredundant: "-acmgrsvtwyhkdbn" pairing "acmgrsvtwyhkdbnxACMGRSVTWYHKDBNX-" / "tgkcysbawrdmhvnxTGKCYSBAWRDMHVNX-"
  [] n = "DNAredundant" ->
       [def |-> <<45, 97, 99, 109, 103, 114, 115, 118, 116, 119, 121, 104, 107, 100, 98, 110>>,
        ps |-> <<97, 99, 109, 103, 114, 115, 118, 116, 119, 121, 104, 107, 100, 98, 110, 120, 65, 67, 77, 71, 82, 83, 86, 84, 87, 89, 72, 75, 68, 66, 78, 88, 45>>,
        pc |-> <<116, 103, 107, 99, 121, 115, 98, 97, 119, 114, 100, 109, 104, 118, 110, 120, 84, 71, 75, 67, 89, 83, 66, 65, 87, 82, 68, 77, 72, 86, 78, 88, 45>>,
        comp |-> TRUE, mol |-> 0, gap |-> 45, amb |-> 110, cased |-> FALSE]
  \* RNA: "acgu" pairing "acgunxACGUNX-" / "ugcanxUGCANX-"
  [] n = "RNA" ->
       [def |-> <<97, 99, 103, 117>>,
        ps |-> <<97, 99, 103, 117, 110, 120, 65, 67, 71, 85, 78, 88, 45>>,
        pc |-> <<117, 103, 99, 97, 110, 120, 85, 71, 67, 65, 78, 88, 45>>,
        comp |-> TRUE, mol |-> 1, gap |-> 45, amb |-> 110, cased |-> FALSE]
  \* RNAgapped: "-acgu" pairing "acgunxACGUNX-" / "ugcanxUGCANX-"
  [] n = "RNAgapped" ->
       [def |-> <<45, 97, 99, 103, 117>>,
        ps |-> <<97, 99, 103, 117, 110, 120, 65, 67, 71, 85, 78, 88, 45>>,
        pc |-> <<117, 103, 99, 97, 110, 120, 85, 71, 67, 65, 78, 88, 45>>,
        comp |-> TRUE, mol |-> 1, gap |-> 45, amb |-> 110, cased |-> FALSE]
  \* RNAredundant: "-acmgrsvuwyhkdbn" pairing "acmgrsvuwyhkdbnxACMGRSVUWYHKDBNX-" / "ugkcysbawrdmhvnxUGKCYSBAWRDMHVNX-"
  [] n = "RNAredundant" ->
       [def |-> <<45, 97, 99, 109, 103, 114, 115, 118, 117, 119, 121, 104, 107, 100, 98, 110>>,
        ps |-> <<97, 99, 109, 103, 114, 115, 118, 117, 119, 121, 104, 107, 100, 98, 110, 120, 65, 67, 77, 71, 82, 83, 86, 85, 87, 89, 72, 75, 68, 66, 78, 88, 45>>,
        pc |-> <<117, 103, 107, 99, 121, 115, 98, 97, 119, 114, 100, 109, 104, 118, 110, 120, 85, 71, 75, 67, 89, 83, 66, 65, 87, 82, 68, 77, 72, 86, 78, 88, 45>>,
        comp |-> TRUE, mol |-> 1, gap |-> 45, amb |-> 110, cased |-> FALSE]
  \* Protein: "-abcdefghijklmnpqrstvwxyz*" (no pairing)
  [] n = "Protein" ->
       [def |-> <<45, 97, 98, 99, 100, 101, 102, 103, 104, 105, 106, 107, 108, 109, 110, 112, 113, 114, 115, 116, 118, 119, 120, 121, 122, 42>>,
        ps |-> <<>>,
        pc |-> <<>>,
        comp |-> FALSE, mol |-> 2, gap |-> 45, amb |-> 120, cased |-> FALSE]

\* what the initialisers of alphabet.go build: [err, a, p]; p = Err("none") for Protein
BuildBuiltin(n) ==
  LET b == Builtin(n) IN
  IF b.comp
  THEN LET p == NewPairing(b.ps, b.pc)
       IN IF IsErr(p) THEN p ELSE NewComplementor(b.def, b.cased, p)
  ELSE LET a == NewAlphabet(b.def, b.cased)
       IN IF IsErr(a) THEN a ELSE [err |-> "", a |-> a, p |-> Err("none")]

(***************************************************************************)
(* The laws of C17.  Each is the set of witnesses against it (letters,      *)
(* indices or positions); the law holds when the set is empty.              *)
(***************************************************************************)
SameKey(cased, x, y) == IF cased THEN x = y ELSE ToLower(x) = ToLower(y)

\* a valid definition: distinct ASCII letters (distinct up to case in a case-insensitive alphabet)
ValidDef(def, cased) ==
  /\ AllASCII(def)
  /\ \A i, j \in 1..Len(def) : i # j => ~SameKey(cased, def[i], def[j])

Member(def, cased, l) == \E i \in 1..Len(def) : SameKey(cased, def[i], l)

\* validity <=> membership (in either case for case-insensitive alphabets)
BadValid(def, cased, a) == {l \in Byte : a.valid[l] # Member(def, cased, l)}

\* Len, Letters: definition order; both cases presented for case-insensitive alphabets
LettersOK(def, cased, a) ==
  /\ a.len = Len(def)
  /\ a.cased = cased
  /\ a.letters = IF cased THEN def ELSE Lower(def) \o Upper(def)

\* IndexOf(Letter(i)) = i on 0..Len-1
BadIndexOfLetter(a) == {i \in 0..(a.len - 1) : a.index[LetterAt(a, i)] # i}

\* Letter(IndexOf(l)) is l (up to case) for every valid l
BadLetterOfIndex(a) ==
  {l \in Byte : a.valid[l] /\ ~(a.index[l] \in 0..(a.len - 1) /\ SameKey(a.cased, LetterAt(a, a.index[l]), l))}

\* IndexOf negative for invalid letters
BadInvalidIndex(a) == {l \in Byte : ~a.valid[l] /\ a.index[l] >= 0}

\* AllValid = the first invalid position
FirstInvalid(a, w) ==
  LET bad == {i \in 1..Len(w) : ~a.valid[w[i]]}
  IN IF bad = {} THEN [ok |-> TRUE, pos |-> -1]
     ELSE [ok |-> FALSE, pos |-> (CHOOSE i \in bad : \A j \in bad : i <= j) - 1]

\* complement: involution; unpaired letters are unchanged; pairedness is symmetric
BadInvolution(p) == {l \in Byte : p.pair[p.pair[l]] # l \/ (~p.ok[l] /\ p.pair[l] # l) \/ p.ok[l] # p.ok[p.pair[l]]}

\* method form (pair, ok) and table form agree: the bit 0x80 marks exactly the unpaired letters
BadTable(p) == {l \in Byte : p.table[l] # (IF p.ok[l] THEN p.pair[l] ELSE SetHigh(p.pair[l])) \/ (p.ok[l] /\ p.table[l] >= 128)}

\* the table is the definition: every listed pair is honoured
BadHonour(s, c, p) == {i \in 1..Len(s) : ~(p.ok[s[i]] /\ p.pair[s[i]] = c[i])}

\* a definition is not a bijection when a letter has two complements or two letters share one
NonBijective(s, c) == \E i, j \in 1..Len(s) : (s[i] = s[j]) # (c[i] = c[j])

\* valid letters have valid complements
BadClosed(a, p) == {l \in Byte : a.valid[l] /\ ~a.valid[p.pair[l]]}

\* case preserving: lower to lower, upper to upper, and complementing commutes with changing case
BadCase(p) ==
  {l \in Byte : \/ (l \in 65..90) # (p.pair[l] \in 65..90)
                \/ (l \in 97..122) # (p.pair[l] \in 97..122)
                \/ p.pair[ToUpper(l)] # ToUpper(p.pair[l])
                \/ p.pair[ToLower(l)] # ToLower(p.pair[l])}

\* four-letter nucleotide alphabets: index(complement(l)) = 3 - index(l)
BadThree(a, p) == {l \in Byte : a.valid[l] /\ a.index[p.pair[l]] # 3 - a.index[l]}

AlphabetLawsHold(def, cased, a) ==
  /\ BadValid(def, cased, a) = {}
  /\ LettersOK(def, cased, a)
  /\ BadIndexOfLetter(a) = {}
  /\ BadLetterOfIndex(a) = {}
  /\ BadInvalidIndex(a) = {}

(***************************************************************************)
(* The bounded model                                                        *)
(***************************************************************************)
VARIABLES kind, name, ldef, csens, sdef, cdef
vars == <<kind, name, ldef, csens, sdef, cdef>>

Init ==
  /\ ldef = <<>> /\ sdef = <<>> /\ cdef = <<>>
  /\ \/ kind = "builtin" /\ name \in BuiltinNames /\ csens = FALSE
     \/ kind \in {"alpha", "comp"} /\ name = "" /\ csens \in BOOLEAN
     \/ kind = "pairing" /\ name = "" /\ csens = FALSE
     \/ kind = "allvalid" /\ name = "" /\ csens \in BOOLEAN

Next ==
  \/ /\ kind = "alpha" /\ Len(ldef) < MaxDef
     /\ \E x \in Sample : ldef' = Append(ldef, x)
     /\ UNCHANGED <<kind, name, csens, sdef, cdef>>
  \/ /\ kind = "pairing" /\ cdef = <<>> /\ Len(sdef) < MaxPair
     /\ \E x \in PairSample : sdef' = Append(sdef, x)
     /\ UNCHANGED <<kind, name, csens, ldef, cdef>>
  \/ /\ kind = "pairing" /\ Len(cdef) < MaxPair
     /\ \E y \in PairSample : cdef' = Append(cdef, y)
     /\ UNCHANGED <<kind, name, csens, ldef, sdef>>
  \/ /\ kind = "comp" /\ sdef = <<>> /\ Len(ldef) < MaxCompDef
     /\ \E x \in CompSample : ldef' = Append(ldef, x)
     /\ UNCHANGED <<kind, name, csens, sdef, cdef>>
  \/ /\ kind = "comp" /\ Len(sdef) < MaxCompPair
     /\ \E x, y \in CompSample : sdef' = Append(sdef, x) /\ cdef' = Append(cdef, y)
     /\ UNCHANGED <<kind, name, csens, ldef>>
  \* letter slices: the alphabet in ldef, then the slice in sdef
  \/ /\ kind = "allvalid" /\ sdef = <<>> /\ Len(ldef) < MaxSliceDef
     /\ \E x \in SliceDefSample : ldef' = Append(ldef, x)
     /\ UNCHANGED <<kind, name, csens, sdef, cdef>>
  \/ /\ kind = "allvalid" /\ Len(sdef) < MaxSlice
     /\ \E x \in SliceSample : sdef' = Append(sdef, x)
     /\ UNCHANGED <<kind, name, csens, ldef, cdef>>

Spec == Init /\ [][Next]_vars

\* ---- built-in alphabets ----
BuiltinsConstruct == kind = "builtin" => ~IsErr(BuildBuiltin(name))

BuiltinAlphabetLaws ==
  kind = "builtin" =>
    LET b == Builtin(name) r == BuildBuiltin(name)
    IN /\ ValidDef(b.def, b.cased)
       /\ AlphabetLawsHold(b.def, b.cased, r.a)
       /\ \A w \in {<<x, y>> : x, y \in {45, 65, 97, 110, 122, 42, 200}} : AllValid(r.a, w) = FirstInvalid(r.a, w)

BuiltinComplementLaws ==
  kind = "builtin" /\ Builtin(name).comp =>
    LET b == Builtin(name) r == BuildBuiltin(name)
    IN /\ BadInvolution(r.p) = {}
       /\ BadTable(r.p) = {}
       /\ BadHonour(b.ps, b.pc, r.p) = {}
       /\ BadClosed(r.a, r.p) = {}
       /\ BadCase(r.p) = {}

NucleotideIndexComplement ==
  kind = "builtin" /\ name \in FourLetter =>
    LET r == BuildBuiltin(name) IN r.a.len = 4 /\ BadThree(r.a, r.p) = {}

\* ---- generated alphabets ----
AlphabetRejects == kind = "alpha" => (IsErr(NewAlphabet(ldef, csens)) <=> ~AllASCII(ldef))

AlphabetLaws ==
  kind = "alpha" /\ ValidDef(ldef, csens) => AlphabetLawsHold(ldef, csens, NewAlphabet(ldef, csens))

RECURSIVE WordsUpTo(_)
WordsUpTo(n) == IF n = 0 THEN {<<>>} ELSE WordsUpTo(n - 1) \cup {Append(w, x) : w \in WordsUpTo(n - 1), x \in WordSample}
Words == WordsUpTo(MaxWord)

AllValidLaw ==
  kind = "alpha" /\ AllASCII(ldef) =>
    LET a == NewAlphabet(ldef, csens) IN \A w \in Words : AllValid(a, w) = FirstInvalid(a, w)

\* ---- letter slices, letters >= 128 included ----
SliceLaw ==
  kind = "allvalid" /\ AllASCII(ldef) =>
    LET a == NewAlphabet(ldef, csens) IN AllValid(a, sdef) = FirstInvalid(a, sdef)

\* what the specification says about a slice: all valid / first invalid letter ASCII / first invalid letter >= 128,
\* the width of the widest well-formed UTF-8 sequence in it, and "text" when the slice read as text has another answer
SliceStratum(a, w) ==
  LET f == FirstInvalid(a, w)
      wd == ToString(MaxWidth(w, 1, 1))
  IN IF ScanText(a, w, 1) # f THEN "text-w" \o wd
     ELSE IF f.ok THEN "valid"
     ELSE IF w[f.pos + 1] < 128 THEN "ascii-w" \o wd
     ELSE "high-w" \o wd

\* ---- generated pairings ----
PairingRejects ==
  kind = "pairing" =>
    LET p == NewPairing(sdef, cdef)
    IN /\ Len(sdef) # Len(cdef) => IsErr(p)
       /\ ~(AllASCII(sdef) /\ AllASCII(cdef)) => IsErr(p)
       /\ Len(sdef) = Len(cdef) /\ NonBijective(sdef, cdef) => IsErr(p)

PairingLaws ==
  kind = "pairing" =>
    LET p == NewPairing(sdef, cdef)
    IN ~IsErr(p) => /\ BadInvolution(p) = {}
                    /\ BadTable(p) = {}
                    /\ BadHonour(sdef, cdef, p) = {}

\* ---- generated complementors ----
ComplementorLaws ==
  kind = "comp" =>
    LET p == NewPairing(sdef, cdef)
    IN ~IsErr(p) =>
         LET r == NewComplementor(ldef, csens, p)
         IN /\ IsErr(r) => (r.err = "nonascii" <=> ~AllASCII(ldef))
            /\ ~IsErr(r) => /\ BadClosed(r.a, r.p) = {}
                            /\ BadInvolution(r.p) = {}

(***************************************************************************)
(* Every case of the bounded model, with what the specification says about  *)
(* it, for replay through the real constructors (written when $OUT is set). *)
(***************************************************************************)
Stratum ==
  CASE kind = "alpha" -> NewAlphabet(ldef, csens).err
    [] kind = "pairing" ->
         LET p == NewPairing(sdef, cdef)
         IN IF ~IsErr(p) THEN ""
            ELSE IF p.err = "bijection" /\ Involutive(sdef, cdef) THEN "conflict"      \* only the duplicate test rejects it
            ELSE IF p.err = "bijection" /\ ~NonBijective(sdef, cdef) THEN "notinvolution"
            ELSE p.err
    [] kind = "comp" ->
         LET p == NewPairing(sdef, cdef)
         IN IF IsErr(p) THEN "skip"
            ELSE LET r == NewComplementor(ldef, csens, p)
                 IN IF r.err = "invalidpair" /\ BadClosed(NewAlphabet(ldef, csens), p) = {} THEN "invalidpair-closed"
                    ELSE r.err
    [] kind = "allvalid" ->
         LET a == NewAlphabet(ldef, csens) IN IF IsErr(a) THEN "skip" ELSE SliceStratum(a, sdef)
    [] OTHER -> "skip"

EmitCases ==
  ("OUT" \in DOMAIN IOEnv /\ Stratum # "skip") =>
    Serialize(ToJson(IF kind = "allvalid"
                       THEN [kind |-> kind, name |-> "", def |-> ldef, cased |-> csens, w |-> sdef, expect |-> Stratum]
                       ELSE [kind |-> kind, def |-> ldef, cased |-> csens, s |-> sdef, c |-> cdef, expect |-> Stratum]) \o "\n",
              IOEnv.OUT,
              [format |-> "TXT", charset |-> "UTF-8",
               openOptions |-> <<"WRITE", "CREATE", "APPEND">>]).exitValue = 0
=============================================================================
