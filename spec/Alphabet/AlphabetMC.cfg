\* C17 bounded model, quick tier (checks/c17.py enlarges it for the thorough tier). Letters: a A c C t - * and the non-ASCII byte 200.
SPECIFICATION Spec
CONSTANTS
  Variant = "intended"
  Sample = {97, 65, 99, 67, 116, 45, 42, 200}
  MaxDef = 4
  PairSample = {97, 65, 116, 84, 99, 200}
  MaxPair = 3
  CompSample = {97, 65, 116, 84, 103}
  MaxCompDef = 3
  MaxCompPair = 2
  WordSample = {97, 65, 116, 45, 0, 200}
  MaxWord = 3
INVARIANTS
  BuiltinsConstruct BuiltinAlphabetLaws BuiltinComplementLaws NucleotideIndexComplement
  AlphabetRejects AlphabetLaws AllValidLaw
  PairingRejects PairingLaws
  ComplementorLaws
  EmitCases
CHECK_DEADLOCK FALSE
