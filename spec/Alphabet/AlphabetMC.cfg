\* C17 bounded model, quick tier (checks/c17.py enlarges it for the thorough tier). Letters: a A c C t - * and the non-ASCII byte 200.
\* Slices as cases of their own: alphabets over a T; letters a, 0xC5, 0xA1, 0xB4, 0xE0 (C5 A1 = U+0161, C5 B4 = U+0174, E0 A1 A1 = U+0861, ...:
\* well-formed UTF-8 whose code point has the low byte 'a' or 't'; every other arrangement of them is malformed).
SPECIFICATION Spec
CONSTANTS
  Variant = "intended"
  Sample = {97, 65, 99, 67, 116, 45, 42, 200}
  MaxDef = 4
  PairSample = {97, 65, 116, 84, 99, 200}
  MaxPair = 3
  CompSample = {97, 65, 116, 84, 103}
  MaxCompDef = 3
  MaxCompPair = 2
  WordSample = {97, 65, 116, 45, 0, 200}
  MaxWord = 3
  SliceDefSample = {97, 84}
  MaxSliceDef = 2
  SliceSample = {97, 197, 161, 180, 224}
  MaxSlice = 5
INVARIANTS
  BuiltinsConstruct BuiltinAlphabetLaws BuiltinComplementLaws NucleotideIndexComplement
  AlphabetRejects AlphabetLaws AllValidLaw SliceLaw
  PairingRejects PairingLaws
  ComplementorLaws
  EmitCases
CHECK_DEADLOCK FALSE
