------------------------------ MODULE PalsSelf -------------------------------
(***************************************************************************)
(* Self comparison, forward strand (property C15, "the trivial self match   *)
(* is not reported"): the geometry of filter tubes, the merger's guard and  *)
(* the aligner's band around the main diagonal.                             *)
(*                                                                          *)
(* Diagonals are numbered relative to the main diagonal: r = q - t, so the  *)
(* sequence matching itself lies on r = 0 and the filter keeps k-mer pairs  *)
(* with r > 0 only.  Tube i collects the diagonals                          *)
(*     Left(i) .. Left(i) + off + e - 1,   Left(i) = i*off - len,           *)
(* (tubes overlap by e).  The merger drops a tube whose left edge is within *)
(* `margin` of the main diagonal; the aligner then searches the band        *)
(*     Left - G .. Right + G                                                *)
(* of every trapezoid it is given (G = MaxIGap).  A band that contains r = 0*)
(* finds the whole sequence aligned with itself.                            *)
(*                                                                          *)
(* Repaired = FALSE is the code as found (margin = e); TRUE the repaired    *)
(* code (margin = max(e, G)).                                               *)
(***************************************************************************)
EXTENDS Integers, FiniteSets
CONSTANTS MaxLen, Offs, Errs, G, Repaired
VARIABLES len, off, e
vars == <<len, off, e>>

Max2(a, b) == IF a > b THEN a ELSE b
Margin == IF Repaired THEN Max2(e, G) ELSE e
Tubes == 0..((len + MaxLen) \div off + 1)
Left(i) == i * off - len
Right(i) == Left(i) + off + e - 1
\* a tube can receive a filter hit only from diagonals above the main one
Reachable(i) == Right(i) >= 1
Kept(i) == Reachable(i) /\ Left(i) > Margin

Init == len \in 1..MaxLen /\ off \in Offs /\ e \in Errs /\ e < off
Next == UNCHANGED vars
Spec == Init /\ [][Next]_vars

\* no band handed to the aligner contains the main diagonal
BandClearOfMainDiagonal == \A i \in Tubes : Kept(i) => Left(i) - G > 0
\* what the guard costs: every diagonal further out than margin + off still lies in a kept tube together with
\* the e diagonals above it (the room an epsilon-match needs)
NothingElseLost ==
  \A r \in 1..MaxLen : r > Margin + off => \E i \in Tubes : Kept(i) /\ Left(i) <= r /\ r + e <= Right(i)
=============================================================================
