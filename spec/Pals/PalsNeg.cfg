SPECIFICATION PSpec
CONSTANTS
  PullsMinimum = FALSE
  HitKeys = {1, 2}
INVARIANT MergeSeesOwnHitsInOrder
CHECK_DEADLOCK FALSE
