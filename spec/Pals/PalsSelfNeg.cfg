SPECIFICATION Spec
CONSTANTS
  MaxLen = 120
  Offs = {8, 11, 32, 35, 41}
  Errs = {0, 1, 3, 4, 5, 9}
  G = 5
  Repaired = FALSE
INVARIANTS BandClearOfMainDiagonal NothingElseLost
CHECK_DEADLOCK FALSE
