SPECIFICATION Spec
CONSTANTS
  Bin = 4
  MinPad = 2
  MaxLen = 9
  MaxContigs = 3
  BumpShortPadding = FALSE
INVARIANTS BinAligned BinMapCorrect Separated MapsBack ClippedAtContigEnd
CHECK_DEADLOCK FALSE
