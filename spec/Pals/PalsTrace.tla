------------------------------ MODULE PalsTrace ------------------------------
(* Judges recorded runs of the real PALS pipeline (C15). *)
EXTENDS Pals, Json, IOUtils

Trace == ndJsonDeserialize(IOEnv.TRACE)
VARIABLES l, fails

Judge(c) ==
  IF c.panic # "" THEN "panic: " \o c.panic
  ELSE IF c.err # "" THEN ""            \* Optimise found no parameters: nothing was searched
  ELSE IF \E i \in 1..Len(c.passes) : c.passes[i].err # "" THEN "Align returned an error"
  ELSE IF \E i \in 1..Len(c.passes) : \E j \in 1..Len(c.passes[i].hits) : ~HitSound(c, c.passes[i].hits[j])
    THEN "a reported hit is outside the sequences, too short, above the error bound, or scores above the optimal alignment of its regions"
  ELSE IF ~NoTrivialSelf(c) THEN "the trivial self match was reported"
  ELSE IF \E k \in 1..Len(c.plants) : ~c.plants[k].marginal /\ ~Found(c, c.plants[k], HitsOf(c, c.plants[k].rev))
    THEN "a planted repeat was not recovered: plant " \o ToString(CHOOSE k \in 1..Len(c.plants) : ~c.plants[k].marginal /\ ~Found(c, c.plants[k], HitsOf(c, c.plants[k].rev)))
  ELSE ""

Step ==
  /\ l <= Len(Trace) /\ l' = l + 1
  /\ LET v == Judge(Trace[l]) IN fails' = IF v = "" THEN fails ELSE Append(fails, <<l, v>>)
  /\ UNCHANGED pvars
TInit == l = 1 /\ fails = <<>> /\ PInit
TSpec == TInit /\ [][Step]_<<l, fails, pvars>>
Emit ==
  (l = Len(Trace) + 1) =>
    Serialize(ToJson([events |-> Len(Trace), fails |-> fails, drift |-> <<>>]), IOEnv.OUT,
              [format |-> "TXT", charset |-> "UTF-8",
               openOptions |-> <<"WRITE", "CREATE", "TRUNCATE_EXISTING">>]).exitValue = 0
Consumed == TLCGet("stats").diameter - 1 = Len(Trace)
=============================================================================
