--------------------------------- MODULE Pals --------------------------------
(***************************************************************************)
(* The PALS pipeline (property C15): q-gram filter -> external sort ->      *)
(* trapezoid merge -> banded alignment.                                     *)
(*                                                                          *)
(* Hit soundness and recall are stated over what PALS.Align returns.        *)
(* A hit is [ab, ae, bb, be, score, err_ppm]: target interval [ab, ae),     *)
(* query interval [bb, be) - in the reverse complemented query for the      *)
(* complement pass - the alignment score under (match +1, mismatch -3,      *)
(* indel -3), and the reported error in parts per million.                  *)
(* The optimal global alignment score of the two hit regions comes from     *)
(* AlignDP (spec/Align), whose Opt is proved equal to the maximum over all  *)
(* alignments by AlignMC.                                                   *)
(***************************************************************************)
EXTENDS AlignDP, TLC

\* letters 1..4 = A,C,G,T; index 0 is the gap: PALS scoring as an AlignDP matrix
PalsM == << <<0, -3, -3, -3, -3>>,
            <<-3, 1, -3, -3, -3>>,
            <<-3, -3, 1, -3, -3>>,
            <<-3, -3, -3, 1, -3>>,
            <<-3, -3, -3, -3, 1>> >>

RegionOpt(ra, rb) == Opt(<<"global">>, ra, rb, PalsM, 0, FALSE)

HitSound(c, h) ==
  /\ 0 <= h.ab /\ h.ab <= h.ae /\ h.ae <= c.tlen
  /\ 0 <= h.bb /\ h.bb <= h.be /\ h.be <= c.qlen
  /\ h.ae - h.ab >= c.minlen /\ h.be - h.bb >= c.minlen
  /\ h.err_ppm <= 1000000 - c.minid_ppm + 1
  /\ (h.ra # <<>> /\ h.rb # <<>>) => h.score <= RegionOpt(h.ra, h.rb)

Overlap(a0, a1, b0, b1) ==
  LET lo == IF a0 > b0 THEN a0 ELSE b0
      hi == IF a1 < b1 THEN a1 ELSE b1
  IN IF hi > lo THEN hi - lo ELSE 0
\* hit h recovers the pair of intervals [x0,x1) on the target axis and [y0,y1) on the query axis
\* ("overlaps most of the planted copy in both sequences": more than half of it on either axis)
Recovers(h, x0, x1, y0, y1) ==
  /\ 2 * Overlap(h.ab, h.ae, x0, x1) > x1 - x0
  /\ 2 * Overlap(h.bb, h.be, y0, y1) > y1 - y0

\* the planted copy pl, as it looks to the pass that must find it
Found(c, pl, hits) ==
  LET n == c.qlen
      \* query-axis coordinates of an interval of the forward query in this pass
      QLo(a, b) == IF pl.rev THEN n - b ELSE a
      QHi(a, b) == IF pl.rev THEN n - a ELSE b
  IN \E i \in 1..Len(hits) :
       \/ Recovers(hits[i], pl.ta, pl.tb, QLo(pl.qa, pl.qb), QHi(pl.qa, pl.qb))
       \* within one sequence either copy may play the target's part
       \/ c.self /\ Recovers(hits[i], pl.qa, pl.qb, QLo(pl.ta, pl.tb), QHi(pl.ta, pl.tb))

PassOf(c, comp) == CHOOSE i \in 1..Len(c.passes) : c.passes[i].comp = comp
HitsOf(c, comp) == c.passes[PassOf(c, comp)].hits

\* in a self comparison the forward pass does not report the sequence matching itself
NoTrivialSelf(c) ==
  c.self => \A i \in 1..Len(HitsOf(c, FALSE)) : HitsOf(c, FALSE)[i].ab # HitsOf(c, FALSE)[i].bb

(***************************************************************************)
(* The stage contract between filter and merger: the hits of one pass go    *)
(* through the sorter (C11) and come back sorted and complete; both passes  *)
(* share one sorter.  A small machine over the abstract sorter: whatever    *)
(* the two passes push, each pass merges exactly its own hits in order.     *)
(***************************************************************************)
CONSTANTS HitKeys,    \* keys (From) of the filter hits a pass may produce
          PullsMinimum \* FALSE: negative control, a sorter that hands hits back in any order

VARIABLES pass, phase, pushed, held, merged
pvars == <<pass, phase, pushed, held, merged>>

PInit == pass = 1 /\ phase = "filter" /\ pushed = <<>> /\ held = {} /\ merged = <<>>
\* a hit is <<key, id>>
Push == /\ phase = "filter" /\ Len(pushed) < 3
        /\ \E k \in HitKeys : LET h == <<k, Len(pushed) + 1>> IN pushed' = Append(pushed, h) /\ held' = held \cup {h}
        /\ UNCHANGED <<pass, phase, merged>>
Finalise == phase = "filter" /\ phase' = "merge" /\ UNCHANGED <<pass, pushed, held, merged>>
Pull == /\ phase = "merge" /\ held # {}
        /\ \E h \in held : (PullsMinimum => \A g \in held : h[1] <= g[1]) /\ held' = held \ {h} /\ merged' = Append(merged, h)
        /\ UNCHANGED <<pass, phase, pushed>>
\* io.EOF, then Clear: the next pass starts from an empty sorter
NextPass == /\ phase = "merge" /\ held = {} /\ pass = 1
            /\ pass' = 2 /\ phase' = "filter" /\ pushed' = <<>> /\ merged' = <<>> /\ UNCHANGED held
PNext == Push \/ Finalise \/ Pull \/ NextPass
PSpec == PInit /\ [][PNext]_pvars

Range(s) == {s[i] : i \in 1..Len(s)}
MergeSeesOwnHitsInOrder ==
  /\ Range(merged) \subseteq Range(pushed)
  /\ \A i \in 1..(Len(merged) - 1) : merged[i][1] <= merged[i + 1][1]
  /\ (phase = "merge" /\ held = {}) => Range(merged) = Range(pushed)
=============================================================================
