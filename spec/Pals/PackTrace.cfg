SPECIFICATION TSpec
CONSTANTS
  Bin = 1024
  MinPad = 50
  MaxLen = 0
  MaxContigs = 0
  BumpShortPadding = TRUE
INVARIANT Emit
POSTCONDITION Consumed
CHECK_DEADLOCK FALSE
