SPECIFICATION TSpec
CONSTANTS
  PullsMinimum = TRUE
  HitKeys = {1}
INVARIANT Emit
POSTCONDITION Consumed
CHECK_DEADLOCK FALSE
