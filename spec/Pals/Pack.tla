--------------------------------- MODULE Pack ---------------------------------
(***************************************************************************)
(* pals.Packer / pals.Packed (beyond C15): several sequences are packed     *)
(* into one, separated by runs of N; every contig starts on a bin boundary, *)
(* a table maps bins to contigs, and NewPair maps the packed coordinates of *)
(* an alignment hit back to the contig and its own coordinates (through the *)
(* bin of the interval's midpoint), mirrored first for the complement       *)
(* strand.                                                                  *)
(*                                                                          *)
(* contigs: sequence of contig lengths in packing order.                    *)
(* Bin, MinPad: the package's binSize (1024) and minPadding (50).           *)
(* BumpShortPadding = FALSE is the negative control: padding shorter than   *)
(* MinPad is not extended by one bin.                                       *)
(***************************************************************************)
EXTENDS Integers, Sequences, FiniteSets
CONSTANTS Bin, MinPad, MaxLen, MaxContigs, BumpShortPadding

Pad(len) == LET p == Bin - (len % Bin) IN IF BumpShortPadding /\ p < MinPad THEN p + Bin ELSE p
RECURSIVE From(_, _)
\* start of contig i in the packed sequence
From(cs, i) == IF i = 1 THEN 0 ELSE From(cs, i - 1) + cs[i - 1] + Pad(cs[i - 1])
PackedLen(cs) == IF cs = <<>> THEN 0 ELSE From(cs, Len(cs)) + cs[Len(cs)]          \* no padding after the last contig
NBins(cs, i) == (cs[i] + Pad(cs[i])) \div Bin
RECURSIVE BinMap(_, _)
\* the bin table after packing the first i contigs (contig numbers from 0, as in the code)
BinMap(cs, i) == IF i = 0 THEN <<>> ELSE BinMap(cs, i - 1) \o [k \in 1..NBins(cs, i) |-> i - 1]
\* letter at packed position p (0-based): the contig it belongs to, or 0 for padding
Owner(cs, p) == IF \E i \in 1..Len(cs) : From(cs, i) <= p /\ p < From(cs, i) + cs[i]
                  THEN CHOOSE i \in 1..Len(cs) : From(cs, i) <= p /\ p < From(cs, i) + cs[i] ELSE 0

\* Packed.feature(from, to, comp): [err, contig (from 0), from, to]
FeatureOf(cs, from0, to0, comp) ==
  LET L == PackedLen(cs)
      f1 == IF comp THEN L - to0 ELSE from0
      t1 == IF comp THEN L - from0 ELSE to0 IN
  IF f1 >= t1 THEN [err |-> TRUE]
  ELSE LET f == IF f1 < 0 THEN 0 ELSE f1
           t == IF t1 > L THEN L ELSE t1
           bin == (f + t) \div (2 * Bin)
           nb == (L + Bin - 1) \div Bin IN
       IF bin < 0 \/ bin >= nb \/ t < f THEN [err |-> TRUE]
       ELSE LET c == BinMap(cs, Len(cs))[bin + 1]
                cf0 == f - From(cs, c + 1)
                ct0 == cf0 + (t - f)
            IN [err |-> FALSE, contig |-> c, from |-> IF cf0 < 0 THEN 0 ELSE cf0, to |-> IF ct0 > cs[c + 1] THEN cs[c + 1] ELSE ct0]

(***************************************************************************)
(* The machine: Pack one more contig                                        *)
(***************************************************************************)
VARIABLE contigs
Init == contigs = <<>>
PackOne == Len(contigs) < MaxContigs /\ \E n \in 0..MaxLen : contigs' = Append(contigs, n)
Spec == Init /\ [][PackOne]_contigs

\* every contig starts on a bin boundary and owns exactly the bins up to the next contig
BinAligned == \A i \in 1..Len(contigs) : From(contigs, i) % Bin = 0
BinMapCorrect ==
  LET bm == BinMap(contigs, Len(contigs)) IN
  \A b \in 1..Len(bm) : LET i == bm[b] + 1 IN From(contigs, i) <= (b - 1) * Bin /\ (b - 1) * Bin < From(contigs, i) + contigs[i] + Pad(contigs[i])
\* consecutive contigs are kept apart by at least MinPad letters of padding (what the bump is for)
Separated == \A i \in 1..(Len(contigs) - 1) : From(contigs, i + 1) - (From(contigs, i) + contigs[i]) >= MinPad
\* an interval inside one contig maps back to that contig and its own coordinates, on either strand
MapsBack ==
  \A i \in 1..Len(contigs) : \A a \in 0..contigs[i] : \A b \in (a + 1)..contigs[i] :
     LET f == From(contigs, i) + a  t == From(contigs, i) + b  L == PackedLen(contigs)
         r == FeatureOf(contigs, f, t, FALSE)
         rc == FeatureOf(contigs, L - t, L - f, TRUE)
     IN ~r.err /\ r.contig = i - 1 /\ r.from = a /\ r.to = b /\ rc = r
\* an interval that runs from a contig into the padding after it is clipped to the contig while its midpoint
\* stays within the contig's bins
ClippedAtContigEnd ==
  \A i \in 1..Len(contigs) : contigs[i] > 0 =>
     LET f == From(contigs, i) + contigs[i] - 1  t == From(contigs, i) + contigs[i] + 1 IN
     t <= PackedLen(contigs) => LET r == FeatureOf(contigs, f, t, FALSE) IN ~r.err /\ r.contig = i - 1 /\ r.to = contigs[i]
=============================================================================
