------------------------------ MODULE PackTrace ------------------------------
(* Judges pack events of the real pals.Packer / pals.NewPair against Pack.tla (extension: drift only).     *)
(* event [tlens, qlens, tlen, qlen, truns, qruns, pairs, panic]; runs are the maximal non-N runs [start,len] *)
EXTENDS Pack, Json, IOUtils, TLC
Trace == ndJsonDeserialize(IOEnv.TRACE)
VARIABLES l, drift

\* the non-empty contigs are exactly the non-N runs (contig letters are never N in the driver)
RECURSIVE RunsOf(_, _)
RunsOf(cs, i) == IF i > Len(cs) THEN <<>> ELSE (IF cs[i] > 0 THEN <<<<From(cs, i), cs[i]>>>> ELSE <<>>) \o RunsOf(cs, i + 1)
LayoutOK(cs, plen, runs) == plen = PackedLen(cs) /\ runs = RunsOf(cs, 1)

PairOK(e, p) ==
  LET a == FeatureOf(e.tlens, p.ab, p.ae, FALSE)
      b == FeatureOf(e.qlens, p.bb, p.be, p.comp) IN
  IF a.err \/ b.err THEN p.err
  ELSE ~p.err /\ p.a = <<a.contig, a.from, a.to>> /\ p.b = <<b.contig, b.from, b.to>> /\ p.strand = (IF p.comp THEN -1 ELSE 1)

Agrees(e) == e.panic = "" /\ LayoutOK(e.tlens, e.tlen, e.truns) /\ LayoutOK(e.qlens, e.qlen, e.qruns)
             /\ \A k \in 1..Len(e.pairs) : PairOK(e, e.pairs[k])
Step == /\ l <= Len(Trace) /\ l' = l + 1
        /\ drift' = IF Agrees(Trace[l]) THEN drift ELSE Append(drift, l)
        /\ UNCHANGED contigs
TInit == l = 1 /\ drift = <<>> /\ contigs = <<>>
TSpec == TInit /\ [][Step]_<<l, drift, contigs>>
Emit ==
  (l = Len(Trace) + 1) =>
    Serialize(ToJson([events |-> Len(Trace), fails |-> <<>>, drift |-> drift]), IOEnv.OUT,
              [format |-> "TXT", charset |-> "UTF-8",
               openOptions |-> <<"WRITE", "CREATE", "TRUNCATE_EXISTING">>]).exitValue = 0
Consumed == TLCGet("stats").diameter - 1 = Len(Trace)
=============================================================================
