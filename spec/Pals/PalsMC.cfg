SPECIFICATION PSpec
CONSTANTS
  PullsMinimum = TRUE
  HitKeys = {1, 2}
INVARIANT MergeSeesOwnHitsInOrder
CHECK_DEADLOCK FALSE
