-------------------------------- MODULE Kmer --------------------------------
(***************************************************************************)
(* index/kmerindex (property C10): a k-mer index returns exactly the       *)
(* occurrences of every k-mer.                                             *)
(*                                                                         *)
(* Part 1 (declarative): a sequence is a tuple of byte values; positions   *)
(*   are 0-based as in the code.  Occ(S,k,w) is the set of positions whose *)
(*   window of k letters contains only a,c,g,t (either case) and spells    *)
(*   the word w.  Words are sequences over 0..3 (a=0,c=1,g=2,t=3); Enc is  *)
(*   the 2-bit packing, FormatW/ComplementW/GCW the string operations.     *)
(* Part 2 (operational, written the way kmerindex.go is written): the      *)
(*   rolling machine of ForEachKmerOf (kmer, high, base, pos) with         *)
(*   PreloadStep/LoopStep and an explicit Visit output; Build as counting, *)
(*   exclusive prefix sum and counting-sort placement over finger/pos;     *)
(*   KmerPositions bucket bounds; Check; the digit loops of GCof, Format   *)
(*   and ComplementOf.                                                     *)
(* Part 3 (model): the machine reads one letter per step.  The letter it   *)
(*   reads is chosen when it is read (the sequence S grows by that         *)
(*   letter), which is the same as choosing the whole sequence first       *)
(*   because the machine never looks ahead.  Every reachable state is      *)
(*   therefore "ForEachKmerOf(S, start, end = Len(S)) has just returned"   *)
(*   for one sequence S, one start and one end; the invariants compare     *)
(*   the visits made so far with the declarative windows of [start,end),   *)
(*   and, when start = 0, the arrays Build would produce with Occ.         *)
(*   All sequences over Letters up to MaxLen, all k in Ks, all sub-ranges  *)
(*   (letters before start are drawn from Pre).                            *)
(* Part 4 (KmerQueries.tla): the life of an index - New reads the letters, *)
(*   Build, then any history of queries and of writes by the caller into   *)
(*   what it was handed; every answer is Answer(S,k,x), a function of the  *)
(*   indexed sequence only.                                                *)
(* Variant selects the code as written ("code") or a deliberately wrong    *)
(* variant (negative controls).                                            *)
(***************************************************************************)
EXTENDS Integers, Sequences, FiniteSets, TLC, Json, IOUtils

CONSTANTS
  Letters,   \* byte values the model draws sequences from
  Pre,       \* byte values for the letters before start (never read by the machine)
  Ks,        \* word lengths
  MaxLen,    \* longest sequence
  Variant    \* "code" | "high_before_increment" | "inclusive_prefix" | "no_mask"
             \* | "alias_answers" (KmerQueries.tla only: a query hands out a window of the position table)

---------------------------------------------------------------------------
(* letters and words *)

\* alphabet.DNA.LetterIndex(): acgt in either case -> 0..3, anything else -> -1
CodeTab == [b \in 0..255 |-> IF b = 97 \/ b = 65 THEN 0
                             ELSE IF b = 99 \/ b = 67 THEN 1
                             ELSE IF b = 103 \/ b = 71 THEN 2
                             ELSE IF b = 116 \/ b = 84 THEN 3
                             ELSE -1]
Code(b) == CodeTab[b]
LetterOf(c) == <<97, 99, 103, 116>>[c + 1]       \* alpha.Letter(i): lower case
Pow4(n) == 4 ^ n

IsWord(w, k) == Len(w) = k /\ \A i \in 1..k : w[i] \in 0..3
\* 2 bits per letter, first letter most significant
Enc(w) == LET F[i \in 0..Len(w)] == IF i = 0 THEN 0 ELSE 4 * F[i - 1] + w[i] IN F[Len(w)]
Digit(x, n) == (x \div Pow4(n)) % 4              \* n-th base-4 digit, least significant = 0
Dec(x, k) == [i \in 1..k |-> Digit(x, k - i)]

TextValid(t) == \A i \in 1..Len(t) : Code(t[i]) >= 0
WordOfText(t) == [i \in 1..Len(t) |-> Code(t[i])]
FormatW(w) == [i \in 1..Len(w) |-> LetterOf(w[i])]

\* the string operations
CompLetter(b) == IF b = 97 THEN 116 ELSE IF b = 116 THEN 97 ELSE IF b = 99 THEN 103 ELSE IF b = 103 THEN 99 ELSE b
RevCompText(t) == [i \in 1..Len(t) |-> CompLetter(t[Len(t) + 1 - i])]
GCCountText(t) == Cardinality({i \in 1..Len(t) : t[i] \in {99, 103, 67, 71}})
\* the same on words
ComplementW(w) == [i \in 1..Len(w) |-> 3 - w[Len(w) + 1 - i]]
GCW(w) == Cardinality({i \in 1..Len(w) : w[i] \in {1, 2}})
\* GC fraction gc/k as parts per million, rounded half up (how the harness logs a float64)
Ppm(gc, k) == (2 * 1000000 * gc + k) \div (2 * k)

---------------------------------------------------------------------------
(* declarative occurrences *)

ValidWin(S, p, k) == \A i \in 1..k : Code(S[p + i]) >= 0
WordAt(S, p, k) == [i \in 1..k |-> Code(S[p + i])]
\* positions whose window holds only valid letters and spells w, letter by letter
Occ(S, k, w) == {p \in 0..(Len(S) - k) : \A i \in 1..k : Code(S[p + i]) >= 0 /\ Code(S[p + i]) = w[i]}
Windows(S, k, lo, hi) == {p \in lo..(hi - k) : ValidWin(S, p, k)}

\* ascending enumeration of a set of integers within lo..hi
AscSeq(set, lo, hi) == SelectSeq([i \in 1..(hi - lo + 1) |-> lo + i - 1], LAMBDA p : p \in set)

\* what a position query for the packed word x must answer on an index of S, whenever it is asked:
\* the occurrences of the word in increasing order - a function of the indexed sequence only
Answer(S, k, x) == AscSeq(Occ(S, k, Dec(x, k)), 0, Len(S) - k)
\* what Check() must answer: every valid window confirmed
CheckAnswer(S, k) == <<TRUE, Cardinality(Windows(S, k, 0, Len(S)))>>

\* what iterating over [lo,hi) must report: <<position, packed word>> in increasing position
DeclVisits(S, k, lo, hi) ==
  LET ps == AscSeq(Windows(S, k, lo, hi), lo, hi - k)
  IN [i \in 1..Len(ps) |-> <<ps[i], Enc(WordAt(S, ps[i], k))>>]

\* the same through a table of window codes (-1 = window contains an invalid letter); Enc is
\* injective on words of one length, so OccC(WinCodes(S,k), Enc(w)) = Occ(S,k,w) (last part of IndexExact)
WinCodes(S, k) == [p \in 0..(Len(S) - k) |-> IF ValidWin(S, p, k) THEN Enc(WordAt(S, p, k)) ELSE -1]
OccC(codes, x) == {p \in DOMAIN codes : codes[p] = x}
DeclVisitsC(codes, k, lo, hi) ==
  LET ps == SelectSeq([i \in 1..(hi - k - lo + 1) |-> lo + i - 1], LAMBDA p : codes[p] >= 0)
  IN [i \in 1..Len(ps) |-> <<ps[i], codes[ps[i]]>>]

---------------------------------------------------------------------------
(* ForEachKmerOf: kmerindex.go:225-270 *)

\* kmer := 0; high := 0; basePosition := start           (position := start when the loop begins)
M0(st) == [kmer |-> 0, high |-> 0, base |-> st, pos |-> st, out |-> <<>>, vis |-> <<>>]

\* for ; basePosition < start+k-1; basePosition++ : one iteration reading letter c
PreloadStep(m, c) ==
  LET cb == Code(c) IN
  IF cb >= 0 THEN [m EXCEPT !.kmer = m.kmer * 4 + cb, !.base = m.base + 1]
             ELSE [m EXCEPT !.kmer = 0, !.high = m.base + 1, !.base = m.base + 1]

\* for position := ...; basePosition < end; position++ : one iteration reading letter c
LoopStep(m, c, k) ==
  LET cb == Code(c)
      nb == m.base + 1                                   \* basePosition++
      km == IF cb >= 0
              THEN IF Variant = "no_mask" THEN m.kmer * 4 + cb ELSE (m.kmer * 4 + cb) % Pow4(k)
              ELSE 0
      hi == IF cb >= 0 THEN m.high
            ELSE IF Variant = "high_before_increment" THEN m.base ELSE nb
      o == IF m.pos >= hi THEN <<m.pos, km>> ELSE <<>>   \* f(ki, position, kmer)
  IN [kmer |-> km, high |-> hi, base |-> nb, pos |-> m.pos + 1, out |-> o,
      vis |-> IF o = <<>> THEN m.vis ELSE Append(m.vis, o)]

\* ForEachKmerOf(S, st, en) run to completion (needs st + k - 1 <= Len(S) and en <= Len(S));
\* F[i] is the machine with basePosition = i
Run(S, k, st, en) ==
  LET last == IF en > st + k - 1 THEN en ELSE st + k - 1
      F[i \in st..last] ==
        IF i = st THEN M0(st)
        ELSE IF i <= st + k - 1 THEN PreloadStep(F[i - 1], S[i])
        ELSE LoopStep(F[i - 1], S[i], k)
  IN F[last]

---------------------------------------------------------------------------
(* New/buildKmerTable, Build, KmerPositions, Check: kmerindex.go:84-146, 399-426 *)

\* finger := make([]Kmer, 4^k+1); for every visit finger[kmer]++
Count(vs, k) ==
  LET F[i \in 0..Len(vs)] ==
        IF i = 0 THEN [x \in 0..Pow4(k) |-> 0] ELSE [F[i - 1] EXCEPT ![vs[i][2]] = @ + 1]
  IN F[Len(vs)]

\* for i, v := range finger { finger[i], sum = sum, sum+v }
PrefixSums(f, n) ==
  LET P[i \in 0..(n + 1)] ==
        IF i = 0 THEN [f |-> f, sum |-> 0]
        ELSE LET st == P[i - 1]
                 v == st.f[i - 1]
             IN [f |-> [st.f EXCEPT ![i - 1] = IF Variant = "inclusive_prefix" THEN st.sum + v ELSE st.sum],
                 sum |-> st.sum + v]
  IN P[n + 1].f

\* pos := make([]int, npos); for every visit { pos[finger[kmer]] = position; finger[kmer]++ }
\* (an index outside pos or finger is a run-time panic in Go)
Place(vs, f, npos) ==
  LET F[i \in 0..Len(vs)] ==
        IF i = 0 THEN [f |-> f, pos |-> [x \in 0..(npos - 1) |-> 0], panic |-> FALSE]
        ELSE LET st == F[i - 1]
                 p == vs[i][1]
                 km == vs[i][2]
             IN IF st.panic \/ km \notin DOMAIN st.f \/ st.f[km] \notin DOMAIN st.pos
                  THEN [st EXCEPT !.panic = TRUE]
                  ELSE [f |-> [st.f EXCEPT ![km] = @ + 1], pos |-> [st.pos EXCEPT ![st.f[km]] = p], panic |-> FALSE]
  IN F[Len(vs)]

Built(vs, k, L) == Place(vs, PrefixSums(Count(vs, k), Pow4(k)), L - k + 1)

\* KmerPositions(kmer): the bucket finger[kmer-1] .. finger[kmer] of pos
BucketLo(f, km) == IF km > 0 THEN f[km - 1] ELSE 0      \* special case: the first word has no predecessor
PositionsOp(b, km) ==
  LET i == BucketLo(b.f, km)
      j == b.f[km]
  IN [x \in 1..(j - i) |-> IF i + x - 1 \in DOMAIN b.pos THEN b.pos[i + x - 1] ELSE -2]   \* -2: Go would panic

\* Check(): every visit is found in the bucket of its k-mer
CheckOp(vs, b) ==
  LET hit(v) == \E j \in BucketLo(b.f, v[2])..(b.f[v[2]] - 1) : j \in DOMAIN b.pos /\ b.pos[j] = v[1]
  IN <<\A i \in 1..Len(vs) : hit(vs[i]), Cardinality({i \in 1..Len(vs) : hit(vs[i])})>>

\* func GCof(k, kmer): for i := k-1; i >= 0; i, kmer = i-1, kmer>>2 { gc += (kmer&1) ^ ((kmer&2)>>1) }
GCofOp(k, kmer) ==
  LET G[i \in 0..k] == IF i = 0 THEN 0
                       ELSE LET d == Digit(kmer, i - 1) IN G[i - 1] + (((d % 2) + (d \div 2)) % 2)
  IN G[k]
\* func Format: kmertext[i] = alpha.Letter(kmer & 3) from the last letter backwards
FormatOp(kmer, k) == [i \in 1..k |-> LetterOf(Digit(kmer, k - i))]
\* func ComplementOf: for i, j := 0, 2(k-1); i <= j; i, j = i+2, j-2 { digit i := ^digit j ; digit j := ^digit i }
ComplementOfOp(k, kmer) ==
  LET C[n \in 0..((k + 1) \div 2)] ==
        IF n = 0 THEN [d \in 0..(k - 1) |-> 0]
        ELSE LET i == n - 1
                 j == k - n
             IN [C[n - 1] EXCEPT ![i] = 3 - Digit(kmer, j), ![j] = 3 - Digit(kmer, i)]
      c == C[(k + 1) \div 2]
      Sum[d \in 0..k] == IF d = 0 THEN 0 ELSE Sum[d - 1] + c[d - 1] * Pow4(d - 1)
  IN Sum[k]

---------------------------------------------------------------------------
(* the model *)

VARIABLES S, k, start, m, pc

vars == <<S, k, start, m, pc>>

Init ==
  /\ k \in Ks
  /\ start \in 0..MaxLen
  /\ S \in [1..start -> Pre]
  /\ m = M0(start)
  /\ pc = "preload"

\* the machine reads S[basePosition]; that letter is chosen now
Preload ==
  /\ pc = "preload" /\ Len(S) < MaxLen
  /\ \E c \in Letters :
       /\ S' = Append(S, c)
       /\ m' = PreloadStep(m, c)
       /\ pc' = IF m.base + 1 < start + k - 1 THEN "preload" ELSE "loop"
  /\ UNCHANGED <<k, start>>

Step ==
  /\ pc = "loop" /\ Len(S) < MaxLen
  /\ \E c \in Letters :
       /\ S' = Append(S, c)
       /\ m' = LoopStep(m, c, k)
  /\ UNCHANGED <<k, start, pc>>

Next == Preload \/ Step
Spec == Init /\ [][Next]_vars

\* every visit goes through here
Visit(p, km) == m'.out = <<p, km>>

---------------------------------------------------------------------------
(* invariants *)

TypeOK ==
  /\ k \in Ks /\ start \in 0..MaxLen /\ Len(S) <= MaxLen /\ m.base = Len(S)
  /\ pc \in {"preload", "loop"} /\ (pc = "preload") = (m.base < start + k - 1)
  /\ m.kmer \in 0..(Pow4(k) - 1)

\* "has just returned from ForEachKmerOf(S, start, Len(S))": exactly the valid windows, increasing
VisitsExact == m.vis = DeclVisits(S, k, start, Len(S))

\* the step relation and the run-to-completion operator used by the trace specification agree
RunAgrees == pc = "loop" => Run(S, k, start, Len(S)) = m

\* why it works: high is one past the last invalid letter read (0 if none) and kmer packs the
\* letters read since max(high, start, base-k)
Max3(a, b, c) == IF a >= b /\ a >= c THEN a ELSE IF b >= c THEN b ELSE c
Rolling ==
  LET bad == {p \in start..(m.base - 1) : Code(S[p + 1]) < 0}
      lo == Max3(m.high, start, m.base - k)
  IN /\ m.high = IF bad = {} THEN 0 ELSE 1 + CHOOSE p \in bad : \A q \in bad : q <= p
     /\ m.kmer = Enc([i \in 1..(m.base - lo) |-> Code(S[lo + i])])

\* a visit is reported in the step that completes its window
VisitNow ==
  [][pc = "loop" =>
       IF ValidWin(S', m.pos, k) THEN Visit(m.pos, Enc(WordAt(S', m.pos, k))) ELSE m'.out = <<>>]_vars

IndexState == start = 0 /\ pc = "loop"

\* For every word x of length k (occ[x] = its declared occurrences in S):
\*  - New: the frequency table before Build holds the number of occurrences, the extra last entry 0;
\*  - Build + KmerPositions: the bucket of x is exactly occ[x] in increasing order, so absent words are
\*    empty; nothing indexes outside finger/pos; Check() confirms every window;
\*  - lemma used by the trace specification on long sequences: occurrences and windows can be read off
\*    the table of window codes.
IndexExact ==
  IndexState =>
    LET L == Len(S)
        words == 0..(Pow4(k) - 1)
        cnt == Count(m.vis, k)
        b == Place(m.vis, PrefixSums(cnt, Pow4(k)), L - k + 1)
        codes == WinCodes(S, k)
    IN /\ \A x \in words :
            LET occ == Answer(S, k, x)                             \* the occurrences of x, increasing
            IN /\ cnt[x] = Len(occ)
               /\ PositionsOp(b, x) = occ
               /\ AscSeq(OccC(codes, x), 0, L - k) = occ
       /\ cnt[Pow4(k)] = 0
       /\ ~b.panic
       /\ CheckOp(m.vis, b) = CheckAnswer(S, k)
       /\ \A lo \in 0..L : DeclVisitsC(codes, k, lo, L) = DeclVisits(S, k, lo, L)

\* encoding, formatting, GC and reverse complement agree with the string operations (per k; evaluated
\* in the initial states only: they do not depend on the sequence)
WordLaws ==
  (start = 0 /\ S = <<>>) =>
    \A x \in 0..(Pow4(k) - 1) :
      LET w == Dec(x, k)
          t == FormatW(w)
      IN /\ IsWord(w, k) /\ Enc(w) = x
         /\ FormatOp(x, k) = t /\ TextValid(t) /\ WordOfText(t) = w
         /\ ComplementOfOp(k, x) = Enc(ComplementW(w))
         /\ FormatW(ComplementW(w)) = RevCompText(t)
         /\ ComplementW(ComplementW(w)) = w
         /\ GCofOp(k, x) = GCW(w) /\ GCW(w) = GCCountText(t)

\* the cases of the bounded model for the real code: every sequence New accepts
EmitCases ==
  (IndexState /\ Len(S) >= k + 1) =>
    Serialize(ToJson([s |-> S, k |-> k]) \o "\n", IOEnv.OUT,
              [format |-> "TXT", charset |-> "UTF-8",
               openOptions |-> <<"WRITE", "CREATE", "APPEND">>]).exitValue = 0
=============================================================================
