SPECIFICATION QSpec
CONSTANTS
  Letters = {97, 99, 116, 110, 65}
  Pre = {110}
  Ks = {2}
  MaxLen = 5
  Variant = "code"
INVARIANTS QTypeOK LastAnswerExact AnswersPure
PROPERTY HistoryFree
CHECK_DEADLOCK FALSE
