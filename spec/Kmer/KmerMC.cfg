SPECIFICATION Spec
CONSTANTS
  Letters = {97, 99, 103, 116, 110, 65}
  Pre = {110}
  Ks = {2, 3}
  MaxLen = 6
  Variant = "code"
INVARIANTS TypeOK VisitsExact RunAgrees Rolling IndexExact WordLaws
PROPERTY VisitNow
CHECK_DEADLOCK FALSE
