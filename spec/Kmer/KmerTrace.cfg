SPECIFICATION TSpec
CONSTANTS
  Letters = {}
  Pre = {}
  Ks = {}
  MaxLen = 0
  Variant = "code"
INVARIANT Emit
POSTCONDITION Consumed
CHECK_DEADLOCK FALSE
