----------------------------- MODULE KmerQueries -----------------------------
(***************************************************************************)
(* index/kmerindex (property C10), the life of one index as a state        *)
(* machine:                                                                *)
(*                                                                         *)
(*   New      the reader of Kmer.tla reads the sequence letter by letter   *)
(*            (start = 0; the sequence is whatever has been read),         *)
(*   Build    the position table tab = (finger, pos) is made from the      *)
(*            visits of that reader, as kmerindex.go makes it,             *)
(*   then any history of                                                   *)
(*   AskPositions(x)  KmerPositions / KmerPositionsString of one word      *)
(*            (also one value past the last word: an error, no positions), *)
(*   AskIndex         KmerIndex / StringKmerIndex: the answers for all     *)
(*            words at once,                                               *)
(*   AskCheck         Check(),                                             *)
(*   CallerWrites     the caller writes into memory it was handed by an    *)
(*            earlier query - it is the caller's, so it may.               *)
(*                                                                         *)
(* `ans' holds the last call and its answer until the caller has looked at *)
(* it (Forget); calls start from the quiet state, which keeps the number   *)
(* of transitions linear in the number of questions without losing any     *)
(* history of calls and writes.                                            *)
(*                                                                         *)
(* `lent' is the set of cells of the position table that memory in the     *)
(* caller's hands aliases.  The code copies every bucket it hands out, so  *)
(* lent stays empty and the caller's writes land in its own memory (no     *)
(* part of the index's state).  Variant "alias_answers" is the negative    *)
(* control: a query hands out the window pos[i:j] of the table itself.     *)
(*                                                                         *)
(* Laws                                                                    *)
(*   LastAnswerExact  the answer just given is the declarative answer      *)
(*                    Answer(S,k,x) / CheckAnswer(S,k): a function of the  *)
(*                    indexed sequence only;                               *)
(*   AnswersPure      in every state after Build, whatever the history,    *)
(*                    every question that could be asked now would get     *)
(*                    that answer;                                         *)
(*   HistoryFree      (action law) no query and nothing the caller does    *)
(*                    with earlier answers changes the answer of any       *)
(*                    later query: answers do not depend on earlier        *)
(*                    queries or on what the caller did with them.         *)
(***************************************************************************)
EXTENDS Kmer

Sentinel == -7      \* what the caller writes; no position is negative

VARIABLES
  tab,    \* the index's tables after Build: [f |-> finger, pos |-> positions, panic |-> ...]
  ans,    \* the last call and what it answered: [op, x, r]
  lent    \* cells of tab.pos aliased by memory the caller holds

qvars == <<vars, tab, ans, lent>>

Quiet == [op |-> "quiet", x |-> 0, r |-> <<>>]
NoTab == [f |-> <<>>, pos |-> <<>>, panic |-> FALSE]
Words == 0..(Pow4(k) - 1)
Cells(x) == BucketLo(tab.f, x)..(tab.f[x] - 1)                 \* the bucket of word x in pos
Handed(cells) == IF Variant = "alias_answers" THEN cells ELSE {}   \* code: positions = make([]int, j-i); copy

QInit ==
  /\ Init /\ start = 0
  /\ tab = NoTab /\ ans = Quiet /\ lent = {}

\* New: buildKmerTable runs the reader over the whole sequence
Reading == Next /\ UNCHANGED <<tab, ans, lent>>

\* New succeeded (at least k+1 letters) and Build is called
Build ==
  /\ IndexState /\ Len(S) >= k + 1
  /\ pc' = "built"
  /\ tab' = Built(m.vis, k, Len(S))
  /\ ans' = Quiet
  /\ lent' = {}
  /\ UNCHANGED <<S, k, start, m>>

AskPositions(x) ==
  /\ pc = "built" /\ ans = Quiet
  /\ ans' = [op |-> "positions", x |-> x, r |-> IF x \in Words THEN PositionsOp(tab, x) ELSE <<>>]
  /\ lent' = lent \cup (IF x \in Words THEN Handed(Cells(x)) ELSE {})
  /\ UNCHANGED <<vars, tab>>

AskIndex ==
  /\ pc = "built" /\ ans = Quiet
  /\ ans' = [op |-> "index", x |-> 0, r |-> [x \in Words |-> PositionsOp(tab, x)]]
  /\ lent' = lent \cup Handed(UNION {Cells(x) : x \in Words})
  /\ UNCHANGED <<vars, tab>>

AskCheck ==
  /\ pc = "built" /\ ans = Quiet
  /\ ans' = [op |-> "check", x |-> 0, r |-> CheckOp(m.vis, tab)]
  /\ UNCHANGED <<vars, tab, lent>>

\* the caller overwrites one element of something it was handed: a cell of the table if that memory
\* aliases the table, otherwise a cell of the caller's own copy (not part of this state)
CallerWrites ==
  /\ pc = "built" /\ ans = Quiet
  /\ \/ \E c \in lent : tab' = [tab EXCEPT !.pos[c] = Sentinel]
     \/ Variant # "alias_answers" /\ tab' = tab
  /\ UNCHANGED <<vars, ans, lent>>

\* the caller has read the answer
Forget ==
  /\ pc = "built" /\ ans # Quiet
  /\ ans' = Quiet
  /\ UNCHANGED <<vars, tab, lent>>

QNext ==
  \/ Reading
  \/ Build
  \/ \E x \in 0..Pow4(k) : AskPositions(x)
  \/ AskIndex
  \/ AskCheck
  \/ CallerWrites
  \/ Forget

QSpec == QInit /\ [][QNext]_qvars

---------------------------------------------------------------------------
QTypeOK ==
  /\ pc \in {"preload", "loop", "built"} /\ start = 0 /\ k \in Ks /\ Len(S) <= MaxLen
  /\ (pc # "built") => (tab = NoTab /\ lent = {})
  /\ (pc = "built") => (lent \subseteq DOMAIN tab.pos /\ ~tab.panic /\ DOMAIN tab.pos = 0..(Len(S) - k))
  /\ (Variant = "code") => lent = {}

LastAnswerExact ==
  (pc = "built") =>
    CASE ans.op = "positions" -> ans.r = IF ans.x \in Words THEN Answer(S, k, ans.x) ELSE <<>>
      [] ans.op = "index"     -> ans.r = [x \in Words |-> Answer(S, k, x)]
      [] ans.op = "check"     -> ans.r = CheckAnswer(S, k)
      [] OTHER                -> TRUE

AnswersPure ==
  (pc = "built") =>
    /\ \A x \in Words : PositionsOp(tab, x) = Answer(S, k, x)
    /\ CheckOp(m.vis, tab) = CheckAnswer(S, k)

HistoryFree ==
  [][(pc = "built") =>
       /\ \A x \in Words : PositionsOp(tab', x) = PositionsOp(tab, x)
       /\ CheckOp(m.vis, tab') = CheckOp(m.vis, tab)]_qvars
=============================================================================
