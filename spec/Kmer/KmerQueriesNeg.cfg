SPECIFICATION QSpec
CONSTANTS
  Letters = {97, 99, 116, 110, 65}
  Pre = {110}
  Ks = {2}
  MaxLen = 4
  Variant = "alias_answers"
INVARIANTS LastAnswerExact
CHECK_DEADLOCK FALSE
