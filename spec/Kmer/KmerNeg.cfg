SPECIFICATION Spec
CONSTANTS
  Letters = {97, 99, 103, 116, 110, 65}
  Pre = {110}
  Ks = {2, 3}
  MaxLen = 5
  Variant = "high_before_increment"
INVARIANTS VisitsExact IndexExact
CHECK_DEADLOCK FALSE
