------------------------------ MODULE KmerTrace ------------------------------
(***************************************************************************)
(* Trace specification for index/kmerindex (property C10).  One event per  *)
(* step; every event is a record of calls made on the REAL code by         *)
(* harness/kmerd with what they returned.  Each result is recomputed from  *)
(* the event's own arguments with the operators of Kmer.tla:               *)
(*                                                                         *)
(*  op = "case":   one sequence s (bytes) indexed with word length k:      *)
(*       New's error, KmerFrequencies before Build, Check(), KmerIndex /   *)
(*       StringKmerIndex maps, single KmerPositions(String) look-ups,      *)
(*       ForEachKmerOf call-backs on sub-ranges; for short sequences also  *)
(*       the finger/pos arrays, compared with the operational model (a     *)
(*       difference there is model drift, not a verdict).                  *)
(*  op = "word":   Format, KmerOf(Format), ComplementOf, GCof of one word. *)
(*  op = "kmerof": KmerOf of an arbitrary text.                            *)
(*                                                                         *)
(* The harness uses the index as a caller may: after every query that      *)
(* hands out a slice or a map it overwrites every element of what it was   *)
(* handed with e.sentinel, and when all questions have been asked it asks  *)
(* them all again (fields with the suffix 2: frequencies before Build;     *)
(* Check, both maps, the single look-ups and the array accessors after).   *)
(* By the laws of KmerQueries.tla an answer is a function of the indexed   *)
(* sequence only, so BOTH rounds are judged by the same operators against  *)
(* the same declarative answers (Again(e) presents the second round to     *)
(* CaseParts).                                                             *)
(*                                                                         *)
(* Short sequences ("tiny") are judged with Occ and DeclVisits directly,   *)
(* longer ones through the table of window codes (last part of IndexExact,        *)
(* checked by TLC in KmerMC).                                              *)
(***************************************************************************)
EXTENDS Kmer

Trace == ndJsonDeserialize(IOEnv.TRACE)
VARIABLES l, fails, drift

Ascii(t) == \A i \in 1..Len(t) : t[i] < 128
FirstBad(parts) ==
  LET bad == SelectSeq(parts, LAMBDA x : ~x[1]) IN IF bad = <<>> THEN "" ELSE bad[1][2]
AllBad(parts) ==
  LET bad == SelectSeq(parts, LAMBDA x : ~x[1]) IN [i \in 1..Len(bad) |-> bad[i][2]]
FnSeq(f, n) == [i \in 1..n |-> f[i - 1]]          \* a 0-based array as a sequence

\* ---- op = "case" ----
NewOk(e) == e.k >= e.mink /\ e.k <= 16 /\ Len(e.s) >= e.k + 1

CaseParts(e) ==
  LET s == e.s
      kk == e.k
      L == Len(s)
      codes == WinCodes(s, kk)
      occ(x) == IF e.tiny THEN Occ(s, kk, Dec(x, kk)) ELSE OccC(codes, x)
      asc(x) == IF e.tiny THEN Answer(s, kk, x) ELSE AscSeq(occ(x), 0, L - kk)
      keys == {codes[p] : p \in DOMAIN codes} \ {-1}
      nwin == Cardinality({p \in DOMAIN codes : codes[p] >= 0})
      visits(st, en) == IF e.tiny THEN DeclVisits(s, kk, st, en) ELSE DeclVisitsC(codes, kk, st, en)
      isKmer(x) == x >= 0 /\ x < Pow4(kk)
      isWordText(t) == Len(t) = kk /\ TextValid(t)
  IN <<
    <<e.panic = "", "a call panicked: " \o e.panic>>,
    <<e.freqok /\ e.freqn = Cardinality(keys) /\ e.freqsum = nwin,
      "KmerFrequencies: number of words or total count differs from the occurrences in the sequence">>,
    <<e.full => /\ Len(e.freq) = e.freqn
                /\ {e.freq[i][1] : i \in 1..Len(e.freq)} = keys
                /\ \A i \in 1..Len(e.freq) : e.freq[i][2] = Cardinality(occ(e.freq[i][1])),
      "KmerFrequencies: a frequency is not the number of occurrences of its word">>,
    <<\A i \in 1..Len(e.fq) : e.fq[i][2] = Cardinality(occ(e.fq[i][1])),
      "KmerFrequencies: the frequency of a looked-up word is not its number of occurrences">>,
    <<e.chkok /\ e.chkfound = nwin, "Check() after Build: not ok, or found differs from the number of valid windows">>,
    <<e.indexn = Cardinality(keys), "KmerIndex: number of words differs from the words occurring in the sequence">>,
    <<e.full => /\ Len(e.index) = e.indexn
                /\ {e.index[i][1] : i \in 1..Len(e.index)} = keys
                /\ \A i \in 1..Len(e.index) : e.index[i][2] = asc(e.index[i][1]),
      "KmerIndex: positions of a word are not exactly its occurrences in increasing order">>,
    <<e.sfull => /\ Len(e.sindex) = e.indexn
                 /\ Cardinality({e.sindex[i][1] : i \in 1..Len(e.sindex)}) = e.indexn
                 /\ \A i \in 1..Len(e.sindex) :
                      LET t == e.sindex[i][1] IN
                      /\ isWordText(t) /\ t = FormatW(WordOfText(t))
                      /\ e.sindex[i][2] = asc(Enc(WordOfText(t))),
      "StringKmerIndex: a key is not a word, or its positions are not exactly its occurrences">>,
    <<\A i \in 1..Len(e.q) :
        LET x == e.q[i][1] IN
        IF isKmer(x) THEN e.q[i][2] = "" /\ e.q[i][3] = asc(x)
        ELSE e.q[i][2] # "" /\ e.q[i][3] = <<>>,
      "KmerPositions: positions are not exactly the occurrences of the word (or no error for a word out of range)">>,
    <<\A i \in 1..Len(e.qt) :
        LET t == e.qt[i][1] IN
        Ascii(t) =>
          /\ e.qt[i][4] = ""
          /\ IF isWordText(t) THEN e.qt[i][2] = "" /\ e.qt[i][3] = asc(Enc(WordOfText(t)))
             ELSE e.qt[i][2] # "" /\ e.qt[i][3] = <<>>,
      "KmerPositionsString: positions are not exactly the occurrences of the word (or panic / no error for a text that is not a word)">>,
    <<\A i \in 1..Len(e.ranges) :
        LET st == e.ranges[i][1]
            en == e.ranges[i][2]
        IN (0 <= st /\ st <= en /\ en <= L) => e.ranges[i][4] = visits(st, en),
      "ForEachKmerOf: the call-backs are not exactly the valid windows of the range in increasing order">>,
    \* the sequence walked is an argument: another sequence than the indexed one is walked by its own length
    <<\A i \in 1..Len(e.ranges2) :
        LET st == e.ranges2[i][1]
            en == e.ranges2[i][2]
            v2 == IF e.tiny THEN DeclVisits(e.s2, kk, st, en) ELSE DeclVisitsC(WinCodes(e.s2, kk), kk, st, en)
        IN (0 <= st /\ st <= en /\ en <= Len(e.s2)) => e.ranges2[i][4] = v2,
      "ForEachKmerOf over another sequence than the indexed one: the call-backs are not exactly the valid windows of the range">>
  >>

\* the second round of questions, presented as the first (the call-backs on sub-ranges are not repeated)
Again(e) ==
  [e EXCEPT !.freqok = e.freqok2, !.freqn = e.freqn2, !.freqsum = e.freqsum2, !.freq = e.freq2, !.fq = e.fq2,
            !.chkok = e.chkok2, !.chkfound = e.chkfound2, !.indexn = e.indexn2, !.index = e.index2,
            !.sindex = e.sindex2, !.q = e.q2, !.qt = e.qt2, !.ranges = <<>>]
\* the log itself: the second round asks the single look-ups of the first, in the same order
SameQuestions(e) ==
  /\ [i \in 1..Len(e.q) |-> e.q[i][1]] = [i \in 1..Len(e.q2) |-> e.q2[i][1]]
  /\ [i \in 1..Len(e.qt) |-> e.qt[i][1]] = [i \in 1..Len(e.qt2) |-> e.qt2[i][1]]
  /\ [i \in 1..Len(e.fq) |-> e.fq[i][1]] = [i \in 1..Len(e.fq2) |-> e.fq2[i][1]]
\* explanation added to a failure (evaluated only then): an answer holds the value the caller wrote
Leaks(e) ==
  LET has(list, j) == \E i \in 1..Len(list) : \E n \in 1..Len(list[i][j]) : list[i][j][n] = e.sentinel
  IN has(e.index, 2) \/ has(e.sindex, 2) \/ has(e.q, 3) \/ has(e.qt, 3)
Explain(e, why) ==
  IF why # "" /\ Leaks(e)
    THEN why \o " - an answer contains " \o ToString(e.sentinel) \o
         ", which the caller wrote into a result it had been handed earlier: results share memory with the index"
    ELSE why
AgainPrefix == "asked again after the caller overwrote every slice and map it had been handed: "

CaseReason(e) ==
  IF e.err # "" \/ ~NewOk(e)
    THEN IF e.panic # "" THEN "New panicked: " \o e.panic
         ELSE IF (e.err = "") = NewOk(e) THEN ""
         ELSE "New: error exactly when k is outside [MinKmerLen,16] or the sequence is shorter than k+1 expected, got '" \o e.err \o "'"
    ELSE LET first == FirstBad(CaseParts(e)) IN
         IF first # "" THEN Explain(e, first)
         ELSE IF ~SameQuestions(e) THEN "the second round of the log does not repeat the look-ups of the first (harness)"
         ELSE LET second == FirstBad(CaseParts(Again(e))) IN
              IF second = "" THEN "" ELSE AgainPrefix \o Explain(Again(e), second)

\* outside the statement: the internal arrays against the operational model; errors on ranges that are
\* inside the sequence; panics on texts that are not ASCII
CaseDrift(e) ==
  IF e.err # "" \/ ~NewOk(e) THEN <<>>
  ELSE LET s == e.s
           kk == e.k
           L == Len(s)
           arrays ==
             e.tiny =>
               LET mm == Run(s, kk, 0, L)
                   b == Built(mm.vis, kk, L)
               IN /\ e.fpre = FnSeq(Count(mm.vis, kk), Pow4(kk) + 1)
                  /\ e.fpost = FnSeq(b.f, Pow4(kk) + 1)
                  /\ e.posarr = FnSeq(b.pos, L - kk + 1)
       IN AllBad(<<
            <<arrays, "finger/pos arrays differ from the operational model">>,
            <<e.fpre2 = e.fpre /\ e.fpost2 = e.fpost /\ e.posarr2 = e.posarr,
              "finger/pos arrays read again after the caller overwrote the copies it had been handed differ from the first reading">>,
            <<\A i \in 1..Len(e.ranges) :
                (0 <= e.ranges[i][1] /\ e.ranges[i][1] <= e.ranges[i][2] /\ e.ranges[i][2] <= L
                 /\ e.ranges[i][1] + kk - 1 <= L) => e.ranges[i][3] = "",
              "ForEachKmerOf returns an error for a range it can read">>,
            <<\A i \in 1..Len(e.ranges) :
                (0 <= e.ranges[i][1] /\ e.ranges[i][1] <= e.ranges[i][2] /\ e.ranges[i][2] <= L) => e.ranges[i][3] = "",
              "ForEachKmerOf returns an error (and no call-backs) for a range that starts within k-2 letters of the end of the sequence">>,
            <<\A i \in 1..Len(e.qt) : e.qt[i][4] = "", "KmerPositionsString panics on a text that is not ASCII">>
          >>)

\* ---- op = "word", "kmerof" ----
WordReason(e) ==
  LET w == Dec(e.kmer, e.k)
      t == FormatW(w)
  IN FirstBad(<<
       <<e.panic = "", "a word function panicked: " \o e.panic>>,
       <<e.text = t, "Format: not the word spelled by the packed value">>,
       <<e.backerr = "" /\ e.back = e.kmer, "KmerOf(Format(kmer)) is not kmer">>,
       <<e.comp = Enc(ComplementW(w)) /\ e.comptext = RevCompText(t),
         "ComplementOf: not the reverse complement of the word">>,
       <<e.gcppm = Ppm(GCCountText(t), e.k), "GCof: not the fraction of c and g letters">>
     >>)

KmerOfReason(e) ==
  IF ~Ascii(e.text) THEN ""
  ELSE FirstBad(<<
       <<e.panic = "", "KmerOf panicked: " \o e.panic>>,
       <<IF Len(e.text) = e.k /\ TextValid(e.text) THEN e.err = "" /\ e.kmer = Enc(WordOfText(e.text))
         ELSE e.err # "",
         "KmerOf: not the packed word (or no error for a text that is not a word of length k)">>
     >>)

Reason(e) == IF e.op = "case" THEN CaseReason(e)
             ELSE IF e.op = "word" THEN WordReason(e)
             ELSE KmerOfReason(e)
DriftNotes(e) == IF e.op = "case" THEN CaseDrift(e)
                 ELSE IF e.op = "kmerof" /\ e.panic # "" THEN <<"KmerOf panics on a text that is not ASCII">>
                 ELSE <<>>

TInit ==
  /\ S = <<>> /\ k = 2 /\ start = 0 /\ m = M0(0) /\ pc = "preload"
  /\ l = 1 /\ fails = <<>> /\ drift = <<>>

TStep ==
  /\ l <= Len(Trace) /\ l' = l + 1
  /\ LET e == Trace[l]
         why == Reason(e)
         notes == DriftNotes(e)
     IN /\ fails' = IF why = "" THEN fails ELSE Append(fails, <<l, why>>)
        /\ drift' = drift \o [i \in 1..Len(notes) |-> <<l, notes[i]>>]
  /\ UNCHANGED vars

TSpec == TInit /\ [][TStep]_<<vars, l, fails, drift>>

Emit ==
  (l = Len(Trace) + 1) =>
    Serialize(ToJson([events |-> Len(Trace), fails |-> fails, drift |-> drift]), IOEnv.OUT,
              [format |-> "TXT", charset |-> "UTF-8",
               openOptions |-> <<"WRITE", "CREATE", "TRUNCATE_EXISTING">>]).exitValue = 0
Consumed == TLCGet("stats").diameter - 1 = Len(Trace)
=============================================================================
