SPECIFICATION Spec
CONSTANTS
  KD = 8
  ResetFastOnClear = TRUE
  FastPathAutoClean = FALSE
  TruncateChunkOnClear = TRUE
  ChunkSizes = {1, 2, 3}
  Keys = {1, 2}
  MaxPush = 7
  MaxCycles = 3
  ACs = {TRUE, FALSE}
  Concs = {TRUE, FALSE}
  ACLs = {TRUE, FALSE}
  CleanUps = TRUE
  AltKeys = FALSE
  CanonPull = FALSE
VIEW View
INVARIANTS NoRunFilesAfterAutoClearDrain NoDirAfterAutoCleanDrain NoDirAfterCleanUp DiskNonNegative PoolBound ChunkReady FastOnlyWhileDraining CleanStart AbsTypeOK
PROPERTY Refines
CHECK_DEADLOCK FALSE
