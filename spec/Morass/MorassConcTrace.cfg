SPECIFICATION TSpec
CONSTANTS
  CSs = {1}
  NPushes = {40}
  FinaliseWaits = TRUE
INVARIANT Emit
POSTCONDITION Consumed
CHECK_DEADLOCK FALSE
