SPECIFICATION TSpec
CONSTANTS
  CSs = {1}
  NPushes = {40}
  Concs = {TRUE}
  FaultKinds = {"none"}
  SetErrOnlyIfNonNil = TRUE
  FinaliseWaits = TRUE
INVARIANT Emit
POSTCONDITION Consumed
CHECK_DEADLOCK FALSE
