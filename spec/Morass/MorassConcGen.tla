---------------------------- MODULE MorassConcGen ---------------------------
EXTENDS MorassConc

(***************************************************************************)
(* Schedule generation for the replay harness: internal steps are taken    *)
(* eagerly (a goroutine not held at a gate runs on by itself), so a        *)
(* behaviour is a sequence of releases, each with the arrivals it causes.  *)
(***************************************************************************)
VARIABLE sched

ArrivalsAfter(before, after, p) ==
  {<<q, GateOf(after, q)>> : q \in {r \in Procs : GateOf(after, r) # "" /\ (r = p \/ GateOf(before, r) = "")}}

GenInit == (\E cs \in CSs, n \in NPushes, c \in Concs : \E f \in FaultsFor(cs, n) : st = InitState(cs, n, c, f)) /\ last = <<"init">> /\ sched = <<>>

GenNext ==
  \E p \in Procs :
    /\ CanRelease(st, p)
    /\ LET t == Settle(Released(st, p)) IN
       /\ st' = t
       /\ last' = <<"release", p, GateOf(st, p)>>
       /\ sched' = Append(sched, [p |-> p, g |-> GateOf(st, p),
                                  arr |-> ArrivalsAfter(st, t, p),
                                  blocked |-> {q \in Procs : GateOf(t, q) = "" /\
                                                 (IF q = Caller THEN t.cpc \notin {"pulling", "failed"}
                                                  ELSE t.wpc[q[2]] \notin {"none", "done"})}])

GenSpec == GenInit /\ [][GenNext]_<<st, last, sched>>

EmitSchedule ==
  Terminated(st) =>
    Serialize(ToJson([cs |-> st.cs, npush |-> st.n, conc |-> st.conc, fault |-> st.fault,
                   reported |-> st.reported, sched |-> sched]) \o "\n", IOEnv.OUT,
              [format |-> "TXT", charset |-> "UTF-8",
               openOptions |-> <<"WRITE", "CREATE", "APPEND">>]).exitValue = 0
=============================================================================
