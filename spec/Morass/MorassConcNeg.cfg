SPECIFICATION Spec
CONSTANTS
  CSs = {1, 2, 3}
  NPushes = {0, 1, 2, 3, 4, 5, 6, 7}
  Concs = {TRUE}
  FaultKinds = {"none"}
  SetErrOnlyIfNonNil = TRUE
  FinaliseWaits = FALSE
VIEW View
INVARIANTS TypeOK FinaliseComplete RaceFree NoTornRun
CHECK_DEADLOCK TRUE
