----------------------------- MODULE MorassImpl -----------------------------
(***************************************************************************)
(* The implementation-shaped sorter (operators in MorassOps) driven through *)
(* the usage grammar of C11, explored exhaustively by TLC and shown to     *)
(* refine the abstract sorter Morass.                                      *)
(***************************************************************************)
EXTENDS MorassOps, TLC, Json, IOUtils

(***************************************************************************)
(* The machine explored by TLC: the usage grammar of C11.                  *)
(***************************************************************************)
CONSTANTS
  ChunkSizes, Keys, MaxPush, MaxCycles, ACs, Concs, ACLs,
  CleanUps,    \* TRUE: CleanUp calls are part of the explored histories
  AltKeys,     \* TRUE: the i-th push of a cycle has key 2 - (i % 2) (behaviour generation)
  CanonPull    \* TRUE: among equal keys Pull takes the least value (behaviour generation)

VARIABLES s, phase, cycle, res, hist

vars == <<s, phase, cycle, res, hist>>

Init ==
  /\ \E cs \in ChunkSizes, a \in ACs, c \in Concs, x \in ACLs :
       /\ s = InitState(cs, a, c, x)
       /\ res = [op |-> "new", cs |-> cs, ac |-> a, conc |-> c, acl |-> x]
  /\ phase = "fill" /\ cycle = 1
  /\ hist = <<res>>

Log == hist' = Append(hist, res')

KeysFor(i) == IF AltKeys THEN {2 - (i % 2)} ELSE Keys

\* Values pushed in a cycle get distinct identities: id = number pushed so far.
Push ==
  /\ phase = "fill" /\ cycle <= MaxCycles /\ s.len < MaxPush /\ CanPush(s)
  /\ \E k \in KeysFor(s.len) :
       LET v == k * KD + s.len IN
       /\ s' = PushOf(s, v)
       /\ res' = [op |-> "push", v |-> v]
  /\ UNCHANGED <<phase, cycle>> /\ Log

Finalise ==
  /\ phase = "fill" /\ cycle <= MaxCycles
  /\ s' = FinaliseOf(s)
  /\ phase' = "drain"
  /\ res' = [op |-> "finalise"]
  /\ UNCHANGED cycle /\ Log

Pull ==
  /\ phase = "drain"
  /\ \E v \in Candidates(s) :
       /\ CanPull(s, v)
       /\ CanonPull => \A w \in Candidates(s) : CanPull(s, w) => v <= w
       /\ s' = PullOf(s, v)
       /\ res' = [op |-> "pull", v |-> v]
  /\ UNCHANGED <<phase, cycle>> /\ Log

\* Pull on an exhausted sorter: io.EOF.  With AutoClear this ends the cycle.
PullEOF ==
  /\ phase = "drain" \/ (phase = "eof" /\ ~s.ac)
  /\ phase = "eof" => res.op # "eof"          \* at most one extra EOF pull
  /\ IsEOF(s)
  /\ s' = PullEOFOf(s)
  /\ res' = [op |-> "eof"]
  /\ IF ~s'.dir THEN phase' = "dead" /\ cycle' = MaxCycles + 1     \* AutoClean: the sorter is gone
     ELSE IF s.ac
       THEN phase' = "fill" /\ cycle' = cycle + 1
       ELSE phase' = "eof" /\ UNCHANGED cycle
  /\ Log

Clear ==
  /\ phase \in {"drain", "eof"}
  /\ s' = ClearOf(s)
  /\ phase' = "fill" /\ cycle' = cycle + 1
  /\ res' = [op |-> "clear"]
  /\ Log

\* CleanUp ends the life of a sorter at any quiescent point.
CleanUp ==
  /\ phase \in {"fill", "drain", "eof"} /\ cycle <= MaxCycles /\ res.op # "new"
  /\ phase = "fill" => ~s.conc      \* not while background writers may be running
  /\ s' = CleanUpOf(s)
  /\ phase' = "dead" /\ cycle' = MaxCycles + 1
  /\ res' = [op |-> "cleanup"]
  /\ Log

Next == Push \/ Finalise \/ Pull \/ PullEOF \/ Clear \/ (CleanUps /\ CleanUp)

Spec == Init /\ [][Next]_vars

View == <<s, phase, cycle>>

(***************************************************************************)
(* Refinement: the implementation state read as an abstract sorter.        *)
(***************************************************************************)
HeldOf ==
  IF phase = "fill" THEN s.chunk \cup UnionSeq(s.files) ELSE Candidates(s)

AbsMode == phase

Abs == INSTANCE Morass WITH
         mode <- AbsMode, held <- HeldOf, pos <- s.pos, len <- s.len, ac <- s.ac

Refines == Abs!ASpec

(***************************************************************************)
(* Implementation-level invariants.                                        *)
(***************************************************************************)
\* C13, residue: draining with AutoClear leaves no run files; draining with AutoClean, or
\* CleanUp, leaves no directory.
NoRunFilesAfterAutoClearDrain == (res.op = "eof" /\ s.ac /\ s.dir) => s.disk = 0
NoDirAfterAutoCleanDrain == (res.op = "eof" /\ s.acl) => ~s.dir
NoDirAfterCleanUp == res.op = "cleanup" => ~s.dir
DiskNonNegative == s.disk >= 0
PoolBound == s.pool \in 0..2
\* a buffer is always available to the caller at the start of a cycle
ChunkReady == phase = "fill" => ~s.chunkNil
\* `fast' is only ever set while an in-memory drain is in progress
FastOnlyWhileDraining == (phase = "fill") => ~s.fast
\* a fresh cycle starts from an empty chunk and no runs
CleanStart == (phase = "fill" /\ s.len = 0) => s.chunk = {} /\ s.files = <<>>
AbsTypeOK == Abs!ATypeOK

(***************************************************************************)
(* Behaviour emission: every complete behaviour of the bounded model is    *)
(* appended to the file named by the environment variable OUT as one JSON  *)
(* line; the Go harness replays each on a real *morass.Morass.             *)
(***************************************************************************)
Complete == cycle = MaxCycles + 1
EmitBehaviours ==
  Complete =>
    Serialize(ToJson(hist) \o "\n", IOEnv.OUT,
              [format |-> "TXT", charset |-> "UTF-8",
               openOptions |-> <<"WRITE", "CREATE", "APPEND">>]).exitValue = 0
=============================================================================
