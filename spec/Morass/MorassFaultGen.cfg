SPECIFICATION GenSpec
CONSTANTS
  CSs = {1, 2}
  NPushes = {1, 2, 3, 4, 5}
  Concs = {TRUE, FALSE}
  FaultKinds = {"tempfile", "encode", "sync"}
  SetErrOnlyIfNonNil = TRUE
  FinaliseWaits = TRUE
INVARIANTS EmitSchedule
CHECK_DEADLOCK FALSE
