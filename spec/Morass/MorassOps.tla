----------------------------- MODULE MorassOps ------------------------------
(***************************************************************************)
(* Implementation-shaped model of morass.Morass used sequentially          *)
(* (concurrent = false, or concurrent = true observed at quiescence).      *)
(* One operator per API call, written the way morass.go is written: the    *)
(* in-memory chunk, the run files, the buffer pool, the `fast' flag.       *)
(*                                                                         *)
(* Two named deviations reproduce the code as it was found:                *)
(*   ResetFastOnClear     = FALSE : Clear leaves `fast' set                *)
(*   TruncateChunkOnClear = FALSE : Clear keeps a non-nil chunk's contents *)
(* With both TRUE the model is the repaired code and refines Morass.       *)
(*                                                                         *)
(* Representation notes.  A run (sorted chunk on disk) is the *set* of its *)
(* remaining values: the order among equal keys inside a run is arbitrary  *)
(* (sort.Sort is not stable), so the choice of the next head can be        *)
(* postponed to the moment it is pulled without changing the observable    *)
(* behaviours.  The chunk is the set of values in m.chunk; `pulled' is the *)
(* set already returned by the in-memory (fast) drain, whose cursor is pos.*)
(***************************************************************************)
EXTENDS Integers, Sequences, FiniteSets

CONSTANTS
  KD,                    \* key divisor
  ResetFastOnClear,      \* TRUE = repaired
  TruncateChunkOnClear,  \* TRUE = repaired
  FastPathAutoClean      \* TRUE = repaired: AutoClean also honoured when the sort stayed in memory (C13)

Key(v) == v \div KD
IsMin(v, S) == v \in S /\ \A w \in S : Key(v) <= Key(w)

RECURSIVE UnionSeq(_)
UnionSeq(fs) == IF fs = <<>> THEN {} ELSE Head(fs) \cup UnionSeq(Tail(fs))

RemoveAt(fs, i) == [j \in 1..(Len(fs) - 1) |-> IF j < i THEN fs[j] ELSE fs[j + 1]]

(***************************************************************************)
(* State record:                                                           *)
(*   cs        chunk size (cap of every buffer)                            *)
(*   ac        AutoClear                                                   *)
(*   chunkNil  m.chunk == nil                                              *)
(*   chunk     set of values in m.chunk                                    *)
(*   pulled    values already handed out by the fast drain                 *)
(*   files     sequence of runs (sets of remaining values), in heap        *)
(*   pool      number of buffers waiting in m.pool (capacity 2)            *)
(*   fast, pos, len as in the code                                         *)
(***************************************************************************)
InitState(cs, ac, conc, acl) ==
  [cs |-> cs, ac |-> ac, acl |-> acl, conc |-> conc, chunkNil |-> FALSE, chunk |-> {}, pulled |-> {},
   files |-> <<>>, pool |-> IF conc THEN 1 ELSE 0, fast |-> FALSE,
   pos |-> 0, len |-> 0,
   disk |-> 0,       \* run files present in the temporary directory
   dir |-> TRUE]     \* the temporary directory exists

\* write(): the chunk becomes a run; its buffer goes back to the pool.
SpillOf(s) ==
  [s EXCEPT !.files = Append(@, s.chunk), !.pool = @ + 1, !.disk = @ + 1]

\* Push: a full chunk is spilled first, the caller takes a buffer from the pool.
CanPush(s) == ~s.chunkNil
PushOf(s, v) ==
  LET t == IF Cardinality(s.chunk) = s.cs
             THEN [SpillOf(s) EXCEPT !.chunk = {}, !.pool = @ - 1]   \* +1 by writer, -1 by caller
             ELSE s
  IN [t EXCEPT !.chunk = @ \cup {v}, !.pos = @ + 1, !.len = @ + 1]

\* Finalise: in-memory path when fewer values than one chunk were pushed,
\* otherwise write the last run (if any).  Files are primed only if !fast.
FinaliseOf(s) ==
  IF s.chunkNil THEN s
  ELSE
    LET t == IF s.pos < s.cs
               THEN [s EXCEPT !.fast = TRUE]
               ELSE IF s.chunk # {}
                 THEN [SpillOf(s) EXCEPT !.chunk = {}, !.chunkNil = TRUE]
                 ELSE s
    IN [t EXCEPT !.pos = 0, !.pulled = {}]

ClearOf(s) ==
  LET b == [s EXCEPT !.files = <<>>, !.pos = 0, !.len = 0, !.pulled = {},
                     !.disk = @ - Len(s.files),         \* Close + os.Remove of every run still registered
                     !.fast = IF ResetFastOnClear THEN FALSE ELSE @]
  IN IF b.pool > 0
       THEN [b EXCEPT !.pool = @ - 1, !.chunkNil = FALSE, !.chunk = {}]
       ELSE IF TruncateChunkOnClear /\ ~b.chunkNil
         THEN [b EXCEPT !.chunk = {}]
         ELSE b

\* The set Pull may choose its result from, following the code's branches.
FastLive(s) == s.fast /\ ~s.chunkNil /\ s.pos < Cardinality(s.chunk)
Candidates(s) ==
  IF s.fast
    THEN IF FastLive(s) THEN s.chunk \ s.pulled ELSE {}
    ELSE UnionSeq(s.files)

CanPull(s, v) == IsMin(v, Candidates(s))

PullOf(s, v) ==
  IF s.fast
    THEN [s EXCEPT !.pos = @ + 1, !.pulled = @ \cup {v}]
    ELSE
      LET i == CHOOSE j \in 1..Len(s.files) : v \in s.files[j]
          r == s.files[i] \ {v}
      IN [s EXCEPT !.pos = @ + 1,
                   !.files = IF r = {} THEN RemoveAt(@, i) ELSE [@ EXCEPT ![i] = r],
                   \* an exhausted run is closed, and removed from disk only under AutoClear
                   !.disk = IF r = {} /\ s.ac THEN @ - 1 ELSE @]

IsEOF(s) == Candidates(s) = {}

PullEOFOf(s) ==
  LET t == IF s.fast /\ ~s.chunkNil
             THEN [s EXCEPT !.pool = @ + 1, !.chunkNil = TRUE, !.chunk = {}, !.pulled = {}]
             ELSE s
      u == IF t.ac THEN ClearOf(t) ELSE t
  IN IF u.acl /\ (FastPathAutoClean \/ ~s.fast)
       THEN [u EXCEPT !.dir = FALSE, !.disk = 0]          \* os.RemoveAll(m.dir)
       ELSE u

CleanUpOf(s) == [s EXCEPT !.dir = FALSE, !.disk = 0]
=============================================================================
