SPECIFICATION Spec
CONSTANTS
  KD = 8
  ResetFastOnClear = TRUE
  TruncateChunkOnClear = FALSE
  ChunkSizes = {1, 2, 3}
  Keys = {1, 2}
  MaxPush = 7
  MaxCycles = 3
  ACs = {TRUE, FALSE}
  Concs = {TRUE, FALSE}
  AltKeys = FALSE
  CanonPull = FALSE
VIEW View
PROPERTY Refines
CHECK_DEADLOCK FALSE
