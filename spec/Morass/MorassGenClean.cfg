SPECIFICATION Spec
CONSTANTS
  KD = 8
  ResetFastOnClear = TRUE
  FastPathAutoClean = TRUE
  TruncateChunkOnClear = TRUE
  ChunkSizes = {1, 2}
  Keys = {1, 2}
  MaxPush = 5
  MaxCycles = 2
  ACs = {TRUE, FALSE}
  Concs = {TRUE, FALSE}
  ACLs = {TRUE}
  CleanUps = TRUE
  AltKeys = TRUE
  CanonPull = TRUE
INVARIANTS EmitBehaviours
CHECK_DEADLOCK FALSE
