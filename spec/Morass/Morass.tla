------------------------------- MODULE Morass -------------------------------
(***************************************************************************)
(* Abstract specification of biogo's external sorter (package morass) as   *)
(* its users see it (property C11).                                        *)
(*                                                                         *)
(* A sorter is used in cycles:  Push* ; Finalise ; Pull* ; Clear.          *)
(* Values are integers; the sort key of v is v \div KD, the low part is an *)
(* identity that makes values with equal keys distinguishable, so that     *)
(* "the multiset pushed" is the *set* of values pushed (the drivers never  *)
(* push the same integer twice in one cycle).  The order among equal keys  *)
(* is left open (sort.Sort and the merge heap are not stable).             *)
(***************************************************************************)
EXTENDS Integers, FiniteSets

CONSTANT KD            \* key divisor: Key(v) = v \div KD

VARIABLES
  mode,    \* "fill" | "drain" | "eof"
  held,    \* values of the current cycle not yet pulled
  pos,     \* pushes so far (fill), pulls so far (drain)
  len,     \* pushes of the cycle
  ac       \* AutoClear option

avars == <<mode, held, pos, len, ac>>

Key(v) == v \div KD

\* v may be the next value pulled from a set S of held values.
IsMin(v, S) == v \in S /\ \A w \in S : Key(v) <= Key(w)

AInit ==
  /\ mode = "fill" /\ held = {} /\ pos = 0 /\ len = 0
  /\ ac \in BOOLEAN

APushG(v) == mode = "fill" /\ v \notin held
APush(v) ==
  /\ APushG(v)
  /\ held' = held \cup {v}
  /\ pos' = pos + 1 /\ len' = len + 1
  /\ UNCHANGED <<mode, ac>>

AFinaliseG == mode = "fill"
AFinalise ==
  /\ AFinaliseG
  /\ mode' = "drain" /\ pos' = 0
  /\ UNCHANGED <<held, len, ac>>

APullG(v) == mode = "drain" /\ IsMin(v, held)
APull(v) ==
  /\ APullG(v)
  /\ held' = held \ {v}
  /\ pos' = pos + 1
  /\ UNCHANGED <<mode, len, ac>>

\* Pull on an exhausted sorter returns io.EOF; with AutoClear the sorter is
\* cleared at that moment and is ready for the next cycle.
APullEOFG == mode \in {"drain", "eof"} /\ held = {}
APullEOF ==
  /\ APullEOFG
  /\ IF ac
       THEN mode' = "fill" /\ pos' = 0 /\ len' = 0
       ELSE mode' = "eof" /\ UNCHANGED <<pos, len>>
  /\ UNCHANGED <<held, ac>>

AClearG == mode \in {"drain", "eof"}
AClear ==
  /\ AClearG
  /\ mode' = "fill" /\ held' = {} /\ pos' = 0 /\ len' = 0
  /\ UNCHANGED ac

\* CleanUp, or draining a sorter that has AutoClean set: the sorter is not usable any more.
ADie == mode' = "dead" /\ UNCHANGED ac      \* nothing is promised about a dead sorter

ANext ==
  \/ ADie
  \/ \E v \in (held' \ held) : APush(v)
  \/ AFinalise
  \/ \E v \in held : APull(v)
  \/ APullEOF
  \/ AClear

ASpec == AInit /\ [][ANext]_avars

(***************************************************************************)
(* What C11 states, as properties of this machine (they hold by            *)
(* construction here; the work is showing the implementation refines it).  *)
(***************************************************************************)
ATypeOK ==
  /\ mode \in {"fill", "drain", "eof", "dead"}
  /\ pos \in Nat /\ len \in Nat
  /\ mode = "fill" => pos = len /\ Cardinality(held) = len
  /\ mode \in {"drain", "eof"} => pos + Cardinality(held) = len
=============================================================================
