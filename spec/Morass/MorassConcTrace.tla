-------------------------- MODULE MorassConcTrace ---------------------------
(***************************************************************************)
(* Validation of un-gated executions of concurrent-mode morass against     *)
(* MorassConc.  The harness logs, in one global order, every arrival of a  *)
(* goroutine at a step hook ("gate") and every return of the caller to the *)
(* API level.  Nobody is held at a gate in these runs, so an arrival is    *)
(* immediately followed by the release of the same process; blocking       *)
(* operations complete as soon as they can (Settle).  An arrival is        *)
(* explained iff the model, having processed the earlier events, places    *)
(* that process at that gate.  A goroutine reaching a gate while the model *)
(* has it blocked (e.g. in Finalise's wait for the writers), or a log that *)
(* ends before the model terminates, is rejected.                          *)
(***************************************************************************)
EXTENDS MorassConc

Trace == ndJsonDeserialize(IOEnv.TRACE)

VARIABLES l, ok, fails

tvars == <<st, last, l, ok, fails>>

ProcOf(e) == <<e.p, e.k>>

TInit ==
  /\ st = InitState(1, 0, TRUE, NoFault) /\ last = <<"init">>
  /\ l = 1 /\ ok = FALSE /\ fails = <<>>

Reject(why) == ok' = FALSE /\ fails' = Append(fails, <<l, why>>) /\ UNCHANGED <<st, last>>

Step ==
  /\ l <= Len(Trace)
  /\ l' = l + 1
  /\ LET e == Trace[l] IN
     IF e.op = "reset" THEN
       /\ st' = InitState(e.cs, e.npush, TRUE, NoFault) /\ last' = <<"reset">>
       /\ ok' = TRUE /\ UNCHANGED fails
     ELSE IF ~ok THEN UNCHANGED <<st, last, ok, fails>>
     ELSE IF e.op = "gate" THEN
       LET p == ProcOf(e) IN
       IF p \in Procs /\ GateOf(st, p) = e.g
         THEN /\ st' = Settle(Released(st, p))
              /\ last' = <<"release", p, e.g>>
              /\ UNCHANGED <<ok, fails>>
         ELSE Reject(IF p \in Procs /\ GateOf(st, p) = ""
                       THEN "process reached a gate while the model has it blocked or finished"
                       ELSE "process is at another gate in the model")
     ELSE IF e.op = "drained" THEN
       \* end of a run: the model must have terminated and everything pushed was delivered
       IF Terminated(st) /\ st.delivered = st.n /\ e.n = st.n /\ e.sorted /\ e.err = ""
         THEN UNCHANGED <<st, last, ok, fails>>
         ELSE Reject("run ended with the model not terminated, or values lost")
     ELSE Reject("unexplained event")

TSpec == TInit /\ [][Step]_tvars

Done == l = Len(Trace) + 1

Emit ==
  Done =>
    Serialize(ToJson([events |-> Len(Trace), fails |-> fails, drift |-> <<>>]), IOEnv.OUT,
              [format |-> "TXT", charset |-> "UTF-8",
               openOptions |-> <<"WRITE", "CREATE", "TRUNCATE_EXISTING">>]).exitValue = 0

Consumed == TLCGet("stats").diameter - 1 = Len(Trace)
=============================================================================
