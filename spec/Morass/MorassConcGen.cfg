SPECIFICATION GenSpec
CONSTANTS
  CSs = {1, 2, 3}
  NPushes = {0, 1, 2, 3, 4, 5, 6, 7}
  FinaliseWaits = TRUE
INVARIANTS EmitSchedule
CHECK_DEADLOCK FALSE
