----------------------------- MODULE MorassConc -----------------------------
(***************************************************************************)
(* Concurrent-mode morass (property C12): the caller goroutine against the *)
(* background chunk writers started by Push.                               *)
(*                                                                         *)
(* Grain.  The code carries verif-tagged step hooks (vstep) at named sites *)
(* ("gates").  A process is either AT A GATE (the harness may hold it      *)
(* there), or at a BLOCKING OPERATION between two gates (channel send or   *)
(* receive, WaitGroup.Wait), or finished.  Two kinds of step:              *)
(*    Release(p)  - p leaves its gate and runs up to its next gate or      *)
(*                  blocking operation;                                    *)
(*    Internal    - a blocking operation that has become possible          *)
(*                  completes and its process runs on to its next gate.    *)
(* Everything between two consecutive points is one atomic step, which is  *)
(* sound because the code between them touches shared state only through   *)
(* the channel / lock operation that ends the step.                        *)
(*                                                                         *)
(* Processes: "c" is the caller (including the final run it writes inline  *)
(* from Finalise, writer index 0); writers 1..K are the goroutines Push    *)
(* starts, in order.  Values are abstracted to counts: what is sorted is   *)
(* C11's concern, here we track which values are safely in the sorter.     *)
(*                                                                         *)
(* FinaliseWaits = FALSE is the code as found (no WaitGroup).              *)
(***************************************************************************)
EXTENDS Integers, Sequences, FiniteSets, TLC, Json, IOUtils

CONSTANTS
  CSs,            \* chunk sizes explored
  NPushes,        \* numbers of values pushed before Finalise
  FinaliseWaits,  \* TRUE = repaired (C12)
  Concs,          \* modes explored: TRUE = concurrent (pool seeded with a buffer), FALSE = sequential
  FaultKinds,     \* subset of {"none", "tempfile", "encode", "sync"}: I/O failures explored (C13)
  SetErrOnlyIfNonNil  \* TRUE = repaired: a successful Sync does not overwrite an earlier error

MaxOf(S) == CHOOSE x \in S : \A y \in S : y <= x
K == MaxOf(NPushes) + 1           \* upper bound on background writers
Writers == 0..K                   \* 0 = the inline write in Finalise

CallerGates == {"api", "push.spill", "push.gotbuf", "final.enter", "final.scan"}
WriterGates == {"write.recv", "write.created", "write.registered", "write.encoded",
                "write.presync", "write.synced", "write.return"}

\* A fault makes one I/O operation of one writer fail: creating the run file, encoding its
\* i-th element, or syncing it.  w = -1: no fault.
NoFault == [w |-> -1, site |-> "none", i |-> 0]
\* writers that exist in a run of n pushes with chunk size cs, and the length of their run
BgWriters(cs, n) == IF n = 0 THEN {} ELSE 1..((n - 1) \div cs)
RunLen(cs, n, w) == IF w = 0 THEN n - cs * ((n - 1) \div cs) ELSE cs
FaultWriters(cs, n) == BgWriters(cs, n) \cup (IF n >= cs THEN {0} ELSE {})
FaultsFor(cs, n) ==
  (IF "none" \in FaultKinds THEN {NoFault} ELSE {})
  \cup {[w |-> w, site |-> s, i |-> 0] : w \in FaultWriters(cs, n), s \in FaultKinds \cap {"tempfile", "sync"}}
  \cup UNION {{[w |-> w, site |-> "encode", i |-> i] : i \in {j \in 1..RunLen(cs, n, w) : "encode" \in FaultKinds}} :
               w \in FaultWriters(cs, n)}

InitState(cs, n, conc, fault) ==
  [cs       |-> cs,                          \* chunk size
   n        |-> n,                           \* values pushed before Finalise
   conc     |-> conc,
   fault    |-> fault,
   err      |-> FALSE,                       \* m._err # nil
   reported |-> FALSE,                       \* some API call has returned an error
   tffail   |-> FALSE,                       \* the writer standing at write.created failed to create its file
   cpc      |-> "api",
   pushed   |-> 0,
   chunkLen |-> 0,                           \* -1: m.chunk == nil
   writable |-> <<>>,                        \* channel, capacity 1
   pool     |-> IF conc THEN 1 ELSE 0,       \* channel, capacity 2; concurrent mode seeds one nil buffer
   wpc      |-> [w \in Writers |-> "none"],
   wlen     |-> [w \in Writers |-> 0],
   wenc     |-> [w \in Writers |-> 0],       \* elements of the run already encoded to its file
   files    |-> <<>>,                        \* m.files: owners of registered runs
   wg       |-> 0,                           \* WaitGroup counter
   spawned  |-> 0,
   fast     |-> FALSE,
   delivered|-> -1]                          \* what Finalise found readable, set at final.scan

(***************************************************************************)
(* Where is each process, seen from the harness?                           *)
(***************************************************************************)
\* gate the caller goroutine stands at ("" if it is running or blocked)
CallerGate(st) ==
  IF st.cpc \in CallerGates THEN st.cpc
  ELSE IF st.cpc = "inline" /\ st.wpc[0] \in WriterGates THEN st.wpc[0]
  ELSE ""
WriterGate(st, w) == IF st.wpc[w] \in WriterGates THEN st.wpc[w] ELSE ""

Caller == <<"c", 0>>
Procs == {Caller} \cup {<<"w", w>> : w \in 1..K}
GateOf(st, p) == IF p = Caller THEN CallerGate(st) ELSE WriterGate(st, p[2])

(***************************************************************************)
(* Release steps.                                                          *)
(***************************************************************************)
Faulty(st, w, site, i) == st.fault.w = w /\ st.fault.site = site /\ st.fault.i = i

\* a writer (w = 0: the caller running write() inline) leaves its gate
ReleaseWriter(st, w) ==
  LET pc == st.wpc[w] IN
  CASE pc = "write.recv"       -> [st EXCEPT !.wpc[w] = "write.created"]       \* sort; TempFile
    [] pc = "write.created"    -> IF Faulty(st, w, "tempfile", 0)
                                    THEN [st EXCEPT !.wpc[w] = "write.return", !.err = TRUE]  \* setErr(err); return
                                    ELSE [st EXCEPT !.wpc[w] = "write.registered",    \* lock; append; unlock
                                                    !.files = Append(@, w)]
    [] pc = "write.registered" -> IF Faulty(st, w, "encode", 1)
                                    THEN [st EXCEPT !.wpc[w] = "write.return", !.err = TRUE]
                                    ELSE [st EXCEPT !.wpc[w] = "write.encoded", !.wenc[w] = 1]
    [] pc = "write.encoded"    -> IF st.wenc[w] < st.wlen[w]
                                    THEN IF Faulty(st, w, "encode", st.wenc[w] + 1)
                                           THEN [st EXCEPT !.wpc[w] = "write.return", !.err = TRUE]
                                           ELSE [st EXCEPT !.wenc[w] = @ + 1]
                                    ELSE [st EXCEPT !.wpc[w] = "write.presync"]
    [] pc = "write.presync"    -> \* m.setErr(tf.Sync())
                                  IF Faulty(st, w, "sync", 0)
                                    THEN [st EXCEPT !.wpc[w] = "write.synced", !.err = TRUE, !.wenc[w] = 0]
                                    ELSE [st EXCEPT !.wpc[w] = "write.synced",
                                                    !.err = IF SetErrOnlyIfNonNil THEN @ ELSE FALSE]
    [] pc = "write.synced"     -> [st EXCEPT !.wpc[w] = "write.return"]        \* return; deferred func
    [] pc = "write.return"     -> [st EXCEPT !.wpc[w] = "poolsend"]

Readable(st) ==
  LET RECURSIVE Sum(_)
      Sum(fs) == IF fs = <<>> THEN 0 ELSE st.wenc[Head(fs)] + Sum(Tail(fs))
  IN Sum(st.files)

\* an API call returns a non-nil error: the caller stops using the sorter
Fail(st) == [st EXCEPT !.cpc = "failed", !.reported = TRUE]

ReleaseCaller(st) ==
  LET pc == st.cpc IN
  CASE pc = "api" ->
         IF st.pushed < st.n
           THEN IF st.err THEN Fail(st)                                       \* Push: if err := m.err()
           ELSE IF st.chunkLen = st.cs
                  THEN [st EXCEPT !.cpc = "push.spill"]
                  ELSE [st EXCEPT !.chunkLen = @ + 1, !.pushed = @ + 1]     \* Push returns
           ELSE [st EXCEPT !.cpc = "final.enter"]
    [] pc = "push.spill"  -> [st EXCEPT !.cpc = "push.send"]
    [] pc = "push.gotbuf" -> IF st.err THEN Fail(st)
                             ELSE [st EXCEPT !.cpc = "api", !.chunkLen = 1, !.pushed = @ + 1]
    [] pc = "final.enter" -> [st EXCEPT !.cpc = "final.wait"]
    [] pc = "final.scan"  ->
         \* Seek + Decode the head of every registered run.  In-memory path: the chunk itself.
         [st EXCEPT !.cpc = "pulling",
                    !.delivered = IF st.fast THEN st.chunkLen ELSE Readable(st)]
    [] pc = "inline"      -> ReleaseWriter(st, 0)

Released(st, p) == IF p = Caller THEN ReleaseCaller(st) ELSE ReleaseWriter(st, p[2])

CanRelease(st, p) == GateOf(st, p) # ""

(***************************************************************************)
(* Internal steps: blocking operations completing.                         *)
(***************************************************************************)
InternalSteps(st) ==
  \* Push: m.writable <- m.chunk ; m.writers.Add(1) ; go m.write()
  (IF st.cpc = "push.send" /\ st.writable = <<>>
     THEN {[st EXCEPT !.cpc = "push.recvpool", !.writable = <<st.chunkLen>>, !.wg = @ + 1,
                      !.spawned = @ + 1, !.wpc[st.spawned + 1] = "new"]}
     ELSE {})
  \cup
  \* Push: m.chunk = <-m.pool
  (IF st.cpc = "push.recvpool" /\ st.pool > 0
     THEN {[st EXCEPT !.cpc = "push.gotbuf", !.pool = @ - 1]}
     ELSE {})
  \cup
  \* Finalise: m.writers.Wait(), then the choice of path
  (IF st.cpc = "final.wait" /\ (FinaliseWaits => st.wg = 0)
     THEN {IF st.err THEN Fail(st)                                  \* Finalise: if err := m.err()
           ELSE IF st.pushed < st.cs
             THEN [st EXCEPT !.cpc = "final.scan", !.fast = TRUE]      \* in-memory sort
             ELSE IF st.chunkLen > 0
               THEN [st EXCEPT !.cpc = "final.send"]
               ELSE [st EXCEPT !.cpc = "final.scan"]}
     ELSE {})
  \cup
  \* Finalise: m.writable <- m.chunk ; m.chunk = nil ; Add(1) ; m.write() inline
  (IF st.cpc = "final.send" /\ st.writable = <<>>
     THEN {[st EXCEPT !.cpc = "inline", !.writable = <<st.chunkLen>>, !.chunkLen = -1,
                      !.wg = @ + 1, !.wpc[0] = "new"]}
     ELSE {})
  \cup
  \* write(): writing := <-m.writable
  {[st EXCEPT !.wpc[w] = "write.recv", !.wlen[w] = Head(st.writable), !.writable = <<>>] :
     w \in {x \in Writers : st.wpc[x] = "new" /\ st.writable # <<>>}}
  \cup
  \* write(), deferred: m.pool <- writing[:0] ; m.writers.Done()
  {[st EXCEPT !.wpc[w] = "done", !.pool = @ + 1, !.wg = @ - 1,
              !.cpc = IF w = 0 THEN (IF st.err THEN "failed" ELSE "final.scan") ELSE @,
              !.reported = IF w = 0 /\ st.err THEN TRUE ELSE @] :
     w \in {x \in Writers : st.wpc[x] = "poolsend" /\ st.pool < 2}}

\* run internal steps until none is possible (they commute; any order gives the same state)
RECURSIVE Settle(_)
Settle(st) == IF InternalSteps(st) = {} THEN st ELSE Settle(CHOOSE t \in InternalSteps(st) : TRUE)

(***************************************************************************)
(* The machine checked exhaustively: internal steps interleave freely.     *)
(***************************************************************************)
VARIABLES st, last

vars == <<st, last>>

Init ==
  /\ \E cs \in CSs, n \in NPushes, c \in Concs : \E f \in FaultsFor(cs, n) : st = InitState(cs, n, c, f)
  /\ last = <<"init">>

Rel(p) == CanRelease(st, p) /\ st' = Released(st, p) /\ last' = <<"release", p, GateOf(st, p)>>
IntStep == \E t \in InternalSteps(st) : st' = t /\ last' = <<"internal">>

Terminated(s) == s.cpc \in {"pulling", "failed"} /\ \A w \in Writers : s.wpc[w] \in {"none", "done"}

Next == (\E p \in Procs : Rel(p)) \/ IntStep \/ (Terminated(st) /\ UNCHANGED vars)

Spec == Init /\ [][Next]_vars /\ WF_vars(Next)

View == st

(***************************************************************************)
(* Properties of C12.                                                      *)
(***************************************************************************)
TypeOK ==
  /\ st.pool \in 0..2 /\ Len(st.writable) <= 1 /\ st.wg >= 0
  /\ st.pushed \in 0..st.n

\* Finalise returns only once every pushed value is safely in the sorter:
\* what it finds readable in the runs (or the in-memory chunk) is everything pushed.
FinaliseComplete == st.cpc = "pulling" => st.delivered = st.n

\* No unsynchronised access: when Finalise reads m.files and the run files, no
\* background writer is still between receiving its chunk and returning its buffer.
RaceFree ==
  st.cpc = "final.scan" => \A w \in 1..K : st.wpc[w] \in {"none", "done"}

\* a run registered in m.files was completely written before anybody reads it
NoTornRun ==
  st.cpc = "pulling" => \A i \in 1..Len(st.files) : st.wenc[st.files[i]] = st.wlen[st.files[i]]

\* C13: an I/O failure is never hidden: if every Push and Finalise reported success, the
\* runs Finalise found hold every value pushed
NoSilentLoss == (st.cpc = "pulling" /\ ~st.reported) => st.delivered = st.n

\* every execution ends with the caller pulling (or told about the failure) and all writers gone
Termination == <>[](Terminated(st))
=============================================================================
