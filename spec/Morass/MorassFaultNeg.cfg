SPECIFICATION Spec
CONSTANTS
  CSs = {1, 2}
  NPushes = {1, 2, 3, 4, 5}
  Concs = {TRUE, FALSE}
  FaultKinds = {"none", "tempfile", "encode", "sync"}
  SetErrOnlyIfNonNil = FALSE
  FinaliseWaits = TRUE
VIEW View
INVARIANTS TypeOK NoSilentLoss RaceFree
CHECK_DEADLOCK TRUE
