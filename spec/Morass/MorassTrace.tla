----------------------------- MODULE MorassTrace ----------------------------
(***************************************************************************)
(* Trace validation for morass (properties C11, and the quiescent part of  *)
(* C12/C13): every event logged by the Go driver from the real sorter must *)
(* be a step of the abstract sorter Morass (verdict), and the projection   *)
(* of the real internal state logged through the verif accessor is         *)
(* compared with the implementation-shaped model MorassOps (drift note).   *)
(*                                                                         *)
(* The log is a concatenation of segments, each starting with a "reset"    *)
(* event.  A segment that stops conforming is recorded in `fails' and      *)
(* skipped up to the next reset, so one TLC run judges the whole log.      *)
(***************************************************************************)
EXTENDS Morass, Sequences, TLC, Json, IOUtils

CONSTANTS ResetFastOnClear, TruncateChunkOnClear, FastPathAutoClean

Ops == INSTANCE MorassOps

Trace == ndJsonDeserialize(IOEnv.TRACE)

VARIABLES
  l,      \* next event
  ok,     \* current segment still explained by Morass
  s,      \* MorassOps state of the current segment
  insync, \* s still agrees with the logged internal view
  acl,    \* AutoClean option of the current segment
  fails,  \* <<event index, reason>> of each rejected segment
  drift   \* event indices where the internal view first differed

tvars == <<mode, held, pos, len, ac, l, ok, s, insync, acl, fails, drift>>

TInit ==
  /\ mode = "fill" /\ held = {} /\ pos = 0 /\ len = 0 /\ ac = FALSE
  /\ l = 1 /\ ok = FALSE /\ insync = FALSE /\ acl = FALSE
  /\ s = Ops!InitState(1, FALSE, FALSE, FALSE)
  /\ fails = <<>> /\ drift = <<>>

Reject(why) ==
  /\ ok' = FALSE
  /\ fails' = Append(fails, <<l, why>>)
  /\ UNCHANGED <<mode, held, pos, len, ac>>

\* C13, residue: what the temporary directory must look like after this call
\* (ndisk = number of entries in it, -1 if it does not exist).
ResidueOK(e) ==
  /\ (e.op = "pull" /\ e.err = "EOF" /\ ac /\ ~acl) => e.ndisk = 0
  /\ (e.op = "pull" /\ e.err = "EOF" /\ acl) => e.ndisk = -1
  /\ e.op = "cleanup" => e.ndisk = -1

\* After the abstract step: the logged Pos/Len must be the model's.
Accept(e) ==
  /\ ok' = (pos' = e.pos /\ len' = e.len /\ ResidueOK(e))
  /\ fails' = IF ok' THEN fails
              ELSE Append(fails, <<l, IF ResidueOK(e) THEN "pos/len" ELSE "temporary files left behind">>)

ViewOf(t) ==
  [fast |-> t.fast, chunknil |-> t.chunkNil,
   chunklen |-> Cardinality(t.chunk), nfiles |-> Len(t.files), pool |-> t.pool,
   ndisk |-> IF t.dir THEN t.disk ELSE -1]

\* implementation level: follow the same event in MorassOps and compare views
ImplStep(e, t) ==
  /\ s' = t
  /\ IF insync /\ "view" \in DOMAIN e /\ ViewOf(t) # e.view
       THEN insync' = FALSE /\ drift' = Append(drift, l)
       ELSE UNCHANGED <<insync, drift>>

ImplOf(e) ==
  CASE e.op = "push"     -> Ops!PushOf(s, e.v)
    [] e.op = "finalise" -> Ops!FinaliseOf(s)
    [] e.op = "pull"     -> IF e.err = "EOF" THEN Ops!PullEOFOf(s)
                            ELSE IF Ops!CanPull(s, e.v) THEN Ops!PullOf(s, e.v) ELSE s
    [] e.op = "clear"    -> Ops!ClearOf(s)
    [] e.op = "cleanup"  -> Ops!CleanUpOf(s)
    [] OTHER             -> s

Step ==
  /\ l <= Len(Trace)
  /\ l' = l + 1
  /\ LET e == Trace[l] IN
     IF e.op = "reset" THEN
       /\ mode' = "fill" /\ held' = {} /\ pos' = 0 /\ len' = 0 /\ ac' = e.ac
       /\ ok' = TRUE /\ insync' = TRUE /\ acl' = e.acl
       /\ s' = Ops!InitState(e.cs, e.ac, e.conc, e.acl)
       /\ UNCHANGED <<fails, drift>>
     ELSE IF e.op = "faultrun" THEN
       \* C13: a whole run in which one I/O operation was made to fail (or none was reached):
       \* the failure was reported by some call, or nothing is missing from the sorted output; and whatever
       \* happened (a Clear that failed half way included), after CleanUp the directory no longer exists, and a
       \* drain to io.EOF with AutoClear set (failed Pulls on the way included) leaves no run file behind.
       /\ UNCHANGED <<mode, held, pos, len, ac, ok, s, insync, acl, drift>>
       /\ fails' = IF /\ e.injected => (e.reported # "" \/ e.complete)
                      /\ ~e.injected => (e.reported = "" /\ e.complete)
                     THEN (IF e.dirleft THEN Append(fails, <<l, "the temporary directory still exists after CleanUp">>)
                           ELSE IF e.ac /\ e.drained /\ e.runsleft > 0
                             THEN Append(fails, <<l, "run files remain in the temporary directory after a drain with AutoClear set">>)
                           ELSE IF e.nofile THEN Append(fails, <<l, "a writer was encoding or syncing a run that is not registered with the sorter (it could never be cleared away)">>)
                           ELSE fails)
                     ELSE Append(fails, <<l, "I/O failure hidden: no call reported it and values are missing">>)
     ELSE IF ~ok THEN UNCHANGED <<mode, held, pos, len, ac, ok, s, insync, acl, fails, drift>>
     ELSE
       /\ UNCHANGED acl
       /\ ImplStep(e, ImplOf(e))
       /\ CASE e.op = "push" ->
                 IF e.err = "" /\ APushG(e.v) THEN APush(e.v) /\ Accept(e)
                 ELSE Reject("push")
            [] e.op = "finalise" ->
                 IF e.err = "" /\ AFinaliseG THEN AFinalise /\ Accept(e)
                 ELSE Reject("finalise")
            [] e.op = "pull" /\ e.err = "" ->
                 IF APullG(e.v) THEN APull(e.v) /\ Accept(e)
                 ELSE Reject(IF e.v \in held THEN "pull: not minimal" ELSE "pull: value not held")
            [] e.op = "pull" /\ e.err = "EOF" ->
                 IF APullEOFG THEN APullEOF /\ Accept(e)
                 ELSE Reject("pull: premature EOF")
            [] e.op = "clear" ->
                 IF e.err = "" /\ AClearG THEN AClear /\ Accept(e)
                 ELSE Reject("clear")
            [] e.op = "cleanup" ->
                 IF e.err = "" THEN ADie /\ held' = {} /\ pos' = e.pos /\ len' = e.len /\ Accept(e)
                 ELSE Reject("cleanup")
            [] OTHER -> Reject("unexplained event")

Done == l = Len(Trace) + 1

TSpec == TInit /\ [][Step]_tvars

\* verdicts are written once, at the end of the log
Emit ==
  Done =>
    /\ Serialize(ToJson([events |-> Len(Trace), fails |-> fails, drift |-> drift]),
                 IOEnv.OUT,
                 [format |-> "TXT", charset |-> "UTF-8",
                  openOptions |-> <<"WRITE", "CREATE", "TRUNCATE_EXISTING">>]).exitValue = 0

Consumed == TLCGet("stats").diameter - 1 = Len(Trace)
=============================================================================
