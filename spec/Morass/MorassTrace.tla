----------------------------- MODULE MorassTrace ----------------------------
(***************************************************************************)
(* Trace validation for morass (properties C11, and the quiescent part of  *)
(* C12/C13): every event logged by the Go driver from the real sorter must *)
(* be a step of the abstract sorter Morass (verdict), and the projection   *)
(* of the real internal state logged through the verif accessor is         *)
(* compared with the implementation-shaped model MorassOps (drift note).   *)
(*                                                                         *)
(* The log is a concatenation of segments, each starting with a "reset"    *)
(* event.  A segment that stops conforming is recorded in `fails' and      *)
(* skipped up to the next reset, so one TLC run judges the whole log.      *)
(***************************************************************************)
EXTENDS Morass, Sequences, TLC, Json, IOUtils

CONSTANTS ResetFastOnClear, TruncateChunkOnClear

Ops == INSTANCE MorassOps

Trace == ndJsonDeserialize(IOEnv.TRACE)

VARIABLES
  l,      \* next event
  ok,     \* current segment still explained by Morass
  s,      \* MorassOps state of the current segment
  insync, \* s still agrees with the logged internal view
  fails,  \* <<event index, reason>> of each rejected segment
  drift   \* event indices where the internal view first differed

tvars == <<mode, held, pos, len, ac, l, ok, s, insync, fails, drift>>

TInit ==
  /\ mode = "fill" /\ held = {} /\ pos = 0 /\ len = 0 /\ ac = FALSE
  /\ l = 1 /\ ok = FALSE /\ insync = FALSE
  /\ s = Ops!InitState(1, FALSE, FALSE)
  /\ fails = <<>> /\ drift = <<>>

Reject(why) ==
  /\ ok' = FALSE
  /\ fails' = Append(fails, <<l, why>>)
  /\ UNCHANGED <<mode, held, pos, len, ac>>

\* After the abstract step: the logged Pos/Len must be the model's.
Accept(e) ==
  /\ ok' = (pos' = e.pos /\ len' = e.len)
  /\ fails' = IF ok' THEN fails ELSE Append(fails, <<l, "pos/len">>)

ViewOf(t) ==
  [fast |-> t.fast, chunknil |-> t.chunkNil,
   chunklen |-> Cardinality(t.chunk), nfiles |-> Len(t.files), pool |-> t.pool]

\* implementation level: follow the same event in MorassOps and compare views
ImplStep(e, t) ==
  /\ s' = t
  /\ IF insync /\ "view" \in DOMAIN e /\ ViewOf(t) # e.view
       THEN insync' = FALSE /\ drift' = Append(drift, l)
       ELSE UNCHANGED <<insync, drift>>

ImplOf(e) ==
  CASE e.op = "push"     -> Ops!PushOf(s, e.v)
    [] e.op = "finalise" -> Ops!FinaliseOf(s)
    [] e.op = "pull"     -> IF e.err = "EOF" THEN Ops!PullEOFOf(s)
                            ELSE IF Ops!CanPull(s, e.v) THEN Ops!PullOf(s, e.v) ELSE s
    [] e.op = "clear"    -> Ops!ClearOf(s)
    [] OTHER             -> s

Step ==
  /\ l <= Len(Trace)
  /\ l' = l + 1
  /\ LET e == Trace[l] IN
     IF e.op = "reset" THEN
       /\ mode' = "fill" /\ held' = {} /\ pos' = 0 /\ len' = 0 /\ ac' = e.ac
       /\ ok' = TRUE /\ insync' = TRUE
       /\ s' = Ops!InitState(e.cs, e.ac, e.conc)
       /\ UNCHANGED <<fails, drift>>
     ELSE IF ~ok THEN UNCHANGED <<mode, held, pos, len, ac, ok, s, insync, fails, drift>>
     ELSE
       /\ ImplStep(e, ImplOf(e))
       /\ CASE e.op = "push" ->
                 IF e.err = "" /\ APushG(e.v) THEN APush(e.v) /\ Accept(e)
                 ELSE Reject("push")
            [] e.op = "finalise" ->
                 IF e.err = "" /\ AFinaliseG THEN AFinalise /\ Accept(e)
                 ELSE Reject("finalise")
            [] e.op = "pull" /\ e.err = "" ->
                 IF APullG(e.v) THEN APull(e.v) /\ Accept(e)
                 ELSE Reject(IF e.v \in held THEN "pull: not minimal" ELSE "pull: value not held")
            [] e.op = "pull" /\ e.err = "EOF" ->
                 IF APullEOFG THEN APullEOF /\ Accept(e)
                 ELSE Reject("pull: premature EOF")
            [] e.op = "clear" ->
                 IF e.err = "" /\ AClearG THEN AClear /\ Accept(e)
                 ELSE Reject("clear")
            [] OTHER -> Reject("unexplained event")

Done == l = Len(Trace) + 1

TSpec == TInit /\ [][Step]_tvars

\* verdicts are written once, at the end of the log
Emit ==
  Done =>
    /\ Serialize(ToJson([events |-> Len(Trace), fails |-> fails, drift |-> drift]),
                 IOEnv.OUT,
                 [format |-> "TXT", charset |-> "UTF-8",
                  openOptions |-> <<"WRITE", "CREATE", "TRUNCATE_EXISTING">>]).exitValue = 0

Consumed == TLCGet("stats").diameter - 1 = Len(Trace)
=============================================================================
