SPECIFICATION Spec
CONSTANTS
  KD = 8
  ResetFastOnClear = FALSE
  FastPathAutoClean = TRUE
  TruncateChunkOnClear = TRUE
  ChunkSizes = {1, 2, 3}
  Keys = {1, 2}
  MaxPush = 7
  MaxCycles = 3
  ACs = {TRUE, FALSE}
  Concs = {TRUE, FALSE}
  ACLs = {FALSE}
  CleanUps = FALSE
  AltKeys = FALSE
  CanonPull = FALSE
VIEW View
PROPERTY Refines
CHECK_DEADLOCK FALSE
