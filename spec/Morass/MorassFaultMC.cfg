SPECIFICATION Spec
CONSTANTS
  CSs = {1, 2}
  NPushes = {1, 2, 3, 4, 5}
  Concs = {TRUE, FALSE}
  FaultKinds = {"none", "tempfile", "encode", "sync"}
  SetErrOnlyIfNonNil = TRUE
  FinaliseWaits = TRUE
VIEW View
INVARIANTS TypeOK NoSilentLoss RaceFree
PROPERTY Termination
CHECK_DEADLOCK TRUE
