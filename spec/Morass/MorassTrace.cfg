SPECIFICATION TSpec
CONSTANTS
  KD = 4096
  ResetFastOnClear = TRUE
  FastPathAutoClean = TRUE
  TruncateChunkOnClear = TRUE
INVARIANT Emit
POSTCONDITION Consumed
CHECK_DEADLOCK FALSE
