SPECIFICATION Spec
CONSTANTS
  KD = 8
  ResetFastOnClear = TRUE
  TruncateChunkOnClear = TRUE
  ChunkSizes = {1, 2}
  Keys = {1, 2}
  MaxPush = 5
  MaxCycles = 2
  ACs = {TRUE, FALSE}
  Concs = {TRUE, FALSE}
  AltKeys = TRUE
  CanonPull = TRUE
INVARIANTS EmitBehaviours
CHECK_DEADLOCK FALSE
