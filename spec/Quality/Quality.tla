------------------------------- MODULE Quality -------------------------------
(***************************************************************************)
(* C18 - quality scores encode, decode and convert consistently.           *)
(*                                                                         *)
(* Integer part: the seven quality encodings as the FORMATS define them    *)
(* (offset, printable range, Illumina 1.5 floor at 'B').                   *)
(* Numeric part: 10^(x/10), 1/(1+10^(x/10)), nearest scores and the        *)
(* Phred <-> Solexa conversions, all in 32 bit integer arithmetic from one *)
(* 20 entry table Mant[r] ~ 10^(r/20) * 10^4 which TLC certifies by the    *)
(* functional equation of the exponential (invariant Certified).           *)
(*                                                                         *)
(* Every decision (a rounding, a comparison of a logged probability with a *)
(* threshold) is made with a margin that covers what the certificate       *)
(* leaves open; a decision without margin is a TIE and is excluded from    *)
(* judgement, never guessed.                                               *)
(***************************************************************************)
EXTENDS Integers, Sequences, FiniteSets, TLC

CONSTANT Variant      \* "spec": the functions as defined here;
                      \* "asfound": Solexa->Phred and the Solexa encoder as found in alphabet/letters.go

TIE == 999            \* result of a decision that has no margin
UNDEF == -999         \* no value (unprintable score, byte outside the encoding)

Abs(x) == IF x < 0 THEN -x ELSE x
Max2(a, b) == IF a > b THEN a ELSE b
RECURSIVE Pow10(_)
Pow10(n) == IF n <= 0 THEN 1 ELSE 10 * Pow10(n - 1)       \* n <= 9

-----------------------------------------------------------------------------
(* Encodings                                                               *)

EncOrder == <<"None", "Sanger", "Solexa", "Illumina1_3", "Illumina1_5", "Illumina1_8", "Illumina1_9">>
Encodings == {EncOrder[i] : i \in 1..7}
PhredOffsetEncs == {"Sanger", "Illumina1_3", "Illumina1_5", "Illumina1_8", "Illumina1_9"}

Off(e) == IF e \in {"Sanger", "Illumina1_8", "Illumina1_9"} THEN 33 ELSE 64
LastPrintable == 126                                       \* '~'
MinScore(e) == CASE e = "Solexa" -> -5
                 [] e = "Illumina1_5" -> 2                 \* 0 and 1 unused, 'B' is the floor
                 [] OTHER -> 0
MaxScore(e) == LastPrintable - Off(e)
\* the score type an encoding is native to
Native(e) == IF e = "Solexa" THEN "solexa" ELSE IF e \in PhredOffsetEncs THEN "phred" ELSE "none"
Printable(e, q) == e # "None" /\ MinScore(e) <= q /\ q <= MaxScore(e)
PrintableByte(e, b) == e # "None" /\ MinScore(e) + Off(e) <= b /\ b <= LastPrintable

\* Encode a score of the encoding's native type.
EncodeSpec(e, q) == IF Printable(e, q) THEN q + Off(e)
                    ELSE IF e = "Illumina1_5" /\ q \in {0, 1} THEN 66
                    ELSE UNDEF
\* as found: Qsolexa.Encode compares the score as an unsigned byte
EncodeAsFound(e, q) == IF e = "Solexa"
                       THEN LET b == q % 256 IN IF b <= 62 THEN b + 64 ELSE b
                       ELSE EncodeSpec(e, q)
Encode(e, q) == IF Variant = "asfound" THEN EncodeAsFound(e, q) ELSE EncodeSpec(e, q)
Decode(e, b) == IF PrintableByte(e, b) THEN b - Off(e) ELSE UNDEF

\* LAW: decoding the encoded byte returns the score, on the printable range.
RoundTrip(e, q) == Printable(e, q) => Decode(e, Encode(e, q)) = q
\* the byte level view of the same bijection
ByteRoundTrip(e, b) == PrintableByte(e, b) => Encode(e, Decode(e, b)) = b

-----------------------------------------------------------------------------
(* The certified table                                                     *)

Mant == <<10000, 11220, 12589, 14125, 15849, 17783, 19953, 22387, 25119, 28184,
          31623, 35481, 39811, 44668, 50119, 56234, 63096, 70795, 79433, 89125>>
M(r) == Mant[r + 1]                                        \* r in 0..19: ~ 10^(r/20) * 10^4

(* Mant[a]*Mant[b] - Mant[(a+b) mod 20] * 10^4 * (10 if a+b >= 20), computed exactly
   without leaving 32 bits by splitting both factors at 100. *)
Hi(x) == x \div 100
Lo(x) == x % 100
Wrap(a, b) == IF a + b >= 20 THEN 10 ELSE 1
ProdDiff(a, b) == LET x == M(a)  y == M(b)  c == M((a + b) % 20) IN
  (Hi(x) * Hi(y) - c * Wrap(a, b)) * 10000 + (Hi(x) * Lo(y) + Lo(x) * Hi(y)) * 100 + Lo(x) * Lo(y)
(* what a table of correctly rounded entries can differ by: half a unit in each factor
   and half a unit (times 10 after the wrap) in the result *)
CertTol(a, b) == (M(a) + M(b)) \div 2 + 5000 * Wrap(a, b) + 1
Certified(a, b) ==
  /\ M(0) = 10000
  /\ Abs(ProdDiff(a, b)) <= CertTol(a, b)
  /\ a < 19 => M(a) < M(a + 1)
  /\ M(19) < 10 * M(0)
(* What the certificate buys.  Write L(r) = log10(M(r)/10^4) - r/20.  Certified(a,b) gives
   |L(a)+L(b)-L((a+b) mod 20)| <= rho with rho < 5.7e-5 (worst pair (1,1)), and L(0) = 0.
   (10,10): |L(10)| <= rho/2; (5,5): |L(5)| <= 3/4 rho; (15,5): |L(15)| <= 7/4 rho;
   (1,1),(2,2),(4,1): |5 L(1) - L(5)| <= 4 rho, so |L(1)| <= rho; every index is at most two
   steps of +-1 away from a multiple of 5, each step costs |L(1)| + rho, so |L(r)| <= 5.75 rho
   < 3.3e-4 for all r: every entry is within RELATIVE 7.6e-4 of 10^(r/20)*10^4.  All margins
   below use 1/1000. *)
RelDen == 1000

\* 10^(k/20) for any integer k as <<mantissa, exponent>>: value = mantissa/10^4 * 10^exponent
Pow20(k) == <<M(k % 20), k \div 20>>

\* 10^(-k/20) * 10^8 for k >= 0
Neg(k) == LET p == Pow20(-k)  sh == 4 + p[2] IN
          IF sh >= 0 THEN p[1] * Pow10(sh) ELSE IF sh < -8 THEN 0 ELSE p[1] \div Pow10(-sh)
NegErr(k) == Neg(k) \div RelDen + 1
\* sign of 10^(-a/20) + 10^(-b/20) - 1 for a, b >= 0; 0 = no margin
Sum3(a, b) == LET t == Neg(a) + Neg(b) - 100000000  m == NegErr(a) + NegErr(b) IN
              IF t > m THEN 1 ELSE IF t < -m THEN -1 ELSE 0

-----------------------------------------------------------------------------
(* Probabilities as <<mantissa, exponent>>, mantissa in 10000..99999 (truncated) *)

\* digits of num/den for 0 < num < den <= 2*10^8
RECURSIVE LongDiv(_, _, _, _, _)
LongDiv(r, den, acc, nd, e) ==
  IF nd = 5 THEN <<acc, e>>
  ELSE LET d == (r * 10) \div den  r2 == (r * 10) % den IN
       IF acc = 0 /\ d = 0 THEN LongDiv(r2, den, 0, 0, e - 1)
       ELSE LongDiv(r2, den, acc * 10 + d, nd + 1, e)
Ratio(num, den) == LongDiv(num, den, 0, 0, -1)

ProbPhred(q) == Pow20(-2 * q)                              \* 10^(-q/10)

\* 1/(1 + 10^(k/20)) for any integer k (k = 2s for Solexa score s, odd k for the half steps)
ProbS(k) ==
  IF k >= 0
  THEN LET n == Pow20(-k)  sh == 4 - n[2] IN               \* n/(1+n), n = 10^(-k/20) <= 1
       IF sh <= 8 THEN Ratio(n[1], Pow10(sh) + n[1])
       ELSE n                                              \* n < 10^-4: n/(1+n) = n to 4 digits
  ELSE LET n == Pow20(k)  sh == 4 - n[2] IN                \* 1/(1+n), n = 10^(k/20) < 1
       IF sh <= 8 THEN Ratio(Pow10(sh), Pow10(sh) + n[1])
       ELSE LET add == IF sh > 13 THEN 0 ELSE n[1] \div Pow10(sh - 8) IN
            IF add = 0 THEN <<99999, -1>> ELSE Ratio(100000000, 100000000 + add)
ProbSolexa(s) == ProbS(2 * s)

\* three-way comparison of two such pairs with relative margin 1/RelDen plus truncation; 0 = no margin
Cmp(a, b) ==
  IF a[2] > b[2] + 1 THEN 1 ELSE IF a[2] < b[2] - 1 THEN -1
  ELSE LET x == IF a[2] = b[2] + 1 THEN a[1] * 10 ELSE a[1]
           y == IF b[2] = a[2] + 1 THEN b[1] * 10 ELSE b[1]
           m == Max2(x, y) \div RelDen + (IF a[2] = b[2] THEN 2 ELSE 12) IN
       IF x - y > m THEN 1 ELSE IF y - x > m THEN -1 ELSE 0
\* exact order of model values
PairLE(a, b) == a[2] < b[2] \/ (a[2] = b[2] /\ a[1] <= b[1])
\* "equal to 4 significant digits"
Close(a, b) == Cmp(a, b) = 0

-----------------------------------------------------------------------------
(* Nearest scores of a probability                                         *)

\* round(-10 log10 p): the largest q with p <= 10^(-(2q-1)/20), searched downwards from -10e
RECURSIVE PhredDown(_, _, _)
PhredDown(p, q, lo) == IF q < lo THEN TIE
                       ELSE LET c == Cmp(p, Pow20(1 - 2 * q)) IN
                            IF c = 1 THEN PhredDown(p, q - 1, lo) ELSE IF c = 0 THEN TIE ELSE q
PhredOfProb(p) == IF p[2] < -26 THEN 260                    \* beyond the finite scores
                  ELSE PhredDown(p, -10 * p[2], -10 * (p[2] + 1))

ProbSTab == [k \in -263..263 |-> ProbS(k)]
\* round(-10 log10(p/(1-p))): the largest s with p <= 1/(1+10^((2s-1)/20))
RECURSIVE SolexaDown(_, _, _)
SolexaDown(p, s, lo) == IF s < lo THEN TIE
                        ELSE LET c == Cmp(p, ProbSTab[2 * s - 1]) IN
                             IF c = 1 THEN SolexaDown(p, s - 1, lo) ELSE IF c = 0 THEN TIE ELSE s
SolexaOfProb(p) == IF p[2] >= -1 THEN SolexaDown(p, 11, -51)
                   ELSE IF p[2] < -13 THEN 140               \* beyond the finite scores
                   ELSE SolexaDown(p, -10 * p[2] + 1, -10 * (p[2] + 1) - 1)
\* of the probability 1 - c: the analytic function is odd in the log odds
SolexaOfComp(c) == LET s == SolexaOfProb(c) IN IF s = TIE THEN TIE ELSE -s

-----------------------------------------------------------------------------
(* Conversions: the analytic value rounded to the nearest integer          *)

\* round(10 log10(10^(q/10) - 1)), q >= 1: q - t for the least t >= 0 with
\* 10^(-2q/20) + 10^(-(2t+1)/20) <= 1
RECURSIVE P2SUp(_, _)
P2SUp(q, t) == IF t > 200 THEN TIE
               ELSE LET c == Sum3(2 * q, 2 * t + 1) IN
                    IF c = 1 THEN P2SUp(q, t + 1) ELSE IF c = 0 THEN TIE ELSE q - t
PhredToSolexa(q) == P2SUp(q, 0)

\* round(10 log10(10^(s/10) + 1)): the largest p with 10^((2p-1)/20) <= 10^(2s/20) + 1,
\* i.e. p <= max(0,s) or 10^(-(2p-1-2s)/20) + 10^(-(2p-1)/20) >= 1
RECURSIVE S2PUp(_, _)
S2PUp(s, p) == IF p > 300 THEN TIE
               ELSE LET c == Sum3(2 * p - 1 - 2 * s, 2 * p - 1) IN
                    IF c = 1 THEN S2PUp(s, p + 1) ELSE IF c = 0 THEN TIE ELSE p - 1
SolexaToPhredSpec(s) == S2PUp(s, Max2(0, s) + 1)
\* as found: the "+1" is missing and negative values are converted to an unsigned byte
SolexaToPhredAsFound(s) == IF s >= 0 THEN s ELSE (s + 1) % 256
SolexaToPhred(s) == IF Variant = "asfound" THEN SolexaToPhredAsFound(s) ELSE SolexaToPhredSpec(s)

\* finite and representable scores
PhredFinite == 0..253
SolexaFinite == -127..126
P2SDomain == 1..126             \* q = 0 has no finite image, q >= 127 none that a Solexa score can hold
S2PDomain == SolexaFinite

P2STab == [q \in P2SDomain |-> PhredToSolexa(q)]
S2PTab == [s \in S2PDomain |-> SolexaToPhred(s)]
P2STies == {q \in P2SDomain : P2STab[q] = TIE}
S2PTies == {s \in S2PDomain : S2PTab[s] = TIE}

-----------------------------------------------------------------------------
(* Laws                                                                    *)

\* a larger score never means a larger probability
MonoPhred(q) == q + 1 \in PhredFinite => PairLE(ProbPhred(q + 1), ProbPhred(q))
MonoSolexa(s) == s + 1 \in SolexaFinite => PairLE(ProbSolexa(s + 1), ProbSolexa(s))
\* score -> probability -> score is the identity (Solexa: below 0 through the complement, whose
\* five digits resolve what those of a probability next to 1 cannot)
IdPhred(q) == PhredOfProb(ProbPhred(q)) = q
IdSolexa(s) == IF s >= 0 THEN SolexaOfProb(ProbSolexa(s)) = s ELSE SolexaOfComp(ProbSolexa(-s)) = s
\* p(s) + p(-s) = 1, to the table's accuracy (scaled by 10^8)
Scaled8(p) == IF p[2] >= -4 THEN p[1] * Pow10(4 + p[2])
              ELSE IF p[2] < -13 THEN 0 ELSE p[1] \div Pow10(-4 - p[2])
Symmetric(s) == Abs(Scaled8(ProbSolexa(s)) + Scaled8(ProbSolexa(-s)) - 100000000) <= 200000
\* the conversions agree with each other's probabilities: the probability of the score converted from
\* lies between those of the two half steps around the converted score (computed by division, a route
\* independent of the sums that decided the rounding)
AgreeP2S(q) == LET s == P2STab[q] IN
  s # TIE => /\ s \in -128..127
             /\ Cmp(ProbPhred(q), ProbSTab[2 * s - 1]) <= 0
             /\ Cmp(ProbPhred(q), ProbSTab[2 * s + 1]) >= 0
AgreeS2P(s) == LET p == S2PTab[s] IN
  p # TIE => /\ p \in 0..255
             /\ p > 0 => Cmp(ProbSolexa(s), Pow20(1 - 2 * p)) <= 0
             /\ Cmp(ProbSolexa(s), Pow20(-1 - 2 * p)) >= 0
\* mutually inverse from Q = 10 upwards
InverseFrom10(x) ==
  x >= 10 => /\ (P2STab[x] # TIE /\ S2PTab[P2STab[x]] # TIE) => S2PTab[P2STab[x]] = x
             /\ (S2PTab[x] # TIE /\ S2PTab[x] \in P2SDomain /\ P2STab[S2PTab[x]] # TIE) => P2STab[S2PTab[x]] = x
\* below 10 the conversions are not injective; landmarks that pin the direction of every rounding
Landmarks == /\ P2STab[1] = -6 /\ P2STab[2] = -2 /\ P2STab[3] = 0 /\ P2STab[9] = 8 /\ P2STab[10] = 10
             /\ Variant = "spec" => S2PTab[-127] = 0 /\ S2PTab[-5] = 1 /\ S2PTab[-1] = 3 /\ S2PTab[0] = 3
                                    /\ S2PTab[9] = 10 /\ S2PTab[10] = 10
\* no entry of the conversion tables is a near tie (if one were, it would be excluded, not guessed)
NoTies == P2STies = {} /\ S2PTies = {}

-----------------------------------------------------------------------------
(* The model: one state per case; every law is an invariant.               *)

VARIABLE c
Cases == {<<"cert", a, b>> : a \in 0..19, b \in 0..19}
   \cup {<<"phred", q, 0>> : q \in 0..255}
   \cup {<<"solexa", s, 0>> : s \in -128..127}
   \cup {<<"byte", b, i>> : b \in 0..255, i \in 1..7}
   \cup {<<"score", q, i>> : q \in -128..255, i \in 1..7}
   \cup {<<"tables", 0, 0>>}
Init == c \in Cases
Next == UNCHANGED c
Spec == Init /\ [][Next]_c

CertifiedInv == c[1] = "cert" => Certified(c[2], c[3])
RoundTripInv == c[1] = "score" => RoundTrip(EncOrder[c[3]], c[2])
ByteInv == c[1] = "byte" => ByteRoundTrip(EncOrder[c[3]], c[2])
MonotoneInv == /\ (c[1] = "phred" /\ c[2] \in PhredFinite) => MonoPhred(c[2])
               /\ (c[1] = "solexa" /\ c[2] \in SolexaFinite) => MonoSolexa(c[2])
IdentityInv == /\ (c[1] = "phred" /\ c[2] \in PhredFinite) => IdPhred(c[2])
               /\ (c[1] = "solexa" /\ c[2] \in SolexaFinite) => IdSolexa(c[2]) /\ Symmetric(c[2])
AgreeInv == /\ (c[1] = "phred" /\ c[2] \in P2SDomain) => AgreeP2S(c[2])
            /\ (c[1] = "solexa" /\ c[2] \in S2PDomain) => AgreeS2P(c[2])
InverseInv == (c[1] = "phred" /\ c[2] \in P2SDomain) => InverseFrom10(c[2])
TablesInv == c[1] = "tables" => Landmarks /\ NoTies
=============================================================================
