---------------------------- MODULE QualityTrace -----------------------------
(***************************************************************************)
(* Judges a log of calls made on the real quality score code (one JSON     *)
(* object per line, see harness/qualityd) with the operators of Quality.   *)
(* Each event yields a list of items <<kind, class, message>>:             *)
(*   ok / fail  a demand of the property, met / not met                    *)
(*   tie        a demand whose expected value has no margin: excluded      *)
(*   drift      a difference from the model outside the property           *)
(* The property speaks of Phred scores under Phred-offset encodings and of  *)
(* Solexa scores under the Solexa encoding; a score of one kind encoded or  *)
(* decoded under an encoding of the other kind is compared with the         *)
(* package's own conversion followed by the native rule, but only as drift. *)
(***************************************************************************)
EXTENDS Quality, SequencesExt, Json, IOUtils

Trace == ndJsonDeserialize(IOEnv.TRACE)
VARIABLES l, fails, drift, ties, nok, prev

S(x) == ToString(x)
J(applies, good, class, msg) == IF ~applies THEN <<>>
                                ELSE IF good THEN << <<"ok", class, "">> >> ELSE << <<"fail", class, msg>> >>
D(applies, good, class, msg) == IF ~applies \/ good THEN <<>> ELSE << <<"drift", class, msg>> >>
\* an expected value that may be TIE, or outside the representable scores (then nothing is demanded)
JExp(exp, dom, got, class, msg) ==
  IF exp = TIE THEN << <<"tie", class, msg>> >>
  ELSE IF exp \notin dom THEN <<>>
  ELSE J(TRUE, got = exp, class, msg \o " got " \o S(got) \o " want " \o S(exp))
\* a probability's nearest score: beyond the representable scores the conversion saturates (the last finite
\* score or the sentinel next to it above, the last finite score below) and never wraps around
MaxOf(D0) == CHOOSE x \in D0 : \A y \in D0 : y <= x
MinOf(D0) == CHOOSE x \in D0 : \A y \in D0 : y >= x
JSat(exp, dom, got, class, msg) ==
  IF exp = TIE THEN << <<"tie", class, msg>> >>
  ELSE IF exp \in dom THEN J(TRUE, got = exp, class, msg \o " got " \o S(got) \o " want " \o S(exp))
  ELSE IF exp > MaxOf(dom)
  THEN J(TRUE, got \in {MaxOf(dom), MaxOf(dom) + 1}, class \o " (beyond the largest score)",
         msg \o " got " \o S(got) \o " want " \o S(MaxOf(dom)) \o " or " \o S(MaxOf(dom) + 1))
  ELSE J(TRUE, got = MinOf(dom), class \o " (beyond the smallest score)", msg \o " got " \o S(got) \o " want " \o S(MinOf(dom)))
PairOf(pe) == <<pe.m, pe.e>>
IsNum(pe) == pe.k = "num"
PStr(pe) == IF IsNum(pe) THEN S(pe.m) \o "e" \o S(pe.e - 4) ELSE pe.k
PairStr(p) == S(p[1]) \o "e" \o S(p[2] - 4)
PerEnc(Op(_)) == FlattenSeq([i \in 1..7 |-> Op(i)])

\* monotonicity is judged on the rank the driver computed from the float64 values themselves
Mono(e, op, x, dom, class) ==
  J(prev.op = op /\ prev.x = x - 1 /\ prev.x \in dom /\ prev.rank >= 0 /\ e.rank >= 0, e.rank <= prev.rank, class,
    "score " \o S(x) \o " has a larger probability than score " \o S(x - 1))

PhredItems(e) == LET q == e.q IN
  J(q \in PhredFinite, IsNum(e.pe) /\ Close(PairOf(e.pe), ProbPhred(q)), "Qphred.ProbE",
    "q=" \o S(q) \o " got " \o PStr(e.pe) \o " want " \o PairStr(ProbPhred(q)))
  \o D(q = 254, e.pe.k = "zero", "Qphred.ProbE", "ProbE(254) is not 0")
  \o D(q = 255, e.pe.k = "nan", "Qphred.ProbE", "ProbE(255) is not NaN")
  \o Mono(e, "phred", q, PhredFinite, "monotone(Qphred)")
  \o J(q \in PhredFinite, e.ep = q, "Ephred(ProbE(q))", "q=" \o S(q) \o " got " \o S(e.ep))
  \o D(q \in {254, 255}, e.ep = q, "Ephred(ProbE(q))", "q=" \o S(q) \o " got " \o S(e.ep))
  \o (IF q \in P2SDomain THEN JExp(P2STab[q], SolexaFinite, e.qs, "Qphred.Qsolexa", "q=" \o S(q)) ELSE <<>>)
  \o PerEnc(LAMBDA i : LET enc == EncOrder[i] IN
       IF enc \in PhredOffsetEncs
       THEN J(Printable(enc, q), e.dec[i] = q, "Qphred.Encode/DecodeToQphred round trip",
              enc \o " q=" \o S(q) \o " encoded " \o S(e.enc[i]) \o " decoded " \o S(e.dec[i]))
            \o D(EncodeSpec(enc, q) # UNDEF, e.enc[i] = EncodeSpec(enc, q), "Qphred.Encode byte",
                 enc \o " q=" \o S(q) \o " got " \o S(e.enc[i]) \o " want " \o S(EncodeSpec(enc, q)))
       ELSE IF enc = "Solexa"
       THEN D(q \in PhredFinite /\ Printable(enc, e.qs), e.enc[i] = EncodeSpec(enc, e.qs), "Qphred.Encode(Solexa)",
              "q=" \o S(q) \o " converts to Solexa " \o S(e.qs) \o " but encodes to " \o S(e.enc[i])
              \o " want " \o S(EncodeSpec(enc, e.qs)))
       ELSE D(TRUE, e.enc[i] = 32, "Encode(None)", "q=" \o S(q) \o " got " \o S(e.enc[i])))

SolexaItems(e) == LET s == e.s IN
  J(s \in SolexaFinite, IsNum(e.pe) /\ Close(PairOf(e.pe), ProbSolexa(s)), "Qsolexa.ProbE",
    "s=" \o S(s) \o " got " \o PStr(e.pe) \o " want " \o PairStr(ProbSolexa(s)))
  \o D(s \in SolexaFinite /\ s < 0, IsNum(e.cpe) /\ Close(PairOf(e.cpe), ProbSolexa(-s)), "1-Qsolexa.ProbE",
       "s=" \o S(s) \o " got " \o PStr(e.cpe) \o " want " \o PairStr(ProbSolexa(-s)))
  \o D(s = 127, e.pe.k = "zero", "Qsolexa.ProbE", "ProbE(127) is not 0")
  \o D(s = -128, e.pe.k = "nan", "Qsolexa.ProbE", "ProbE(-128) is not NaN")
  \o Mono(e, "solexa", s, SolexaFinite, "monotone(Qsolexa)")
  \o J(s \in SolexaFinite, e.es = s, "Esolexa(ProbE(s))", "s=" \o S(s) \o " got " \o S(e.es))
  \o D(s \in {-128, 127}, e.es = s, "Esolexa(ProbE(s))", "s=" \o S(s) \o " got " \o S(e.es))
  \o (IF s \in S2PDomain THEN JExp(S2PTab[s], PhredFinite, e.qp, "Qsolexa.Qphred", "s=" \o S(s)) ELSE <<>>)
  \o D(s = 127, e.qp = 254, "Qsolexa.Qphred", "the infinite Solexa score 127 converts to Phred " \o S(e.qp))
  \o D(s = -128, e.qp = 255, "Qsolexa.Qphred", "the undefined Solexa score -128 converts to Phred " \o S(e.qp))
  \o PerEnc(LAMBDA i : LET enc == EncOrder[i] IN
       IF enc = "Solexa"
       THEN J(Printable(enc, s), e.dec[i] = s, "Qsolexa.Encode/DecodeToQsolexa round trip",
              enc \o " s=" \o S(s) \o " encoded " \o S(e.enc[i]) \o " decoded " \o S(e.dec[i]))
            \o D(Printable(enc, s), e.enc[i] = EncodeSpec(enc, s), "Qsolexa.Encode byte",
                 "s=" \o S(s) \o " got " \o S(e.enc[i]) \o " want " \o S(EncodeSpec(enc, s)))
       ELSE IF enc \in PhredOffsetEncs
       THEN D(s \in SolexaFinite /\ Printable(enc, e.qp), e.enc[i] = EncodeSpec(enc, e.qp),
              "Qsolexa.Encode(" \o enc \o ")",
              "s=" \o S(s) \o " converts to Phred " \o S(e.qp) \o " but encodes to " \o S(e.enc[i])
              \o " want " \o S(EncodeSpec(enc, e.qp)))
       ELSE D(TRUE, e.enc[i] = 32, "Encode(None)", "s=" \o S(s) \o " got " \o S(e.enc[i])))

ByteItems(e) == LET b == e.b IN
  PerEnc(LAMBDA i : LET enc == EncOrder[i] IN
    IF enc \in PhredOffsetEncs
    THEN J(PrintableByte(enc, b), e.dp[i] = Decode(enc, b), "DecodeToQphred",
           enc \o " byte " \o S(b) \o " got " \o S(e.dp[i]) \o " want " \o S(Decode(enc, b)))
         \* decoding to the other score kind = decoding to the encoding's own kind, then the conversion (both stated in C18)
         \o J(PrintableByte(enc, b), e.ds[i] = (IF Off(enc) = 33 THEN e.p2s33 ELSE e.p2s64), "DecodeToQsolexa(Phred offset)",
              enc \o " byte " \o S(b) \o " got " \o S(e.ds[i]) \o " but the decoded Phred score converts to "
              \o S(IF Off(enc) = 33 THEN e.p2s33 ELSE e.p2s64))
         \o D(PrintableByte(enc, b), e.rp[i] = b, "Encode(Decode(byte))", enc \o " byte " \o S(b) \o " re-encodes to " \o S(e.rp[i]))
    ELSE IF enc = "Solexa"
    THEN J(PrintableByte(enc, b), e.ds[i] = Decode(enc, b), "DecodeToQsolexa",
           "byte " \o S(b) \o " got " \o S(e.ds[i]) \o " want " \o S(Decode(enc, b)))
         \o J(PrintableByte(enc, b), e.dp[i] = e.s2p64, "DecodeToQphred(Solexa)",
              "byte " \o S(b) \o " got " \o S(e.dp[i]) \o " but the decoded Solexa score converts to " \o S(e.s2p64))
         \o D(PrintableByte(enc, b), e.rs[i] = b, "Encode(Decode(byte))", "Solexa byte " \o S(b) \o " re-encodes to " \o S(e.rs[i]))
    ELSE D(TRUE, e.dp[i] = 255 /\ e.ds[i] = -128, "Decode(None)", "byte " \o S(b)))

ProbItems(e) == LET p == <<e.m, e.e>>
                    name == (IF e.comp THEN "1-" ELSE "") \o PairStr(p) IN
  IF e.op = "ephred"
  THEN JSat(PhredOfProb(p), PhredFinite, e.r, "Ephred", "p=" \o name)
  ELSE JSat(IF e.comp THEN SolexaOfComp(p) ELSE SolexaOfProb(p), SolexaFinite, e.r, "Esolexa", "p=" \o name)

SeqItems(e) == LET st == IF e.t = "solexa" THEN "solexa" ELSE "phred"
                   fin == IF st = "solexa" THEN SolexaFinite ELSE PhredFinite
                   enc == EncOrder[e.enc + 2]
                   k == e.i - e.off + 1
                   sc == e.scores[k]
                   p == <<e.m, e.e>>
                   who == e.t \o "." \o e.call
                   ctx == e.t \o " " \o enc \o " scores " \o S(e.scores) \o " i=" \o S(e.i) \o " offset " \o S(e.off) IN
  CASE e.call = "at" -> J(TRUE, e.r = sc /\ e.after = e.scores, who, ctx \o " got " \o S(e.r))
    [] e.call = "eat" ->
         J(sc \in fin, IsNum(e.pe) /\ Close(PairOf(e.pe), IF st = "solexa" THEN ProbSolexa(sc) ELSE ProbPhred(sc)), who,
           ctx \o " got " \o PStr(e.pe))
    [] e.call = "set" -> J(TRUE, e.r = e.v /\ e.after = [e.scores EXCEPT ![k] = e.v], who,
                           ctx \o " set " \o S(e.v) \o " then " \o S(e.after))
    [] e.call = "sete" ->
         LET exp == IF st = "phred" THEN PhredOfProb(p) ELSE IF e.comp THEN SolexaOfComp(p) ELSE SolexaOfProb(p) IN
         JSat(exp, fin, e.r, who, ctx \o " p=" \o (IF e.comp THEN "1-" ELSE "") \o PairStr(p))
         \o J(exp # TIE /\ exp \in fin /\ e.r = exp, e.after = [e.scores EXCEPT ![k] = exp], who \o " (other positions)", ctx)
    [] e.call = "enc" ->
         J(Native(enc) = st /\ Printable(enc, sc), e.d = sc, who \o " round trip",
           ctx \o " encoded " \o S(e.b) \o " decoded " \o S(e.d))
         \o D(Native(enc) = st /\ Printable(enc, sc), e.b = EncodeSpec(enc, sc), who \o " byte", ctx \o " got " \o S(e.b))
    [] e.call = "str" ->
         J(TRUE, Len(e.str) = Len(e.scores), who \o " length", ctx \o " got " \o S(e.str))
         \o FlattenSeq([j \in 1..Len(e.scores) |->
              J(j <= Len(e.str) /\ Native(enc) = st /\ Printable(enc, e.scores[j]),
                Decode(enc, e.str[j]) = e.scores[j], who \o " round trip",
                ctx \o " position " \o S(j) \o " rendered " \o S(e.str[j]))])
    [] OTHER -> << <<"drift", "unknown call", e.call>> >>

Items(e) ==
  IF e.panic # "" THEN << <<"fail", "panic in " \o e.op, e.panic>> >>
  ELSE CASE e.op = "phred" -> PhredItems(e)
         [] e.op = "solexa" -> SolexaItems(e)
         [] e.op = "byte" -> ByteItems(e)
         [] e.op \in {"ephred", "esolexa"} -> ProbItems(e)
         [] e.op = "seq" -> SeqItems(e)
         [] OTHER -> << <<"drift", "unknown op", e.op>> >>

Kind(items, k) == SelectSeq(items, LAMBDA x : x[1] = k)
Tag(items, n) == [j \in 1..Len(items) |-> <<n, items[j][2], items[j][3]>>]

TInit == /\ c = <<"trace", 0, 0>> /\ l = 1 /\ fails = <<>> /\ drift = <<>> /\ ties = <<>> /\ nok = 0
         /\ prev = [op |-> "", x |-> 0, rank |-> -1]
Step ==
  /\ l <= Len(Trace) /\ l' = l + 1 /\ UNCHANGED c
  /\ LET e == Trace[l]  it == Items(e) IN
     /\ fails' = fails \o Tag(Kind(it, "fail"), l)
     /\ drift' = drift \o Tag(Kind(it, "drift"), l)
     /\ ties' = ties \o Tag(Kind(it, "tie"), l)
     /\ nok' = nok + Len(Kind(it, "ok"))
     /\ prev' = IF e.op = "phred" THEN [op |-> "phred", x |-> e.q, rank |-> e.rank]
                ELSE IF e.op = "solexa" THEN [op |-> "solexa", x |-> e.s, rank |-> e.rank]
                ELSE [op |-> "", x |-> 0, rank |-> -1]
TSpec == TInit /\ [][Step]_<<c, l, fails, drift, ties, nok, prev>>

Emit ==
  (l = Len(Trace) + 1) =>
    Serialize(ToJson([events |-> Len(Trace), fails |-> fails, drift |-> drift, ties |-> ties, ok |-> nok,
                      model_ties |-> [p2s |-> Cardinality(P2STies), s2p |-> Cardinality(S2PTies)]]),
              IOEnv.OUT,
              [format |-> "TXT", charset |-> "UTF-8",
               openOptions |-> <<"WRITE", "CREATE", "TRUNCATE_EXISTING">>]).exitValue = 0
Consumed == TLCGet("stats").diameter - 1 = Len(Trace)
=============================================================================
