SPECIFICATION TSpec
CONSTANTS
  Variant = "spec"
INVARIANT Emit
POSTCONDITION Consumed
CHECK_DEADLOCK FALSE
