SPECIFICATION Spec
CONSTANTS
  Variant = "spec"
INVARIANTS
  CertifiedInv
  RoundTripInv
  ByteInv
  MonotoneInv
  IdentityInv
  AgreeInv
  InverseInv
  TablesInv
CHECK_DEADLOCK FALSE
