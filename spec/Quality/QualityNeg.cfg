SPECIFICATION Spec
CONSTANTS
  Variant = "asfound"
INVARIANTS
  CertifiedInv
  RoundTripInv
  ByteInv
  MonotoneInv
  IdentityInv
  AgreeInv
  InverseInv
  TablesInv
CHECK_DEADLOCK FALSE
