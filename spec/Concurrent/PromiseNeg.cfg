SPECIFICATION Spec
CONSTANTS
  Mutables = {FALSE}
  Relays = {FALSE, TRUE}
  KindSets <- MCKinds
  BorrowSafe = FALSE
VIEW View
INVARIANTS SettlesOnce SettlesExactlyOnce Unchanged WaitsAgree
CHECK_DEADLOCK TRUE
