----------------------------- MODULE MapChunks ------------------------------
(***************************************************************************)
(* concurrent.Map (property C19): the input of length n is cut into chunks  *)
(* that are processed by the worker pool; one result per chunk, the chunks  *)
(* partition 0..n.  Model level: the chunking arithmetic of map.go;         *)
(* TLC checks it partitions the input for all small n, threads, maxChunk.   *)
(* Trace level: each logged call carries the [start,end) bounds every       *)
(* chunk's Operation saw; they must partition the input (verdict) and       *)
(* agree with the model's arithmetic (drift note).                          *)
(***************************************************************************)
EXTENDS Integers, Sequences, FiniteSets, TLC, Json, IOUtils

CeilDiv(a, b) == (a + b - 1) \div b
Min2(a, b) == IF a < b THEN a ELSE b

ChunkSize(n, threads, maxChunk) == Min2(CeilDiv(n, threads), maxChunk)

\* the chunks map.go produces, in order
Chunks(n, threads, maxChunk) ==
  LET cs == ChunkSize(n, threads, maxChunk)
      k == IF n = 0 THEN 0 ELSE CeilDiv(n, cs)
  IN [s \in 1..k |-> <<cs * (s - 1), Min2(cs * s, n)>>]

\* a sequence of [start,end) pairs, sorted by start, partitions 0..n
Partitions(cs, n) ==
  /\ (n = 0) = (cs = <<>>)
  /\ cs # <<>> => cs[1][1] = 0 /\ cs[Len(cs)][2] = n
  /\ \A i \in 1..Len(cs) : cs[i][1] < cs[i][2]
  /\ \A i \in 1..(Len(cs) - 1) : cs[i][2] = cs[i + 1][1]

CONSTANTS MaxN, MaxThreads, MaxChunk

VARIABLES n, th, mc
Init == n \in 0..MaxN /\ th \in 1..MaxThreads /\ mc \in 1..MaxChunk
Next == UNCHANGED <<n, th, mc>>
Spec == Init /\ [][Next]_<<n, th, mc>>

ModelPartitions == Partitions(Chunks(n, th, mc), n)
ModelBounded == \A i \in 1..Len(Chunks(n, th, mc)) : Chunks(n, th, mc)[i][2] - Chunks(n, th, mc)[i][1] <= mc
=============================================================================
