------------------------------ MODULE PromiseSeq ------------------------------
(***************************************************************************)
(* concurrent.Promise used from one goroutine: every method as a function   *)
(* of the mailbox content and the three flags (mutable, recoverable, relay).*)
(* C19 states laws for immutable promises under Fulfill, Fail and Wait for  *)
(* all flag combinations; Recover and Break and the mutable promise are     *)
(* specified here beyond the property (extension).                          *)
(*                                                                          *)
(* box: <<>> (no message) or <<[v, e]>>; values: 0 is nil; errors: 0 nil,   *)
(* 9 the error given to Fail, -1 "attempt to fulfill failed promise",       *)
(* -2 "already set immutable", -3 "already failed - cannot relay".          *)
(* Modelled as the code behaves:                                            *)
(*  - a relay promise stores the error of a refused Fulfill in the promise; *)
(*  - Fail succeeds on any content with nil value and nil error, so a       *)
(*    promise fulfilled with nil can still be failed;                       *)
(*  - Recover takes the message out first: a non-recoverable promise is     *)
(*    left EMPTY by a refused Recover (RecoverKeeps = FALSE is the code as  *)
(*    found, TRUE what one would expect: the message is put back), and      *)
(*    Recover(nil) on a recoverable one leaves it empty by design;          *)
(*  - Break empties any promise.                                            *)
(***************************************************************************)
EXTENDS Integers, Sequences, TLC
CONSTANTS RecoverKeeps, MaxOps, Values

Empty == <<>>
Held(box) == IF box = Empty THEN [v |-> 0, e |-> 0, set |-> FALSE] ELSE [v |-> box[1].v, e |-> box[1].e, set |-> TRUE]

\* each operator returns [box, ret]: the mailbox afterwards and what the caller sees
Fulfill(fl, box, x) ==
  LET h == Held(box)
      e1 == IF h.e # 0 THEN -1 ELSE IF ~h.set \/ fl.mutable THEN 0 ELSE -2
      v1 == IF e1 = 0 THEN x ELSE h.v
      err == IF e1 # 0 /\ fl.relay /\ h.e # 0 THEN -3 ELSE e1
      re == IF e1 # 0 /\ fl.relay /\ h.e = 0 THEN e1 ELSE h.e
  IN [box |-> <<[v |-> v1, e |-> re]>>, ret |-> [err |-> err]]

Fail(fl, box, x) ==
  LET h == Held(box) IN
  IF h.e = 0 /\ h.v = 0 THEN [box |-> <<[v |-> x, e |-> 9]>>, ret |-> [ok |-> TRUE]]
  ELSE [box |-> <<[v |-> h.v, e |-> h.e]>>, ret |-> [ok |-> FALSE]]

Recover(fl, box, x) ==
  IF fl.recoverable THEN
    [box |-> IF x # 0 THEN Fulfill(fl, Empty, x).box ELSE Empty, ret |-> [ok |-> TRUE]]
  ELSE [box |-> IF RecoverKeeps THEN box ELSE Empty, ret |-> [ok |-> FALSE]]

Break(fl, box) == [box |-> Empty, ret |-> [ok |-> TRUE]]

\* Wait returns the content and leaves it; on an empty promise it blocks
WaitBlocks(box) == box = Empty
Wait(fl, box) == [box |-> box, ret |-> [v |-> Held(box).v, e |-> Held(box).e]]

Apply(fl, box, op) ==
  CASE op.op = "F" -> Fulfill(fl, box, op.x)
    [] op.op = "X" -> Fail(fl, box, op.x)
    [] op.op = "R" -> Recover(fl, box, op.x)
    [] op.op = "B" -> Break(fl, box)
    [] op.op = "W" -> Wait(fl, box)

(***************************************************************************)
(* The machine: any sequence of calls a single goroutine can make without   *)
(* blocking, for every flag combination                                     *)
(***************************************************************************)
VARIABLES fl, box, hist, firstv    \* firstv: ghost, the value of the first successful Fulfill (0: none yet)
vars == <<fl, box, hist, firstv>>
Flags == [mutable : BOOLEAN, recoverable : BOOLEAN, relay : BOOLEAN]
Ops == {[op |-> "F", x |-> v] : v \in {0} \cup Values} \cup {[op |-> "X", x |-> v] : v \in {0} \cup Values}
       \cup {[op |-> "R", x |-> v] : v \in {0} \cup Values} \cup {[op |-> "B", x |-> 0], [op |-> "W", x |-> 0]}

Init == fl \in Flags /\ box = Empty /\ hist = <<>> /\ firstv = 0
Do(op) ==
  /\ Len(hist) < MaxOps
  /\ ~(op.op = "W" /\ WaitBlocks(box))
  /\ LET r == Apply(fl, box, op) IN
     /\ box' = r.box
     /\ hist' = Append(hist, [op |-> op, ret |-> r.ret])
     /\ firstv' = IF op.op = "F" /\ r.ret.err = 0 /\ firstv = 0 THEN op.x ELSE firstv
  /\ UNCHANGED fl
Next == \E op \in Ops : Do(op)
Spec == Init /\ [][Next]_vars

OnlyFXW == \A i \in 1..Len(hist) : hist[i].op.op \in {"F", "X", "W"}
NoRB == \A i \in 1..Len(hist) : hist[i].op.op \notin {"R", "B"}

\* C19, immutable promise under Fulfill/Fail/Wait: exactly one Fulfill succeeds at most, and once one has,
\* the value never changes and a Wait would return it
ImmutableLaw ==
  (~fl.mutable /\ OnlyFXW) =>
     /\ \A i, j \in 1..Len(hist) : (hist[i].op.op = "F" /\ hist[j].op.op = "F" /\ hist[i].ret.err = 0 /\ hist[j].ret.err = 0) => i = j
     /\ firstv # 0 => (box # Empty /\ box[1].v = firstv)
\* a promise that was set (by a successful Fulfill or Fail) never blocks a later Wait, as long as nobody breaks or recovers it
SetStaysSet == (NoRB /\ hist # <<>> /\ \E i \in 1..Len(hist) : hist[i].op.op \in {"F", "X"}) => box # Empty
\* what one would expect of Recover: a refused Recover changes nothing (negative control: fails as found)
RefusedRecoverKeeps ==
  LET n == Len(hist) IN
  (n > 0 /\ hist[n].op.op = "R" /\ ~hist[n].ret.ok
     /\ \E j \in 1..(n - 1) : hist[j].op.op \in {"F", "X"} /\ \A k \in (j + 1)..(n - 1) : hist[k].op.op \notin {"R", "B"})
  => box # Empty
=============================================================================
