----------------------------- MODULE PromiseMC ------------------------------
EXTENDS Promise
\* every way of giving 2..4 of the four processes a Fulfill, Fail or Wait call
MCKinds == {k \in [P -> {"none", "F", "X", "W"}] : Cardinality({p \in P : k[p] # "none"}) >= 2}
\* quick: processes 1..3 only
MCKinds3 == {k \in MCKinds : k[4] = "none"}
=============================================================================
