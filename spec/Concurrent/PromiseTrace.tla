---------------------------- MODULE PromiseTrace ----------------------------
(***************************************************************************)
(* Validation of steered executions of a real concurrent.Promise against   *)
(* Promise.tla.  The harness holds the goroutines at the hooks, releases    *)
(* them in an order of its choosing and logs, in the order it observes      *)
(* them: rel(p, gate), arr(p, gate), ret(p, result) and finally             *)
(* end(alive).  The Go runtime, not the harness, decides who gets the       *)
(* mutex next, so the log does not determine the model's internal steps:    *)
(* TLC searches for them (silent IntStep).  A log is accepted iff some      *)
(* behaviour of the model produces exactly these observations and ends in   *)
(* a state where every call has returned (or only Waits on a promise that   *)
(* nobody settles are left).                                                *)
(*                                                                          *)
(* One line of the trace file is one execution.  TInit picks any line, so   *)
(* one TLC run judges them all; acceptance of line k is recorded in TLC     *)
(* register k (run with -workers 1).                                        *)
(***************************************************************************)
EXTENDS Promise

Trace == ndJsonDeserialize(IOEnv.TRACE)

VARIABLES seg, l
tvars == <<st, last, seg, l>>

KindsOf(t) == [p \in P |-> t.kinds[p]]

TInit ==
  \E k \in 1..Len(Trace) :
    /\ seg = k /\ l = 1
    /\ st = InitState(Trace[k].mu, Trace[k].re, KindsOf(Trace[k]))
    /\ last = <<"init">>
    /\ TLCSet(k, FALSE)

Ev == Trace[seg].ev

Consume ==
  /\ l <= Len(Ev)
  /\ l' = l + 1 /\ UNCHANGED seg
  /\ LET e == Ev[l] IN
     CASE e.e = "rel" ->
            /\ GateOf(st, e.p) = e.g
            /\ st' = Released(st, e.p) /\ last' = <<"release", e.p, e.g>>
       [] e.e = "arr" ->
            /\ GateOf(st, e.p) = e.g
            /\ UNCHANGED <<st, last>>
       [] e.e = "ret" ->
            /\ st.pc[e.p] = "done"
            /\ CASE st.kind[e.p] = "F" -> (e.err = 0) = (st.ret[e.p].e = 0) /\ e.err = st.ret[e.p].e
                 [] st.kind[e.p] = "X" -> e.ok = st.ret[e.p].ok
                 [] OTHER -> e.v = st.ret[e.p].v /\ e.err = st.ret[e.p].e
            /\ UNCHANGED <<st, last>>
       [] e.e = "end" ->
            /\ InternalSteps(st) = {}
            /\ Terminated(st)
            /\ {p \in P : Live(st, p)} = {e.alive[i] : i \in 1..Len(e.alive)}
            /\ TLCSet(seg, TRUE)
            /\ UNCHANGED <<st, last>>

Silent == IntStep /\ UNCHANGED <<seg, l>>

TNext == Consume \/ Silent
TSpec == TInit /\ [][TNext]_tvars

\* the invariants of the model are evaluated in every state the search visits
Rejected == {k \in 1..Len(Trace) : TLCGet(k) = FALSE}
RECURSIVE SetToSeq(_)
SetToSeq(S) == IF S = {} THEN <<>> ELSE LET x == CHOOSE y \in S : \A z \in S : y <= z IN <<x>> \o SetToSeq(S \ {x})

Verdict ==
  Serialize(ToJson([events |-> Len(Trace), fails |-> [i \in 1..Cardinality(Rejected) |-> <<SetToSeq(Rejected)[i], "no behaviour of Promise.tla explains this execution">>], drift |-> <<>>]),
            IOEnv.OUT,
            [format |-> "TXT", charset |-> "UTF-8",
             openOptions |-> <<"WRITE", "CREATE", "TRUNCATE_EXISTING">>]).exitValue = 0
=============================================================================
