--------------------------- MODULE PromiseSeqTrace ---------------------------
(***************************************************************************)
(* Judges sequential call sequences on real promises against PromiseSeq.    *)
(* event [mutable, recoverable, relay, ops]; ops[i] = [op, x, err, ok, v,   *)
(* e, blocked] as observed (blocked: a Wait that did not return).           *)
(* C19 (fails): immutable promise, only Fulfill/Fail/Wait: success or       *)
(* refusal of every call, the value every Wait returns, and no Wait         *)
(* blocking once the promise is set.  Everything else the model says        *)
(* (error texts, Recover, Break, mutable promises) is reported as drift.    *)
(***************************************************************************)
EXTENDS PromiseSeq, Json, IOUtils
Trace == ndJsonDeserialize(IOEnv.TRACE)
VARIABLES l, fails, drift

RECURSIVE Boxes(_, _, _, _)
\* the model's mailbox before each call
Boxes(f, ops, i, b) == IF i > Len(ops) THEN <<>> ELSE <<b>> \o Boxes(f, ops, i + 1, IF ops[i].op = "W" /\ WaitBlocks(b) THEN b ELSE Apply(f, b, ops[i]).box)

Strict(f, b, o) ==
  IF o.op = "W" /\ WaitBlocks(b) THEN o.blocked
  ELSE LET r == Apply(f, b, o).ret IN
       ~o.blocked /\
       CASE o.op = "F" -> o.err = r.err
         [] o.op \in {"X", "R"} -> o.ok = r.ok
         [] o.op = "B" -> TRUE
         [] o.op = "W" -> o.v = r.v /\ o.e = r.e
Loose(f, b, o) ==
  IF o.op = "W" /\ WaitBlocks(b) THEN o.blocked
  ELSE LET r == Apply(f, b, o).ret IN
       ~o.blocked /\
       CASE o.op = "F" -> (o.err = 0) = (r.err = 0)
         [] o.op = "X" -> o.ok = r.ok
         [] o.op = "W" -> o.v = r.v /\ (f.relay \/ o.e = r.e)
         [] OTHER -> TRUE

Judge(e) ==
  LET f == [mutable |-> e.mutable, recoverable |-> e.recoverable, relay |-> e.relay]
      bs == Boxes(f, e.ops, 1, Empty)
      c19 == ~e.mutable /\ \A i \in 1..Len(e.ops) : e.ops[i].op \in {"F", "X", "W"}
  IN [fail |-> c19 /\ \E i \in 1..Len(e.ops) : ~Loose(f, bs[i], e.ops[i]),
      drift |-> \E i \in 1..Len(e.ops) : ~Strict(f, bs[i], e.ops[i])]

Step ==
  /\ l <= Len(Trace) /\ l' = l + 1
  /\ LET j == Judge(Trace[l]) IN
     /\ fails' = IF j.fail THEN Append(fails, <<l, "sequential promise law broken (immutable promise under Fulfill/Fail/Wait)">>) ELSE fails
     /\ drift' = IF j.drift /\ ~j.fail THEN Append(drift, l) ELSE drift
  /\ UNCHANGED <<fl, box, hist, firstv>>
TInit == l = 1 /\ fails = <<>> /\ drift = <<>> /\ fl = [mutable |-> FALSE, recoverable |-> FALSE, relay |-> FALSE] /\ box = Empty /\ hist = <<>> /\ firstv = 0
TSpec == TInit /\ [][Step]_<<vars, l, fails, drift>>
Emit ==
  (l = Len(Trace) + 1) =>
    Serialize(ToJson([events |-> Len(Trace), fails |-> fails, drift |-> drift]), IOEnv.OUT,
              [format |-> "TXT", charset |-> "UTF-8",
               openOptions |-> <<"WRITE", "CREATE", "TRUNCATE_EXISTING">>]).exitValue = 0
Consumed == TLCGet("stats").diameter - 1 = Len(Trace)
=============================================================================
