SPECIFICATION TSpec
CONSTANTS
  MaxN = 0
  MaxThreads = 1
  MaxChunk = 1
INVARIANT Emit
POSTCONDITION Consumed
CHECK_DEADLOCK FALSE
