SPECIFICATION Spec
CONSTANTS
  Mutables = {FALSE}
  Relays = {FALSE, TRUE}
  KindSets <- MCKinds
  BorrowSafe = TRUE
VIEW View
INVARIANTS SettlesOnce SettlesExactlyOnce Unchanged WaitsAgree
PROPERTY Termination
CHECK_DEADLOCK TRUE
