------------------------------ MODULE Processor ------------------------------
(***************************************************************************)
(* concurrent.Processor (property C19, first half): T worker goroutines    *)
(* take operations from a queue, send one Result per operation, and on     *)
(* exit return their token; the result channel must be closed exactly once,*)
(* by the last worker to leave.                                            *)
(*                                                                         *)
(* Same grain as MorassConc: a process stands at a GATE (a verif step hook *)
(* in processor.go, or an API boundary of the harness goroutines), or at a *)
(* BLOCKING channel operation, or is done.  Release(p) lets p run from its *)
(* gate to its next gate/blocking point; Internal steps complete blocking  *)
(* operations that have become possible.                                   *)
(*                                                                         *)
(* Processes:  <<"m",0>> submits the operations in order then closes the   *)
(* queue;  <<"r",0>> reads results until the result channel is closed;     *)
(* <<"w",k>> are the workers.                                              *)
(*                                                                         *)
(* AtomicLast = FALSE is the code as found: a leaving worker closes the    *)
(* result channel if it sees all tokens back (len(p.work) == p.threads),   *)
(* which several workers can see, and which a worker can see before the    *)
(* others have even started.  TRUE is the repaired code: a counter of      *)
(* workers still running, decremented atomically by each leaver.           *)
(***************************************************************************)
EXTENDS Integers, Sequences, FiniteSets, TLC, Json, IOUtils

CONSTANTS
  Threads,     \* set of worker counts explored
  NOps,        \* set of operation counts explored
  Buffers,     \* set of result-channel capacities explored (0 = unbuffered)
  QCaps,       \* set of queue capacities explored (>= 1)
  FifoSend,    \* TRUE: workers blocked in p.out <- are served in the order they blocked (what the Go runtime
               \* does; needed to replay schedules deterministically).  FALSE: any blocked sender may go next
               \* (all the language promises; used for the exhaustive check).
  LateResult,  \* FALSE = the code: a panicking operation's error Result is sent BEFORE the worker hands its token
               \* back and is counted out.  TRUE (negative control): token and count first, Result afterwards.
  MaxPanics,   \* at most this many operations panic (and always fewer than there are workers)
  AtomicLast   \* TRUE = repaired

MaxOf(S) == CHOOSE x \in S : \A y \in S : y <= x
MaxT == MaxOf(Threads)
Workers == 1..MaxT

WorkerGates == {"proc.start", "proc.recv", "proc.sent", "proc.token_returned"}

\* An operation that panics: the worker's deferred function recovers, sends the error as that operation's
\* Result, and the worker then leaves like one that found the queue closed (one worker fewer from then on).
\* If every worker died the submitter would block for ever; such sets are outside what C19 speaks about.
PanicSets(t, n) == {S \in SUBSET (1..n) : Cardinality(S) <= MaxPanics /\ Cardinality(S) < t}

InitState(t, n, b, q, bad) ==
  [t |-> t, n |-> n, b |-> b, q |-> q, bad |-> bad,
   inq       |-> <<>>,         \* channel p.in (the queue)
   inClosed  |-> FALSE,
   out       |-> <<>>,         \* channel p.out
   sendq     |-> <<>>,         \* FifoSend: workers blocked (or about to send) on p.out, oldest first
   closes    |-> 0,            \* number of close(p.out) executed
   panicked  |-> FALSE,        \* close of closed channel / send on closed channel
   tokens    |-> t,            \* len(p.work)
   running   |-> t,            \* repaired code: workers that have not left yet
   wpc       |-> [w \in Workers |-> IF w <= t THEN "init" ELSE "absent"],
   cur       |-> [w \in Workers |-> 0],   \* operation held by the worker
   mpc       |-> IF n = 0 THEN "m.close" ELSE "m.submit",   \* main: next is to submit operation sent+1, or close
   sent      |-> 0,
   rpc       |-> "r.read",
   xpc       |-> "x.wait",     \* a goroutine that calls p.Wait()
   got       |-> <<>>]         \* results received by the reader, in order

Main == <<"m", 0>>
Reader == <<"r", 0>>
Waiter == <<"x", 0>>
Procs == {Main, Reader, Waiter} \cup {<<"w", w>> : w \in Workers}

GateOf(st, p) ==
  IF p = Main THEN (IF st.mpc \in {"m.submit", "m.close"} THEN st.mpc ELSE "")
  ELSE IF p = Reader THEN (IF st.rpc = "r.read" THEN "r.read" ELSE "")
  ELSE IF p = Waiter THEN (IF st.xpc \in {"x.wait", "x.returned"} THEN st.xpc ELSE "")
  ELSE IF st.wpc[p[2]] \in WorkerGates THEN st.wpc[p[2]] ELSE ""

CanRelease(st, p) == ~st.panicked /\ GateOf(st, p) # ""

(***************************************************************************)
(* Release steps                                                           *)
(***************************************************************************)
CloseOut(st) ==
  IF st.closes >= 1 THEN [st EXCEPT !.panicked = TRUE, !.closes = @ + 1]
  ELSE [st EXCEPT !.closes = 1]

ReleaseWorker(st, w) ==
  LET pc == st.wpc[w] IN
  CASE pc = "proc.start" -> [st EXCEPT !.wpc[w] = "recvwait"]           \* for input := range p.in
    [] pc = "proc.recv"  ->
         IF LateResult /\ st.cur[w] \in st.bad
           THEN [st EXCEPT !.wpc[w] = "proc.token_returned", !.tokens = @ + 1]       \* deferred function, wrong order
           ELSE [st EXCEPT !.wpc[w] = IF st.cur[w] \in st.bad THEN "psendwait" ELSE "sendwait",
                           !.sendq = IF FifoSend THEN Append(@, w) ELSE @]
                                                                       \* Operation(); p.out <- Result (from the deferred
                                                                       \* function when the operation panicked)
    [] pc = "proc.sent"  -> [st EXCEPT !.wpc[w] = "recvwait"]           \* stop not closed: next input
    [] pc = "proc.token_returned" ->
         \* the test that decides who closes p.out, then wg.Done()
         LET late == LateResult /\ st.cur[w] \in st.bad
             u == [st EXCEPT !.wpc[w] = IF late THEN "latesendwait" ELSE "done", !.running = @ - 1,
                             !.sendq = IF late /\ FifoSend THEN Append(@, w) ELSE @] IN
         IF AtomicLast
           THEN IF u.running = 0 THEN CloseOut(u) ELSE u
           ELSE IF st.tokens = st.t THEN CloseOut(u) ELSE u

Released(st, p) ==
  IF p = Main THEN
    (IF st.mpc = "m.submit" THEN [st EXCEPT !.mpc = "m.sending"]
     ELSE [st EXCEPT !.mpc = "m.done", !.inClosed = TRUE])                \* Close()
  ELSE IF p = Reader THEN [st EXCEPT !.rpc = "r.recvwait"]
  ELSE IF p = Waiter THEN [st EXCEPT !.xpc = IF st.xpc = "x.wait" THEN "x.waiting" ELSE "x.done"]
  ELSE ReleaseWorker(st, p[2])

(***************************************************************************)
(* Internal steps                                                          *)
(***************************************************************************)
\* after its Result has gone: the loop goes on, or (panicked operation) the deferred function returns the token
AfterSend(u0, w) ==
  LET u == [u0 EXCEPT !.sendq = IF FifoSend THEN Tail(@) ELSE @] IN
  IF u.wpc[w] = "latesendwait" THEN [u EXCEPT !.wpc[w] = "done"]
  ELSE IF u.wpc[w] = "psendwait" THEN [u EXCEPT !.wpc[w] = "proc.token_returned", !.tokens = @ + 1]
  ELSE [u EXCEPT !.wpc[w] = "proc.sent"]
MaySend(st, w) == st.wpc[w] \in {"sendwait", "psendwait", "latesendwait"} /\ (FifoSend => Head(st.sendq) = w)

InternalSteps(st) ==
  IF st.panicked THEN {} ELSE
  \* worker start: <-p.work
  {[st EXCEPT !.wpc[w] = "proc.start", !.tokens = @ - 1] :
     w \in {x \in Workers : st.wpc[x] = "init" /\ st.tokens > 0}}
  \cup
  \* main: p.in <- op
  (IF st.mpc = "m.sending" /\ Len(st.inq) < st.q
     THEN {[st EXCEPT !.inq = Append(@, st.sent + 1), !.sent = @ + 1,
                      !.mpc = IF st.sent + 1 < st.n THEN "m.submit" ELSE "m.close"]}
     ELSE {})
  \cup
  \* worker: receive the next operation ...
  {[st EXCEPT !.wpc[w] = "proc.recv", !.cur[w] = Head(st.inq), !.inq = Tail(@)] :
     w \in {x \in Workers : st.wpc[x] = "recvwait" /\ st.inq # <<>>}}
  \cup
  \* ... or find the queue closed and drained: deferred function returns the token
  {[st EXCEPT !.wpc[w] = "proc.token_returned", !.tokens = @ + 1] :
     w \in {x \in Workers : st.wpc[x] = "recvwait" /\ st.inq = <<>> /\ st.inClosed}}
  \cup
  \* worker: p.out <- Result (buffered)
  {IF st.closes > 0 THEN [st EXCEPT !.panicked = TRUE]
   ELSE AfterSend([st EXCEPT !.out = Append(@, st.cur[w])], w) :
     w \in {x \in Workers : MaySend(st, x) /\ (Len(st.out) < st.b \/ st.closes > 0)}}
  \cup
  \* worker -> reader rendezvous on an unbuffered (or momentarily empty) channel
  {AfterSend([st EXCEPT !.got = Append(@, st.cur[w]), !.rpc = "r.read"], w) :
     w \in {x \in Workers : MaySend(st, x) /\ st.closes = 0 /\ st.out = <<>>
                              /\ st.rpc = "r.recvwait" /\ Len(st.out) >= st.b}}
  \cup
  \* reader: <-p.out
  (IF st.rpc = "r.recvwait" /\ st.out # <<>>
     THEN {[st EXCEPT !.got = Append(@, Head(st.out)), !.out = Tail(@), !.rpc = "r.read"]}
     ELSE {})
  \cup
  (IF st.rpc = "r.recvwait" /\ st.out = <<>> /\ st.closes > 0
     THEN {[st EXCEPT !.rpc = "r.done"]}
     ELSE {})
  \cup
  \* p.Wait(): the WaitGroup was incremented once per worker before the workers were started
  \* and each worker calls Done as its last step
  (IF st.xpc = "x.waiting" /\ \A w \in Workers : st.wpc[w] \in {"done", "absent"}
     THEN {[st EXCEPT !.xpc = "x.returned"]}
     ELSE {})

RECURSIVE Settle(_)
Settle(st) == IF InternalSteps(st) = {} THEN st ELSE Settle(CHOOSE u \in InternalSteps(st) : TRUE)

(***************************************************************************)
(* The machine checked exhaustively                                        *)
(***************************************************************************)
VARIABLES st, last
vars == <<st, last>>

Init ==
  /\ \E t \in Threads, n \in NOps, b \in Buffers, q \in QCaps : \E bad \in PanicSets(t, n) : st = InitState(t, n, b, q, bad)
  /\ last = <<"init">>

Rel(p) == CanRelease(st, p) /\ st' = Released(st, p) /\ last' = <<"release", p, GateOf(st, p)>>
IntStep == \E u \in InternalSteps(st) : st' = u /\ last' = <<"internal">>

AllDone(s) ==
  /\ \A w \in Workers : s.wpc[w] \in {"done", "absent"}
  /\ s.mpc = "m.done" /\ s.rpc = "r.done" /\ s.xpc = "x.done"

Terminated(s) == AllDone(s) \/ s.panicked

Next == (\E p \in Procs : Rel(p)) \/ IntStep \/ (Terminated(st) /\ UNCHANGED vars)
Spec == Init /\ [][Next]_vars /\ WF_vars(Next)
View == st

(***************************************************************************)
(* Properties of C19 (Processor)                                           *)
(***************************************************************************)
Range(s) == {s[i] : i \in 1..Len(s)}

NoPanic == ~st.panicked
ClosedAtMostOnce == st.closes <= 1
\* nothing is delivered twice or invented
NoDuplicates == Cardinality(Range(st.got)) = Len(st.got) /\ Range(st.got) \subseteq 1..st.sent
\* the channel is closed only when every worker has left: nothing can be sent afterwards
CloseIsLast == st.closes > 0 => \A w \in Workers : st.wpc[w] \in {"done", "absent"}
\* at the end every submitted operation has produced exactly one result, the channel is closed once
Complete == AllDone(st) => (Range(st.got) = 1..st.n /\ Len(st.got) = st.n /\ st.closes = 1)
\* Wait returns only when every worker has left (and every submitted operation has been run)
WaitMeansDone == st.xpc \in {"x.returned", "x.done"} => \A w \in Workers : st.wpc[w] \in {"done", "absent"}
\* after the queue is closed all workers exit, the reader sees the close (so Wait returns)
Termination == <>[](AllDone(st))
=============================================================================
