SPECIFICATION Spec
CONSTANTS
  RecoverKeeps = FALSE
  MaxOps = 4
  Values = {1, 2}
INVARIANTS ImmutableLaw SetStaysSet
CHECK_DEADLOCK FALSE
