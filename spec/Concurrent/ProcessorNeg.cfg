SPECIFICATION Spec
CONSTANTS
  Threads = {1, 2, 3}
  NOps = {0, 1, 2, 3, 4}
  Buffers = {0, 1, 2}
  QCaps = {1, 2}
  MaxPanics = 1
  LateResult = FALSE
  FifoSend = FALSE
  AtomicLast = FALSE
VIEW View
INVARIANTS WaitMeansDone NoPanic ClosedAtMostOnce NoDuplicates CloseIsLast Complete
CHECK_DEADLOCK TRUE
