SPECIFICATION Spec
CONSTANTS
  Lookaheads = {0, 1, 2, 3}
  MaxCalls = 6
INVARIANTS InOrder BoundedAhead
CONSTRAINT Bound
CHECK_DEADLOCK FALSE
