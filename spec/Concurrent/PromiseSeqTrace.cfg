SPECIFICATION TSpec
CONSTANTS
  RecoverKeeps = FALSE
  MaxOps = 0
  Values = {1}
INVARIANT Emit
POSTCONDITION Consumed
CHECK_DEADLOCK FALSE
