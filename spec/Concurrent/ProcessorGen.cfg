SPECIFICATION GenSpec
CONSTANTS
  Threads = {1, 2, 3}
  NOps = {0, 1, 2, 3, 4}
  Buffers = {0, 1, 2}
  QCaps = {1, 2}
  MaxPanics = 1
  LateResult = FALSE
  FifoSend = TRUE
  AtomicLast = TRUE
INVARIANTS EmitSchedule
CHECK_DEADLOCK FALSE
