SPECIFICATION TSpec
CONSTANTS
  Mutables = {FALSE}
  Relays = {FALSE}
  KindSets = {}
  BorrowSafe = TRUE
INVARIANTS SettlesOnce Unchanged WaitsAgree
POSTCONDITION Verdict
CHECK_DEADLOCK FALSE
