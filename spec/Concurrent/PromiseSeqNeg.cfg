SPECIFICATION Spec
CONSTANTS
  RecoverKeeps = FALSE
  MaxOps = 3
  Values = {1}
INVARIANTS RefusedRecoverKeeps
CHECK_DEADLOCK FALSE
