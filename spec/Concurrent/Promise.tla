------------------------------- MODULE Promise -------------------------------
(***************************************************************************)
(* concurrent.Promise (property C19, second half).  A promise is a         *)
(* one-slot mailbox (channel of capacity 1) plus a mutex; Fulfill and Fail *)
(* lock, take the mailbox content without blocking to learn whether the    *)
(* promise is set, decide, put a result back and unlock.                   *)
(*                                                                         *)
(* BorrowSafe = TRUE is the repaired Wait: lock; take; if nothing is there *)
(* sleep on a condition variable (signalled by every put) and retry; put   *)
(* the result back; unlock.  BorrowSafe = FALSE is Wait as found: a        *)
(* blocking take and a put with no lock, which opens a window in which the *)
(* mailbox of a set promise is empty.                                      *)
(*                                                                         *)
(* Processes 1..4 each make one call: F = Fulfill(own index), X = Fail     *)
(* with error 9, W = Wait.  Values: 0 is nil.  Errors: 0 nil, 9 the Fail   *)
(* error, -1 "failed promise", -2 "already set immutable", -3 "cannot      *)
(* relay".  Gates are the verif hooks promise.fulfill.taken,               *)
(* promise.fail.taken, promise.wait.taken (all after the take) and the     *)
(* harness gate "call" before the method is entered.                       *)
(***************************************************************************)
EXTENDS Integers, Sequences, FiniteSets, TLC, Json, IOUtils

CONSTANTS
  Mutables, Relays,   \* flag values explored
  KindSets,           \* set of assignments [1..4 -> {"none","F","X","W"}] explored
  BorrowSafe          \* TRUE = repaired

P == 1..4
Gates == {"call", "promise.fulfill.taken", "promise.fail.taken", "promise.wait.taken"}
NoRes == [v |-> 0, e |-> 0]

InitState(mu, re, kinds) ==
  [mutable |-> mu, relay |-> re, kind |-> kinds,
   pc   |-> [p \in P |-> IF kinds[p] = "none" THEN "absent" ELSE "call"],
   lock |-> 0,
   box  |-> <<>>,
   hold |-> [p \in P |-> [v |-> 0, e |-> 0, set |-> FALSE]],
   ret  |-> [p \in P |-> [v |-> 0, e |-> 0, ok |-> FALSE]],
   settled |-> <<>>,      \* ghost: the result stored by the first successful Fulfill or Fail
   nsettle |-> 0]         \* ghost: number of successful Fulfill/Fail calls

GateOf(st, p) == IF st.pc[p] \in Gates THEN st.pc[p] ELSE ""
CanRelease(st, p) == GateOf(st, p) # ""

(***************************************************************************)
(* what fulfill / fail decide, given what they took                        *)
(***************************************************************************)
FulfillOutcome(st, p) ==
  LET h == st.hold[p]
      e1 == IF h.e # 0 THEN -1 ELSE IF ~h.set \/ st.mutable THEN 0 ELSE -2
      v1 == IF e1 = 0 THEN p ELSE h.v
      err == IF e1 # 0 /\ st.relay /\ h.e # 0 THEN -3 ELSE e1
      re == IF e1 # 0 /\ st.relay /\ h.e = 0 THEN e1 ELSE h.e
  IN [v |-> v1, e |-> re, err |-> err]

FailOutcome(st, p) ==
  LET h == st.hold[p] IN
  IF h.e = 0 /\ h.v = 0 THEN [v |-> 0, e |-> 9, ok |-> TRUE] ELSE [v |-> h.v, e |-> h.e, ok |-> FALSE]

(***************************************************************************)
(* Release steps                                                           *)
(***************************************************************************)
Released(st, p) ==
  LET pc == st.pc[p] IN
  CASE pc = "call" ->
         IF st.kind[p] = "W" /\ ~BorrowSafe THEN [st EXCEPT !.pc[p] = "w.taking"]
         ELSE [st EXCEPT !.pc[p] = "locking"]
    [] pc = "promise.fulfill.taken" ->
         LET o == FulfillOutcome(st, p) IN
         [st EXCEPT !.pc[p] = "putting", !.hold[p] = [v |-> o.v, e |-> o.e, set |-> TRUE],
                    !.ret[p] = [v |-> 0, e |-> o.err, ok |-> o.err = 0]]
    [] pc = "promise.fail.taken" ->
         LET o == FailOutcome(st, p) IN
         [st EXCEPT !.pc[p] = "putting", !.hold[p] = [v |-> o.v, e |-> o.e, set |-> TRUE],
                    !.ret[p] = [v |-> 0, e |-> 0, ok |-> o.ok]]
    [] pc = "promise.wait.taken" ->
         [st EXCEPT !.pc[p] = "putting", !.ret[p] = [v |-> st.hold[p].v, e |-> st.hold[p].e, ok |-> TRUE]]

(***************************************************************************)
(* Internal steps                                                          *)
(***************************************************************************)
Take(st, p) ==  \* messageState(): non-blocking take
  IF st.box # <<>> THEN [st EXCEPT !.box = <<>>, !.hold[p] = [v |-> st.box[1].v, e |-> st.box[1].e, set |-> TRUE]]
  ELSE [st EXCEPT !.hold[p] = [v |-> 0, e |-> 0, set |-> FALSE]]

InternalSteps(st) ==
  \* acquire the mutex, then messageState()
  {LET t == Take([st EXCEPT !.lock = p], p) IN
     IF st.kind[p] = "F" THEN [t EXCEPT !.pc[p] = "promise.fulfill.taken"]
     ELSE IF st.kind[p] = "X" THEN [t EXCEPT !.pc[p] = "promise.fail.taken"]
     ELSE IF t.hold[p].set THEN [t EXCEPT !.pc[p] = "promise.wait.taken"]
     ELSE [t EXCEPT !.pc[p] = "sleeping", !.lock = 0]              \* p.set.Wait()
   : p \in {q \in P : st.pc[q] \in {"locking", "waking"} /\ st.lock = 0}}
  \cup
  \* p.message <- r ; Broadcast ; Unlock ; return
  {LET settles == st.kind[p] \in {"F", "X"} /\ st.ret[p].ok
       t == [st EXCEPT !.box = <<[v |-> st.hold[p].v, e |-> st.hold[p].e]>>,
                       !.pc = [q \in P |-> IF q = p THEN "done"
                                           ELSE IF st.pc[q] = "sleeping" /\ st.kind[p] # "W" THEN "waking"
                                           ELSE st.pc[q]],
                       !.lock = IF st.lock = p THEN 0 ELSE @]
   IN IF settles
        THEN [t EXCEPT !.nsettle = @ + 1,
                       !.settled = IF st.settled = <<>> THEN <<[v |-> st.hold[p].v, e |-> st.hold[p].e]>> ELSE @]
        ELSE t
   : p \in {q \in P : st.pc[q] = "putting" /\ st.box = <<>>}}
  \cup
  \* as found: r := <-p.message with no lock
  {[Take(st, p) EXCEPT !.pc[p] = "promise.wait.taken"]
   : p \in {q \in P : st.pc[q] = "w.taking" /\ st.box # <<>>}}

RECURSIVE Settle(_)
Settle(st) == IF InternalSteps(st) = {} THEN st ELSE Settle(CHOOSE u \in InternalSteps(st) : TRUE)

(***************************************************************************)
VARIABLES st, last
vars == <<st, last>>

Init ==
  /\ \E mu \in Mutables, re \in Relays, k \in KindSets : st = InitState(mu, re, k)
  /\ last = <<"init">>

Rel(p) == CanRelease(st, p) /\ st' = Released(st, p) /\ last' = <<"release", p, GateOf(st, p)>>
IntStep == \E u \in InternalSteps(st) : st' = u /\ last' = <<"internal">>

Live(s, p) == s.pc[p] \notin {"absent", "done"}
Settlers(s) == {p \in P : s.kind[p] \in {"F", "X"}}
\* all calls have returned, except that Waits sleep for ever on a promise nobody settles
Terminated(s) ==
  \A p \in P : Live(s, p) => (s.kind[p] = "W" /\ s.pc[p] \in {"sleeping", "w.taking"} /\ Settlers(s) = {})

Next == (\E p \in P : Rel(p)) \/ IntStep \/ (Terminated(st) /\ UNCHANGED vars)
Spec == Init /\ [][Next]_vars /\ WF_vars(Next)
View == st

(***************************************************************************)
(* Properties of C19 (immutable promises)                                  *)
(***************************************************************************)
SameRes(a, b) == a.v = b.v /\ (st.relay \/ a.e = b.e)   \* relay promises: judged on the value only

\* exactly one Fulfill/Fail takes effect, the others report it
SettlesOnce == ~st.mutable => st.nsettle <= 1
SettlesExactlyOnce ==
  (~st.mutable /\ Settlers(st) # {} /\ \A p \in Settlers(st) : st.pc[p] = "done") => st.nsettle = 1
\* once settled the promise keeps that result
Unchanged ==
  (~st.mutable /\ st.settled # <<>> /\ st.box # <<>>) => SameRes(st.box[1], st.settled[1])
\* every Wait that has returned delivered the settled result
WaitsAgree ==
  ~st.mutable =>
    \A p \in P : (st.kind[p] = "W" /\ st.pc[p] = "done") =>
                   st.settled # <<>> /\ SameRes(st.ret[p], st.settled[1])
\* no call blocks for ever (deadlock check + this), unless nobody ever settles the promise
Termination == <>[](Terminated(st))
=============================================================================
