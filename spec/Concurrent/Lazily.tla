------------------------------- MODULE Lazily --------------------------------
(***************************************************************************)
(* concurrent.Lazily (beyond the listed properties): a goroutine evaluates  *)
(* f on its own state again and again and offers each result on a channel   *)
(* of capacity `lookahead'; the returned function receives from it.  A      *)
(* closed reaper channel makes the producer stop and close the channel.     *)
(*                                                                          *)
(* What users rely on: the n-th call of the returned function yields the    *)
(* n-th value of the sequence f generates (no loss, no duplication, no      *)
(* reordering, whatever the interleaving), the producer never runs more     *)
(* than lookahead + 2 evaluations ahead of the consumer (one offered, one   *)
(* being computed), and after the reaper fires consumers get the buffered   *)
(* values and then nil for ever.                                            *)
(***************************************************************************)
EXTENDS Integers, Sequences, TLC

CONSTANTS Lookaheads, MaxCalls

VARIABLES la, buf, produced, offered, ppc, reaped, closed, got, calls
vars == <<la, buf, produced, offered, ppc, reaped, closed, got, calls>>

Init ==
  /\ la \in Lookaheads
  /\ buf = <<>> /\ produced = 0 /\ offered = 0 /\ ppc = "eval" /\ reaped = FALSE /\ closed = FALSE
  /\ got = <<>> /\ calls = 0

\* producer: result, state = f(state...)
Eval == ppc = "eval" /\ produced' = produced + 1 /\ ppc' = "offer" /\ UNCHANGED <<la, buf, offered, reaped, closed, got, calls>>
\* producer: select { case rc <- result: ; case <-reaper: return }   (buffered send)
Send == /\ ppc = "offer" /\ Len(buf) < la
        /\ buf' = Append(buf, produced) /\ offered' = produced /\ ppc' = "eval"
        /\ UNCHANGED <<la, produced, reaped, closed, got, calls>>
\* unbuffered rendezvous (lookahead 0) or hand-over to a waiting consumer
Handover == /\ ppc = "offer" /\ la = 0 /\ calls < MaxCalls
            /\ got' = Append(got, produced) /\ calls' = calls + 1 /\ offered' = produced /\ ppc' = "eval"
            /\ UNCHANGED <<la, buf, produced, reaped, closed>>
Quit == /\ ppc = "offer" /\ reaped /\ ppc' = "done" /\ closed' = TRUE
        /\ UNCHANGED <<la, buf, produced, offered, reaped, got, calls>>
\* consumer: <-rc
Recv == /\ buf # <<>> /\ calls < MaxCalls
        /\ got' = Append(got, Head(buf)) /\ buf' = Tail(buf) /\ calls' = calls + 1
        /\ UNCHANGED <<la, produced, offered, ppc, reaped, closed>>
RecvClosed == /\ buf = <<>> /\ closed /\ calls < MaxCalls
              /\ got' = Append(got, 0) /\ calls' = calls + 1          \* nil
              /\ UNCHANGED <<la, buf, produced, offered, ppc, reaped, closed>>
Reap == ~reaped /\ reaped' = TRUE /\ UNCHANGED <<la, buf, produced, offered, ppc, closed, got, calls>>

Next == Eval \/ Send \/ Handover \/ Quit \/ Recv \/ RecvClosed \/ Reap
Spec == Init /\ [][Next]_vars

Bound == produced <= MaxCalls + 6

\* the values received are 1, 2, 3, ... in order, followed only by nils once the channel is closed
InOrder ==
  \A i \in 1..Len(got) : got[i] = i \/ (got[i] = 0 /\ closed /\ \A j \in i..Len(got) : got[j] = 0)
\* evaluations never run further ahead than the buffer, the value on offer and the one being computed
BoundedAhead == produced <= Len(SelectSeq(got, LAMBDA x : x # 0)) + la + 2
=============================================================================
