---------------------------- MODULE ProcessorGen ----------------------------
(* Schedule generation for the gate harness: internal steps taken eagerly. *)
EXTENDS Processor

VARIABLE sched

ArrivalsAfter(before, after, p) ==
  {<<q, GateOf(after, q)>> : q \in {r \in Procs : GateOf(after, r) # "" /\ (r = p \/ GateOf(before, r) = "")}}

Live(t, q) ==
  IF q = Main THEN t.mpc # "m.done"
  ELSE IF q = Reader THEN t.rpc # "r.done"
  ELSE IF q = Waiter THEN t.xpc # "x.done"
  ELSE t.wpc[q[2]] \notin {"done", "absent"}

GenInit ==
  /\ \E t \in Threads, n \in NOps, b \in Buffers, q \in QCaps : \E bad \in PanicSets(t, n) : st = Settle(InitState(t, n, b, q, bad))
  /\ last = <<"init">> /\ sched = <<>>

GenNext ==
  \E p \in Procs :
    /\ CanRelease(st, p)
    /\ LET t == Settle(Released(st, p)) IN
       /\ st' = t
       /\ last' = <<"release", p, GateOf(st, p)>>
       /\ sched' = Append(sched, [p |-> p, g |-> GateOf(st, p), arr |-> ArrivalsAfter(st, t, p),
                                  blocked |-> {q \in Procs : GateOf(t, q) = "" /\ Live(t, q)}])

GenSpec == GenInit /\ [][GenNext]_<<st, last, sched>>

EmitSchedule ==
  Terminated(st) =>
    Serialize(ToJson([t |-> st.t, n |-> st.n, b |-> st.b, q |-> st.q, bad |-> st.bad, got |-> st.got, sched |-> sched]) \o "\n",
              IOEnv.OUT,
              [format |-> "TXT", charset |-> "UTF-8",
               openOptions |-> <<"WRITE", "CREATE", "APPEND">>]).exitValue = 0
=============================================================================
