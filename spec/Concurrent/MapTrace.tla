------------------------------ MODULE MapTrace -------------------------------
EXTENDS MapChunks

Trace == ndJsonDeserialize(IOEnv.TRACE)
VARIABLES l, fails, drift
TInit == n = 0 /\ th = 1 /\ mc = 1 /\ l = 1 /\ fails = <<>> /\ drift = <<>>

\* event: [n, threads, maxchunk, err, results: number of results returned, chunks: sorted <<start,end>> pairs]
Step ==
  /\ l <= Len(Trace) /\ l' = l + 1
  /\ LET e == Trace[l] IN
     IF e.op = "map" THEN
       /\ n' = e.n /\ th' = e.threads /\ mc' = e.maxchunk
       /\ fails' = IF e.err = "" /\ Partitions(e.chunks, e.n) /\ e.results = Len(e.chunks)
                     THEN fails ELSE Append(fails, <<l, "chunks do not partition the input, or results # chunks">>)
       /\ drift' = IF e.chunks = Chunks(e.n, e.threads, e.maxchunk) THEN drift ELSE Append(drift, l)
     ELSE IF e.op = "lazy" THEN
       \* concurrent.Lazily (beyond the listed properties; see Lazily.tla): values 1, 2, 3, ... in order,
       \* nils only after the reaper fired, evaluations at most lookahead + 2 ahead of the consumer.
       \* A mismatch is reported as drift, not as a violation of C19.
       /\ UNCHANGED <<n, th, mc, fails>>
       /\ drift' = IF /\ \A i \in 1..Len(e.values) :
                           e.values[i] = i \/ (e.values[i] = 0 /\ e.reapat >= 0 /\ \A j \in i..Len(e.values) : e.values[j] = 0)
                      /\ e.ahead <= e.la + 2
                     THEN drift ELSE Append(drift, l)
     ELSE
       \* op = "procrun": an un-gated run of a Processor: e.results is the sorted list of operation
       \* numbers for which a (correct) result arrived before the result channel was closed
       /\ UNCHANGED <<n, th, mc, drift>>
       /\ fails' = IF /\ e.results = [i \in 1..e.n |-> i]
                      /\ e.closed /\ e.waited /\ e.bad = ""
                     THEN fails
                     ELSE Append(fails, <<l, "operations and results differ, or the pool did not shut down">>)
TSpec == TInit /\ [][Step]_<<n, th, mc, l, fails, drift>>
Emit ==
  (l = Len(Trace) + 1) =>
    Serialize(ToJson([events |-> Len(Trace), fails |-> fails, drift |-> drift]), IOEnv.OUT,
              [format |-> "TXT", charset |-> "UTF-8",
               openOptions |-> <<"WRITE", "CREATE", "TRUNCATE_EXISTING">>]).exitValue = 0
Consumed == TLCGet("stats").diameter - 1 = Len(Trace)
=============================================================================
