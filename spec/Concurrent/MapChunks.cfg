SPECIFICATION Spec
CONSTANTS
  MaxN = 40
  MaxThreads = 8
  MaxChunk = 9
INVARIANTS ModelPartitions ModelBounded
