----------------------------- MODULE GeneTrace ------------------------------
(***************************************************************************)
(* Judges a log of calls made on the real feat/gene, feat code (driver      *)
(* harness/gened) with the operators of Gene.tla.  Every event carries its  *)
(* own inputs (read from the real objects right before the call) and the    *)
(* results; nothing but the operators of Gene.tla decides.                  *)
(*                                                                          *)
(* fails: the real code contradicts what property C20 states.               *)
(* drift: the real code differs from Gene.tla where C20 says nothing (which *)
(*        of several applicable errors is reported, an ACCEPTED Add that    *)
(*        rewrites the slice it was called on, the exact depth at which the *)
(*        "chain too long" panic starts beyond the documented 1000, which   *)
(*        of the two errors a rejected SetFeatures reports).                *)
(***************************************************************************)
EXTENDS Gene

Trace == ndJsonDeserialize(IOEnv.TRACE)
VARIABLES l, fails, drift, fkinds, dkinds
tvars == <<kind, cs, held, spare, last, glen, l, fails, drift, fkinds, dkinds>>

TInit == kind = "trace" /\ cs = 0 /\ held = <<>> /\ spare = 0 /\ last = NoCall /\ glen = 0 /\ l = 1 /\ fails = <<>> /\ drift = <<>>
         /\ fkinds = [k \in {"-"} |-> 0] /\ dkinds = [k \in {"-"} |-> 0]

\* a judgement is a pair <<fails, drifts>> of sequences of strings
Ok == <<<<>>, <<>>>>
Fail(c, why) == IF c THEN <<>> ELSE <<why>>
J(f, d) == <<f, d>>

JudgeAdd(e) ==
  LET a == AddRet(e.before, e.spare, e.xs) IN
  IF e.panic # "" THEN J(<<"Exons.Add panicked: " \o e.panic>>, <<>>)
  ELSE IF (e.err = "") # (a.err = "")
    THEN J(<<"Exons.Add " \o (IF e.err = "" THEN "accepted" ELSE "rejected (" \o e.err \o ")") \o
             " where the specification says " \o (IF a.err = "" THEN "accepted" ELSE a.err)>>, <<>>)
  ELSE IF a.err = ""
    THEN J(Fail(e.ret = a.ret, "accepted Exons.Add did not return the sorted union of the old and the new exons"),
           Fail(e.old = a.old, "accepted Exons.Add rewrote the slice it was called on") \o
           Fail(e.xsafter = e.xs, "Exons.Add modified its argument slice"))
    ELSE J(Fail(IF Variant = "spec" THEN e.ret = e.before /\ e.old = e.before
                ELSE e.old \in AddOlds(e.before, e.spare, e.xs) /\ e.ret = e.old,    \* diagnosis runs only
                "rejected Exons.Add (" \o e.err \o ") changed the previous exon set: " \o
                (IF e.old # e.before THEN "the slice it was called on is rewritten" ELSE "the slice it was called on is intact") \o
                (IF e.ret # e.before THEN ", the returned slice is not the old one" ELSE "")),
           Fail(e.err = a.err \/ e.err \in AddClasses(e.before, e.xs), "Exons.Add error is '" \o e.err \o "', specification: '" \o a.err \o "'") \o
           Fail(e.xsafter = e.xs, "Exons.Add modified its argument slice"))

JudgeSet(e) ==
  LET c == BuildClass(e.xs) IN
  IF e.panic # "" THEN J(<<"SetExons panicked: " \o e.panic>>, <<>>)
  ELSE IF (e.err = "") # (c = "")
    THEN J(<<"SetExons " \o (IF e.err = "" THEN "accepted" ELSE "rejected (" \o e.err \o ")") \o
             " where the specification says " \o (IF c = "" THEN "accepted" ELSE c)>>, <<>>)
  ELSE IF c = ""
    THEN J(Fail(e.after = Sorted(e.xs), "accepted SetExons does not hold the sorted arguments")
           \o Fail(e.scribbled = e.after, "the exon set held after an accepted SetExons changes when the caller overwrites its own argument slice (shared storage)"),
           Fail(e.xsafter = e.xs, "SetExons modified its argument slice"))
    ELSE J(Fail(e.after = e.before, "rejected SetExons (" \o e.err \o ") changed the previous exon set"),
           Fail(e.err = c \/ e.err \in BuildClasses(e.xs), "SetExons error is '" \o e.err \o "', specification: '" \o c \o "'") \o
           Fail(e.xsafter = e.xs, "SetExons modified its argument slice"))

\* err := g.SetFeatures(xs...) on a real gene.Gene at e.offset.  before/after: Features() read as
\* <<Start, Len, location id>> before and after the call, beforeids/afterids/xsids: which feature
\* objects these are; lenbefore, startbefore, endbefore / glen, gstart, gend: Len(), Start(), End().
JudgeGeneSet(e) ==
  LET r == SetFeaturesRet(e.before, e.lenbefore, e.xs) IN
  IF e.panic # "" THEN J(<<"SetFeatures panicked: " \o e.panic>>, <<>>)
  ELSE IF (e.err = "") # (r.err = "")
    THEN J(<<"SetFeatures " \o (IF e.err = "" THEN "accepted" ELSE "rejected (" \o e.err \o ")") \o
             " where the specification says " \o (IF r.err = "" THEN "accepted" ELSE r.err)>>, <<>>)
  ELSE
    J((IF r.err = ""
         THEN Fail(e.after = e.xs /\ e.afterids = e.xsids, "accepted SetFeatures does not hold its arguments as given")
         ELSE Fail(e.after = e.before /\ e.afterids = e.beforeids /\ e.glen = e.lenbefore
                   /\ e.gstart = e.startbefore /\ e.gend = e.endbefore,
                   "a rejected SetFeatures (" \o e.err \o ") changed the gene: " \o
                   (IF e.after # e.before \/ e.afterids # e.beforeids THEN "Features() differ" ELSE "Features() are intact") \o
                   (IF e.glen # e.lenbefore \/ e.gstart # e.startbefore \/ e.gend # e.endbefore
                      THEN ", Start/End/Len moved" ELSE ""))) \o
      \* the bounds: judged whenever the gene was in agreement with its features before the call
      \* (always, for a gene that started empty, unless an earlier event already failed)
      (IF ~GeneAgrees(e.before, e.lenbefore) THEN <<>>
       ELSE Fail(e.glen = r.len /\ GeneAgrees(r.feats, e.glen) /\ <<e.gstart, e.gend>> = GeneSE(e.offset, r.len),
                 "gene bounds disagree with its features: Start/End/Len are not Offset, Offset + largest feature end, largest feature end")),
      Fail(e.err = r.err, "SetFeatures error is '" \o e.err \o "', specification: '" \o r.err \o "'") \o
      Fail(e.xsafter = e.xs, "SetFeatures modified its argument slice"))

\* a transcript as observed: judged when its exon list is one SetExons can have accepted
JudgeView(e) ==
  IF e.panic # "" THEN J(<<"reading the transcript panicked: " \o e.panic>>, <<>>)
  ELSE IF e.exons = <<>>
    THEN J(Fail(e.introns = <<>> /\ e.tlen = 0 /\ e.tstart = e.offset /\ e.tend = e.offset,
                "a transcript without exons is not empty"), <<>>)
  ELSE IF ~TranscriptContract(e.exons) THEN J(<<>>, <<"view of an exon list that is not an accepted one">>)
  ELSE
    LET X == e.exons
        len == ExonsEnd(X)
        b == BaseOrientationOf(e.chain)
    IN J(Fail(e.exse = SE(X), "exon Start/End/Len disagree") \o
         Fail(e.introns = SE(Introns(X)) /\ \A i \in 1..Len(e.introns) : e.inlen[i] = e.introns[i][2] - e.introns[i][1],
              "introns are not the gaps between consecutive exons") \o
         Fail(Alternate(e.exse, e.introns, e.tlen), "exons and introns do not alternate and tile [0, Len)") \o
         Fail(e.tlen = len /\ e.tstart = e.offset /\ e.tend = e.offset + len,
              "transcript Start/End/Len are not Offset, Offset + end of the last exon") \o
         Fail(e.spliced = FoldLeft(LAMBDA acc, x : acc + x[2], 0, X), "SplicedLen is not the sum of the exon lengths") \o
         (IF e.kind # "coding" THEN <<>>
          ELSE Fail(b[1] = 1 /\ e.cds = CDS(len, e.cs, e.ce) /\ e.utr5 = UTR5(len, e.cs, e.ce, b[2])
                    /\ e.utr3 = UTR3(len, e.cs, e.ce, b[2]) /\ (e.utrpanic # "") = (b[2] = 0),
                    "UTR5/CDS/UTR3 are not the regions dictated by the base orientation") \o
               Fail(e.cs <= e.ce /\ e.ce <= e.tlen /\ e.utrpanic = "" =>
                      IF b[2] = 1 THEN Tile3(e.utr5, e.cds, e.utr3, e.tlen) ELSE Tile3(e.utr3, e.cds, e.utr5, e.tlen),
                    "UTR5, CDS, UTR3 do not tile the transcript in strand order")),
         <<>>)

\* a result of a mapping function: a wrong value is a failure; panic-or-not is a failure within
\* the documented limit (chains of at most 1000 features) and drift beyond it
Res(name, got, want, n) ==
  IF got = want THEN Ok
  ELSE IF got[1] = 1 /\ want[1] = 1 THEN J(<<name \o " returns a wrong value">>, <<>>)
  ELSE IF n <= Limit THEN J(<<name \o (IF got[1] = 0 THEN " panics" ELSE " does not panic") \o " within the documented depth">>, <<>>)
  ELSE J(<<>>, <<name \o (IF got[1] = 0 THEN " panics" ELSE " does not panic") \o " beyond the documented depth, unlike Gene.tla">>)

Cat(js) == <<FoldLeft(LAMBDA acc, j : acc \o j[1], <<>>, js), FoldLeft(LAMBDA acc, j : acc \o j[2], <<>>, js)>>

JudgeMap(e) ==
  LET ch == e.chain
      n == Len(ch)
  IN IF n # e.asked THEN J(<<"the driver could not read back the chain it built">>, <<>>)
     ELSE Cat(<<Res("BasePositionOf", e.bp, BasePositionOf(ch, e.pos), n),
                Res("BaseOrientationOf", e.bo, BaseOrientationOf(ch), n)>> \o
              [i \in 1..Len(e.refs) |-> Res("PositionWithin", e.pw[i], PositionWithin(ch, e.refs[i], e.pos), n)] \o
              [i \in 1..Len(e.refs) |-> Res("OrientationWithin", e.ow[i], OrientationWithin(ch, e.refs[i]), n)])

JudgeConv(e) ==
  J(Fail(e.o2z = OneToZero(e.p), "OneToZero differs from the specification") \o
    Fail(e.z2o = ZeroToOne(e.p), "ZeroToOne differs from the specification") \o
    Fail(e.z2o[1] = 1 /\ (e.p # 0 => e.o2z[1] = 1), "a conversion panicked where it is defined") \o
    Fail(e.p # 0 /\ e.o2z[1] = 1 => ZeroToOne(e.o2z[2]) = <<1, e.p>>, "ZeroToOne(OneToZero(p)) # p") \o
    Fail(e.z2o[1] = 1 => OneToZero(e.z2o[2]) = <<1, e.p>>, "OneToZero(ZeroToOne(p)) # p"),
    <<>>)

Judge(e) ==
  CASE e.op = "add" -> JudgeAdd(e)
    [] e.op = "set" -> JudgeSet(e)
    [] e.op = "gset" -> JudgeGeneSet(e)
    [] e.op = "view" -> JudgeView(e)
    [] e.op = "map" -> JudgeMap(e)
    [] e.op = "conv" -> JudgeConv(e)
    [] OTHER -> J(<<"unknown event">>, <<>>)

\* Only the first Keep failures / drift notes are kept with their event numbers (a defect that
\* fires on thousands of cases would otherwise make every state carry them all); all of them
\* are counted, per message.
Keep == 300
Bump(f, msgs) ==
  FoldLeft(LAMBDA acc, m : [k \in DOMAIN acc \cup {m} |-> IF k = m THEN (IF m \in DOMAIN acc THEN acc[m] ELSE 0) + 1 ELSE acc[k]],
           f, msgs)
Some(old, new, at) == IF Len(old) >= Keep THEN old ELSE old \o [i \in 1..Len(new) |-> <<at, new[i]>>]

Step ==
  /\ l <= Len(Trace) /\ l' = l + 1
  /\ UNCHANGED <<kind, cs, held, spare, last, glen>>
  /\ LET j == Judge(Trace[l]) IN
     /\ fails' = Some(fails, j[1], l) /\ fkinds' = Bump(fkinds, j[1])
     /\ drift' = Some(drift, j[2], l) /\ dkinds' = Bump(dkinds, j[2])
TSpec == TInit /\ [][Step]_tvars
Emit ==
  (l = Len(Trace) + 1) =>
    Serialize(ToJson([events |-> Len(Trace), fails |-> fails, drift |-> drift,
                      failkinds |-> [k \in DOMAIN fkinds \ {"-"} |-> fkinds[k]],
                      driftkinds |-> [k \in DOMAIN dkinds \ {"-"} |-> dkinds[k]]]), IOEnv.OUT,
              [format |-> "TXT", charset |-> "UTF-8",
               openOptions |-> <<"WRITE", "CREATE", "TRUNCATE_EXISTING">>]).exitValue = 0
Consumed == TLCGet("stats").diameter - 1 = Len(Trace)
=============================================================================
