SPECIFICATION Spec
CONSTANTS
  Variant = "asfound"
  L = 4
  MaxArgs = 2
  Starts = {0}
  MaxDepth = 1
  LH = 4
  MaxArgsH = 2
  MaxSpare = 2
  LG = 2
  MaxFeats = 2
  Kinds = {"bare", "tr"}
INVARIANTS
  AcceptedIffAcceptable AcceptedTiles RejectionMeaning CutsAccepted UTRsTile
  PositionsAdd OrientationsMultiply ConversionsInverse
  RejectedAtomic AcceptedResult HeldContract DeadBranch
  GeneAcceptedIffAcceptable GeneRejectedAtomic GeneAcceptedResult GeneBoundsAgree
CHECK_DEADLOCK FALSE
