-------------------------------- MODULE Gene --------------------------------
(***************************************************************************)
(* biogo feat/gene, feat/feature.go, feat/position.go (property C20).       *)
(*                                                                          *)
(* An exon is <<off, len, loc>>: offset and length relative to the feature  *)
(* it is located on, and an identifier of that feature (0 = the transcript  *)
(* the call is made on, anything else = a foreign feature).  A gene.Exons   *)
(* value is a sequence of exons; a transcript holds one.                    *)
(*                                                                          *)
(*   AddRet(s, spare, xs)   gene.Exons.Add: result class, returned slice    *)
(*                          and what the OLD slice header shows afterwards  *)
(*   BuildClass(xs)         buildExonsFor / SetExons acceptance             *)
(*   Introns, UTR5, CDS, UTR3, BasePositionOf, PositionWithin,              *)
(*   BaseOrientationOf, OrientationWithin, OneToZero, ZeroToOne             *)
(*                                                                          *)
(* The laws of C20 are invariants over "cases" (initial states enumerating  *)
(* argument lists, cuts of a transcript, CDS bounds, nesting chains,        *)
(* positions) and over the reachable states of the update machine           *)
(* (SetExons / Add on a transcript, Add on a bare Exons value with spare    *)
(* capacity).                                                               *)
(*                                                                          *)
(* One level up, a gene.Gene holds features (transcripts) located on it; a  *)
(* feature of a gene is <<start, len, loc>> as well (0 = the gene the call  *)
(* is made on).  SetFeaturesRet(feats, len, fs) is gene.Gene.SetFeatures;   *)
(* the "gene" machine explores all histories of accepted / rejected calls.  *)
(*                                                                          *)
(* Variant selects deliberately wrong variants that TLC must refute:        *)
(*   "spec"       the specification                                         *)
(*   "asfound"    Add sorts the appended slice in place (gene.go:362-363):  *)
(*                with spare capacity the old slice shares the array        *)
(*   "overlap_le" overlap test with <= (abutting exons rejected)            *)
(*   "utr_swap"   UTRs taken from the same end on both strands              *)
(*   "glen_early" SetFeatures accumulates the maximum end in the gene's     *)
(*                length while it is still validating: a rejected call      *)
(*                leaves the length of the features it had looked at        *)
(***************************************************************************)
EXTENDS Integers, Sequences, FiniteSets, TLC, Json, IOUtils, SequencesExt, FiniteSetsExt

CONSTANTS
  Variant,     \* see above
  L,           \* cases: transcript length bound (exon universe lies in [0, L))
  MaxArgs,     \* cases: exons per SetExons argument list
  Starts,      \* cases: feature starts used in nesting chains
  MaxDepth,    \* cases: features in a nesting chain
  LH,          \* update machine: exon universe lies in [0, LH)
  MaxArgsH,    \* update machine: exons per call
  MaxSpare,    \* update machine: spare capacity of a slice
  LG,          \* gene machine: features lie in [0, LG)
  MaxFeats,    \* gene machine: features per SetFeatures call
  Kinds        \* which case kinds / machines to explore

Limit == 1000            \* feature.go: "panic if the feature chain is deeper than 1000 links"

ErrOverlap  == "exons overlap"
ErrLocDiff  == "exons location differ"
ErrNewLoc   == "new exons locations differ from old ones"
ErrNotTr    == "exon location is not the transcript"
ErrNoZero   == "no exon with a zero start"
ErrGeneLoc  == "transcript location does not match the gene"
ErrGeneZero == "no transcript with 0 start on gene"

(***************************************************************************)
(* Exons                                                                    *)
(***************************************************************************)
EndOf(x) == x[1] + x[2]

\* sort.Sort by Start.  Exons with equal starts can only occur among overlapping exons (every
\* exon has length >= 1), i.e. in rejected calls; sort.Sort is not stable, so their order is not
\* defined.  Less breaks ties by location and length to have a function; LessBy(tb) are the
\* other tie-breaking orders, used only to tell which error a rejected call may report.
Less(a, b) == \/ a[1] < b[1]
              \/ a[1] = b[1] /\ (a[3] < b[3] \/ (a[3] = b[3] /\ a[2] < b[2]))
Sorted(s) == SortSeq(s, Less)
LessBy(tb, a, b) ==
  \/ a[1] < b[1]
  \/ a[1] = b[1] /\ LET x == IF tb \in {2, 4} THEN b ELSE a
                         y == IF tb \in {2, 4} THEN a ELSE b
                     IN IF tb \in {1, 2} THEN x[3] < y[3] \/ (x[3] = y[3] /\ x[2] < y[2])
                                        ELSE x[2] < y[2] \/ (x[2] = y[2] /\ x[3] < y[3])
SortedBy(tb, s) == SortSeq(s, LAMBDA a, b : LessBy(tb, a, b))

Ov(prev, e) == IF Variant = "overlap_le" THEN e[1] <= EndOf(prev) ELSE e[1] < EndOf(prev)

\* the checks of Exons.Add on the sorted concatenation n; s is the receiver
AddClass(s, n) ==
  LET bad == {i \in 2..Len(n) : Ov(n[i - 1], n[i]) \/ n[i][3] # n[i - 1][3]}
  IN IF bad # {}
       THEN LET i == Min(bad) IN IF Ov(n[i - 1], n[i]) THEN ErrOverlap ELSE ErrLocDiff
       ELSE IF s # <<>> /\ s[1][3] # n[1][3] THEN ErrNewLoc ELSE ""

\* the errors a rejected s.Add(xs...) may report, over the tie-breaking orders
AddClasses(s, xs) == {AddClass(s, SortedBy(tb, s \o xs)) : tb \in 1..4}

\* r, err := s.Add(xs...) where cap(s) - len(s) = spare.
\*   ret: the returned slice; old: the contents of s[0:len(s)] after the call
AddRet(s, spare, xs) ==
  LET n == Sorted(s \o xs)
      aliased == Variant = "asfound" /\ Len(xs) <= spare
      old == IF aliased THEN SubSeq(n, 1, Len(s)) ELSE s
      err == AddClass(old, n)
  IN [err |-> err, ret |-> IF err = "" THEN n ELSE old, old |-> old]

\* what the old slice may show after the call, over the tie-breaking orders ({s} unless "asfound")
AddOlds(s, spare, xs) ==
  IF Variant = "asfound" /\ Len(xs) <= spare
    THEN {SubSeq(SortedBy(tb, s \o xs), 1, Len(s)) : tb \in 1..4} \cup {SubSeq(Sorted(s \o xs), 1, Len(s))}
    ELSE {s}

\* buildExonsFor(t, xs...): the transcript is location 0
BuildClass(xs) ==
  LET a == AddRet(<<>>, 0, xs)
  IN IF a.err # "" THEN a.err
     ELSE IF xs = <<>> \/ a.ret[1][3] # 0 THEN ErrNotTr
     ELSE IF a.ret[1][1] # 0 THEN ErrNoZero
     ELSE ""

BuildClasses(xs) == IF AddClasses(<<>>, xs) = {""} THEN {BuildClass(xs)} ELSE AddClasses(<<>>, xs)

\* Exons.Introns: <<off, len>> between consecutive exons
Introns(s) == [i \in 1..(Len(s) - 1) |-> <<EndOf(s[i]), s[i + 1][1] - EndOf(s[i])>>]

ExonsEnd(s) == IF s = <<>> THEN 0 ELSE EndOf(s[Len(s)])

\* the type contract of gene.Exons
Contract(s) ==
  /\ \A i \in 1..Len(s) : s[i][2] >= 1
  /\ \A i \in 1..(Len(s) - 1) : EndOf(s[i]) <= s[i + 1][1] /\ s[i][3] = s[i + 1][3]
\* ... of the exons of a transcript
TranscriptContract(s) == Contract(s) /\ s # <<>> /\ s[1][1] = 0 /\ s[1][3] = 0

\* independent characterisation of an acceptable argument list (no sorting involved)
Acceptable(xs) ==
  /\ xs # <<>>
  /\ \A i \in 1..Len(xs) : xs[i][3] = 0
  /\ \E i \in 1..Len(xs) : xs[i][1] = 0
  /\ \A i, j \in 1..Len(xs) : i < j => EndOf(xs[i]) <= xs[j][1] \/ EndOf(xs[j]) <= xs[i][1]

\* exons es (<<start,end>> pairs) and introns is alternate and tile [0, len)
Alternate(es, is, len) ==
  /\ es # <<>> /\ Len(is) = Len(es) - 1
  /\ es[1][1] = 0 /\ es[Len(es)][2] = len
  /\ \A i \in 1..Len(es) : es[i][1] < es[i][2]
  /\ \A i \in 1..Len(is) : es[i][2] = is[i][1] /\ is[i][1] <= is[i][2] /\ is[i][2] = es[i + 1][1]

SE(s) == [i \in 1..Len(s) |-> <<s[i][1], s[i][1] + s[i][2]>>]     \* <<off,len,..>> to <<start,end>>

\* the same as a partition of positions
Cells(segs) == [i \in 1..Len(segs) |-> segs[i][1]..(segs[i][2] - 1)]
PartitionOfPositions(es, is, len) ==
  LET c == Cells(es) \o Cells(is)
  IN /\ UNION {c[i] : i \in 1..Len(c)} = 0..(len - 1)
     /\ \A i, j \in 1..Len(c) : i < j => c[i] \cap c[j] = {}

(***************************************************************************)
(* The gene level.  gene.Gene.SetFeatures(fs...) walks fs in argument order: *)
(* a feature whose Location is not the gene ends the call at once; then the *)
(* smallest Start must be 0 (so an empty list is rejected, too); then       *)
(* length = (largest End, at least 0) - 0 and the features are held in the  *)
(* order given (they may overlap and repeat).  A rejected call changes      *)
(* nothing: Features(), Start(), End() and Len() are as before.             *)
(***************************************************************************)
GeneEnd(fs) == Max({0} \cup {EndOf(fs[i]) : i \in 1..Len(fs)})
GeneClass(fs) ==
  IF \E i \in 1..Len(fs) : fs[i][3] # 0 THEN ErrGeneLoc
  ELSE IF fs = <<>> \/ Min({fs[i][1] : i \in 1..Len(fs)}) # 0 THEN ErrGeneZero
  ELSE ""
\* the features the loop of SetFeatures has accumulated when a rejected call returns
GeneSeen(fs) ==
  LET foreign == {i \in 1..Len(fs) : fs[i][3] # 0}
  IN IF foreign = {} THEN fs ELSE SubSeq(fs, 1, Min(foreign) - 1)
\* err := g.SetFeatures(fs...) on a gene holding feats with length len
SetFeaturesRet(feats, len, fs) ==
  LET err == GeneClass(fs)
  IN [err |-> err,
      feats |-> IF err = "" THEN fs ELSE feats,
      len |-> IF err = "" THEN GeneEnd(fs) - 0
              ELSE IF Variant = "glen_early" THEN GeneEnd(GeneSeen(fs)) ELSE len]
\* Start(), End() of a gene at an offset on its chromosome
GeneSE(off, len) == <<off, off + len>>

\* independent characterisations (no Max/Min): an acceptable argument list ...
GeneAcceptable(fs) ==
  /\ \A i \in 1..Len(fs) : fs[i][3] = 0 /\ fs[i][1] >= 0
  /\ \E i \in 1..Len(fs) : fs[i][1] = 0
\* ... and a gene whose bounds agree with the features it holds: all of them are located on
\* it and lie within [0, len), one starts at 0 and one ends at len; no features, no length
GeneAgrees(fs, len) ==
  /\ \A i \in 1..Len(fs) : fs[i][3] = 0 /\ 0 <= fs[i][1] /\ fs[i][2] >= 0 /\ EndOf(fs[i]) <= len
  /\ IF fs = <<>> THEN len = 0
     ELSE (\E i \in 1..Len(fs) : fs[i][1] = 0) /\ (\E i \in 1..Len(fs) : EndOf(fs[i]) = len)

(***************************************************************************)
(* Coding regions, as <<start, end>> relative to the transcript; <<>> is    *)
(* the documented panic for a transcript without a base orientation.        *)
(***************************************************************************)
UTR5(len, cs, ce, bo) ==
  IF bo = 1 \/ (bo = -1 /\ Variant = "utr_swap") THEN <<0, cs>> ELSE IF bo = -1 THEN <<ce, len>> ELSE <<>>
CDS(len, cs, ce) == <<cs, ce>>
UTR3(len, cs, ce, bo) ==
  IF bo = 1 \/ (bo = -1 /\ Variant = "utr_swap") THEN <<ce, len>> ELSE IF bo = -1 THEN <<0, cs>> ELSE <<>>

\* three regions tile [0, len) in this order
Tile3(a, b, c, len) == a[1] = 0 /\ a[2] = b[1] /\ b[2] = c[1] /\ c[2] = len /\ a[1] <= a[2] /\ b[1] <= b[2] /\ c[1] <= c[2]

(***************************************************************************)
(* Nesting chains.  ch[1] is the feature itself, ch[i+1] the location of    *)
(* ch[i], the location of the last one is nil.  An element is               *)
(* <<start, orientation, isOrienter>>.  Results are <<1, ...>> or <<0>> for *)
(* the documented "feature chain too long" panic.  A reference is an index  *)
(* into the chain; 0 is the nil reference, Len+1 a feature not in the chain.*)
(***************************************************************************)
Ori(c) == IF c[3] = 1 THEN c[2] ELSE 0
SumStarts(ch, k) == FoldLeft(LAMBDA acc, c : acc + c[1], 0, SubSeq(ch, 1, k))
Prod(ch, k) == IF Cardinality({i \in 1..k : Ori(ch[i]) = -1}) % 2 = 0 THEN 1 ELSE -1
FirstZero(ch) == Min({i \in 1..Len(ch) : Ori(ch[i]) = 0} \cup {Len(ch) + 1})

BasePositionOf(ch, p) ==
  IF Len(ch) > Limit THEN <<0>> ELSE <<1, p + SumStarts(ch, Len(ch)), Len(ch)>>

PositionWithin(ch, k, p) ==
  IF k \in 1..Len(ch)
    THEN IF k - 1 >= Limit THEN <<0>> ELSE <<1, p + SumStarts(ch, k - 1), 1>>
    ELSE IF Len(ch) > Limit THEN <<0>> ELSE <<1, 0, 0>>

BaseOrientationOf(ch) ==
  LET n == Len(ch) IN
  IF Ori(ch[1]) = 0
    THEN LET nz == {i \in 2..n : Ori(ch[i]) # 0}
             r == IF nz = {} THEN n ELSE Min(nz)
             iters == IF nz = {} THEN n ELSE r - 1
         IN IF iters > Limit THEN <<0>> ELSE <<1, 0, r>>
    ELSE LET m == FirstZero(ch) - 1
             r == IF m < n THEN m + 1 ELSE n
         IN IF m > Limit THEN <<0>> ELSE <<1, Prod(ch, m), r>>

OrientationWithin(ch, k) ==
  IF k = 0 THEN <<1, 0>>
  ELSE LET n == Len(ch)
           z == FirstZero(ch)
       IN IF k = 1 THEN <<1, IF z = 1 THEN 0 ELSE 1>>
          ELSE IF k <= n /\ z >= k THEN (IF k - 1 > Limit THEN <<0>> ELSE <<1, Prod(ch, k - 1)>>)
          ELSE IF z > Limit THEN <<0>> ELSE <<1, 0>>

From(ch, j) == SubSeq(ch, j, Len(ch))

(***************************************************************************)
(* 1-based / 0-based; <<0>> is the by-design panic of OneToZero(0)          *)
(***************************************************************************)
OneToZero(p) == IF p = 0 THEN <<0>> ELSE <<1, IF p > 0 THEN p - 1 ELSE p>>
ZeroToOne(p) == <<1, IF p >= 0 THEN p + 1 ELSE p>>

(***************************************************************************)
(* Domains of the bounded model                                             *)
(***************************************************************************)
Universe(len, locs) == {x \in (0..(len - 1)) \X (1..len) \X locs : x[1] + x[2] <= len}

\* strictly increasing (by Less) sequences of at most k exons of U: every set of exons once
RECURSIVE IncSeqs(_, _)
IncSeqs(U, k) ==
  IF k = 0 THEN {<<>>}
  ELSE LET prev == IncSeqs(U, k - 1)
           top == {t \in prev : Len(t) = k - 1}
       IN prev \cup {Append(p[1], p[2]) : p \in {q \in top \X U : q[1] = <<>> \/ Less(q[1][Len(q[1])], q[2])}}

\* every cut of [0, n) into exons and introns: each position is exonic or intronic, the
\* first and the last are exonic, and two adjacent exonic positions may be separated by an
\* exon boundary (abutting exons).  n = 1 and all-exonic labelings give single exons.
Labs(n) == {lab \in [1..n -> {"E", "I"}] : lab[1] = "E" /\ lab[n] = "E"}
EE(n, lab) == {i \in 1..(n - 1) : lab[i] = "E" /\ lab[i + 1] = "E"}
CutExons(n, lab, B) ==
  LET st == {i \in 1..n : lab[i] = "E" /\ (i = 1 \/ lab[i - 1] = "I" \/ (i - 1) \in B)}
      en == {i \in 1..n : lab[i] = "E" /\ (i = n \/ lab[i + 1] = "I" \/ i \in B)}
      ss == SetToSortSeq(st, <)
      ee == SetToSortSeq(en, <)
  IN [k \in 1..Len(ss) |-> <<ss[k] - 1, ee[k] - ss[k] + 1, 0>>]
Cuts(n) == UNION {{CutExons(n, lab, B) : B \in SUBSET EE(n, lab)} : lab \in Labs(n)}

ChainElems == {<<s, o[1], o[2]>> : s \in Starts, o \in {<<1, 1>>, <<-1, 1>>, <<0, 1>>, <<0, 0>>}}
RECURSIVE ChainsOf(_)
ChainsOf(d) == IF d = 1 THEN {<<c>> : c \in ChainElems}
               ELSE {Append(p[1], p[2]) : p \in ChainsOf(d - 1) \X ChainElems}
Chains == UNION {ChainsOf(d) : d \in 1..MaxDepth}
\* the transcript and up to two locations above it (the starts do not matter for orientations)
UtrChains == {ch \in UNION {ChainsOf(d) : d \in 1..3} : \A i \in 1..Len(ch) : ch[i][1] = 0}

(***************************************************************************)
(* States.  kind selects what cs (the case) is:                             *)
(*   "args"  cs = an argument list of SetExons                              *)
(*   "cut"   cs = [n, xs]: a cut of [0, n)                                  *)
(*   "utr"   cs = [len, cs, ce, chain]                                      *)
(*   "chain" cs = [chain, pos]                                              *)
(*   "conv"  cs = a position                                                *)
(*   "bare"  the update machine on a bare Exons value s (s, err = s.Add())  *)
(*   "tr"    the update machine on a transcript (SetExons, Exons().Add())   *)
(*   "gene"  the update machine on a gene (SetFeatures)                     *)
(* held/spare: the exon sequence held and its spare capacity (gene: the     *)
(* features held); glen: the length of the gene; last: the last call and    *)
(* its outcome.                                                             *)
(***************************************************************************)
VARIABLES kind, cs, held, spare, last, glen
vars == <<kind, cs, held, spare, last, glen>>

NoCall == [call |-> "none"]

CaseInit ==
  /\ held = <<>> /\ spare = 0 /\ last = NoCall /\ glen = 0
  /\ \/ kind = "args" /\ kind \in Kinds /\ cs \in IncSeqs(Universe(L, {0, 1}), MaxArgs)
     \/ kind = "cut" /\ kind \in Kinds /\ cs \in UNION {{[n |-> n, xs |-> c] : c \in Cuts(n)} : n \in 1..L}
     \/ kind = "utr" /\ kind \in Kinds
        /\ cs \in {[len |-> b[1], cs |-> b[2], ce |-> b[3], chain |-> ch] :
                    b \in {x \in (1..L) \X (0..L) \X (0..L) : x[2] <= x[3] /\ x[3] <= x[1]},
                    ch \in UtrChains}
     \/ kind = "chain" /\ kind \in Kinds /\ cs \in {[chain |-> ch, pos |-> p] : ch \in Chains, p \in {-1, 0, 3}}
     \/ kind = "conv" /\ kind \in Kinds /\ cs \in -20..20

MachineInit ==
  /\ kind \in Kinds \cap {"bare", "tr", "gene"} /\ cs = 0 /\ held = <<>> /\ last = NoCall /\ glen = 0
  /\ spare \in IF kind = "bare" THEN 0..MaxSpare ELSE {0}

Init == CaseInit \/ MachineInit

HistArgs == IncSeqs(Universe(LH, {0, 1}), MaxArgsH) \ {<<>>}

\* capacity left after an append of k elements to a slice with the given spare capacity:
\* in place if it fits, else whatever the runtime's growth policy leaves
SpareAfter(sp, k) == IF k <= sp THEN {sp - k} ELSE 0..MaxSpare

DoAdd(xs) ==
  LET a == AddRet(held, spare, xs) IN
  /\ last' = [call |-> "add", before |-> held, spare |-> spare, xs |-> xs, err |-> a.err, ret |-> a.ret, old |-> a.old]
  /\ IF kind = "bare"
       THEN /\ held' = a.ret                  \* s, err = s.Add(xs...)
            /\ spare' \in IF a.err = "" THEN SpareAfter(spare, Len(xs)) ELSE {spare}
       ELSE /\ held' = a.old                  \* r, err := t.Exons().Add(xs...): t is not assigned to
            /\ spare' = spare

DoSet(xs) ==
  LET err == BuildClass(xs)
      new == IF err = "" THEN Sorted(xs) ELSE held
  IN /\ kind = "tr"
     /\ last' = [call |-> "set", before |-> held, spare |-> spare, xs |-> xs, err |-> err, ret |-> new, old |-> new]
     /\ held' = new
     /\ spare' \in IF err = "" THEN 0..MaxSpare ELSE {spare}

\* every argument list of at most MaxFeats features, in every order, with repetitions
GeneUniverse == {x \in (0..(LG - 1)) \X (0..LG) \X {0, 1} : x[1] + x[2] <= LG}
GeneArgs == UNION {[1..k -> GeneUniverse] : k \in 0..MaxFeats}

DoSetFeatures(fs) ==
  LET r == SetFeaturesRet(held, glen, fs)
  IN /\ last' = [call |-> "setfeatures", before |-> held, lenbefore |-> glen, xs |-> fs, err |-> r.err]
     /\ held' = r.feats /\ glen' = r.len /\ spare' = spare

\* A call is made from a state whose last call has been forgotten; the state after a call
\* remembers it (so that the laws below can speak about it) and can only forget it.  What
\* a call does depends on (held, spare) only, so all histories of any length are covered.
Next ==
  /\ kind \in {"bare", "tr", "gene"}
  /\ UNCHANGED <<kind, cs>>
  /\ IF last.call # "none" THEN last' = NoCall /\ UNCHANGED <<held, spare, glen>>
     ELSE IF kind = "gene" THEN \E fs \in GeneArgs : DoSetFeatures(fs)
     ELSE (\E xs \in HistArgs : DoAdd(xs) \/ DoSet(xs)) /\ UNCHANGED glen

Spec == Init /\ [][Next]_vars

(***************************************************************************)
(* Laws over the cases                                                      *)
(***************************************************************************)
\* SetExons accepts exactly the acceptable argument lists ...
AcceptedIffAcceptable == kind = "args" => ((BuildClass(cs) = "") <=> Acceptable(cs))
\* ... and what it then holds is sorted, disjoint, and tiles with its introns
AcceptedTiles ==
  kind = "args" /\ BuildClass(cs) = "" =>
    LET s == Sorted(cs) IN
    /\ TranscriptContract(s)
    /\ {s[i] : i \in 1..Len(s)} = {cs[i] : i \in 1..Len(cs)} /\ Len(s) = Len(cs)
    /\ Alternate(SE(s), SE(Introns(s)), ExonsEnd(s))
    /\ PartitionOfPositions(SE(s), SE(Introns(s)), ExonsEnd(s))
\* the rejection classes mean what they say
RejectionMeaning ==
  kind = "args" =>
    LET c == BuildClass(cs) IN
    /\ c = ErrOverlap => \E i, j \in 1..Len(cs) : i # j /\ cs[i][1] < EndOf(cs[j]) /\ cs[j][1] < EndOf(cs[i])
    /\ c = ErrLocDiff => \E i, j \in 1..Len(cs) : cs[i][3] # cs[j][3]
    /\ c = ErrNotTr => cs = <<>> \/ \A i \in 1..Len(cs) : cs[i][3] # 0
    /\ c = ErrNoZero => \A i \in 1..Len(cs) : cs[i][1] # 0
    /\ c # ErrNewLoc
\* every cut of a transcript is accepted, in every argument order tried, and is returned as it was cut
CutsAccepted ==
  kind = "cut" =>
    /\ BuildClass(cs.xs) = "" /\ BuildClass(Reverse(cs.xs)) = ""
    /\ Sorted(Reverse(cs.xs)) = cs.xs
    /\ ExonsEnd(cs.xs) = cs.n
    /\ Alternate(SE(cs.xs), SE(Introns(cs.xs)), cs.n)
    /\ PartitionOfPositions(SE(cs.xs), SE(Introns(cs.xs)), cs.n)

UTRsTile ==
  kind = "utr" =>
    LET b == BaseOrientationOf(cs.chain)
        u5 == UTR5(cs.len, cs.cs, cs.ce, b[2])
        cd == CDS(cs.len, cs.cs, cs.ce)
        u3 == UTR3(cs.len, cs.cs, cs.ce, b[2])
    IN /\ b[1] = 1
       /\ b[2] = 1 => Tile3(u5, cd, u3, cs.len)
       /\ b[2] = -1 => Tile3(u3, cd, u5, cs.len)
       /\ b[2] = 0 => u5 = <<>> /\ u3 = <<>>

PositionsAdd ==
  kind = "chain" =>
    LET ch == cs.chain
        p == cs.pos
        n == Len(ch)
    IN /\ \A k \in 1..n : \A j \in 1..k :
            PositionWithin(ch, k, p) = <<1, PositionWithin(From(ch, j), k - j + 1, PositionWithin(ch, j, p)[2])[2], 1>>
       /\ \A k \in 1..(n - 1) : PositionWithin(ch, k + 1, p)[2] = PositionWithin(ch, k, p)[2] + ch[k][1]
       /\ PositionWithin(ch, 1, p) = <<1, p, 1>>
       /\ PositionWithin(ch, 0, p) = <<1, 0, 0>> /\ PositionWithin(ch, n + 1, p) = <<1, 0, 0>>
       /\ BasePositionOf(ch, p) = <<1, PositionWithin(ch, n, p)[2] + ch[n][1], n>>
       /\ \A j \in 1..n : BasePositionOf(ch, p)[2] = BasePositionOf(From(ch, j), PositionWithin(ch, j, p)[2])[2]

OrientationsMultiply ==
  kind = "chain" =>
    LET ch == cs.chain
        n == Len(ch)
        b == BaseOrientationOf(ch)
    IN /\ \A k \in 1..n : \A j \in 1..k :
            (j < k \/ Ori(ch[k]) # 0) =>
               OrientationWithin(ch, k)[2] = OrientationWithin(ch, j)[2] * OrientationWithin(From(ch, j), k - j + 1)[2]
       /\ \A k \in 1..(n - 1) : OrientationWithin(ch, k + 1)[2] = OrientationWithin(ch, k)[2] * Ori(ch[k])
                                   \/ (k = 1 /\ OrientationWithin(ch, 2)[2] = Ori(ch[1]))
       /\ OrientationWithin(ch, 0) = <<1, 0>> /\ OrientationWithin(ch, n + 1) = <<1, 0>>
       /\ \A k \in 1..n : OrientationWithin(ch, k)[2] \in {-1, 0, 1}
       \* base orientation: product over the maximal oriented prefix, reference right after it
       /\ b[1] = 1 /\ b[3] \in 1..n
       /\ Ori(ch[1]) # 0 =>
            /\ b[2] = (IF Ori(ch[b[3]]) = 0 THEN OrientationWithin(ch, b[3])[2]
                       ELSE OrientationWithin(ch, b[3])[2] * Ori(ch[b[3]]))
            /\ Ori(ch[b[3]]) # 0 => b[3] = n
            /\ \A j \in 1..n : (\A i \in 1..j : Ori(ch[i]) # 0) =>
                  LET bj == BaseOrientationOf(From(ch, j))
                  IN b[2] = OrientationWithin(ch, j)[2] * bj[2] /\ b[3] = bj[3] + j - 1
       /\ Ori(ch[1]) = 0 => b[2] = 0 /\ \A i \in 2..(b[3] - 1) : Ori(ch[i]) = 0

ConversionsInverse ==
  kind = "conv" =>
    /\ OneToZero(ZeroToOne(cs)[2]) = <<1, cs>>
    /\ cs # 0 => ZeroToOne(OneToZero(cs)[2]) = <<1, cs>>
    /\ cs = 0 => OneToZero(cs) = <<0>>
    /\ ZeroToOne(cs)[2] # 0
    /\ cs > 0 => OneToZero(cs)[2] = cs - 1
    /\ cs >= 0 => ZeroToOne(cs)[2] = cs + 1

(***************************************************************************)
(* Laws of the update machine                                               *)
(***************************************************************************)
Machine == kind \in {"bare", "tr"} /\ last.call # "none"
\* a rejected update leaves the previous exon set exactly as it was, and Add returns it
RejectedAtomic ==
  Machine /\ last.err # "" => held = last.before /\ last.ret = last.before /\ last.old = last.before
\* an accepted update holds the sorted union / the sorted arguments
AcceptedResult ==
  Machine /\ last.err = "" =>
    /\ last.call = "add" => last.ret = Sorted(last.before \o last.xs) /\ Contract(last.ret)
    /\ last.call = "set" => held = Sorted(last.xs) /\ TranscriptContract(held)
\* the type contract holds in every reachable state
HeldContract ==
  kind \in {"bare", "tr"} => Contract(held) /\ (kind = "tr" /\ held # <<>> => TranscriptContract(held))
\* gene.go:373 cannot fire
DeadBranch == Machine => last.err # ErrNewLoc

(***************************************************************************)
(* Laws of the gene machine                                                 *)
(***************************************************************************)
GeneMachine == kind = "gene" /\ last.call # "none"
\* SetFeatures accepts exactly the acceptable argument lists
GeneAcceptedIffAcceptable == GeneMachine => ((last.err = "") <=> GeneAcceptable(last.xs))
\* a rejected SetFeatures leaves the features AND the bounds of the gene exactly as they were
GeneRejectedAtomic == GeneMachine /\ last.err # "" => held = last.before /\ glen = last.lenbefore
\* an accepted one holds its arguments as given; the gene reaches to the largest end
GeneAcceptedResult ==
  GeneMachine /\ last.err = "" =>
    /\ held = last.xs /\ glen = GeneEnd(last.xs)
    /\ \A i \in 1..Len(held) : EndOf(held[i]) <= glen
\* after any history the bounds of the gene agree with the features it retains
GeneBoundsAgree == kind = "gene" => GeneAgrees(held, glen) /\ glen = GeneEnd(held)

(***************************************************************************)
(* Emission of the cases for the Go driver (one JSON object per line)       *)
(***************************************************************************)
Out(v) == Serialize(ToJson(v) \o "\n", IOEnv.OUT,
                    [format |-> "TXT", charset |-> "UTF-8", openOptions |-> <<"WRITE", "CREATE", "APPEND">>]).exitValue = 0
EmitCases ==
  CASE kind = "args" -> Out([op |-> "set", xs |-> cs])
    [] kind = "cut" -> Out([op |-> "set", xs |-> cs.xs])
    [] kind = "utr" -> Out([op |-> "utr", len |-> cs.len, cs |-> cs.cs, ce |-> cs.ce, chain |-> cs.chain])
    [] kind = "chain" -> Out([op |-> "map", chain |-> cs.chain, pos |-> cs.pos])
    [] kind = "conv" -> Out([op |-> "conv", p |-> cs])
    [] kind = "gene" -> last.call = "none" \/ Out([op |-> "gcall", before |-> last.before, xs |-> last.xs])
    [] OTHER -> last.call = "none" \/
                Out([op |-> "call", holder |-> kind, call |-> last.call, before |-> last.before,
                     spare |-> last.spare, xs |-> last.xs])
=============================================================================
