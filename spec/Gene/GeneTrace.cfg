SPECIFICATION TSpec
CONSTANTS
  Variant = "spec"
  L = 1
  MaxArgs = 1
  Starts = {0}
  MaxDepth = 1
  LH = 1
  MaxArgsH = 1
  MaxSpare = 0
  LG = 1
  MaxFeats = 1
  Kinds = {}
INVARIANT Emit
POSTCONDITION Consumed
CHECK_DEADLOCK FALSE
