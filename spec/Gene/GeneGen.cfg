SPECIFICATION Spec
CONSTANTS
  Variant = "spec"
  L = 4
  MaxArgs = 3
  Starts = {0, 3}
  MaxDepth = 3
  LH = 3
  MaxArgsH = 2
  MaxSpare = 2
  Kinds = {"args", "utr", "chain", "conv", "bare", "tr"}
INVARIANTS EmitCases
CHECK_DEADLOCK FALSE
