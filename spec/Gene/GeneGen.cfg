SPECIFICATION Spec
CONSTANTS
  Variant = "spec"
  L = 4
  MaxArgs = 3
  Starts = {0, 3}
  MaxDepth = 3
  LH = 3
  MaxArgsH = 2
  MaxSpare = 2
  LG = 2
  MaxFeats = 2
  Kinds = {"args", "utr", "chain", "conv", "bare", "tr", "gene"}
INVARIANTS EmitCases
CHECK_DEADLOCK FALSE
