SPECIFICATION Spec
CONSTANTS
  Variant = "spec"
  L = 8
  MaxArgs = 3
  Starts = {0, 3}
  MaxDepth = 4
  LH = 4
  MaxArgsH = 2
  MaxSpare = 2
  LG = 2
  MaxFeats = 3
  Kinds = {"args", "cut", "utr", "chain", "conv", "bare", "tr", "gene"}
INVARIANTS
  AcceptedIffAcceptable AcceptedTiles RejectionMeaning CutsAccepted UTRsTile
  PositionsAdd OrientationsMultiply ConversionsInverse
  RejectedAtomic AcceptedResult HeldContract DeadBranch
  GeneAcceptedIffAcceptable GeneRejectedAtomic GeneAcceptedResult GeneBoundsAgree
CHECK_DEADLOCK FALSE
