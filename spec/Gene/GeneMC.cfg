SPECIFICATION Spec
CONSTANTS
  Variant = "spec"
  L = 8
  MaxArgs = 3
  Starts = {0, 3}
  MaxDepth = 4
  LH = 4
  MaxArgsH = 2
  MaxSpare = 2
  Kinds = {"args", "cut", "utr", "chain", "conv", "bare", "tr"}
INVARIANTS
  AcceptedIffAcceptable AcceptedTiles RejectionMeaning CutsAccepted UTRsTile
  PositionsAdd OrientationsMultiply ConversionsInverse
  RejectedAtomic AcceptedResult HeldContract DeadBranch
CHECK_DEADLOCK FALSE
