------------------------------ MODULE PilerPiles ------------------------------
(***************************************************************************)
(* pals.Piler.Piles(filter) as a state machine over the piler states of     *)
(* Piler.tla (property C16: "all pair filters on the Piles call, repeated   *)
(* Piles calls").                                                           *)
(*                                                                          *)
(* After the Adds (Piler!Next) up to MaxCalls Piles calls are made, each    *)
(* with any filter of Filters: none, any set of the added pairs, or a       *)
(* pile-reading filter (KeepSpan) that looks at Location().Len() of the     *)
(* pair's two features.  Piles works in two passes (piler.go):              *)
(*   place   (first call only) visit every pile, in any order, and set the  *)
(*           Location of each of its features to the pile;                  *)
(*   filter  visit every pile, in any order, and list those of its          *)
(*           features whose pair the filter keeps.                          *)
(* A feature that is not placed yet is still located on its contig, whose   *)
(* Len() is 0.  `asked' records what the filter could see of every pair it  *)
(* was consulted about (-1 = the feature was not placed).                   *)
(*                                                                          *)
(* Laws (checked in every state, i.e. for every Add order, every filter,    *)
(* every visiting order, first and repeated calls):                         *)
(*   ConsultedWhenPlaced  the filter only ever sees pairs both of whose     *)
(*                        features are placed in a pile;                    *)
(*   ConsultedOnOwnPile   and that pile is the hull of the feature's        *)
(*                        component;                                        *)
(*   ReportedMembers      after a call the listed features are exactly      *)
(*                        those whose pair the filter keeps, the filter     *)
(*                        being evaluated declaratively on the components;  *)
(*   AllPlaced            after a call every added feature is placed.       *)
(* Discipline = "fused" is the negative control: one pass that places the   *)
(* features of a pile and consults the filter about them at once.           *)
(***************************************************************************)
EXTENDS Piler

CONSTANTS Discipline, MaxCalls       \* "two_pass" (the code as read) | "fused"

VARIABLES phase,     \* "add" | "place" | "filter" | "fused" | "idle" (a call has returned)
          piled,     \* Piler.piled
          filt,      \* the filter of the current (or last) call
          located,   \* the features whose Location is their pile
          todo,      \* piles still to visit in the current pass
          listed,    \* the features listed in the Images of their pile
          asked,     \* what the filter saw in the current (or last) call
          ncalls
pvars == <<phase, piled, filt, located, todo, listed, asked, ncalls>>

NoFilter == [kind |-> "nil", L |-> 0, pass |-> {}]
Filters ==
  {NoFilter}
  \cup {[kind |-> k, L |-> x, pass |-> {}] : k \in SpanKinds, x \in 1..MaxPos}
  \cup {[kind |-> "set", L |-> 0, pass |-> S] : S \in SUBSET seen}

PairOfFeat(f) == CHOOSE ab \in seen : f \in {Mate(ab, 1), Mate(ab, 2)}
PileSpan(f) == LET p == CHOOSE q \in piles : f \in q.members IN p.to - p.from

\* what the filter can read of feature f when the features in loc are placed
View(loc, f) == IF f \in loc THEN PileSpan(f) ELSE -1
Len0(v) == IF v < 0 THEN 0 ELSE v            \* pals.Contig.Len() = 0
Consult(loc, ab) == [pair |-> ab, a |-> View(loc, Mate(ab, 1)), b |-> View(loc, Mate(ab, 2))]
Verdict(loc, ab) ==
  IF filt.kind = "set" THEN ab \in filt.pass
  ELSE KeepSpan(filt.kind, filt.L, Len0(View(loc, Mate(ab, 1))), Len0(View(loc, Mate(ab, 2))))

PInit ==
  /\ Init
  /\ phase = "add" /\ piled = FALSE /\ filt = NoFilter /\ located = {} /\ todo = {}
  /\ listed = {} /\ asked = {} /\ ncalls = 0

AddStep == phase = "add" /\ Next /\ UNCHANGED pvars

StartCall ==
  /\ phase \in {"add", "idle"} /\ piles # {} /\ ncalls < MaxCalls
  /\ \E f \in Filters : filt' = f
  /\ todo' = piles /\ asked' = {}
  /\ phase' = IF Discipline = "fused" THEN "fused" ELSE IF piled THEN "filter" ELSE "place"
  /\ UNCHANGED <<vars, piled, located, listed, ncalls>>

Place ==
  /\ phase = "place"
  /\ \E p \in todo :
       /\ located' = located \cup p.members
       /\ IF todo = {p} THEN phase' = "filter" /\ todo' = piles /\ piled' = TRUE
          ELSE todo' = todo \ {p} /\ UNCHANGED <<phase, piled>>
  /\ UNCHANGED <<vars, filt, listed, asked, ncalls>>

\* pile p's Images are rebuilt while the features in loc are placed
Visit(p, loc) ==
  /\ listed' = (listed \ p.members)
                 \cup {m \in p.members : filt.kind = "nil" \/ Verdict(loc, PairOfFeat(m))}
  /\ asked' = IF filt.kind = "nil" THEN asked
              ELSE asked \cup {Consult(loc, PairOfFeat(m)) : m \in p.members}
  /\ IF todo = {p} THEN phase' = "idle" /\ ncalls' = ncalls + 1 /\ todo' = {} /\ piled' = TRUE
     ELSE todo' = todo \ {p} /\ UNCHANGED <<phase, ncalls, piled>>

Filter ==
  /\ phase = "filter"
  /\ \E p \in todo : Visit(p, located)
  /\ UNCHANGED <<vars, filt, located>>

Fused ==
  /\ phase = "fused"
  /\ \E p \in todo : \E loc \in {located \cup p.members} : located' = loc /\ Visit(p, loc)
  /\ UNCHANGED <<vars, filt>>

PNext == AddStep \/ StartCall \/ Place \/ Filter \/ Fused
PSpec == PInit /\ [][PNext]_<<vars, pvars>>

(***************************************************************************)
(* The laws                                                                 *)
(***************************************************************************)
ConsultedWhenPlaced == \A c \in asked : c.a >= 0 /\ c.b >= 0
ConsultedOnOwnPile ==
  \A c \in asked : /\ c.a >= 0 => c.a = SpanIn(Added, Mate(c.pair, 1))
                   /\ c.b >= 0 => c.b = SpanIn(Added, Mate(c.pair, 2))
Kept(ab) ==
  CASE filt.kind = "nil" -> TRUE
    [] filt.kind = "set" -> ab \in filt.pass
    [] OTHER -> KeepSpan(filt.kind, filt.L, SpanIn(Added, Mate(ab, 1)), SpanIn(Added, Mate(ab, 2)))
ReportedMembers == phase = "idle" => listed = UNION {{Mate(ab, 1), Mate(ab, 2)} : ab \in {x \in seen : Kept(x)}}
AllPlaced == phase = "idle" => located = Added
=============================================================================
