------------------------------- MODULE Piler -------------------------------
(***************************************************************************)
(* pals.Piler (property C16).  Feature pairs (two mates, each an interval   *)
(* [s,e) on a location) are added one at a time; each mate is merged into   *)
(* every pile of its location that it overlaps or abuts (piler.go: merge,   *)
(* pileInterval.Overlap with overlap slack 0, an inclusive test on both     *)
(* ends).  A pair whose two (location,start,end) triples were already added *)
(* - in either orientation - is rejected.                                   *)
(*                                                                          *)
(* Operational side: Merge / AddPair, written like Piler.merge (query the   *)
(* piles hit by the new interval in tree order = increasing start, take the *)
(* start of the FIRST hit, the maximum end, absorb the members, delete the  *)
(* hits, insert the new pile).                                              *)
(* Declarative side: Components(F) = connected components of the relation   *)
(* "overlap or abut on the same location" (Touch) over the added features.  *)
(* TLC checks in every reachable state, i.e. after every insertion order of *)
(* every multiset of pairs of the bounded universe, that the piles are      *)
(* exactly the components (order independence), pairwise disjoint and not   *)
(* abutting, each the hull = union of its members, each feature in exactly  *)
(* one pile, and that duplicates are rejected in both orientations.         *)
(*                                                                          *)
(* A feature is a record [id, loc, s, e]; the operators below only use      *)
(* these fields, so the trace specification (integer ids, logged            *)
(* coordinates) evaluates the same text.                                    *)
(***************************************************************************)
EXTENDS Integers, Sequences, FiniteSets, TLC, Json, IOUtils

SetMin(S) == CHOOSE x \in S : \A y \in S : x <= y
SetMax(S) == CHOOSE x \in S : \A y \in S : x >= y
Min2(a, b) == IF a < b THEN a ELSE b

(***************************************************************************)
(* Declarative side                                                         *)
(***************************************************************************)
\* two features overlap or abut: the closed intervals [s,e] intersect
Touch(f, g) == f.loc = g.loc /\ f.s <= g.e /\ g.s <= f.e

\* everything of F reachable from C by chains of touching features (least fixpoint)
RECURSIVE Grow(_, _)
Grow(C, F) ==
  LET N == {g \in F \ C : \E f \in C : Touch(f, g)}
  IN IF N = {} THEN C ELSE Grow(C \cup N, F)

\* the definition: the component of every feature
Components(F) == {Grow({f}, F) : f \in F}

\* the same partition computed component by component (used on large logged
\* instances; TLC checks ComponentsFast = Components on every model state)
RECURSIVE Peel(_, _)
Peel(F, acc) ==
  IF F = {} THEN acc
  ELSE LET f == CHOOSE x \in F : TRUE
           C == Grow({f}, F)
       IN Peel(F \ C, acc \cup {C})
ComponentsFast(F) == Peel(F, {})

LocOf(C) == (CHOOSE f \in C : TRUE).loc
HullFrom(C) == SetMin({f.s : f \in C})
HullTo(C) == SetMax({f.e : f \in C})
PileOf(C) == [loc |-> LocOf(C), from |-> HullFrom(C), to |-> HullTo(C), members |-> C]
ExpectedPiles(F) == {PileOf(C) : C \in Components(F)}

\* the half-open cells [x,x+1) of from..to are all covered by some member: hull = union
Covered(p) == \A x \in p.from..(p.to - 1) : \E m \in p.members : m.s <= x /\ x < m.e

\* two piles of one location neither overlap nor abut
Apart(p, q) == p.loc # q.loc \/ p.to < q.from \/ q.to < p.from

(***************************************************************************)
(* Pair filters (Piler.Piles(f)).  A filter is handed a pair and may read   *)
(* where its two features lie: once piled, Location() of a feature is its   *)
(* pile.  The pile-reading filters keep a pair according to the span        *)
(* (To - From) of the piles of its A and its B feature; what such a filter  *)
(* lets through is therefore defined by the components:                     *)
(* SpanIn(F, f) = the span of the hull of f's component.                    *)
(* (PilerPiles.tla: the two passes of Piles - place every feature, then     *)
(* consult the filter - as a state machine.)                                *)
(***************************************************************************)
SpanKinds == {"spanA", "spanB", "spanBoth", "spanAny"}
KeepSpan(kind, L, sa, sb) ==
  CASE kind = "spanA" -> sa >= L
    [] kind = "spanB" -> sb >= L
    [] kind = "spanBoth" -> sa >= L /\ sb >= L
    [] kind = "spanAny" -> sa >= L \/ sb >= L
SpanIn(F, f) == LET C == Grow({f}, F) IN HullTo(C) - HullFrom(C)

(***************************************************************************)
(* Operational side (Piler.Add, Piler.merge)                                *)
(***************************************************************************)
CONSTANT Variant
\* "ok"              the code as read
\* "last_start"      start taken from the last hit instead of the first (= minimum)
\* "strict"          '<' for '<=' in the overlap test: abutting features stay apart
\* "one_orientation" duplicate test looks for the pair in the added orientation only
\* "no_delete"       absorbed piles are not deleted from the tree

\* pileInterval.Overlap, slack 0: query q = the new feature, b = a stored pile
Hit(p, f) ==
  IF Variant = "strict" THEN f.e > p.from /\ f.s < p.to
  ELSE f.e >= p.from /\ f.s <= p.to

\* (TLC re-evaluates LET definitions at every use inside an action; values that are used
\* several times are therefore bound by a quantifier over a singleton set: The(S) is the
\* element of a singleton S.)
The(S) == CHOOSE x \in S : TRUE

MergeHits(P, f, M) ==
  LET first == CHOOSE p \in M : \A q \in M : p.from <= q.from    \* DoMatching visits in increasing start
      last == CHOOSE p \in M : \A q \in M : p.from >= q.from
      anchor == IF Variant = "last_start" THEN last ELSE first
      new == [loc |-> f.loc,
              from |-> IF M = {} THEN f.s ELSE Min2(anchor.from, f.s),
              to |-> SetMax({p.to : p \in M} \cup {f.e}),
              members |-> UNION {p.members : p \in M} \cup {f}]
  IN (IF Variant = "no_delete" THEN P ELSE P \ M) \cup {new}

Merge(P, f) == The({MergeHits(P, f, M) : M \in {{p \in P : p.loc = f.loc /\ Hit(p, f)}}})

\* a pair is <<a, b>>, a and b being [loc, s, e] coordinate records
Swap(ab) == <<ab[2], ab[1]>>
Key(x) == [loc |-> x.loc, s |-> x.s, e |-> x.e]
IsDup(S, ab) ==
  IF Variant = "one_orientation" THEN ab \in S ELSE ab \in S \/ Swap(ab) \in S

\* state of a piler: [piles, seen]; AddMates(st, fa, fb) is Piler.Add of the pair with mates fa, fb:
\* the new state and whether the pair was accepted
Empty == [piles |-> {}, seen |-> {}]
AddMates(st, fa, fb) ==
  LET ab == <<Key(fa), Key(fb)>> IN
  IF IsDup(st.seen, ab) THEN [st |-> st, ok |-> FALSE]
  ELSE [st |-> [piles |-> The({Merge(P, fb) : P \in {Merge(st.piles, fa)}}), seen |-> st.seen \cup {ab}], ok |-> TRUE]

(***************************************************************************)
(* Bounded model: all Add sequences over a small universe                   *)
(***************************************************************************)
CONSTANTS Locs, MaxPos, MinLen, MaxPairs, KeepHist, EmitFrom    \* Locs: a set 1..k of location numbers

Coords == {[loc |-> l, s |-> a, e |-> b] : l \in Locs, a \in 0..MaxPos, b \in 0..MaxPos}
FeatU == {c \in Coords : c.e - c.s >= MinLen}
PairU == FeatU \X FeatU

\* model identity of a mate: a number made of the pair's coordinates and the side (0 = A, 1 = B)
Base == MaxPos + 1
Code(c) == (c.loc - 1) * Base * Base + c.s * Base + c.e
PairCode(ab) == Code(ab[1]) * (Cardinality(Locs) * Base * Base) + Code(ab[2])
Mate(ab, side) == [id |-> 2 * PairCode(ab) + side - 1, loc |-> ab[side].loc, s |-> ab[side].s, e |-> ab[side].e]
MateId(i) == IF i % 2 = 0 THEN i + 1 ELSE i - 1

VARIABLES piles, seen, tried, dupOk, n, hist
vars == <<piles, seen, tried, dupOk, n, hist>>

Init == piles = {} /\ seen = {} /\ tried = {} /\ dupOk = TRUE /\ n = 0 /\ hist = <<>>

Add(ab) ==
  \E r \in {AddMates([piles |-> piles, seen |-> seen], Mate(ab, 1), Mate(ab, 2))} :
  /\ piles' = r.st.piles /\ seen' = r.st.seen
  /\ tried' = tried \cup {{ab[1], ab[2]}}
  \* the law: accepted exactly when the unordered pair was never offered before
  /\ dupOk' = (dupOk /\ (r.ok <=> {ab[1], ab[2]} \notin tried))
  /\ n' = n + 1
  /\ hist' = IF KeepHist THEN Append(hist, ab) ELSE hist

Next == n < MaxPairs /\ \E ab \in PairU : Add(ab)
Spec == Init /\ [][Next]_vars

\* random walks for behaviour emission in simulation mode: one successor per step,
\* one in five steps re-offers an accepted pair, as added or swapped
GenNext ==
  /\ n < MaxPairs
  /\ \E r \in {RandomElement(1..10)} :
       \E ab \in {IF seen # {} /\ r = 1 THEN RandomElement(seen)
                  ELSE IF seen # {} /\ r = 2 THEN Swap(RandomElement(seen))
                  ELSE RandomElement(PairU)} :
         Add(ab)
GenSpec == Init /\ [][GenNext]_vars

Added == UNION {{Mate(ab, 1), Mate(ab, 2)} : ab \in seen}

(***************************************************************************)
(* The laws                                                                 *)
(***************************************************************************)
Disjoint == \A p \in piles, q \in piles : p = q \/ Apart(p, q)
HullIsUnion ==
  \A p \in piles : /\ p.members # {}
                   /\ \A m \in p.members : m.loc = p.loc
                   /\ p.from = HullFrom(p.members) /\ p.to = HullTo(p.members)
                   /\ Covered(p)
PilesAreComponents == piles = ExpectedPiles(Added)
ExactlyOnePile ==
  /\ \A f \in Added : Cardinality({p \in piles : f \in p.members}) = 1
  /\ \A p \in piles : p.members \subseteq Added
MatesPresent == \A f \in Added : \E g \in Added : g.id = MateId(f.id) /\ g # f
DuplicatesRejected == dupOk
FastAgrees == ComponentsFast(Added) = Components(Added)
\* sharing a pile = being linked by a chain, stated pairwise
SharedIffLinked ==
  LET A == Added IN
  \A f \in A :
    LET R == Grow({f}, A) IN
    \A g \in A : (\E p \in piles : f \in p.members /\ g \in p.members) <=> g \in R

(***************************************************************************)
(* Behaviour emission (KeepHist = TRUE): every Add sequence of at least     *)
(* EmitFrom calls is appended to $OUT as one JSON line and replayed on a    *)
(* real pals.Piler.                                                         *)
(***************************************************************************)
EmitBehaviours ==
  (KeepHist /\ n >= EmitFrom) =>
    Serialize(ToJson(hist) \o "\n", IOEnv.OUT,
              [format |-> "TXT", charset |-> "UTF-8",
               openOptions |-> <<"WRITE", "CREATE", "APPEND">>]).exitValue = 0
=============================================================================
