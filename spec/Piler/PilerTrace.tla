----------------------------- MODULE PilerTrace ------------------------------
(***************************************************************************)
(* Trace validation for pals.Piler (property C16).  One event = one         *)
(* instance run on a real pals.NewPiler(0) by harness/pilerd:               *)
(*   adds   <<[a |-> <<loc,s,e>>, b |-> <<loc,s,e>>, err |-> "" | message]>> *)
(*          the pairs in the order they were passed to Add; the mates of    *)
(*          pair i have the feature ids 2i-1 (A) and 2i (B)                 *)
(*   calls  the Piles calls made afterwards, each                           *)
(*          [nilf, kind, L, pass, panic, unplaced, seen,                    *)
(*           piles <<[loc, from, to, im (feature ids)]>>,                   *)
(*           feats <<<<id, index of the pile Location() points at, id of    *)
(*                    Mate()>>>> for the features of accepted pairs]        *)
(*          kind = "nil" (no filter), "set" (the filter accepts the pairs   *)
(*          whose indexes are in pass) or one of SpanKinds (the filter      *)
(*          reads Location().Len() of the pair's A and B feature and keeps  *)
(*          the pair by KeepSpan(kind, L, ., .); pass is empty: the pairs   *)
(*          it lets through are computed HERE from the components).         *)
(*          Every filter recorded, when it was invoked, where the pair's    *)
(*          features were located: unplaced = number of invocations that    *)
(*          saw a feature whose Location() was not a *pals.Pile; seen =     *)
(*          <<<<pair, pile of A, pile of B>>>> (distinct triples), a pile   *)
(*          being its index in the piles this call returned, 0 = a pile     *)
(*          that was not returned, -1 = not a pile.                         *)
(* Every event is judged by recomputing, with the operators of Piler.tla,   *)
(* which Adds had to be accepted and the connected components of the        *)
(* accepted features.  Verdicts (fails): duplicate rule, piles disjoint and *)
(* not abutting, pile interval = hull of a component, members = that        *)
(* component (restricted by the filter), every component reported once,     *)
(* Location() of every feature = its pile, Mate() = the other mate; the     *)
(* filter is only consulted about pairs both of whose features are placed   *)
(* in the piles reported for their components (the two passes of            *)
(* PilerPiles.tla); under a pile-reading filter the members reported are    *)
(* exactly those the filter keeps according to the components.              *)
(* Drift (no verdict): the operational model (Merge) run on the same Adds   *)
(* disagrees with the first unfiltered report; a call with a "set" filter   *)
(* lists a feature the filter rejects (inside its own pile); the filter was *)
(* consulted about a pair that was not accepted by Add.                     *)
(***************************************************************************)
EXTENDS Piler

Trace == ndJsonDeserialize(IOEnv.TRACE)
VARIABLES l, fails, drift

Feat(id, c) == [id |-> id, loc |-> c[1], s |-> c[2], e |-> c[3]]
Range(t) == {t[i] : i \in 1..Len(t)}

\* declarative duplicate rule: accepted iff the unordered pair was not offered before
Fresh(adds, i) == ~\E j \in 1..(i - 1) : {adds[j].a, adds[j].b} = {adds[i].a, adds[i].b}
AcceptedFeatures(adds) ==
  UNION {{Feat(2 * i - 1, adds[i].a), Feat(2 * i, adds[i].b)} : i \in {j \in 1..Len(adds) : Fresh(adds, j)}}

\* the operational model run on the same Adds
RECURSIVE Fold(_, _, _, _)
Fold(adds, i, st, oks) ==
  IF i > Len(adds) THEN [st |-> st, oks |-> oks]
  ELSE LET r == AddMates(st, Feat(2 * i - 1, adds[i].a), Feat(2 * i, adds[i].b))
       IN Fold(adds, i + 1, r.st, Append(oks, r.ok))

Ids(C) == {m.id : m \in C}
PairOf(id) == (id + 1) \div 2
OtherMate(id) == IF id % 2 = 1 THEN id + 1 ELSE id - 1
SameSpan(p, x) == p.loc = x.loc /\ p.from = x.from /\ p.to = x.to

AddReasons(adds) ==
  <<IF \E i \in 1..Len(adds) : adds[i].err # "" /\ Fresh(adds, i)
      THEN "Add returned an error (or panicked) for a pair that was not added before" ELSE "",
    IF \E i \in 1..Len(adds) : adds[i].err = "" /\ ~Fresh(adds, i)
      THEN "Add accepted a pair that was already added (same or swapped orientation)" ELSE "">>

\* the pairs the filter of call c lets through.  "set": as logged; pile-reading filters: by the
\* components (exp), the span of the pile a feature lies in being the span of its component's hull
SpanOfId(exp, id) == LET x == CHOOSE y \in exp : id \in Ids(y.members) IN x.to - x.from
PassSet(c, F, exp) ==
  IF c.kind \in SpanKinds
    THEN {k \in {PairOf(f.id) : f \in F} : KeepSpan(c.kind, c.L, SpanOfId(exp, 2 * k - 1), SpanOfId(exp, 2 * k))}
    ELSE Range(c.pass)

\* exp: the expected piles [loc, from, to, members] of the accepted features F
CallReasons(c, F, exp) ==
  LET P == c.piles
      pass == PassSet(c, F, exp)
      Want(x) == {m.id : m \in {m \in x.members : PairOf(m.id) \in pass}}
      Match(i) == {x \in exp : SameSpan(P[i], x)}
      \* the pile with index at (as the filter saw it) is the reported pile of the component of feature id
      OwnPile(at, id) == at \in 1..Len(P) /\ \E x \in exp : id \in Ids(x.members) /\ SameSpan(P[at], x)
  IN
  IF c.panic # "" THEN <<"Piles panicked">>
  ELSE
  <<IF \E i \in 1..Len(P), j \in 1..Len(P) : i < j /\ ~Apart(P[i], P[j])
      THEN "two reported piles of one location overlap or abut" ELSE "",
    IF \E i \in 1..Len(P) : Match(i) = {}
      THEN "a reported pile's interval is not the hull (= union) of a component of the added features" ELSE "",
    IF \E i \in 1..Len(P) : \E x \in Match(i) : ~Covered(x)
      THEN "a reported pile's interval is not the union of the intervals of its component" ELSE "",
    IF \E i \in 1..Len(P) : \E x \in Match(i) :
         ~(Want(x) \subseteq Range(P[i].im) /\ Range(P[i].im) \subseteq Ids(x.members))
      THEN "a reported pile's members are not the features linked by chains of overlapping or abutting features" ELSE "",
    IF c.kind \in SpanKinds /\ \E i \in 1..Len(P) : \E x \in Match(i) : Range(P[i].im) # Want(x)
      THEN "under a filter that reads the piles of a pair's features, a reported pile's members are not the members of its component the filter keeps" ELSE "",
    IF c.unplaced # 0
      THEN "the filter was consulted about a pair whose features were not yet placed in their piles" ELSE "",
    IF \E k \in 1..Len(c.seen) :
         LET s == c.seen[k] IN
         /\ \E f \in F : PairOf(f.id) = s[1]
         /\ s[2] >= 0 /\ s[3] >= 0
         /\ ~(OwnPile(s[2], 2 * s[1] - 1) /\ OwnPile(s[3], 2 * s[1]))
      THEN "while the filter was consulted about a pair, Location() of one of its features was not the pile reported for the feature's component" ELSE "",
    IF \E i \in 1..Len(P) : Cardinality(Range(P[i].im)) # Len(P[i].im)
      THEN "a feature is listed twice in one pile" ELSE "",
    IF \E x \in exp : Cardinality({i \in 1..Len(P) : SameSpan(P[i], x)}) # 1
      THEN "a component of the added features is not reported as exactly one pile" ELSE "",
    IF \E f \in F : \E k \in 1..Len(c.feats) :
         /\ c.feats[k][1] = f.id
         /\ LET at == c.feats[k][2] IN
            ~(at \in 1..Len(P) /\ \E x \in exp : f \in x.members /\ SameSpan(P[at], x))
      THEN "Location() of an added feature is not the reported pile of its component" ELSE "",
    IF \E f \in F : \E k \in 1..Len(c.feats) : c.feats[k][1] = f.id /\ c.feats[k][3] # OtherMate(f.id)
      THEN "Mate() of an added feature is not the other feature of its pair" ELSE "",
    IF \E f \in F : Cardinality({k \in 1..Len(c.feats) : c.feats[k][1] = f.id}) # 1
      THEN "an added feature has no (or more than one) state entry" ELSE "">>

CallDrift(c, F, exp) ==
  \/ c.panic = "" /\ c.kind \notin SpanKinds /\ \E i \in 1..Len(c.piles) : \E x \in exp :
        /\ SameSpan(c.piles[i], x)
        /\ \E id \in Range(c.piles[i].im) : id \in Ids(x.members) /\ PairOf(id) \notin Range(c.pass)
  \/ \E k \in 1..Len(c.seen) : ~\E f \in F : PairOf(f.id) = c.seen[k][1]

NonEmpty(t) == SelectSeq(t, LAMBDA r : r # "")

RECURSIVE CallsReasons(_, _, _, _)
CallsReasons(calls, k, F, exp) ==
  IF k > Len(calls) THEN <<>>
  ELSE LET rs == NonEmpty(CallReasons(calls[k], F, exp))
       IN [i \in 1..Len(rs) |-> "Piles call " \o ToString(k) \o ": " \o rs[i]] \o CallsReasons(calls, k + 1, F, exp)

Reasons(e) ==
  LET F == AcceptedFeatures(e.adds)
      exp == {PileOf(C) : C \in ComponentsFast(F)}
  IN NonEmpty(AddReasons(e.adds)) \o CallsReasons(e.calls, 1, F, exp)

\* drift: operational model vs. first unfiltered report; filters ignored inside a pile
ModelDrift(e) ==
  LET m == Fold(e.adds, 1, Empty, <<>>)
      nils == {k \in 1..Len(e.calls) : e.calls[k].nilf}
      c == e.calls[IF nils = {} THEN 1 ELSE SetMin(nils)]       \* the first unfiltered call
      F == AcceptedFeatures(e.adds)
      exp == {PileOf(C) : C \in ComponentsFast(F)}
  IN \/ m.oks # [i \in 1..Len(e.adds) |-> e.adds[i].err = ""]
     \/ nils # {} /\ c.panic = "" /\ {[loc |-> p.loc, from |-> p.from, to |-> p.to, ids |-> Ids(p.members)] : p \in m.st.piles}
                        # {[loc |-> p.loc, from |-> p.from, to |-> p.to, ids |-> Range(p.im)] : p \in Range(c.piles)}
     \/ \E k \in 1..Len(e.calls) : CallDrift(e.calls[k], F, exp)

TInit == Init /\ l = 1 /\ fails = <<>> /\ drift = <<>>

Step ==
  /\ l <= Len(Trace) /\ l' = l + 1
  /\ UNCHANGED vars
  /\ LET e == Trace[l]
         rs == Reasons(e)
     IN /\ fails' = fails \o [i \in 1..Len(rs) |-> <<l, rs[i]>>]
        /\ drift' = IF ModelDrift(e) THEN Append(drift, l) ELSE drift

TSpec == TInit /\ [][Step]_<<vars, l, fails, drift>>

Emit ==
  (l = Len(Trace) + 1) =>
    Serialize(ToJson([events |-> Len(Trace), fails |-> fails, drift |-> drift]), IOEnv.OUT,
              [format |-> "TXT", charset |-> "UTF-8",
               openOptions |-> <<"WRITE", "CREATE", "TRUNCATE_EXISTING">>]).exitValue = 0
Consumed == TLCGet("stats").diameter - 1 = Len(Trace)
=============================================================================
