SPECIFICATION Spec
CONSTANTS
  Variant = "last_start"
  Locs = {1, 2}
  MaxPos = 3
  MinLen = 1
  MaxPairs = 2
  KeepHist = FALSE
  EmitFrom = 0
INVARIANTS
  Disjoint
  HullIsUnion
  PilesAreComponents
  ExactlyOnePile
  MatesPresent
  DuplicatesRejected
  FastAgrees
  SharedIffLinked
CHECK_DEADLOCK FALSE
