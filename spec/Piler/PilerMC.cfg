SPECIFICATION Spec
CONSTANTS
  Variant = "ok"
  Locs = {1, 2}
  MaxPos = 3
  MinLen = 1
  MaxPairs = 3
  KeepHist = FALSE
  EmitFrom = 0
INVARIANTS
  Disjoint
  HullIsUnion
  PilesAreComponents
  ExactlyOnePile
  MatesPresent
  DuplicatesRejected
  FastAgrees
  SharedIffLinked
CHECK_DEADLOCK FALSE
