SPECIFICATION Spec
CONSTANTS
  Variant = "ok"
  Locs = {1, 2}
  MaxPos = 3
  MinLen = 1
  MaxPairs = 2
  KeepHist = TRUE
  EmitFrom = 1
INVARIANTS
  EmitBehaviours
CHECK_DEADLOCK FALSE
