SPECIFICATION TSpec
CONSTANTS
  Variant = "ok"
  Locs = {1}
  MaxPos = 0
  MinLen = 0
  MaxPairs = 0
  KeepHist = FALSE
  EmitFrom = 0
INVARIANT Emit
POSTCONDITION Consumed
CHECK_DEADLOCK FALSE
