SPECIFICATION PSpec
CONSTANTS
  Variant = "ok"
  Discipline = "fused"
  MaxCalls = 2
  Locs = {1, 2}
  MaxPos = 2
  MinLen = 1
  MaxPairs = 2
  KeepHist = FALSE
  EmitFrom = 0
INVARIANTS
  ConsultedWhenPlaced
  ConsultedOnOwnPile
  ReportedMembers
  AllPlaced
  PilesAreComponents
CHECK_DEADLOCK FALSE
