------------------------------- MODULE AlignDP -------------------------------
(***************************************************************************)
(* Pairwise alignment scores (properties C08, C09).                         *)
(*                                                                          *)
(* Letters are alphabet indices 0..n-1 with the gap letter at index 0; a    *)
(* scoring matrix M is an n x n matrix (M[a+1][b+1] scores reference letter *)
(* a against query letter b; row/column 1 hold the gap scores).  A gap run  *)
(* additionally costs `open' once (0 for the linear model).                 *)
(*                                                                          *)
(* Two definitions of "the best alignment":                                 *)
(*   Brute(...)  enumerates every alignment by unmemoised recursion over    *)
(*               the moves Sub / gap-in-query / gap-in-reference - this IS  *)
(*               the maximum over all alignments, feasible for tiny inputs; *)
(*   Opt(...)    three-layer dynamic programming folded row by row, usable  *)
(*               for real sizes.  TLC checks Brute = Opt on a bounded       *)
(*               domain (AlignMC), which licenses judging with Opt.         *)
(*                                                                          *)
(* restricted = TRUE forbids a gap in one sequence directly after a gap in  *)
(* the other (the three-state model biogo's affine aligners implement).     *)
(***************************************************************************)
EXTENDS Integers, Sequences, FiniteSets

NEG == -1000000          \* "minus infinity"; scores stay far above it

Max2(a, b) == IF a > b THEN a ELSE b
Max3(a, b, c) == Max2(a, Max2(b, c))
Plus(a, b) == IF a <= NEG \/ b <= NEG THEN NEG ELSE a + b

Sub(M, a, b) == M[a + 1][b + 1]
GapR(M, a) == M[a + 1][1]        \* reference letter a against a gap
GapQ(M, b) == M[1][b + 1]        \* query letter b against a gap

(***************************************************************************)
(* Brute force: best score of completing an alignment from (i, j) having    *)
(* just made a move of kind `last' (0 none/sub, 1 gap in query = reference  *)
(* letter consumed, 2 gap in reference = query letter consumed).            *)
(* mode "global": must reach (n, m).  "fitted": must consume the query and  *)
(* may stop at any reference position (end fixed by iend).  "local": may    *)
(* stop anywhere.                                                           *)
(***************************************************************************)
RECURSIVE BruteFrom(_, _, _, _, _, _, _, _, _)
BruteFrom(mode, r, q, M, open, restricted, i, j, last) ==
  LET n == Len(r)  m == Len(q)
      iend == IF mode[1] = "fitted" THEN mode[2] ELSE n
      stop == CASE mode[1] = "global" -> IF i = n /\ j = m THEN 0 ELSE NEG
                [] mode[1] = "fitted" -> IF i = iend /\ j = m THEN 0 ELSE NEG
                [] OTHER -> IF last = 0 THEN 0 ELSE NEG          \* a local alignment ends with a substitution (or is empty)
      limI == IF mode[1] = "fitted" THEN iend ELSE n
      sub == IF i < limI /\ j < m
               THEN Plus(Sub(M, r[i + 1], q[j + 1]), BruteFrom(mode, r, q, M, open, restricted, i + 1, j + 1, 0)) ELSE NEG
      up == IF i < limI /\ ~(restricted /\ last = 2)
              THEN Plus(GapR(M, r[i + 1]) + (IF last = 1 THEN 0 ELSE open), BruteFrom(mode, r, q, M, open, restricted, i + 1, j, 1)) ELSE NEG
      lf == IF j < m /\ ~(restricted /\ last = 1)
              THEN Plus(GapQ(M, q[j + 1]) + (IF last = 2 THEN 0 ELSE open), BruteFrom(mode, r, q, M, open, restricted, i, j + 1, 2)) ELSE NEG
  IN Max2(stop, Max3(sub, up, lf))

\* best over all start cells (local, fitted: free start in the reference)
Brute(mode, r, q, M, open, restricted) ==
  LET n == Len(r)  m == Len(q)
      starts == CASE mode[1] = "global" -> {<<0, 0>>}
                  [] mode[1] = "fitted" -> {<<i, 0>> : i \in 0..mode[2]}
                  [] OTHER -> {<<i, j>> : i \in 0..n, j \in 0..m}
      vals == {BruteFrom(mode, r, q, M, open, restricted, s[1], s[2], 0) : s \in starts}
  IN CHOOSE v \in vals : \A w \in vals : w <= v

(***************************************************************************)
(* Dynamic programming.  A cell is <<d, u, l>>: best score of an alignment  *)
(* of the prefixes ending with a substitution / a gap in the query / a gap  *)
(* in the reference.  A row is the sequence of cells j = 0..m.              *)
(***************************************************************************)
Best(c) == Max3(c[1], c[2], c[3])
Clamp(mode, v) == IF mode[1] = "local" THEN Max2(v, 0) ELSE v

Row0(mode, q, M, open) ==
  LET RECURSIVE Build(_, _)
      Build(j, acc) ==
        IF j > Len(q) THEN acc
        ELSE LET prev == acc[j]     \* cell j-1 (1-based position j)
                 l == IF mode[1] = "local" THEN 0
                      ELSE Max2(Plus(prev[1], open + GapQ(M, q[j])), Plus(prev[3], GapQ(M, q[j])))
             IN Build(j + 1, Append(acc, <<IF mode[1] = "local" THEN 0 ELSE NEG, IF mode[1] = "local" THEN 0 ELSE NEG, l>>))
  IN Build(1, <<(IF mode[1] = "local" THEN <<0, 0, 0>> ELSE <<0, NEG, NEG>>)>>)

NextRow(mode, prev, ri, q, M, open, restricted) ==
  LET gr == GapR(M, ri)
      first == CASE mode[1] = "global" -> <<NEG, Max2(Plus(prev[1][1], open + gr), Plus(prev[1][2], gr)), NEG>>
                 [] mode[1] = "fitted" ->
                      \* free start in the reference.  As found (mode[3] = "asfound") the start state sits in the
                      \* gap-in-query layer, so an alignment cannot begin with a gap in the reference there
                      IF Len(mode) >= 3 THEN <<NEG, 0, NEG>> ELSE <<0, NEG, NEG>>
                 [] OTHER -> <<0, 0, 0>>
      RECURSIVE Build(_, _)
      Build(j, acc) ==
        IF j > Len(q) THEN acc
        ELSE LET dg == prev[j]          \* (i-1, j-1)
                 ab == prev[j + 1]      \* (i-1, j)
                 lt == acc[j]           \* (i, j-1)
                 gq == GapQ(M, q[j])
                 d == Clamp(mode, Plus(Best(dg), Sub(M, ri, q[j])))
                 u == Clamp(mode, Max3(Plus(ab[1], open + gr), Plus(ab[2], gr), IF restricted THEN NEG ELSE Plus(ab[3], open + gr)))
                 l == Clamp(mode, Max3(Plus(lt[1], open + gq), Plus(lt[3], gq), IF restricted THEN NEG ELSE Plus(lt[2], open + gq)))
             IN Build(j + 1, Append(acc, <<d, u, l>>))
  IN Build(1, <<first>>)

\* all rows 0..n
RECURSIVE RowsFrom(_, _, _, _, _, _, _, _)
RowsFrom(mode, r, q, M, open, restricted, i, acc) ==
  IF i > Len(r) THEN acc
  ELSE RowsFrom(mode, r, q, M, open, restricted, i + 1,
                Append(acc, NextRow(mode, acc[i], r[i], q, M, open, restricted)))
Table(mode, r, q, M, open, restricted) == RowsFrom(mode, r, q, M, open, restricted, 1, <<Row0(mode, q, M, open)>>)

MaxOverSeq(s) == LET vals == {s[k] : k \in 1..Len(s)} IN CHOOSE v \in vals : \A w \in vals : w <= v

Opt(mode, r, q, M, open, restricted) ==
  LET t == Table(mode, r, q, M, open, restricted)  n == Len(r)  m == Len(q) IN
  CASE mode[1] = "global" -> Best(t[n + 1][m + 1])
    [] mode[1] = "fitted" -> Best(t[mode[2] + 1][m + 1])
    [] OTHER -> MaxOverSeq([i \in 1..(n + 1) |-> MaxOverSeq([j \in 1..(m + 1) |-> t[i][j][1]])])

(***************************************************************************)
(* Named deviations of the code as found (see known_findings.json).         *)
(***************************************************************************)
\* SWAffine: only cells whose substitution score was built on the diagonal-layer predecessor are end candidates
SWAffineAsFound(r, q, M, open) ==
  LET t == Table(<<"local">>, r, q, M, open, TRUE)  n == Len(r)  m == Len(q)
      cand == {t[i + 1][j + 1][1] : i \in 1..n, j \in 1..m} \cap
              {t[i + 1][j + 1][1] : i \in {x \in 1..n : TRUE}, j \in {y \in 1..m : TRUE}}
      ok == {<<i, j>> \in (1..n) \X (1..m) :
               /\ t[i + 1][j + 1][1] > 0
               /\ Best(t[i][j]) = t[i][j][1]}
      vals == {t[c[1] + 1][c[2] + 1][1] : c \in ok} \cup {0}
  IN CHOOSE v \in vals : \A w \in vals : w <= v

\* FittedAffine: the end row is the (last) row whose substitution-layer value in the last column is
\* largest, and that value is the score returned
FittedAffineAsFound(r, q, M, open) ==
  LET t == Table(<<"fitted", Len(r), "asfound">>, r, q, M, open, TRUE)  n == Len(r)  m == Len(q)
      vals == {t[i + 1][m + 1][1] : i \in 1..n}
      best == CHOOSE v \in vals : \A w \in vals : w <= v
      iend == CHOOSE i \in 1..n : t[i + 1][m + 1][1] = best /\ \A k \in (i + 1)..n : t[k + 1][m + 1][1] < best
  IN [iend |-> iend, score |-> best]
=============================================================================
