SPECIFICATION TSpec
INVARIANT Emit
POSTCONDITION Consumed
CHECK_DEADLOCK FALSE
