SPECIFICATION Spec
CONSTANTS
  MaxLen = 2
  Scores <- ScoresA
  Gaps <- GapsA
  Opens <- OpensA
INVARIANTS RestrictedIsOptimal
CHECK_DEADLOCK FALSE
