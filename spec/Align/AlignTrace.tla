------------------------------ MODULE AlignTrace -----------------------------
(***************************************************************************)
(* Judges recorded calls of biogo's six aligners (C08, C09).                *)
(*                                                                          *)
(* A record carries the aligner's name, the two sequences as alphabet       *)
(* indices, the scoring matrix, the gap-open score, and what Align          *)
(* returned: the feature pairs as <<a0, a1, b0, b1, score>> (reference and  *)
(* query intervals), or an error, or a recovered panic; the pairs returned  *)
(* for the same letters carried as quality letters; and the two rows of     *)
(* align.Format.  Ill-typed calls (illegal letter, alphabets or sequence    *)
(* types that differ, ragged or undersized matrix) must give an error.      *)
(*                                                                          *)
(* Verdict per record: "" (holds), a known-finding key (the record shows    *)
(* exactly the behaviour of a recorded defect of the code as found, decided *)
(* per input by the as-found operators of AlignDP), or a violation.         *)
(***************************************************************************)
EXTENDS AlignDP, TLC, Json, IOUtils

Trace == ndJsonDeserialize(IOEnv.TRACE)
VARIABLES l, fails, known

Affine(e) == e.aligner \in {"NWAffine", "SWAffine", "FittedAffine"}
ModeOf(e) == CASE e.aligner \in {"NW", "NWAffine"} -> "global"
               [] e.aligner \in {"SW", "SWAffine"} -> "local"
               [] OTHER -> "fitted"
OpenOf(e) == IF Affine(e) THEN e.open ELSE 0

(***************************************************************************)
(* C09: one monotone path of well-shaped pairs                              *)
(***************************************************************************)
ALen(p) == p[2] - p[1]
BLen(p) == p[4] - p[3]
Shape(p) ==
  /\ p[1] <= p[2] /\ p[3] <= p[4]
  /\ \/ (ALen(p) = BLen(p) /\ ALen(p) > 0)              \* ungapped block
     \/ (ALen(p) = 0 /\ BLen(p) > 0) \/ (ALen(p) > 0 /\ BLen(p) = 0)    \* gap in exactly one sequence
     \/ (ALen(p) = 0 /\ BLen(p) = 0 /\ p[5] = 0)        \* empty, zero score

WellFormed(e) ==
  LET ps == e.pairs  n == Len(e.r)  m == Len(e.q) IN
  /\ ps # <<>>
  /\ \A k \in 1..Len(ps) : Shape(ps[k])
  /\ \A k \in 1..(Len(ps) - 1) : ps[k][2] = ps[k + 1][1] /\ ps[k][4] = ps[k + 1][3]
  /\ ps[1][1] >= 0 /\ ps[1][3] >= 0 /\ ps[Len(ps)][2] <= n /\ ps[Len(ps)][4] <= m
  /\ ModeOf(e) = "global" => (ps[1][1] = 0 /\ ps[1][3] = 0 /\ ps[Len(ps)][2] = n /\ ps[Len(ps)][4] = m)
  /\ ModeOf(e) = "fitted" => (ps[1][3] = 0 /\ ps[Len(ps)][4] = m)

\* the score of one pair recomputed from the letters, the matrix and the gap parameters
RECURSIVE SumSub(_, _, _, _, _)
SumSub(e, a, b, k, acc) == IF k = 0 THEN acc ELSE SumSub(e, a + 1, b + 1, k - 1, acc + Sub(e.M, e.r[a + 1], e.q[b + 1]))
RECURSIVE SumGapR(_, _, _, _)
SumGapR(e, a, k, acc) == IF k = 0 THEN acc ELSE SumGapR(e, a + 1, k - 1, acc + GapR(e.M, e.r[a + 1]))
RECURSIVE SumGapQ(_, _, _, _)
SumGapQ(e, b, k, acc) == IF k = 0 THEN acc ELSE SumGapQ(e, b + 1, k - 1, acc + GapQ(e.M, e.q[b + 1]))
PairScore(e, p) ==
  IF ALen(p) = BLen(p) THEN SumSub(e, p[1], p[3], ALen(p), 0)
  ELSE IF BLen(p) = 0 THEN OpenOf(e) + SumGapR(e, p[1], ALen(p), 0)
  ELSE OpenOf(e) + SumGapQ(e, p[3], BLen(p), 0)

RECURSIVE SumSeq(_, _, _)
SumSeq(s, k, acc) == IF k > Len(s) THEN acc ELSE SumSeq(s, k + 1, acc + s[k])
Reported(e) == SumSeq([k \in 1..Len(e.pairs) |-> e.pairs[k][5]], 1, 0)
Recomputed(e) == SumSeq([k \in 1..Len(e.pairs) |-> PairScore(e, e.pairs[k])], 1, 0)
Faithful(e) == \A k \in 1..Len(e.pairs) : e.pairs[k][5] = PairScore(e, e.pairs[k])

\* Format: two rows of equal length that reduce to the aligned subsequences when gap letters (index 0) are removed
Degap(s) == SelectSeq(s, LAMBDA x : x # 0)
FormatOK(e) ==
  LET ps == e.pairs IN
  /\ Len(e.fmt[1]) = Len(e.fmt[2])
  /\ Degap(e.fmt[1]) = SubSeq(e.r, ps[1][1] + 1, ps[Len(ps)][2])
  /\ Degap(e.fmt[2]) = SubSeq(e.q, ps[1][3] + 1, ps[Len(ps)][4])

(***************************************************************************)
(* C08: the total is the optimum                                            *)
(***************************************************************************)
EndRef(e) == e.pairs[Len(e.pairs)][2]
ModeArg(e) == IF ModeOf(e) = "fitted" THEN <<"fitted", EndRef(e)>> ELSE <<ModeOf(e)>>
Optimum(e) == Opt(ModeArg(e), e.r, e.q, e.M, OpenOf(e), FALSE)
Restricted(e) == Opt(ModeArg(e), e.r, e.q, e.M, OpenOf(e), TRUE)

\* what the code as found computes as its total, where that differs from the optimum
AsFoundTotal(e) ==
  CASE e.aligner = "SWAffine" -> SWAffineAsFound(e.r, e.q, e.M, e.open)
    [] e.aligner = "FittedAffine" -> FittedAffineAsFound(e.r, e.q, e.M, e.open).score
    [] e.aligner = "NWAffine" -> Restricted(e)
    [] OTHER -> Optimum(e)

\* Two verdicts per record, one for each property: <<kind, text>> with kind "ok", "known" (text = key of the
\* recorded finding) or "fail".
\* C09: the result is one well-formed path whose pairs carry the scores their letters give, Format agrees, quality
\* letters change nothing, ill-typed input is an error.
JudgeC09(e) ==
  IF e.ill THEN
    (IF e.panic # "" THEN <<"fail", "ill-typed input caused a panic: " \o e.panic>>
     ELSE IF e.err = "" THEN <<"fail", "ill-typed input was accepted">> ELSE <<"ok", "">>)
  ELSE IF e.panic # "" THEN <<"fail", "panic: " \o e.panic>>
  ELSE IF e.err # "" THEN <<"fail", "error on well-typed input: " \o e.err>>
  ELSE IF ~WellFormed(e) THEN <<"fail", "pairs do not form one monotone path of well-shaped pairs">>
  ELSE IF e.qpairs # e.pairs THEN <<"fail", "quality-carrying sequences give other pairs than plain ones">>
  ELSE IF ~FormatOK(e) THEN <<"fail", "Format rows do not reduce to the aligned subsequences">>
  ELSE IF ~Faithful(e) THEN
    \* layer-blind traceback of the affine aligners: the totals are those of the tables, the path is not
    (IF Affine(e) /\ Reported(e) = AsFoundTotal(e) THEN <<"known", "C09/" \o e.aligner \o "/layer-blind-traceback">>
     ELSE <<"fail", "a pair's reported score differs from the score recomputed from the letters">>)
  ELSE <<"ok", "">>

\* C08: the alignment returned, scored from its letters, reaches the optimum.
JudgeC08(e) ==
  IF e.ill \/ e.panic # "" \/ e.err # "" THEN <<"ok", "">>          \* C09's business
  ELSE IF ~WellFormed(e) THEN <<"fail", "the pairs returned are not an alignment of the two sequences">>
  ELSE IF Recomputed(e) = Optimum(e) THEN <<"ok", "">>
  ELSE IF Recomputed(e) > Optimum(e) THEN <<"fail", "SPEC: alignment scores above the specification's optimum">>
  \* the path of a layer-blind traceback, scored from its letters, falls short although the table's total was right
  ELSE IF Affine(e) /\ ~Faithful(e) /\ Reported(e) = AsFoundTotal(e) THEN <<"known", "C08/" \o e.aligner \o "/layer-blind-traceback">>
  \* by cause: the optimum of the three-state model with the right start and end states first, then the
  \* further restrictions of the local and fitted variants
  ELSE IF Affine(e) /\ Recomputed(e) = Restricted(e) THEN <<"known", "C08/" \o e.aligner \o "/no-adjacent-opposite-gaps">>
  ELSE IF e.aligner = "SWAffine" /\ Recomputed(e) = AsFoundTotal(e) THEN <<"known", "C08/SWAffine/end-cell-needs-diagonal-predecessor">>
  ELSE IF e.aligner = "FittedAffine" /\ Recomputed(e) = AsFoundTotal(e) THEN <<"known", "C08/FittedAffine/start-and-end-states-restricted">>
  ELSE <<"fail", "total score is below the optimum">>

Tag(p, v) == IF v[1] = "fail" THEN <<p \o ": " \o v[2]>> ELSE <<>>
Step ==
  /\ l <= Len(Trace) /\ l' = l + 1
  /\ LET v9 == JudgeC09(Trace[l])  v8 == JudgeC08(Trace[l]) IN
     /\ fails' = fails \o [k \in 1..Len(Tag("C09", v9) \o Tag("C08", v8)) |-> <<l, (Tag("C09", v9) \o Tag("C08", v8))[k]>>]
     /\ known' = known \o (IF v9[1] = "known" THEN <<<<l, v9[2]>>>> ELSE <<>>) \o (IF v8[1] = "known" THEN <<<<l, v8[2]>>>> ELSE <<>>)

TInit == l = 1 /\ fails = <<>> /\ known = <<>>
TSpec == TInit /\ [][Step]_<<l, fails, known>>
Emit ==
  (l = Len(Trace) + 1) =>
    Serialize(ToJson([events |-> Len(Trace), fails |-> fails, known |-> known, drift |-> <<>>]), IOEnv.OUT,
              [format |-> "TXT", charset |-> "UTF-8",
               openOptions |-> <<"WRITE", "CREATE", "TRUNCATE_EXISTING">>]).exitValue = 0
Consumed == TLCGet("stats").diameter - 1 = Len(Trace)
=============================================================================
