------------------------------- MODULE AlignMC -------------------------------
(* Brute force = dynamic programming, for every tiny input (model-level theorem behind C08). *)
EXTENDS AlignDP, TLC

CONSTANTS MaxLen, Scores, Gaps, Opens

ScoresA == {-2, 1}
ScoresB == {-2, -1, 0, 1}
GapsA == {-1, 0}
GapsB == {-2, -1, 0}
OpensA == {0, -2}
OpensB == {0, -1, -2}

RECURSIVE SeqsUpTo(_, _)
SeqsUpTo(S, n) == IF n = 0 THEN {<<>>} ELSE SeqsUpTo(S, n - 1) \cup {Append(s, x) : s \in SeqsUpTo(S, n - 1), x \in S}
Letters == {1, 2}
NonEmpty == SeqsUpTo(Letters, MaxLen) \ {<<>>}
\* matrices over {gap, x, y}: gap scores g1, g2 (both directions may differ), substitution scores
Matrices == {<< <<0, gq1, gq2>>, <<gr1, a, b>>, <<gr2, c, d>> >> :
               gq1 \in Gaps, gq2 \in Gaps, gr1 \in Gaps, gr2 \in Gaps, a \in Scores, b \in Scores, c \in Scores, d \in Scores}

VARIABLES r, q, M, open, chosen
vars == <<r, q, M, open, chosen>>
\* the sequences are chosen initially, matrix and gap-open score by the first step, so that TLC's
\* workers share the inputs between them
Init == r \in NonEmpty /\ q \in NonEmpty /\ M = <<>> /\ open = 0 /\ chosen = FALSE
Next == ~chosen /\ chosen' = TRUE /\ M' \in Matrices /\ open' \in Opens /\ UNCHANGED <<r, q>>
Spec == Init /\ [][Next]_vars

Modes == {<<"global">>, <<"local">>} \cup {<<"fitted", i>> : i \in 0..Len(r)}
DPisBrute ==
  chosen => \A mode \in Modes : \A restricted \in BOOLEAN :
    Opt(mode, r, q, M, open, restricted) = Brute(mode, r, q, M, open, restricted)
\* the restricted model never beats the unrestricted one; they agree when no substitution scores below two gap runs
RestrictedBelow ==
  chosen => \A mode \in Modes : Opt(mode, r, q, M, open, TRUE) <= Opt(mode, r, q, M, open, FALSE)
\* negative control: the three-state model without adjacent opposite gaps is NOT always optimal
RestrictedIsOptimal ==
  chosen => \A mode \in Modes : Opt(mode, r, q, M, open, TRUE) = Brute(mode, r, q, M, open, FALSE)
=============================================================================
