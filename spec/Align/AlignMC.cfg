SPECIFICATION Spec
CONSTANTS
  MaxLen = 2
  Scores <- ScoresA
  Gaps <- GapsA
  Opens <- OpensA
INVARIANTS DPisBrute RestrictedBelow
CHECK_DEADLOCK FALSE
