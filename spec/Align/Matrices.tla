------------------------------ MODULE Matrices ------------------------------
(***************************************************************************)
(* Extension beyond the listed properties: what the aligners of C08/C09 are *)
(* given as scoring matrices by package align/matrix.                       *)
(*  - matrix.Match(alphabet, gap, match, mismatch): the matrix whose gap    *)
(*    row and column (index of the alphabet's gap letter, none when it has  *)
(*    no gap letter) hold gap, whose remaining diagonal holds match and     *)
(*    everything else mismatch.                                             *)
(*  - the 78 shipped matrices: each is a legal and sensible input for some  *)
(*    built-in alphabet - square, as large as that alphabet, symmetric, and *)
(*    (as their package comment says) with a gap row and column of zeros    *)
(*    at index 0, where the gapped alphabets keep their gap letter.         *)
(* A disagreement is reported as drift, never as a violation.               *)
(***************************************************************************)
EXTENDS Integers, Sequences, FiniteSets, TLC, Json, IOUtils

\* indices as the code has them: 0-based, g = -1 when the alphabet has no gap letter
MatchSpec(n, g, gap, match, mismatch) ==
  [i \in 1..n |-> [j \in 1..n |->
     IF i - 1 = g \/ j - 1 = g THEN gap ELSE IF i = j THEN match ELSE mismatch]]

Square(M) == \A i \in 1..Len(M) : Len(M[i]) = Len(M)
Symmetric(M) == \A i, j \in 1..Len(M) : M[i][j] = M[j][i]
GapFree(M) == \A i \in 1..Len(M) : M[1][i] = 0 /\ M[i][1] = 0
FitsSome(M, lens) == \E a \in DOMAIN lens : lens[a] = Len(M)

ShippedOK(e) == Len(e.M) > 0 /\ Square(e.M) /\ Symmetric(e.M) /\ GapFree(e.M) /\ FitsSome(e.M, e.lens)
MatchOK(e) == e.panic = "" /\ e.M = MatchSpec(e.n, e.g, e.gap, e.match, e.mismatch)

Trace == ndJsonDeserialize(IOEnv.TRACE)
VARIABLES l, drift
TStep == /\ l <= Len(Trace) /\ l' = l + 1
         /\ LET e == Trace[l] IN
            drift' = IF (e.op = "shipped" /\ ShippedOK(e)) \/ (e.op = "match" /\ MatchOK(e)) THEN drift ELSE Append(drift, l)
TInit == l = 1 /\ drift = <<>>
TSpec == TInit /\ [][TStep]_<<l, drift>>
Emit ==
  (l = Len(Trace) + 1) =>
    Serialize(ToJson([events |-> Len(Trace), fails |-> <<>>, drift |-> drift]), IOEnv.OUT,
              [format |-> "TXT", charset |-> "UTF-8",
               openOptions |-> <<"WRITE", "CREATE", "TRUNCATE_EXISTING">>]).exitValue = 0
Consumed == TLCGet("stats").diameter - 1 = Len(Trace)
=============================================================================
