--------------------------------- MODULE Bed --------------------------------
(***************************************************************************)
(* BED3/4/5/6/12 lines.  A record is                                        *)
(*  [chrom, start, end, name, score, strand, thickStart, thickEnd, rgb,     *)
(*   blockSizes, blockStarts]   (text fields are byte sequences, strand is  *)
(*  the byte '+', '-' or '.', rgb is <<>> for the zero colour or <<r,g,b>>) *)
(* of which a BEDm record uses the first m columns (12: all).               *)
(***************************************************************************)
EXTENDS Text

COMMA == 44
Widths == {3, 4, 5, 6, 12}

IntList(xs) == JoinWith([i \in 1..Len(xs) |-> Dec(xs[i])], <<COMMA>>)

Column(rec, c) ==
  CASE c = 1 -> rec.chrom          [] c = 2 -> Dec(rec.start)      [] c = 3 -> Dec(rec.end)
    [] c = 4 -> rec.name           [] c = 5 -> Dec(rec.score)      [] c = 6 -> <<rec.strand>>
    [] c = 7 -> Dec(rec.thickStart) [] c = 8 -> Dec(rec.thickEnd)
    [] c = 9 -> IF rec.rgb = <<>> THEN <<48>> ELSE IntList(rec.rgb)
    [] c = 10 -> Dec(Len(rec.blockSizes))
    [] c = 11 -> IntList(rec.blockSizes)
    [] c = 12 -> IntList(rec.blockStarts)

\* bed.Writer.Write at column count w (w <= the record's own type)
BedBytes(rec, w) == JoinWith([c \in 1..w |-> Column(rec, c)], <<TAB>>) \o <<LF>>

\* the record with only its first w columns meaningful
Blank12 == [chrom |-> <<>>, start |-> 0, end |-> 0, name |-> <<>>, score |-> 0, strand |-> 46,
            thickStart |-> 0, thickEnd |-> 0, rgb |-> <<>>, blockSizes |-> <<>>, blockStarts |-> <<>>]
FirstColumns(rec, w) ==
  [f \in DOMAIN Blank12 |->
     LET c == CASE f = "chrom" -> 1 [] f = "start" -> 2 [] f = "end" -> 3 [] f = "name" -> 4
                [] f = "score" -> 5 [] f = "strand" -> 6 [] f = "thickStart" -> 7 [] f = "thickEnd" -> 8
                [] f = "rgb" -> 9 [] f = "blockSizes" -> 11 [] f = "blockStarts" -> 12
     IN IF c <= w THEN rec[f] ELSE Blank12[f]]

(***************************************************************************)
(* Reader: one physical line -> record | error.  Numerals other than the   *)
(* canonical decimal ones a writer produces are "unspec" (the code accepts  *)
(* hex/octal/underscored forms too; the specification does not say).        *)
(***************************************************************************)
IntField(f) == IF IsCanonDec(f) THEN [ok |-> TRUE, v |-> IntOf(f)] ELSE [ok |-> FALSE, v |-> 0]
IntsOf(f) ==   \* comma separated list, a trailing comma allowed
  LET parts == Split(f, COMMA)
      cut == IndexIn([i \in 1..Len(parts) |-> IF parts[i] = <<>> THEN 1 ELSE 0], {1})
      used == IF cut = 0 THEN parts ELSE SubSeq(parts, 1, cut - 1)
      ok == \A i \in 1..Len(used) : IsCanonDec(used[i])
  IN [ok |-> ok, v |-> IF ok THEN [i \in 1..Len(used) |-> IntOf(used[i])] ELSE <<>>]

BedParse(rawline, m) ==
  LET line == TrimSpace(rawline)
      f == SplitN(line, TAB, m + 1)
  IN IF Len(f) < m THEN [kind |-> "err", why |-> "columns"]
     ELSE
       LET ints == {2, 3} \cup (IF m >= 5 THEN {5} ELSE {}) \cup (IF m = 12 THEN {7, 8, 10} ELSE {})
           badint == \E c \in ints : ~IsCanonDec(f[c])
           nonnum == \E c \in ints : f[c] = <<>> \/ \E k \in 1..Len(f[c]) : ~(IsDigit(f[c][k]) \/ f[c][k] \in {43, 45, 95, 120, 88, 98, 66, 111, 79} \/ f[c][k] \in 97..102 \/ f[c][k] \in 65..70)
       IN IF nonnum THEN [kind |-> "err", why |-> "number"]
          ELSE IF m >= 6 /\ (Len(f[6]) # 1 \/ f[6][1] \notin {43, 45, 46}) THEN [kind |-> "err", why |-> "strand"]
          ELSE IF badint THEN [kind |-> "unspec"]
          ELSE IF m < 12 THEN
            [kind |-> "rec",
             rec |-> FirstColumns([Blank12 EXCEPT !.chrom = f[1], !.start = IntOf(f[2]), !.end = IntOf(f[3]),
                                     !.name = IF m >= 4 THEN f[4] ELSE <<>>,
                                     !.score = IF m >= 5 THEN IntOf(f[5]) ELSE 0,
                                     !.strand = IF m >= 6 THEN f[6][1] ELSE 46], m)]
          ELSE
            LET sizes == IntsOf(f[11])  starts == IntsOf(f[12])
                rgbp == Split(f[9], COMMA)
                rgbok == \A i \in 1..Len(rgbp) : IsCanonDec(rgbp[i]) /\ IntOf(rgbp[i]) \in 0..255
            IN IF ~sizes.ok \/ ~starts.ok \/ ~rgbok \/ Len(rgbp) \notin {1, 3} \/ (Len(rgbp) = 1 /\ f[9] # <<48>>)
                 THEN [kind |-> "unspec"]
               ELSE IF IntOf(f[10]) # Len(sizes.v) \/ IntOf(f[10]) # Len(starts.v) THEN [kind |-> "err", why |-> "blocks"]
               ELSE [kind |-> "rec",
                     rec |-> [chrom |-> f[1], start |-> IntOf(f[2]), end |-> IntOf(f[3]), name |-> f[4],
                              score |-> IntOf(f[5]), strand |-> f[6][1], thickStart |-> IntOf(f[7]),
                              thickEnd |-> IntOf(f[8]),
                              rgb |-> IF Len(rgbp) = 1 THEN <<>> ELSE [i \in 1..3 |-> IntOf(rgbp[i])],
                              blockSizes |-> sizes.v, blockStarts |-> starts.v]]

\* every line of the text is one Read (the last one also when it has no terminator)
BedRead(t, m) == LET ls == Lines(t) IN [i \in 1..Len(ls) |-> BedParse(ls[i], m)]
=============================================================================
