--------------------------------- MODULE Gff --------------------------------
(***************************************************************************)
(* GFF version 2.  Items written/read:                                      *)
(*  feature  [kind |-> "feature", seqname, source, feature, start, end,     *)
(*            score, strand, frame, attrs, comments]                        *)
(*            start/end zero-based half-open as the API exposes them, the   *)
(*            text carries start+1 .. end (1-based inclusive);              *)
(*            score is the numeral text ("." for none), strand and frame    *)
(*            single bytes, attrs a sequence of <<tag, value>>              *)
(*  region   [kind |-> "region", name, start, end]                          *)
(*  sequence [kind |-> "sequence", moltype (1 DNA, 2 RNA, 3 Protein), name, letters] *)
(***************************************************************************)
EXTENDS Text, Fasta, TLC

DOT == 46   SEMI == 59   HASH == 35

S_version   == <<35,35,103,102,102,45,118,101,114,115,105,111,110,32>>      \* "##gff-version "
S_region    == <<35,35,115,101,113,117,101,110,99,101,45,114,101,103,105,111,110,32>> \* "##sequence-region "
W_region    == <<115,101,113,117,101,110,99,101,45,114,101,103,105,111,110>>        \* "sequence-region"
W_version   == <<103,102,102,45,118,101,114,115,105,111,110>>                       \* "gff-version"
W_srcver    == <<115,111,117,114,99,101,45,118,101,114,115,105,111,110>>            \* "source-version"
W_date      == <<100,97,116,101>>                                                   \* "date"
W_type      == {<<84,121,112,101>>, <<116,121,112,101>>}                            \* "Type", "type"
MolUpper == <<<<68,78,65>>, <<82,78,65>>, <<80,114,111,116,101,105,110>>>>          \* DNA RNA Protein
MolLower == <<<<100,110,97>>, <<114,110,97>>, <<112,114,111,116,101,105,110>>>>     \* dna rna protein
S_end == <<101,110,100,45>>                                                         \* "end-"

\* feat.ZeroToOne / feat.OneToZero: non-negative positions shift by one, negative ones are kept;
\* the 1-based position 0 does not exist
Z2O(p) == IF p >= 0 THEN p + 1 ELSE p
O2Z(p) == IF p > 0 THEN p - 1 ELSE p

AttrBytes(attrs) ==
  JoinWith([i \in 1..Len(attrs) |-> attrs[i][1] \o <<SP>> \o attrs[i][2]], <<SEMI, SP>>)

FeatureBytes(f) ==
  f.seqname \o <<TAB>> \o f.source \o <<TAB>> \o f.feature \o <<TAB>> \o Dec(Z2O(f.start)) \o <<TAB>>
  \o Dec(f.end) \o <<TAB>> \o f.score \o <<TAB>> \o <<f.strand>> \o <<TAB>> \o <<f.frame>>
  \o (IF f.attrs # <<>> THEN <<TAB>> \o AttrBytes(f.attrs)
      ELSE IF f.comments # <<>> THEN <<TAB>> ELSE <<>>)
  \o (IF f.comments # <<>> THEN <<TAB>> \o f.comments ELSE <<>>)
  \o <<LF>>

RegionBytes(r) == S_region \o r.name \o <<SP>> \o Dec(Z2O(r.start)) \o <<SP>> \o Dec(r.end) \o <<LF>>

SequenceBytes(s, width) ==
  FastaBytesP([name |-> s.name, desc |-> <<>>, letters |-> s.letters], width,
              <<HASH, HASH>> \o MolUpper[s.moltype] \o <<SP>>, <<HASH, HASH>>)
  \o <<HASH, HASH>> \o S_end \o MolUpper[s.moltype] \o <<LF>>

ItemBytes(x, width) ==
  CASE x.kind = "feature" -> FeatureBytes(x)
    [] x.kind = "region" -> RegionBytes(x)
    [] x.kind = "sequence" -> SequenceBytes(x, width)

HeaderBytes == S_version \o <<50, LF>>
GffFile(items, width, header) ==
  (IF header THEN HeaderBytes ELSE <<>>) \o Flatten([i \in 1..Len(items) |-> ItemBytes(items[i], width)])

(***************************************************************************)
(* Reader: gff.Reader.Read as a machine over physical lines.                *)
(***************************************************************************)
IsTagByte(b) == b \in 65..90 \/ b \in 97..122 \/ b = 95

\* one attribute "tag value" (already trimmed, non-empty): <<tag, value>> or "bad"
AttrOf(a) ==
  LET m == IndexIn(a, {9, 10, 11, 12, 13, 32})
      tag == IF m = 0 THEN a ELSE SubSeq(a, 1, m - 1)
      rest == IF m = 0 THEN <<>> ELSE DropLeft(SubSeq(a, m, Len(a)))
  IN IF tag = <<>> \/ \E i \in 1..Len(tag) : ~IsTagByte(tag[i]) THEN <<>> ELSE <<<<tag, rest>>>>

AttrsOf(f) ==
  LET parts == [i \in 1..Len(Split(f, SEMI)) |-> TrimSpace(Split(f, SEMI)[i])]
      used == SelectSeq(parts, LAMBDA p : p # <<>>)
      each == [i \in 1..Len(used) |-> AttrOf(used[i])]
      ok == \A i \in 1..Len(each) : each[i] # <<>>
  IN [ok |-> ok, v |-> IF ok THEN [i \in 1..Len(each) |-> each[i][1]] ELSE <<>>]

Strands == {43, 45, 46}
\* a data line (not blank, not starting with '#')
FeatureOf(line) ==
  LET f == SplitN(line, TAB, 10) IN
  IF Len(f) < 8 THEN [kind |-> "err", why |-> "columns"]
  ELSE IF f[4] = <<48>> THEN [kind |-> "err", why |-> "start0"]
  ELSE IF Len(f[7]) # 1 \/ f[7][1] \notin Strands THEN
    (IF IsCanonDec(f[4]) /\ IsCanonDec(f[5]) THEN [kind |-> "err", why |-> "strand"] ELSE [kind |-> "unspec"])
  ELSE IF ~IsCanonDec(f[4]) \/ ~IsCanonDec(f[5]) THEN
    (IF \E c \in {4, 5} : f[c] = <<>> \/ \E k \in 1..Len(f[c]) : ~(IsDigit(f[c][k]) \/ f[c][k] \in {43, 45, 95, 120, 88, 98, 66, 111, 79} \/ f[c][k] \in 97..102 \/ f[c][k] \in 65..70)
       THEN [kind |-> "err", why |-> "number"] ELSE [kind |-> "unspec"])
  ELSE IF f[6] = <<>> THEN [kind |-> "err", why |-> "number"]
  ELSE IF f[6] # <<DOT>> /\ \E k \in 1..Len(f[6]) : ~(IsDigit(f[6][k]) \/ f[6][k] \in {43, 45, 46, 101, 69, 73, 110, 102}) THEN [kind |-> "unspec"]
  ELSE IF Len(f[8]) # 1 \/ f[8][1] \notin {46, 48, 49, 50} THEN [kind |-> "unspec"]
  ELSE
    LET at == IF Len(f) >= 9 THEN AttrsOf(f[9]) ELSE [ok |-> TRUE, v |-> <<>>] IN
    IF ~at.ok THEN [kind |-> "err", why |-> "tag"]
    ELSE [kind |-> "item",
          item |-> [kind |-> "feature", seqname |-> f[1], source |-> f[2], feature |-> f[3],
                    start |-> O2Z(IntOf(f[4])), end |-> IntOf(f[5]), score |-> f[6],
                    strand |-> f[7][1], frame |-> f[8][1], attrs |-> at.v,
                    comments |-> IF Len(f) >= 10 THEN f[10] ELSE <<>>]]

MolOf(w) ==
  IF \E k \in 1..3 : w = MolUpper[k] \/ w = MolLower[k]
    THEN CHOOSE k \in 1..3 : w = MolUpper[k] \/ w = MolLower[k] ELSE 0

\* inline sequence: lines after "##DNA id" up to "##end-DNA"
RECURSIVE SeqFrom(_, _, _, _, _)
SeqFrom(ls, i, word, id, body) ==
  IF i > Len(ls) THEN [kind |-> "eof", next |-> i]        \* end marker never seen
  ELSE LET line == TrimSpace(ls[i]) IN
    IF line = <<>> THEN SeqFrom(ls, i + 1, word, id, body)
    ELSE IF ~HasPrefix(line, <<HASH, HASH>>) THEN [kind |-> "err", why |-> "sequence", next |-> i + 1]
    ELSE LET rest == TrimSpace(SubSeq(line, 3, Len(line))) IN
      IF rest = S_end \o word
        THEN [kind |-> "item", next |-> i + 1,
              item |-> [kind |-> "sequence", moltype |-> MolOf(word), name |-> id, letters |-> body]]
        ELSE SeqFrom(ls, i + 1, word, id, body \o NoSpace(rest))

\* one call of Read from line i: [kind: "item"|"err"|"unspec"|"eof", next, ...]
RECURSIVE GffReadFrom(_, _)
GffReadFrom(ls, i) ==
  IF i > Len(ls) THEN [kind |-> "eof", next |-> i]
  ELSE LET line == TrimSpace(ls[i]) IN
    IF line = <<>> THEN GffReadFrom(ls, i + 1)
    ELSE IF HasPrefix(line, <<HASH, HASH>>) THEN
      LET w == Split(SubSeq(line, 3, Len(line)), SP) IN
      CASE w[1] = W_version ->
             IF Len(w) < 2 THEN [kind |-> "err", why |-> "metaline", next |-> i + 1]
             ELSE IF ~IsCanonDec(w[2]) THEN [kind |-> "unspec", next |-> i + 1]
             ELSE IF IntOf(w[2]) > 2 THEN [kind |-> "err", why |-> "version", next |-> i + 1]
             ELSE GffReadFrom(ls, i + 1)
        [] w[1] = W_srcver \/ w[1] \in W_type ->
             IF Len(w) < 2 THEN [kind |-> "err", why |-> "metaline", next |-> i + 1] ELSE GffReadFrom(ls, i + 1)
        [] w[1] = W_date ->
             IF Len(w) < 2 THEN [kind |-> "err", why |-> "metaline", next |-> i + 1] ELSE [kind |-> "unspec", next |-> i + 1]
        [] w[1] = W_region ->
             IF Len(w) < 4 THEN [kind |-> "err", why |-> "metaline", next |-> i + 1]
             ELSE IF w[3] = <<48>> THEN [kind |-> "err", why |-> "start0", next |-> i + 1]
             ELSE IF ~IsCanonDec(w[3]) \/ ~IsCanonDec(w[4]) THEN [kind |-> "unspec", next |-> i + 1]
             ELSE [kind |-> "item", next |-> i + 1,
                   item |-> [kind |-> "region", name |-> w[2], start |-> O2Z(IntOf(w[3])), end |-> IntOf(w[4])]]
        [] MolOf(w[1]) # 0 ->
             IF Len(w) < 2 THEN [kind |-> "err", why |-> "metaline", next |-> i + 1]
             ELSE SeqFrom(ls, i + 1, w[1], w[2], <<>>)
        [] OTHER -> [kind |-> "err", why |-> "unhandled", next |-> i + 1]
    ELSE IF line[1] = HASH THEN GffReadFrom(ls, i + 1)
    ELSE FeatureOf(line) @@ [next |-> i + 1]

RECURSIVE GffAllFrom(_, _, _)
GffAllFrom(ls, i, acc) ==
  LET r == GffReadFrom(ls, i) IN
  IF r.kind = "eof" THEN acc
  ELSE GffAllFrom(ls, r.next, Append(acc, IF r.kind = "item" THEN r.item ELSE [kind |-> r.kind]))

GffRead(t) == GffAllFrom(Lines(t), 1, <<>>)
=============================================================================
