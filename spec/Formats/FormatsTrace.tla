---------------------------- MODULE FormatsTrace ----------------------------
(***************************************************************************)
(* Judges what the real writers and readers did (C01-C04).                  *)
(*                                                                          *)
(* write event  [op |-> "write", fmt, cfg, recs, text, ns]                  *)
(*   the bytes the real writer produced for recs under cfg and the byte     *)
(*   count each Write call returned: text must be the writer                *)
(*   specification's bytes, ns[i] the length of item i's bytes.             *)
(* read event   [op |-> "read", fmt, cfg, valid, text, recs, results, stop] *)
(*   results of calling the real Read until EOF (records, or marks          *)
(*   [kind |-> "err"], "panic", "hang"); stop = number of the first call    *)
(*   that returned io.EOF or an error.                                      *)
(*   valid: the text was made from recs by the writer specification and     *)
(*   layout transformations only: results must be exactly recs (C01/C02/C04)*)
(*   always: no panic, no hang, stop <= lines + 1, and where the reader     *)
(*   specification classifies a call as a structural error the real call    *)
(*   is an error too (C03).  Other disagreements with the reader            *)
(*   specification are reported as model drift, not as violations.          *)
(* scan event   [op |-> "scan", results, yielded, err, sticky]  extension:  *)
(*   the Scanner wrappers over the same file must yield the leading records *)
(*   of results and report an error iff a Read failed (drift only).         *)
(* alnread / alnwrite events: extension, alignio.Reader/Writer (drift only).*)
(* big event    [op |-> "big", valid, want, got]  record digests of a file  *)
(*   too large to be judged byte by byte.                                   *)
(***************************************************************************)
EXTENDS Formats

Trace == ndJsonDeserialize(IOEnv.TRACE)

VARIABLES l, fails, drift

Structural == {"columns", "number", "start0", "strand", "metaline", "length", "plusline", "blocks", "sequence", "tag"}

IsMark(x) == "kind" \in DOMAIN x /\ x.kind \in {"err", "panic", "hang", "unspec"}

\* extension: seqio.Scanner / featio.Scanner over the same reader (Scanner.tla is the state machine)
ScanOps == INSTANCE ScannerOps WITH IsErr <- IsMark
\* extension: alignio.Reader over the same reader (AlignIO.tla is the state machine)
AlnOps == INSTANCE AlignIOOps WITH IsErr <- IsMark
AlnReadAgrees(e) ==
  LET want == AlnOps!AlignReads(e.results, Len(e.calls)) IN
  /\ e.status = ""
  /\ \A k \in 1..Len(e.calls) :
        IF want[k][1] = "err" THEN e.calls[k].kind = "err"
        ELSE e.calls[k].kind = "multi" /\ e.calls[k].rows = want[k][2]
ScanAgrees(e) ==
  LET o == ScanOps!ScanOutcome(e.results) IN
  e.status = "" /\ e.yielded = o.yielded /\ e.err = o.err /\ e.sticky

\* first position where specification and implementation disagree (0: none)
RECURSIVE FirstDiff(_, _, _)
FirstDiff(spec, real, i) ==
  IF i > Len(spec) /\ i > Len(real) THEN 0
  ELSE IF i > Len(spec) \/ i > Len(real) THEN i
  ELSE IF IsMark(spec[i]) /\ spec[i].kind = "unspec" THEN -1          \* the specification says nothing from here on
  ELSE IF IsMark(spec[i]) /\ IsMark(real[i]) /\ spec[i].kind = real[i].kind THEN FirstDiff(spec, real, i + 1)
  ELSE IF ~IsMark(spec[i]) /\ ~IsMark(real[i]) /\ spec[i] = real[i] THEN FirstDiff(spec, real, i + 1)
  ELSE i

JudgeRead(e) ==
  LET real == e.results
      spec == ReadFile(e.fmt, e.text, e.cfg)
      nl == Len(Lines(e.text))
      d == FirstDiff(spec, real, 1)
      bad == {i \in 1..Len(real) : IsMark(real[i]) /\ real[i].kind \in {"panic", "hang"}}
  IN IF bad # {} THEN [v |-> "reader panicked or hung", d |-> FALSE]
     ELSE IF e.stop > nl + 1 THEN [v |-> "more Read calls than lines + 1 before EOF or an error", d |-> FALSE]
     ELSE IF e.valid /\ real # e.recs THEN [v |-> "records read differ from the records the file was made from", d |-> FALSE]
     ELSE IF e.valid /\ spec # e.recs THEN [v |-> "SPEC: reader specification disagrees with the generating records", d |-> FALSE]
     ELSE IF d > 0 /\ d <= Len(spec) /\ IsMark(spec[d]) /\ spec[d].kind = "err" /\ "why" \in DOMAIN spec[d]
             /\ spec[d].why \in Structural /\ (d > Len(real) \/ ~IsMark(real[d]))
          THEN [v |-> "structurally invalid input accepted: " \o spec[d].why, d |-> FALSE]
     ELSE [v |-> "", d |-> d > 0]

JudgeWrite(e) ==
  LET want == WriteFile(e.fmt, e.recs, e.cfg)
      off == IF e.fmt = "gff" /\ e.cfg.header THEN 1 ELSE 0
      ItemLen(i) == Len(WriteFile(e.fmt, <<e.recs[i]>>, IF e.fmt = "gff" THEN [e.cfg EXCEPT !.header = FALSE] ELSE e.cfg))
  IN IF e.text # want THEN "bytes written differ from the writer specification"
     ELSE IF \E i \in 1..Len(e.recs) : e.ns[i] # ItemLen(i) THEN "byte count returned by Write differs from bytes emitted"
     ELSE ""

Step ==
  /\ l <= Len(Trace) /\ l' = l + 1
  /\ LET e == Trace[l] IN
     CASE e.op = "read" ->
            LET j == JudgeRead(e) IN
            /\ fails' = IF j.v = "" THEN fails ELSE Append(fails, <<l, j.v>>)
            /\ drift' = IF j.d THEN Append(drift, l) ELSE drift
       [] e.op = "write" ->
            LET w == JudgeWrite(e) IN
            /\ fails' = IF w = "" THEN fails ELSE Append(fails, <<l, w>>)
            /\ UNCHANGED drift
       [] e.op = "scan" ->
            \* outside C01-C04: a disagreement is model drift, never a violation
            /\ drift' = IF ScanAgrees(e) THEN drift ELSE Append(drift, l)
            /\ UNCHANGED fails
       [] e.op = "alnread" ->
            /\ drift' = IF AlnReadAgrees(e) THEN drift ELSE Append(drift, l)
            /\ UNCHANGED fails
       [] e.op = "alnwrite" ->
            /\ drift' = IF e.err = "" /\ e.text = WriteFile(e.fmt, e.recs, e.cfg) /\ e.n = Len(e.text) THEN drift ELSE Append(drift, l)
            /\ UNCHANGED fails
       [] e.op = "bigmut" ->
            \* a large damaged file: only totality is judged
            /\ fails' = IF e.marks # <<>> THEN Append(fails, <<l, "reader panicked or hung on a large damaged file">>)
                        ELSE IF e.stop > e.nlines + 1 THEN Append(fails, <<l, "more Read calls than lines + 1 before EOF or an error">>)
                        ELSE fails
            /\ UNCHANGED drift
       [] e.op = "big" ->
            /\ fails' = IF e.want = e.got /\ e.bad = "" THEN fails
                        ELSE Append(fails, <<l, "large file: records read differ from the records written">>)
            /\ UNCHANGED drift
  /\ UNCHANGED <<fmt, recs, cfg, text, steps, crlf>>

TInit == l = 1 /\ fails = <<>> /\ drift = <<>> /\ fmt = "" /\ recs = <<>> /\ cfg = <<>> /\ text = <<>> /\ steps = 0 /\ crlf = FALSE
TSpec == TInit /\ [][Step]_<<vars, l, fails, drift>>

Emit ==
  (l = Len(Trace) + 1) =>
    Serialize(ToJson([events |-> Len(Trace), fails |-> fails, drift |-> drift]), IOEnv.OUT,
              [format |-> "TXT", charset |-> "UTF-8",
               openOptions |-> <<"WRITE", "CREATE", "TRUNCATE_EXISTING">>]).exitValue = 0
Consumed == TLCGet("stats").diameter - 1 = Len(Trace)
=============================================================================
