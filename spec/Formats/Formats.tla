------------------------------- MODULE Formats ------------------------------
(***************************************************************************)
(* Sequence and feature file formats (properties C01-C04) as one machine:   *)
(* a file is written from a list of records by the format's writer          *)
(* specification, then subjected to layout transformations (C04) or         *)
(* damaging mutations (C03); the reader specification is run on the text.   *)
(*                                                                          *)
(*   C01/C02  Read(Write(recs, cfg)) = recs             (no transformation) *)
(*   C04      Read(Layout*(Write(recs, cfg))) = recs                        *)
(*   C03      on mutated text the reader specification is total (TLC would  *)
(*            report an evaluation error otherwise) and classifies the      *)
(*            structurally invalid shapes as errors                         *)
(*                                                                          *)
(* Every text reached is also emitted (EmitFiles) so that the real readers  *)
(* are run on exactly the files of the bounded model.                       *)
(***************************************************************************)
EXTENDS Text, TLC, Json, IOUtils

FA == INSTANCE Fasta
FQ == INSTANCE Fastq
BD == INSTANCE Bed
GF == INSTANCE Gff

CONSTANTS
  Fmts,        \* subset of {"fasta", "fastq", "bed", "gff"}
  MaxRecs,     \* records per file
  MaxLetters,  \* letters per sequence
  MaxSteps,    \* transformations applied to a file
  Mutate       \* TRUE: damaging mutations (C03) instead of layout transformations (C04)

(***************************************************************************)
(* Small record domains                                                     *)
(***************************************************************************)
Names == {<<97>>, <<62>>, <<64, 43>>}                       \* "a", ">", "@+"
Descs == {<<>>, <<97, 32, 62>>}                              \* "", "a >"
RECURSIVE SeqsUpTo(_, _)
SeqsUpTo(S, n) == IF n = 0 THEN {<<>>} ELSE SeqsUpTo(S, n - 1) \cup {Append(s, x) : s \in SeqsUpTo(S, n - 1), x \in S}
Letters == SeqsUpTo({65, 67}, MaxLetters)

FastaRecs == {[name |-> n, desc |-> d, letters |-> l] : n \in Names, d \in Descs, l \in Letters}
\* quality scores at both ends of the printable range: 0 and 40 -> with offset 64: '@' and 'h'; offset 33: '!' and 'I'
FastqRecs == {[name |-> n, desc |-> d, letters |-> l, quals |-> q] :
                n \in Names, d \in Descs, l \in Letters, q \in SeqsUpTo({0, 31}, MaxLetters)}
FastqOK(r) == Len(r.letters) = Len(r.quals)

BedRecs ==
  {[chrom |-> <<99>>, start |-> s, end |-> 7, name |-> n, score |-> sc, strand |-> st,
    thickStart |-> s, thickEnd |-> 7, rgb |-> c, blockSizes |-> b, blockStarts |-> b] :
     s \in {0, -3, 12}, n \in {<<110>>, <<43>>}, sc \in {0, -1}, st \in {43, 45, 46},
     c \in {<<>>, <<0, 0, 0>>, <<255, 1, 20>>}, b \in {<<1>>, <<1, 20>>}}
  \* both thick fields genuinely zero although the feature does not start at zero
  \cup {[chrom |-> <<99>>, start |-> s, end |-> 7, name |-> <<110>>, score |-> 0, strand |-> 43,
          thickStart |-> 0, thickEnd |-> 0, rgb |-> <<>>, blockSizes |-> <<1>>, blockStarts |-> <<1>>] : s \in {-3, 3}}
  \* sequence names that are words of other dialects' header lines ("track", "browser1"): to this reader plain names
  \cup {[chrom |-> ch, start |-> 3, end |-> 7, name |-> <<110>>, score |-> 0, strand |-> 43,
          thickStart |-> 3, thickEnd |-> 7, rgb |-> <<>>, blockSizes |-> <<1>>, blockStarts |-> <<1>>] :
           ch \in {<<116, 114, 97, 99, 107>>, <<98, 114, 111, 119, 115, 101, 114, 49>>}}

GffItems ==
  {[kind |-> "feature", seqname |-> <<115>>, source |-> <<46>>, feature |-> <<102>>, start |-> s, end |-> s + 5,
    score |-> sc, strand |-> st, frame |-> fr, attrs |-> at, comments |-> cm] :
     s \in {0, 9, -3}, sc \in {<<46>>, <<49, 46, 53>>, <<43, 73, 110, 102>>}, st \in {43, 46}, fr \in {46, 50},
     at \in {<<>>, <<<<<<116>>, <<118>>>>>>, <<<<<<116>>, <<>>>>, <<<<117, 95>>, <<120, 32, 121>>>>>>},
     cm \in {<<>>, <<99>>}}
  \* a single base: in the file the start and end columns are equal (one-based, closed)
  \cup {[kind |-> "feature", seqname |-> <<115>>, source |-> <<46>>, feature |-> <<102>>, start |-> s, end |-> s + 1,
          score |-> <<46>>, strand |-> 43, frame |-> 46, attrs |-> <<>>, comments |-> <<>>] : s \in {0, 6}}
  \cup {[kind |-> "region", name |-> <<114>>, start |-> s, end |-> s + 3] : s \in {0, 4}}
  \cup {[kind |-> "region", name |-> <<114>>, start |-> 2, end |-> 3]}
  \cup {[kind |-> "sequence", moltype |-> m, name |-> <<113>>, letters |-> l] : m \in {1, 3}, l \in Letters \ {<<>>}}

\* base items for GFF mutation runs: one of each kind
MutGff ==
  {[kind |-> "feature", seqname |-> <<115>>, source |-> <<46>>, feature |-> <<102>>, start |-> 9, end |-> 14,
    score |-> <<49, 46, 53>>, strand |-> 43, frame |-> 50, attrs |-> <<<<<<116>>, <<118>>>>>>, comments |-> <<99>>],
   [kind |-> "feature", seqname |-> <<115>>, source |-> <<46>>, feature |-> <<102>>, start |-> 0, end |-> 5,
    score |-> <<46>>, strand |-> 46, frame |-> 46, attrs |-> <<>>, comments |-> <<>>],
   [kind |-> "region", name |-> <<114>>, start |-> 4, end |-> 7],
   [kind |-> "sequence", moltype |-> 1, name |-> <<113>>, letters |-> <<65, 67>>]}

\* three arbitrary but fixed elements of S
Pick(S) ==
  LET a == CHOOSE x \in S : TRUE
      b == IF S \ {a} = {} THEN a ELSE CHOOSE x \in S \ {a} : TRUE
      c == IF S \ {a, b} = {} THEN a ELSE CHOOSE x \in S \ {a, b} : TRUE
  IN {a, b, c}

RECURSIVE ListsUpTo(_, _)
ListsUpTo(S, n) == IF n = 0 THEN {<<>>} ELSE ListsUpTo(S, n - 1) \cup {Append(l, x) : l \in ListsUpTo(S, n - 1), x \in S}

(***************************************************************************)
(* Writers and readers by format.  cfg: fasta [w], fastq [qid, offset],     *)
(* bed [m (type of the records), w (written width), r (reader type)],       *)
(* gff [w, header].                                                         *)
(***************************************************************************)
WriteFile(fmt, recs, cfg) ==
  CASE fmt = "fasta" -> FA!FastaFile(recs, cfg.w)
    [] fmt = "fastq" -> FQ!FastqFile(recs, cfg.qid, cfg.offset)
    [] fmt = "bed"   -> Flatten([i \in 1..Len(recs) |-> BD!BedBytes(recs[i], cfg.w)])
    [] fmt = "gff"   -> GF!GffFile(recs, cfg.w, cfg.header)

\* what reading back must give
Expected(fmt, recs, cfg) ==
  CASE fmt = "bed" -> [i \in 1..Len(recs) |-> BD!FirstColumns(recs[i], cfg.r)]
    [] OTHER -> recs

\* the reader specification: sequence of results, each a record/item, or [kind |-> "err"/"unspec"]
ReadFile(fmt, text, cfg) ==
  CASE fmt = "fasta" -> FA!FastaRead(text)
    [] fmt = "fastq" -> LET rs == FQ!FastqRead(text, cfg.offset) IN
                        [i \in 1..Len(rs) |-> IF "err" \in DOMAIN rs[i] THEN [kind |-> "err", why |-> rs[i].err] ELSE rs[i]]
    [] fmt = "bed"   -> LET rs == BD!BedRead(text, cfg.r) IN
                        [i \in 1..Len(rs) |-> IF rs[i].kind = "rec" THEN rs[i].rec ELSE rs[i]]
    [] fmt = "gff"   -> GF!GffRead(text)

Configs(fmt) ==
  CASE fmt = "fasta" -> {[w |-> w] : w \in 1..3}
    [] fmt = "fastq" -> {[qid |-> q, offset |-> o] : q \in BOOLEAN, o \in {33, 64}}
    [] fmt = "bed"   -> {[m |-> 12, w |-> w, r |-> r] : w \in BD!Widths, r \in BD!Widths}
    [] fmt = "gff"   -> {[w |-> w, header |-> h] : w \in {2, 60}, h \in BOOLEAN}
ConfigOK(fmt, c) == fmt = "bed" => c.r <= c.w

\* for mutation runs a few base records are enough: the mutations supply the variety
Few(S) == IF Mutate THEN Pick(S) ELSE S
RecLists(fmt) ==
  CASE fmt = "fasta" -> ListsUpTo(Few(FastaRecs), MaxRecs)
    [] fmt = "fastq" -> ListsUpTo(Few({r \in FastqRecs : FastqOK(r)}), MaxRecs)
    [] fmt = "bed"   -> ListsUpTo(Few(BedRecs), MaxRecs)
    [] fmt = "gff"   -> ListsUpTo(IF Mutate THEN MutGff ELSE GffItems, MaxRecs)

(***************************************************************************)
(* Layout transformations (C04)                                             *)
(***************************************************************************)
CRLF(t) == Flatten([i \in 1..Len(t) |-> IF t[i] = LF THEN <<CR, LF>> ELSE <<t[i]>>])
DropFinalLF(t) == IF t # <<>> /\ t[Len(t)] = LF THEN SubSeq(t, 1, Len(t) - 1) ELSE t
\* positions after which a line ends
LineEnds(t) == {i \in 1..Len(t) : t[i] = LF}
InsertAfter(t, i, s) == SubSeq(t, 1, i) \o s \o SubSeq(t, i + 1, Len(t))
\* a blank line after line end i (i = 0: at the start of the file)
BlankAfter(t, i) == InsertAfter(t, i, <<LF>>)
\* trailing white space before line end i
TrailAt(t, i) == InsertAfter(t, i - 1, <<SP, TAB>>)

\* where a blank line may go: anywhere in FASTA; between records only in FASTQ
FastqRecordEnds(t) ==   \* the text is canonical or crlf'd canonical: every 4th line end
  LET ends == LineEnds(t)
      Rank(i) == Cardinality({j \in ends : j <= i})
  IN {i \in ends : Rank(i) % 4 = 0}

LayoutSteps(fmt, t) ==
  (IF fmt \in {"fasta", "fastq"}
     THEN {TrailAt(t, i) : i \in LineEnds(t)}
          \cup (IF fmt = "fasta" THEN {BlankAfter(t, i) : i \in LineEnds(t) \cup {0}}
                ELSE {BlankAfter(t, i) : i \in FastqRecordEnds(t) \cup {0}})
     ELSE {})
  \cup {DropFinalLF(t)}

(***************************************************************************)
(* Damaging mutations (C03)                                                 *)
(***************************************************************************)
Truncations(t) == {SubSeq(t, 1, k) : k \in 0..(Len(t) - 1)}
\* replace, delete or duplicate one tab-separated field of one line
FieldEdits(t) ==
  LET ls == Lines(t) IN
  UNION {
    LET f == Split(ls[i], TAB)
        Put(g) == Flatten([k \in 1..Len(ls) |-> (IF k = i THEN JoinWith(g, <<TAB>>) ELSE ls[k]) \o <<LF>>])
    IN UNION {
         {Put([f EXCEPT ![c] = tok]) : tok \in {<<>>, <<48>>, <<120>>, <<45, 49>>, <<43>>, <<49, 44, 50>>, <<44>>,
                                                \* a word followed by a byte that is a blank as a Latin-1 rune only
                                                <<120, 160>>, <<133>>}}
         \cup {Put(SubSeq(f, 1, c - 1) \o SubSeq(f, c + 1, Len(f)))}
         \cup {Put(SubSeq(f, 1, c) \o SubSeq(f, c, Len(f)))}
       : c \in 1..Len(f)}
  : i \in 1..Len(ls)}
\* replace one blank-separated token of a directive line (##sequence-region name start end, ##DNA name, ...)
DirectiveEdits(t) ==
  LET ls == Lines(t) IN
  UNION {
    IF Len(ls[i]) >= 2 /\ ls[i][1] = 35 /\ ls[i][2] = 35 THEN
      LET f == Split(ls[i], SP)
          Put(g) == Flatten([k \in 1..Len(ls) |-> (IF k = i THEN JoinWith(g, <<SP>>) ELSE ls[k]) \o <<LF>>])
      IN UNION {{Put([f EXCEPT ![c] = tok]) : tok \in {<<>>, <<48>>, <<120>>, <<45, 49>>}} : c \in 1..Len(f)}
    ELSE {}
  : i \in 1..Len(ls)}
ByteEdits(t) ==
  {[t EXCEPT ![k] = b] : k \in 1..Len(t), b \in {LF, 43, 64, 62, 35, SP}}
  \cup {SubSeq(t, 1, k - 1) \o SubSeq(t, k + 1, Len(t)) : k \in 1..Len(t)}

MutationSteps(fmt, t) ==
  Truncations(t) \cup (IF fmt \in {"bed", "gff"} THEN FieldEdits(t) ELSE ByteEdits(t))
  \cup (IF fmt = "gff" THEN DirectiveEdits(t) ELSE {})

(***************************************************************************)
VARIABLES fmt, recs, cfg, text, steps, crlf
vars == <<fmt, recs, cfg, text, steps, crlf>>

Init ==
  /\ fmt \in Fmts
  /\ cfg \in {c \in Configs(fmt) : ConfigOK(fmt, c)}
  /\ recs \in RecLists(fmt)
  /\ text = WriteFile(fmt, recs, cfg)
  /\ steps = 0 /\ crlf = FALSE

Transform ==
  /\ steps < MaxSteps /\ ~crlf
  /\ text' \in (IF Mutate THEN MutationSteps(fmt, text) ELSE LayoutSteps(fmt, text))
  /\ text' # text
  /\ steps' = steps + 1
  /\ UNCHANGED <<fmt, recs, cfg, crlf>>

\* CRLF terminators, applied last (the other steps locate line ends by LF)
ToCRLF ==
  /\ ~Mutate /\ ~crlf /\ crlf' = TRUE
  \* ... with the last line's terminator complete, or cut after its CR ("omitting the final newline" read literally)
  /\ text' \in {CRLF(text), DropFinalLF(CRLF(text))}
  /\ UNCHANGED <<fmt, recs, cfg, steps>>

Next == Transform \/ ToCRLF
Spec == Init /\ [][Next]_vars

(***************************************************************************)
(* Properties                                                               *)
(***************************************************************************)
\* C01, C02 (steps = 0) and C04 (layout steps): the records read are the records written
RoundTrip == ~Mutate => ReadFile(fmt, text, cfg) = Expected(fmt, recs, cfg)

\* C03 at model level: the reader specification is defined on every mutated text and
\* returns, per call, a record or an error mark (evaluating it is the check), and the
\* number of calls is bounded by the number of lines
Total ==
  Mutate => LET rs == ReadFile(fmt, text, cfg) IN Len(rs) <= Len(Lines(text)) + 1

\* a text and what the specification says about it, for the real readers
EmitFiles ==
  Serialize(ToJson([fmt |-> fmt, cfg |-> cfg, valid |-> ~Mutate, text |-> text, steps |-> steps, crlf |-> crlf,
                    expect |-> IF Mutate THEN ReadFile(fmt, text, cfg) ELSE Expected(fmt, recs, cfg)]) \o "\n",
            IOEnv.OUT,
            [format |-> "TXT", charset |-> "UTF-8",
             openOptions |-> <<"WRITE", "CREATE", "APPEND">>]).exitValue = 0
=============================================================================
