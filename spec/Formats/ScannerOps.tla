----------------------------- MODULE ScannerOps -----------------------------
(***************************************************************************)
(* What seqio.Scanner / featio.Scanner make of a reader, as a function of   *)
(* the outcomes of the reader's successive Read calls (records or errors;   *)
(* io.EOF follows the last outcome).  Scanner.tla is the state machine;     *)
(* TLC checks there that the machine computes exactly this function.        *)
(***************************************************************************)
EXTENDS Naturals, Sequences
CONSTANT IsErr(_)

RECURSIVE Lead(_, _)
Lead(results, i) == IF i > Len(results) \/ IsErr(results[i]) THEN i - 1 ELSE Lead(results, i + 1)

\* the records yielded by Next()/Seq() or Next()/Feat(), and whether Error() is non-nil afterwards
ScanOutcome(results) ==
  LET n == Lead(results, 1) IN [yielded |-> SubSeq(results, 1, n), err |-> n < Len(results)]
=============================================================================
