SPECIFICATION Spec
CONSTANTS MaxLen = 4
  Items = {"a", "b", "E"}
  MaxCalls = 4
  KeepRows = FALSE
INVARIANTS NothingLost AsFunction ErrCount
CHECK_DEADLOCK FALSE
