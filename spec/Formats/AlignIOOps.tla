----------------------------- MODULE AlignIOOps -----------------------------
(* alignio.Reader as a function of the underlying reader's outcomes: what the first k Read calls return. *)
EXTENDS Naturals, Sequences
CONSTANT IsErr(_)

\* index of the last record before the first error at or after position i (Len(results) if there is none)
RECURSIVE Lead(_, _)
Lead(results, i) == IF i > Len(results) \/ IsErr(results[i]) THEN i - 1 ELSE Lead(results, i + 1)

RECURSIVE AlignReadsFrom(_, _, _, _)
AlignReadsFrom(results, pos, acc, k) ==
  IF k = 0 THEN <<>>
  ELSE LET n == Lead(results, pos + 1)
           rows == acc \o SubSeq(results, pos + 1, n) IN
       IF n = Len(results) THEN <<<<"multi", rows>>>> \o AlignReadsFrom(results, n, <<>>, k - 1)
       ELSE <<<<"err">>>> \o AlignReadsFrom(results, n + 1, rows, k - 1)
AlignReads(results, k) == AlignReadsFrom(results, 0, <<>>, k)
=============================================================================
