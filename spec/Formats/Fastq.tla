-------------------------------- MODULE Fastq -------------------------------
(***************************************************************************)
(* FASTQ: writer as a byte-exact function; reader as the four-state line    *)
(* classifier of fastq.Reader.Read (id1 -> letters -> id2 -> quality),      *)
(* which is what allows quality lines to start with '@' or '+'.             *)
(* A record is [name, desc, letters, quals]; quals are Phred scores, the    *)
(* encoding is given by its offset (33 or 64).                              *)
(***************************************************************************)
EXTENDS Text

AT == 64   PLUS == 43

HeaderBytes(prefix, rec) ==
  <<prefix>> \o rec.name \o (IF rec.desc = <<>> THEN <<>> ELSE <<SP>> \o rec.desc) \o <<LF>>

FastqBytes(rec, qid, offset) ==
  HeaderBytes(AT, rec) \o rec.letters \o <<LF>>
  \o (IF qid THEN HeaderBytes(PLUS, rec) ELSE <<PLUS, LF>>)
  \o [i \in 1..Len(rec.quals) |-> rec.quals[i] + offset] \o <<LF>>

FastqFile(recs, qid, offset) == Flatten([i \in 1..Len(recs) |-> FastqBytes(recs[i], qid, offset)])

Blank == {SP, TAB}
Header(line) ==
  LET body == Tail(line)
      m == IndexIn(body, Blank)
  IN IF m = 0 THEN [name |-> body, desc |-> <<>>]
     ELSE [name |-> SubSeq(body, 1, m - 1), desc |-> SubSeq(body, m + 1, Len(body))]

IsID1(l) == l # <<>> /\ l[1] = AT
IsID2(l) == l # <<>> /\ l[1] = PLUS

(***************************************************************************)
(* One call of Read starting at line i of ls.  Result:                      *)
(*   [kind |-> "rec", rec, next] | [kind |-> "err", why, next] | [kind |-> "eof"] *)
(* st: 1 id1, 2 letters, 3 id2, 4 quality.                                  *)
(***************************************************************************)
Finish(hdr, letters, qline, offset, next) ==
  LET q == NoSpace(qline) IN
  IF Len(q) # Len(letters) THEN [kind |-> "err", why |-> "length", next |-> next]
  ELSE [kind |-> "rec", next |-> next,
        rec |-> [name |-> hdr.name, desc |-> hdr.desc, letters |-> letters,
                 quals |-> [k \in 1..Len(q) |-> (q[k] - offset) % 256]]]   \* Qphred is a byte

RECURSIVE ReadFrom(_, _, _, _, _, _, _)
ReadFrom(ls, i, st, hdr, label, letters, offset) ==
  IF i > Len(ls) THEN
    \* io.EOF: a record whose quality line is missing at the end of input still ends here
    IF st = 4 THEN Finish(hdr, letters, <<>>, offset, i) ELSE [kind |-> "eof"]
  ELSE LET line == TrimSpace(ls[i]) IN
    CASE st = 1 /\ IsID1(line) -> ReadFrom(ls, i + 1, 2, Header(line), line, letters, offset)
      [] st = 3 /\ IsID2(line) ->
           IF Len(line) # 1 /\ Tail(label) # Tail(line)
             THEN [kind |-> "err", why |-> "plusline", next |-> i + 1]
             ELSE ReadFrom(ls, i + 1, 4, hdr, label, letters, offset)
      [] st = 2 /\ line # <<>> ->
           IF IsID2(line) /\ (Len(line) = 1 \/ Tail(label) = Tail(line))
             THEN ReadFrom(ls, i + 1, 4, hdr, label, letters, offset)     \* empty sequence
             ELSE ReadFrom(ls, i + 1, 3, hdr, label, NoSpaceLatin1(line), offset)
      [] st = 4 ->
           IF line = <<>> /\ letters # <<>> THEN ReadFrom(ls, i + 1, 4, hdr, label, letters, offset)
           ELSE Finish(hdr, letters, line, offset, i + 1)
      [] OTHER -> ReadFrom(ls, i + 1, st, hdr, label, letters, offset)     \* line ignored

ReadOne(ls, i, offset) == ReadFrom(ls, i, 1, [name |-> <<>>, desc |-> <<>>], <<>>, <<>>, offset)

\* all results of repeated Read until EOF: records and "err" marks
RECURSIVE ReadAllFrom(_, _, _, _)
ReadAllFrom(ls, i, offset, acc) ==
  LET r == ReadOne(ls, i, offset) IN
  IF r.kind = "eof" THEN acc
  ELSE IF r.kind = "rec" THEN ReadAllFrom(ls, r.next, offset, Append(acc, r.rec))
  ELSE ReadAllFrom(ls, r.next, offset, Append(acc, [err |-> r.why]))

FastqRead(t, offset) == ReadAllFrom(Lines(t), 1, offset, <<>>)
=============================================================================
