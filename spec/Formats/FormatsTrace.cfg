SPECIFICATION TSpec
CONSTANTS
  DropUnterminated = FALSE
  Fmts = {}
  MaxRecs = 0
  MaxLetters = 0
  MaxSteps = 0
  Mutate = FALSE
INVARIANT Emit
POSTCONDITION Consumed
CHECK_DEADLOCK FALSE
