------------------------------- MODULE Scanner -------------------------------
(***************************************************************************)
(* seqio.Scanner and featio.Scanner (identical code): Next() reads one      *)
(* item unless an error (EOF included) has been stored, stores the error,   *)
(* and answers whether there was none; Error() hides io.EOF.                *)
(*                                                                          *)
(* Results: outcomes of the underlying Read calls ("E" an error, anything   *)
(* else a record), chosen in Init from all sequences up to MaxLen.          *)
(***************************************************************************)
EXTENDS Naturals, Sequences, FiniteSets, TLC
CONSTANTS MaxLen, Items, StickyNext
IsErrItem(x) == x = "E"
INSTANCE ScannerOps WITH IsErr <- IsErrItem

VARIABLES results,   \* what the reader will return, call by call
          pos,       \* Read calls made so far
          err,       \* "none", "eof", "err": the stored error
          cur,       \* what Seq()/Feat() returns
          out,       \* the items a `for sc.Next() { use(sc.Seq()) }` loop has used
          falses     \* how many times Next has answered false
vars == <<results, pos, err, cur, out, falses>>

RECURSIVE SeqsUpTo(_)
SeqsUpTo(n) == IF n = 0 THEN {<<>>} ELSE LET S == SeqsUpTo(n - 1) IN S \cup {Append(s, x) : s \in {t \in S : Len(t) = n - 1}, x \in Items}

Init == results \in SeqsUpTo(MaxLen) /\ pos = 0 /\ err = "none" /\ cur = "nil" /\ out = <<>> /\ falses = 0

\* Next() with no stored error: one Read call
NextReads ==
  /\ err = "none"
  /\ pos' = pos + 1
  /\ IF pos = Len(results)
       THEN err' = "eof" /\ cur' = "nil" /\ out' = out /\ falses' = falses + 1
       ELSE IF IsErrItem(results[pos + 1])
              THEN err' = "err" /\ cur' = "nil" /\ out' = out /\ falses' = falses + 1
              ELSE err' = "none" /\ cur' = results[pos + 1] /\ out' = Append(out, results[pos + 1]) /\ falses' = falses
  /\ UNCHANGED results

\* Next() with a stored error: answers false without touching the reader.
\* StickyNext = FALSE is the negative control: a Scanner that forgets the stored error and reads on.
NextStopped ==
  /\ err # "none" /\ falses < 3
  /\ IF StickyNext \/ pos >= Len(results) THEN UNCHANGED <<pos, err, cur, out>> /\ falses' = falses + 1
     ELSE /\ pos' = pos + 1
          /\ IF IsErrItem(results[pos + 1]) THEN UNCHANGED <<err, cur, out>> /\ falses' = falses + 1
             ELSE err' = "none" /\ cur' = results[pos + 1] /\ out' = Append(out, results[pos + 1]) /\ falses' = falses
  /\ UNCHANGED results

Next == NextReads \/ NextStopped
Spec == Init /\ [][Next]_vars

ErrorIsNil == err \in {"none", "eof"}

TypeOK == pos \in 0..(MaxLen + 1) /\ err \in {"none", "eof", "err"} /\ falses \in 0..3

\* the loop has used exactly the leading records, in order, and nothing after the first error
PrefixOnly == out = SubSeq(results, 1, Len(out)) /\ \A i \in 1..Len(out) : ~IsErrItem(out[i])
\* once Next has answered false the outcome is the function of ScannerOps
Outcome == falses > 0 => LET o == ScanOutcome(results) IN out = o.yielded /\ (~ErrorIsNil) = o.err
\* no Read call after the first error or EOF
NoReadAfterStop == falses > 0 => pos = Len(out) + 1
Sticky == [][falses > 0 => (out' = out /\ err' = err /\ pos' = pos)]_vars
=============================================================================
