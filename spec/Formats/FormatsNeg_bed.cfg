SPECIFICATION Spec
CONSTANTS
  DropUnterminated = TRUE
  Fmts = {"bed"}
  MaxRecs = 1
  MaxLetters = 2
  MaxSteps = 1
  Mutate = FALSE
INVARIANTS RoundTrip Total
CHECK_DEADLOCK FALSE
