-------------------------------- MODULE Fasta -------------------------------
(***************************************************************************)
(* FASTA: the writer as a byte-exact function of a record and the line      *)
(* width, the reader as a state machine over lines (fasta.Reader.Read).     *)
(* A record is [name, desc, letters] (byte sequences).                      *)
(***************************************************************************)
EXTENDS Text

GT == 62

\* fasta.Writer.Write: ">" name [" " desc] then LF before every Width letters, final LF
RECURSIVE Wrapped(_, _, _)
Wrapped(letters, w, prefix) ==
  IF letters = <<>> THEN <<>>
  ELSE IF Len(letters) <= w THEN <<LF>> \o prefix \o letters
  ELSE <<LF>> \o prefix \o SubSeq(letters, 1, w) \o Wrapped(SubSeq(letters, w + 1, Len(letters)), w, prefix)

FastaBytesP(rec, w, idPrefix, seqPrefix) ==
  idPrefix \o rec.name \o (IF rec.desc = <<>> THEN <<>> ELSE <<SP>> \o rec.desc)
  \o Wrapped(rec.letters, w, seqPrefix) \o <<LF>>
FastaBytes(rec, w) == FastaBytesP(rec, w, <<GT>>, <<>>)

FastaFile(recs, w) == Flatten([i \in 1..Len(recs) |-> FastaBytes(recs[i], w)])

(***************************************************************************)
(* Reader.  State: the record being assembled (or none).  One step per      *)
(* physical line; a line is first stripped of surrounding white space       *)
(* (which also removes the CR of a CRLF terminator).                        *)
(***************************************************************************)
Blank == {SP, TAB}

Header(line) ==  \* line starts with '>'
  LET body == Tail(line)
      m == IndexIn(body, Blank)
  IN IF m = 0 THEN [name |-> body, desc |-> <<>>, letters |-> <<>>]
     ELSE [name |-> SubSeq(body, 1, m - 1), desc |-> SubSeq(body, m + 1, Len(body)), letters |-> <<>>]

\* Results of calling Read until io.EOF: records, and [kind |-> "err"] for every call that
\* met sequence data with no header before it (the reader reports it and carries on).
RECURSIVE FastaFrom(_, _, _, _)
FastaFrom(ls, i, working, acc) ==
  IF i > Len(ls) THEN (IF working = <<>> THEN acc ELSE Append(acc, working[1]))
  ELSE LET line == TrimSpace(ls[i]) IN
    IF line = <<>> THEN FastaFrom(ls, i + 1, working, acc)
    ELSE IF line[1] = GT
      THEN FastaFrom(ls, i + 1, <<Header(line)>>, IF working = <<>> THEN acc ELSE Append(acc, working[1]))
    ELSE IF working = <<>> THEN FastaFrom(ls, i + 1, <<>>, Append(acc, [kind |-> "err", why |-> "junk"]))
    ELSE FastaFrom(ls, i + 1, <<[working[1] EXCEPT !.letters = @ \o NoSpace(line)]>>, acc)

FastaRead(t) == FastaFrom(Lines(t), 1, <<>>, <<>>)
=============================================================================
