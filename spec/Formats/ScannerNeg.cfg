SPECIFICATION Spec
CONSTANTS MaxLen = 4
  Items = {"a", "b", "E"}
  StickyNext = FALSE
INVARIANTS TypeOK PrefixOnly Outcome NoReadAfterStop
PROPERTY Sticky
CHECK_DEADLOCK FALSE
