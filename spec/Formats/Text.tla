-------------------------------- MODULE Text --------------------------------
(***************************************************************************)
(* Text as sequences of bytes (integers 0..255): lines, white space,        *)
(* fields, decimal numerals.  Shared by the file-format specifications.     *)
(***************************************************************************)
EXTENDS Integers, Sequences, FiniteSets

\* TRUE models readers that lose a final line with no terminator (bed/gff as found): negative control
CONSTANT DropUnterminated

TAB == 9   LF == 10  CR == 13  SP == 32
\* what bytes.TrimSpace / bytes.Fields treat as white space in ASCII input
IsSpace(b) == b \in {9, 10, 11, 12, 13, 32}

RECURSIVE Flatten(_)
Flatten(ss) == IF ss = <<>> THEN <<>> ELSE Head(ss) \o Flatten(Tail(ss))

\* Lines(t): split at LF, the terminators removed; a final unterminated line is kept,
\* an empty text has no lines.  (Iterative accumulation: linear in Len(t).)
RECURSIVE LinesFrom(_, _, _, _)
LinesFrom(t, i, cur, acc) ==
  IF i > Len(t) THEN (IF cur = <<>> \/ DropUnterminated THEN acc ELSE Append(acc, cur))
  ELSE IF t[i] = LF THEN LinesFrom(t, i + 1, <<>>, Append(acc, cur))
  ELSE LinesFrom(t, i + 1, Append(cur, t[i]), acc)
Lines(t) == LinesFrom(t, 1, <<>>, <<>>)

\* does the text end in the middle of a line?
Unterminated(t) == t # <<>> /\ t[Len(t)] # LF

RECURSIVE DropLeft(_)
DropLeft(s) == IF s # <<>> /\ IsSpace(Head(s)) THEN DropLeft(Tail(s)) ELSE s
RECURSIVE DropRight(_)
DropRight(s) == IF s # <<>> /\ IsSpace(s[Len(s)]) THEN DropRight(SubSeq(s, 1, Len(s) - 1)) ELSE s
TrimSpace(s) == DropRight(DropLeft(s))

NoSpace(s) == SelectSeq(s, LAMBDA b : ~IsSpace(b))      \* bytes.Join(bytes.Fields(s), nil)
\* the FASTQ reader's own isSpace for sequence letters also drops the Latin-1 blanks 0x85 and 0xA0
NoSpaceLatin1(s) == SelectSeq(s, LAMBDA b : ~(IsSpace(b) \/ b \in {133, 160}))

\* index of the first element that belongs to the set S, or 0
RECURSIVE IndexFrom(_, _, _)
IndexFrom(s, i, S) == IF i > Len(s) THEN 0 ELSE IF s[i] \in S THEN i ELSE IndexFrom(s, i + 1, S)
IndexIn(s, S) == IndexFrom(s, 1, S)

HasPrefix(s, p) == Len(s) >= Len(p) /\ SubSeq(s, 1, Len(p)) = p

\* Split(s, sep): bytes.Split on a single byte
RECURSIVE SplitFrom(_, _, _, _, _)
SplitFrom(s, sep, i, cur, acc) ==
  IF i > Len(s) THEN Append(acc, cur)
  ELSE IF s[i] = sep THEN SplitFrom(s, sep, i + 1, <<>>, Append(acc, cur))
  ELSE SplitFrom(s, sep, i + 1, Append(cur, s[i]), acc)
Split(s, sep) == SplitFrom(s, sep, 1, <<>>, <<>>)

\* SplitN(s, sep, n): at most n parts, the last holding the unsplit rest
RECURSIVE SplitNFrom(_, _, _, _, _, _)
SplitNFrom(s, sep, n, i, cur, acc) ==
  IF i > Len(s) THEN Append(acc, cur)
  ELSE IF s[i] = sep /\ Len(acc) < n - 1 THEN SplitNFrom(s, sep, n, i + 1, <<>>, Append(acc, cur))
  ELSE SplitNFrom(s, sep, n, i + 1, Append(cur, s[i]), acc)
SplitN(s, sep, n) == SplitNFrom(s, sep, n, 1, <<>>, <<>>)

RECURSIVE JoinWith(_, _)
JoinWith(ss, sep) ==
  IF ss = <<>> THEN <<>> ELSE IF Len(ss) = 1 THEN ss[1] ELSE ss[1] \o sep \o JoinWith(Tail(ss), sep)

(***************************************************************************)
(* Decimal numerals as fmt's %d writes them.                                *)
(***************************************************************************)
RECURSIVE DecNat(_)
DecNat(n) == IF n < 10 THEN <<48 + n>> ELSE Append(DecNat(n \div 10), 48 + (n % 10))
Dec(n) == IF n < 0 THEN <<45>> \o DecNat(-n) ELSE DecNat(n)

IsDigit(b) == b \in 48..57
\* canonical numerals only: optional '-', no leading zeros; anything else is "not canonical"
IsCanonDec(s) ==
  LET d == IF s # <<>> /\ s[1] = 45 THEN Tail(s) ELSE s IN
  /\ d # <<>> /\ Len(d) <= 9 /\ \A i \in 1..Len(d) : IsDigit(d[i])       \* TLC integers are 32 bit
  /\ (Len(d) > 1 => d[1] # 48)
  /\ ~(s[1] = 45 /\ d = <<48>>)
RECURSIVE NatOf(_)
NatOf(d) == IF d = <<>> THEN 0 ELSE 10 * NatOf(SubSeq(d, 1, Len(d) - 1)) + (d[Len(d)] - 48)
IntOf(s) == IF s[1] = 45 THEN -NatOf(Tail(s)) ELSE NatOf(s)
=============================================================================
