------------------------------- MODULE AlignIO -------------------------------
(***************************************************************************)
(* io/seqio/alignio.Reader over a seqio.Reader: Read() adds sequences to    *)
(* the Multi it holds until the underlying reader reports io.EOF, then      *)
(* hands that Multi out and continues with an empty copy; on any other      *)
(* error it returns the error at once and KEEPS the rows added so far, so   *)
(* a later Read continues to fill the same Multi.                           *)
(*                                                                          *)
(* results: outcomes of the underlying Read calls ("E" an error, anything   *)
(* else a record; io.EOF follows the last and is repeated for ever).        *)
(***************************************************************************)
EXTENDS Naturals, Sequences, FiniteSets, TLC
CONSTANTS MaxLen, Items, MaxCalls, KeepRows
IsErrItem(x) == x = "E"
INSTANCE AlignIOOps WITH IsErr <- IsErrItem

VARIABLES results, pos, acc, returned   \* returned: what each Read call gave: <<"err">> or <<"multi", rows>>
vars == <<results, pos, acc, returned>>

RECURSIVE SeqsUpTo(_)
SeqsUpTo(n) == IF n = 0 THEN {<<>>} ELSE LET S == SeqsUpTo(n - 1) IN S \cup {Append(s, x) : s \in {t \in S : Len(t) = n - 1}, x \in Items}

Init == results \in SeqsUpTo(MaxLen) /\ pos = 0 /\ acc = <<>> /\ returned = <<>>

\* one underlying Read inside alignio's loop is not observable from outside: Read is one action
Read ==
  /\ Len(returned) < MaxCalls
  /\ LET n == Lead(results, pos + 1) IN     \* index of the last record before the next error / the end
     IF n = Len(results)
       THEN \* io.EOF: hand the Multi out, go on with an empty one
            /\ returned' = Append(returned, <<"multi", acc \o SubSeq(results, pos + 1, n)>>)
            /\ acc' = <<>> /\ pos' = n
       ELSE \* an error after n - pos more records: they stay in the Multi (KeepRows = FALSE: negative control)
            /\ returned' = Append(returned, <<"err">>)
            /\ acc' = IF KeepRows THEN acc \o SubSeq(results, pos + 1, n) ELSE <<>>
            /\ pos' = n + 1
  /\ UNCHANGED results
Next == Read
Spec == Init /\ [][Next]_vars

RECURSIVE Flatten(_, _)
Flatten(rs, k) == IF k > Len(rs) THEN <<>> ELSE (IF rs[k][1] = "multi" THEN rs[k][2] ELSE <<>>) \o Flatten(rs, k + 1)
Records(s) == SelectSeq(s, LAMBDA x : ~IsErrItem(x))

\* no record read from the file is lost or duplicated: handed out already, or still in the Multi
NothingLost == Flatten(returned, 1) \o acc = Records(SubSeq(results, 1, pos))
\* the state machine computes the function the trace specification uses
AsFunction == returned = AlignReads(results, Len(returned))
\* one error per failed call, and a Multi only at io.EOF
ErrCount == Cardinality({k \in 1..Len(returned) : returned[k][1] = "err"}) = Cardinality({i \in 1..pos : IsErrItem(results[i])})
=============================================================================
