SPECIFICATION Spec
CONSTANTS
  Width = 3
  Limit = 7
  Cap <- None
  MaxChunk = 4
  MaxCalls = 4
INVARIANTS PayloadIsPrefix LinesWrapped CounterIsPayload AllThrough LimitRespected
CHECK_DEADLOCK FALSE
