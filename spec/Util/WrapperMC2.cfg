SPECIFICATION Spec
CONSTANTS
  Width = 2
  Limit <- None
  Cap = 6
  MaxChunk = 4
  MaxCalls = 4
INVARIANTS PayloadIsPrefix LinesWrapped CounterIsPayload AllThrough LimitRespected
CHECK_DEADLOCK FALSE
