------------------------------ MODULE Wrapper ------------------------------
(***************************************************************************)
(* Extension beyond the listed properties: util.Wrapper, an io.Writer that  *)
(* breaks the bytes written through it into lines of Width bytes and stops  *)
(* after Limit bytes.  One Write call is one action; the state is what the  *)
(* code keeps (n, the payload bytes passed on so far) plus what the         *)
(* underlying writer has received (out) and how much more it will take      *)
(* before failing (rem; -1: never fails).                                   *)
(*                                                                          *)
(* The specification follows the code, deviations from the documentation    *)
(* included; they are named and refuted as negative controls:               *)
(*   - the count returned includes the line feeds inserted, so it can       *)
(*     exceed len(p) although the comment promises 0 <= n <= len(p);        *)
(*   - with Width <= 0 the bytes passed on are not counted, so Limit bounds *)
(*     each call by itself and not the stream.                              *)
(***************************************************************************)
EXTENDS Integers, Sequences, TLC, Json, IOUtils

CONSTANTS Width, Limit, Cap, MaxChunk, MaxCalls

LF == 10
None == -1        \* for configurations: no limit / an underlying writer that never fails
Min2(a, b) == IF a < b THEN a ELSE b
Take(s, k) == SubSeq(s, 1, k)
Drop(s, k) == SubSeq(s, k + 1, Len(s))

\* the underlying writer takes what fits and reports an error when not everything did
Under(st, bytes) ==
  LET k == IF st.rem < 0 THEN Len(bytes) ELSE Min2(st.rem, Len(bytes)) IN
  [st |-> [st EXCEPT !.out = @ \o Take(bytes, k), !.rem = IF @ < 0 THEN @ ELSE @ - k],
   k |-> k, err |-> k < Len(bytes)]

RECURSIVE Loop(_, _, _, _)
Loop(width, st, q, acc) ==
  IF q = <<>> THEN [st |-> st, ret |-> acc, err |-> FALSE]
  ELSE
    LET nl == st.n # 0 /\ st.n % width = 0
        u1 == IF nl THEN Under(st, <<LF>>) ELSE [st |-> st, k |-> 0, err |-> FALSE]
    IN IF u1.err THEN [st |-> u1.st, ret |-> acc + u1.k, err |-> TRUE]
       ELSE LET c == Min2(width - (u1.st.n % width), Len(q))
                u2 == Under(u1.st, Take(q, c))
                st2 == [u2.st EXCEPT !.n = @ + u2.k]
                acc2 == acc + u1.k + u2.k
            IN IF u2.err THEN [st |-> st2, ret |-> acc2, err |-> TRUE]
               ELSE Loop(width, st2, Drop(q, u2.k), acc2)

\* one call of Write(p) in state st
WriteCall(width, limit, st, p) ==
  IF limit >= 0 /\ st.n >= limit THEN [st |-> st, ret |-> 0, err |-> FALSE]
  ELSE LET q == IF limit >= 0 THEN Take(p, Min2(limit - st.n, Len(p))) ELSE p IN
       IF width <= 0
       THEN LET u == Under(st, q) IN [st |-> u.st, ret |-> u.k, err |-> u.err]     \* as found: n is not advanced
       ELSE Loop(width, st, q, 0)

\* a whole history of calls: the final state and what each call returned
RECURSIVE Run(_, _, _, _, _)
Run(width, limit, st, calls, rets) ==
  IF calls = <<>> THEN [st |-> st, rets |-> rets]
  ELSE LET r == WriteCall(width, limit, st, Head(calls)) IN
       Run(width, limit, r.st, Tail(calls), Append(rets, [ret |-> r.ret, err |-> r.err]))

Fresh(cap) == [n |-> 0, out |-> <<>>, rem |-> cap]

-----------------------------------------------------------------------------
VARIABLES st, given, calls, lastret, lastlen, failed
vars == <<st, given, calls, lastret, lastlen, failed>>

\* payload bytes are distinguishable letters, never a line feed
Payload(from, k) == [i \in 1..k |-> 97 + ((from + i - 1) % 26)]

Init == st = Fresh(Cap) /\ given = <<>> /\ calls = 0 /\ lastret = 0 /\ lastlen = 0 /\ failed = FALSE
Write(k) ==
  /\ calls < MaxCalls
  /\ LET p == Payload(Len(given), k)
         r == WriteCall(Width, Limit, st, p) IN
     /\ st' = r.st
     /\ given' = given \o p
     /\ lastret' = r.ret /\ lastlen' = k
     /\ failed' = (failed \/ r.err)
  /\ calls' = calls + 1
Next == \E k \in 0..MaxChunk : Write(k)
Spec == Init /\ [][Next]_vars

NoLF(s) == SelectSeq(s, LAMBDA b : b # LF)
RECURSIVE LinesOf(_)
LinesOf(s) ==
  IF s = <<>> THEN <<>>
  ELSE LET i == IF \E j \in 1..Len(s) : s[j] = LF THEN CHOOSE j \in 1..Len(s) : s[j] = LF /\ \A h \in 1..(j - 1) : s[h] # LF ELSE 0
       IN IF i = 0 THEN <<s>> ELSE <<Take(s, i - 1)>> \o LinesOf(Drop(s, i))
IsPrefix(a, b) == Len(a) <= Len(b) /\ Take(b, Len(a)) = a

\* what passes through is a prefix of what was given, in order, nothing invented
PayloadIsPrefix == IsPrefix(NoLF(st.out), given)
\* with a positive width: every line but the last is exactly Width long, the last one is not longer, and no
\* line is empty (no line feed is written before there is something to put after it - unless the writer failed)
LinesWrapped ==
  (Width > 0 /\ ~failed) =>
    LET ls == LinesOf(st.out) IN
    \A i \in 1..Len(ls) : (i < Len(ls) => Len(ls[i]) = Width) /\ Len(ls[i]) <= Width /\ Len(ls[i]) > 0
\* the code's counter is the payload passed on
CounterIsPayload == Width > 0 => st.n = Len(NoLF(st.out))
\* nothing is lost short of the limit while the underlying writer accepts everything
AllThrough == (Width > 0 /\ ~failed /\ Limit < 0) => NoLF(st.out) = given
LimitRespected == Limit >= 0 => Len(NoLF(st.out)) <= Limit
\* as documented: "the number of bytes written from p (0 <= n <= len(p))" - refuted (negative control):
\* the count includes inserted line feeds
DocCount == lastret <= lastlen
\* what the code returns instead: payload passed on by this call plus line feeds inserted by it
=============================================================================
