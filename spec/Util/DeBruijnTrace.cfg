SPECIFICATION TSpec
CONSTANTS
  MaxK = 2
  MaxN = 1
INVARIANT Emit
POSTCONDITION Consumed
CHECK_DEADLOCK FALSE
