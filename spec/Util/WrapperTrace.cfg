SPECIFICATION TSpec
CONSTANTS
  Width = 1
  Limit = 1
  Cap = 1
  MaxChunk = 1
  MaxCalls = 1
INVARIANT Emit
POSTCONDITION Consumed
CHECK_DEADLOCK FALSE
