SPECIFICATION Spec
CONSTANTS
  MaxK = 4
  MaxN = 4
INVARIANT GenIsDeBruijn
CHECK_DEADLOCK FALSE
