----------------------------- MODULE DeBruijnTrace -----------------------------
(* Outputs of the real util.DeBruijn judged against DeBruijn.tla (extension: drift only). *)
EXTENDS DeBruijn
Trace == ndJsonDeserialize(IOEnv.TRACE)
VARIABLES l, drift
Agrees(e) == e.panic = "" /\ e.s = Gen(e.k, e.n) /\ (e.k >= 2 => IsDeBruijn(e.s, e.k, e.n))
TStep == /\ l <= Len(Trace) /\ l' = l + 1
         /\ drift' = IF Agrees(Trace[l]) THEN drift ELSE Append(drift, l)
         /\ UNCHANGED <<k, n>>
TInit == l = 1 /\ drift = <<>> /\ k = 2 /\ n = 1
TSpec == TInit /\ [][TStep]_<<l, drift, k, n>>
Emit ==
  (l = Len(Trace) + 1) =>
    Serialize(ToJson([events |-> Len(Trace), fails |-> <<>>, drift |-> drift]), IOEnv.OUT,
              [format |-> "TXT", charset |-> "UTF-8",
               openOptions |-> <<"WRITE", "CREATE", "TRUNCATE_EXISTING">>]).exitValue = 0
Consumed == TLCGet("stats").diameter - 1 = Len(Trace)
=============================================================================
