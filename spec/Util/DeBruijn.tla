------------------------------- MODULE DeBruijn -------------------------------
(***************************************************************************)
(* util.DeBruijn(k, n) (beyond the listed properties): a sequence over the  *)
(* letters 0..k-1 of length k^n in which, read cyclically, every word of    *)
(* length n occurs exactly once.  The code generates it by concatenating    *)
(* the Lyndon words whose length divides n in lexicographic order (the      *)
(* Fredricksen-Kessler-Maiorana construction, written as a recursion on a   *)
(* scratch array); Gen transcribes that recursion, IsDeBruijn is the        *)
(* definition.  TLC checks Gen against the definition for all small (k, n); *)
(* the trace side compares the real function's output with both.            *)
(***************************************************************************)
EXTENDS Integers, Sequences, FiniteSets, TLC, Json, IOUtils
CONSTANTS MaxK, MaxN

RECURSIVE Pow(_, _)
Pow(b, e) == IF e = 0 THEN 1 ELSE b * Pow(b, e - 1)

\* the word of length n starting at cyclic position i (1-based) of s
WordAt(s, i, n) == [j \in 1..n |-> s[((i - 1 + j - 1) % Len(s)) + 1]]
IsDeBruijn(s, k, n) ==
  /\ Len(s) = Pow(k, n)
  /\ \A i \in 1..Len(s) : s[i] \in 0..(k - 1)
  /\ \A i, j \in 1..Len(s) : WordAt(s, i, n) = WordAt(s, j, n) => i = j

\* db(t, p) of the code: a is the scratch array (index 0..k*n-1 kept as a function), acc the output so far;
\* returns [a, acc]
RECURSIVE Db(_, _, _, _, _, _)
RECURSIVE DbLoop(_, _, _, _, _, _, _)
Db(k, n, t, p, a, acc) ==
  IF t > n THEN
    [a |-> a, acc |-> IF n % p = 0 THEN acc \o [j \in 1..p |-> a[j]] ELSE acc]
  ELSE
    LET a1 == [a EXCEPT ![t] = a[t - p]]
        r1 == Db(k, n, t + 1, p, a1, acc)
    IN DbLoop(k, n, t, p, r1.a, r1.acc, a1[t - p] + 1)
\* for j := a[t-p]+1; j < k; j++ { a[t] = j; db(t+1, t) }   (a[t-p] is read once, before the loop)
DbLoop(k, n, t, p, a, acc, j) ==
  IF j >= k THEN [a |-> a, acc |-> acc]
  ELSE LET r == Db(k, n, t + 1, t, [a EXCEPT ![t] = j], acc) IN DbLoop(k, n, t, p, r.a, r.acc, j + 1)

Gen(k, n) ==
  IF k = 0 THEN <<>>
  ELSE IF k = 1 THEN [i \in 1..n |-> 0]      \* as the code: n zeros (not one) for a one-letter alphabet
  ELSE Db(k, n, 1, 1, [i \in 0..(k * n) |-> 0], <<>>).acc

VARIABLES k, n
Init == k \in 2..MaxK /\ n \in 1..MaxN
Next == UNCHANGED <<k, n>>
Spec == Init /\ [][Next]_<<k, n>>
GenIsDeBruijn == IsDeBruijn(Gen(k, n), k, n)

=============================================================================
