SPECIFICATION Spec
CONSTANTS
  Width = 0
  Limit = 3
  Cap <- None
  MaxChunk = 4
  MaxCalls = 4
INVARIANTS LimitRespected
CHECK_DEADLOCK FALSE
