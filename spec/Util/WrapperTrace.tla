----------------------------- MODULE WrapperTrace -----------------------------
(* Histories of Write calls made on the real util.Wrapper, judged against Wrapper.tla (extension: drift only). *)
EXTENDS Wrapper
Trace == ndJsonDeserialize(IOEnv.TRACE)
VARIABLES l, drift
Agrees(e) ==
  LET r == Run(e.width, e.limit, Fresh(e.cap), e.calls, <<>>) IN
  /\ e.panic = ""
  /\ r.st.out = e.out
  /\ Len(r.rets) = Len(e.rets)
  /\ \A i \in 1..Len(e.rets) : r.rets[i].ret = e.rets[i].ret /\ r.rets[i].err = e.rets[i].err
TStep == /\ l <= Len(Trace) /\ l' = l + 1
         /\ drift' = IF Agrees(Trace[l]) THEN drift ELSE Append(drift, l)
         /\ UNCHANGED vars
TInit == l = 1 /\ drift = <<>> /\ Init
TSpec == TInit /\ [][TStep]_<<l, drift, vars>>
Emit ==
  (l = Len(Trace) + 1) =>
    Serialize(ToJson([events |-> Len(Trace), fails |-> <<>>, drift |-> drift]), IOEnv.OUT,
              [format |-> "TXT", charset |-> "UTF-8",
               openOptions |-> <<"WRITE", "CREATE", "TRUNCATE_EXISTING">>]).exitValue = 0
Consumed == TLCGet("stats").diameter - 1 = Len(Trace)
=============================================================================
