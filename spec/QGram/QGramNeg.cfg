SPECIFICATION Spec
CONSTANTS
  TailRetire = FALSE
  MaxLen = 5
  MaxLenQ = 10
  Ks = {2}
  Ns = {4, 5}
  Es = {0, 1}
  Offs = {1, 2, 3, 4, 5, 6}
INVARIANT NoFalseNegatives
CHECK_DEADLOCK FALSE
