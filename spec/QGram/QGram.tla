-------------------------------- MODULE QGram --------------------------------
(***************************************************************************)
(* The PALS q-gram filter (property C14), Rasmussen, Stoye & Myers 2006.    *)
(*                                                                          *)
(* Declarative side.  An epsilon-match of target T and query Q is a pair of *)
(* length-n windows T[t0, t0+n), Q[q0, q0+n) differing in at most e         *)
(* positions.  A filter hit [from, to, diag] covers it when the diagonal    *)
(* q0 - t0 lies in the hit's band [-diag, -diag + offset + e - 1] and the   *)
(* hit's query interval [from, to) overlaps [q0, q0 + n).                   *)
(*                                                                          *)
(* Operational side.  The tube machine of filter.go, step for step: for     *)
(* every query position q with a k-mer, every target occurrence t of that   *)
(* k-mer (ascending) is a commonKmer(t, q) event that counts into the tube  *)
(* of its diagonal (and the overlapping previous tube); a ticker retires    *)
(* one tube every `offset' query positions; at the end one more tube is     *)
(* retired and a range of tubes flushed.  Sequences are over letters 1..4   *)
(* (no invalid letters: the property is stated over A,C,G,T).               *)
(*                                                                          *)
(* TailRetire = FALSE is the code as found (tube retirement ignores the     *)
(* overlap of the tubes, and the final flush may start above tubes the      *)
(* ticker never reached).                                                   *)
(***************************************************************************)
EXTENDS Integers, Sequences, FiniteSets, TLC

CONSTANT TailRetire     \* TRUE: every tube is emptied at the end (repaired); FALSE: as found

(***************************************************************************)
(* Declarative                                                              *)
(***************************************************************************)
Mismatches(T, Q, t0, q0, n) == Cardinality({i \in 0..(n - 1) : T[t0 + i + 1] # Q[q0 + i + 1]})
EpsMatches(T, Q, n, e, self) ==
  {<<t0, q0>> \in (0..(Len(T) - n)) \X (0..(Len(Q) - n)) :
     /\ Mismatches(T, Q, t0, q0, n) <= e
     /\ self => q0 > t0}                  \* self comparison: strictly above the main diagonal
Covers(h, t0, q0, n, e, off) ==
  /\ -h[3] <= q0 - t0 /\ q0 - t0 <= -h[3] + off + e - 1
  /\ h[1] < q0 + n /\ q0 < h[2]
Covered(hits, t0, q0, n, e, off) == \E i \in 1..Len(hits) : Covers(hits[i], t0, q0, n, e, off)
Threshold(k, n, e) == n + 1 - k * (e + 1)

(***************************************************************************)
(* Operational                                                              *)
(***************************************************************************)
\* division truncating toward zero, as Go's / does
Quot(a, b) == IF a >= 0 THEN a \div b ELSE -((-a) \div b)

Word(S, p, k) == SubSeq(S, p + 1, p + k)
\* target positions of the k-mer at query position q, ascending (0-based)
RECURSIVE OccFrom(_, _, _, _, _)
OccFrom(T, w, k, t, acc) ==
  IF t > Len(T) - k THEN acc ELSE OccFrom(T, w, k, t + 1, IF Word(T, t, k) = w THEN Append(acc, t) ELSE acc)
Occ(T, w, k) == OccFrom(T, w, k, 0, <<>>)

\* parameters p = [tlen, qlen, k, n, e, off, self]; state s = [tubes (1-based seq of [lo, hi, c]), hits]
NTubes(p) == (p.tlen + p.off + p.e - 1) \div p.off + 1
Slot(p, i) == (i % NTubes(p)) + 1
DiagIndex(p, t, q) == p.tlen - t + q
MinKmers(p) == Threshold(p.k, p.n, p.e)
MaxKmerDist(p) == p.n - p.k

AddHit(p, s, ti, lo, hi) == [s EXCEPT !.hits = Append(@, <<lo, hi + p.k, p.tlen - ti * p.off>>)]

HitTube(p, s, ti, q) ==
  LET tube == s.tubes[Slot(p, ti)] IN
  IF tube.c = 0 THEN [s EXCEPT !.tubes[Slot(p, ti)] = [lo |-> q, hi |-> q, c |-> 1]]
  ELSE IF q - tube.hi > MaxKmerDist(p)
    THEN LET s1 == IF tube.c >= MinKmers(p) THEN AddHit(p, s, ti, tube.lo, tube.hi) ELSE s IN
         [s1 EXCEPT !.tubes[Slot(p, ti)] = [lo |-> q, hi |-> q, c |-> 1]]
  ELSE [s EXCEPT !.tubes[Slot(p, ti)] = [tube EXCEPT !.c = @ + 1, !.hi = q]]

CommonKmer(p, s, t, q) ==
  IF p.self /\ q <= t THEN s
  ELSE LET d == DiagIndex(p, t, q)
           ti == d \div p.off
           s1 == HitTube(p, s, ti, q)
       IN IF d % p.off < p.e
            THEN HitTube(p, s1, IF ti = 0 THEN NTubes(p) - 1 ELSE ti - 1, q)
            ELSE s1

\* tubeEnd(q): retire the tube that the scan has just left behind.  The point (tlen-1, q-1) has the
\* lowest diagonal still in use; tubes overlap by e diagonals, so the tube that is complete is the
\* one holding that diagonal less e.  As found the overlap was ignored and, for e > 0, tube 0 was
\* never retired while the tube above it was emptied early.
EndIndex(p, q) == Quot(DiagIndex(p, p.tlen - 1, q - 1) - (IF TailRetire THEN p.e ELSE 0), p.off)
TubeEnd(p, s, q) ==
  LET ti == EndIndex(p, q)
      tube == s.tubes[Slot(p, ti)]
      s1 == IF tube.c >= MinKmers(p) THEN AddHit(p, s, ti, tube.lo, tube.hi) ELSE s
  IN [s1 EXCEPT !.tubes[Slot(p, ti)].c = 0]

TubeFlush(p, s, ti) ==
  LET tube == s.tubes[Slot(p, ti)] IN
  IF tube.c < MinKmers(p) THEN s
  ELSE [AddHit(p, s, ti, tube.lo, tube.hi) EXCEPT !.tubes[Slot(p, ti)].c = 0]

RECURSIVE FoldOcc(_, _, _, _, _)
FoldOcc(p, s, occ, i, q) == IF i > Len(occ) THEN s ELSE FoldOcc(p, CommonKmer(p, s, occ[i], q), occ, i + 1, q)

\* the query scan: position q, ticker; s.last is the tube most recently retired by the ticker (-1: none)
RECURSIVE Scan(_, _, _, _, _, _)
Scan(p, T, Q, s, q, ticker) ==
  IF q > p.qlen - p.k THEN s
  ELSE LET s1 == FoldOcc(p, s, Occ(T, Word(Q, q, p.k), p.k), 1, q)
           tk == ticker - 1
       IN IF tk = 0 THEN Scan(p, T, Q, [TubeEnd(p, s1, q) EXCEPT !.last = EndIndex(p, q)], q + 1, p.off)
          ELSE Scan(p, T, Q, s1, q + 1, tk)

RECURSIVE FlushRange(_, _, _, _)
FlushRange(p, s, i, to) == IF i > to THEN s ELSE FlushRange(p, TubeFlush(p, s, i), i + 1, to)

Filter(T, Q, k, n, e, off, self) ==
  LET p == [tlen |-> Len(T), qlen |-> Len(Q), k |-> k, n |-> n, e |-> e, off |-> off, self |-> self]
      s0 == [tubes |-> [i \in 1..NTubes(p) |-> [lo |-> 0, hi |-> 0, c |-> 0]], hits |-> <<>>, last |-> -1]
      s1 == Scan(p, T, Q, s0, 0, off + e)
      s2 == TubeEnd(p, s1, p.qlen - 1)
      width == off + e
      dFrom == DiagIndex(p, p.tlen - 1, p.qlen - 1) - width
      dTo == DiagIndex(p, 0, p.qlen - 1) + width
      tFrom == IF Quot(dFrom, off) < 0 THEN 0 ELSE Quot(dFrom, off)
      tTo == Quot(dTo, off)
  IN IF TailRetire
       \* repaired: the final flush starts right after the last tube the ticker retired - not below it
       \* (a retired tube's slot may be in use by a later tube) and not above it (the ticker only runs
       \* while there are k-mers, i.e. up to query position qlen - k)
       THEN FlushRange(p, s2, s1.last + 1, tTo).hits
       ELSE FlushRange(p, s2, tFrom, tTo).hits

Complete(T, Q, k, n, e, off, self) ==
  LET hits == Filter(T, Q, k, n, e, off, self) IN
  \A m \in EpsMatches(T, Q, n, e, self) : Covered(hits, m[1], m[2], n, e, off)
=============================================================================
