------------------------------ MODULE QGramTrace -----------------------------
(***************************************************************************)
(* Judges recorded runs of the real filter.Filter (C14).  A record holds    *)
(* target and query (letters 1..4), the parameters, the hits pulled from    *)
(* the sorter, and the epsilon-matches a scan in the harness found          *)
(* (candidates).  For small inputs TLC enumerates the epsilon-matches       *)
(* itself and also runs the tube machine of QGram.tla and compares its hit  *)
(* list with the real one (model binding, reported as drift).               *)
(* Verdict: every epsilon-match is covered by a reported hit.               *)
(***************************************************************************)
EXTENDS QGram, Json, IOUtils

Trace == ndJsonDeserialize(IOEnv.TRACE)
VARIABLES l, fails, drift

Small(e) == Len(e.T) * Len(e.Q) <= 1600

Matches(e) ==
  IF Small(e) THEN EpsMatches(e.T, e.Q, e.n, e.e, e.self)
  ELSE {<<e.cands[i][1], e.cands[i][2]>> : i \in 1..Len(e.cands)}

\* a candidate supplied by the harness must really be an epsilon-match, else it is ignored
Real(e, m) ==
  /\ m[1] >= 0 /\ m[2] >= 0 /\ m[1] + e.n <= Len(e.T) /\ m[2] + e.n <= Len(e.Q)
  /\ Mismatches(e.T, e.Q, m[1], m[2], e.n) <= e.e
  /\ e.self => m[2] > m[1]

Uncovered(e) == {m \in Matches(e) : Real(e, m) /\ ~Covered(e.hits, m[1], m[2], e.n, e.e, e.off)}

SortedHits(hs) == {<<hs[i], Cardinality({j \in 1..Len(hs) : hs[j] = hs[i]})>> : i \in 1..Len(hs)}   \* multiset

Step ==
  /\ l <= Len(Trace) /\ l' = l + 1
  /\ LET e == Trace[l]
         bad == IF e.err # "" \/ e.panic # "" THEN {} ELSE Uncovered(e)
     IN /\ fails' = IF e.panic # "" THEN Append(fails, <<l, "panic: " \o e.panic>>)
                    ELSE IF e.err # "" THEN Append(fails, <<l, "error: " \o e.err>>)
                    ELSE IF bad # {} THEN Append(fails, <<l, "epsilon-match not covered by any hit: <<t0, q0>> = " \o ToString(CHOOSE m \in bad : TRUE)>>)
                    ELSE fails
        /\ drift' = IF e.err = "" /\ e.panic = "" /\ Small(e) /\ e.model
                       /\ SortedHits(e.hits) # SortedHits(Filter(e.T, e.Q, e.k, e.n, e.e, e.off, e.self))
                     THEN Append(drift, l) ELSE drift

TInit == l = 1 /\ fails = <<>> /\ drift = <<>>
TSpec == TInit /\ [][Step]_<<l, fails, drift>>
Emit ==
  (l = Len(Trace) + 1) =>
    Serialize(ToJson([events |-> Len(Trace), fails |-> fails, drift |-> drift]), IOEnv.OUT,
              [format |-> "TXT", charset |-> "UTF-8",
               openOptions |-> <<"WRITE", "CREATE", "TRUNCATE_EXISTING">>]).exitValue = 0
Consumed == TLCGet("stats").diameter - 1 = Len(Trace)
=============================================================================
