------------------------------- MODULE QGramMC -------------------------------
(* completeness of the tube machine for every tiny input *)
EXTENDS QGram

CONSTANTS MaxLen, MaxLenQ, Ks, Ns, Es, Offs

RECURSIVE SeqsUpTo(_, _)
SeqsUpTo(S, n) == IF n = 0 THEN {<<>>} ELSE SeqsUpTo(S, n - 1) \cup {Append(s, x) : s \in SeqsUpTo(S, n - 1), x \in S}
Inputs == {s \in SeqsUpTo({1, 2}, MaxLen) : Len(s) >= 3}
QInputs == {s \in SeqsUpTo({1, 2}, MaxLenQ) : Len(s) >= 3}

VARIABLES T, Q, par, chosen
vars == <<T, Q, par, chosen>>
Init == T \in Inputs /\ Q = <<>> /\ par = <<>> /\ chosen = FALSE
Next ==
  /\ ~chosen /\ chosen' = TRUE /\ UNCHANGED T
  /\ Q' \in QInputs
  /\ par' \in {<<k, n, e, off, self>> \in Ks \X Ns \X Es \X Offs \X BOOLEAN :
                 Threshold(k, n, e) > 0 /\ off >= e /\ off >= 1}
Spec == Init /\ [][Next]_vars

NoFalseNegatives ==
  chosen => ((par[5] => Q = T) => Complete(T, IF par[5] THEN T ELSE Q, par[1], par[2], par[3], par[4], par[5]))
=============================================================================
