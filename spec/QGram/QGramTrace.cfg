SPECIFICATION TSpec
CONSTANTS
  TailRetire = TRUE
INVARIANT Emit
POSTCONDITION Consumed
CHECK_DEADLOCK FALSE
