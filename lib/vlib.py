"""Shared plumbing for /verif/bin/check: building the Go harness from /repo's
working tree, running TLC in a scratch copy of a spec directory, reading the
verdict files the trace specifications write, evidence and known findings."""
import json, os, re, shutil, subprocess, sys, tempfile, time

VERIF = os.path.dirname(os.path.dirname(os.path.abspath(__file__)))
REPO = os.environ.get("VERIF_REPO", "/repo")
BUILD = os.path.join(VERIF, "build")
GOENV = dict(GOFLAGS="-mod=mod", GOPROXY="off", GOSUMDB="off", GOTOOLCHAIN="local")


class Infra(Exception):
    """Infrastructure failure: exit status 2, never a verdict."""


def log(*a):
    print(*a, flush=True)


def seed():
    try:
        return int(os.environ.get("VERIF_SEED", "1"))
    except ValueError:
        return 1


def scratch(prefix="verif-"):
    base = "/dev/shm" if os.path.isdir("/dev/shm") else None
    return tempfile.mkdtemp(prefix=prefix, dir=base)


# --------------------------------------------------------------------------
# Go harness
# --------------------------------------------------------------------------
_built = {}


import threading
_build_lock = threading.Lock()


def build_harness(race=False, cmd="vharness"):
    """Build harness/cmd/<cmd> against the current working tree of /repo with hooks on."""
    key = cmd + ("-race" if race else "-plain")
    if REPO != "/repo":
        key = "alt-" + re.sub(r"[^A-Za-z0-9]", "_", REPO) + "-" + key
    with _build_lock:
        return _build_harness_locked(race, cmd, key)


def _build_harness_locked(race, cmd, key):
    if key in _built:
        return _built[key]
    os.makedirs(BUILD, exist_ok=True)
    env = dict(os.environ, **GOENV)
    hdir = os.path.join(VERIF, "harness")
    if REPO != "/repo":
        # a scratch copy of biogo (seeded-change trials): build a copy of the harness module that points at it
        tag = "alt-" + re.sub(r"[^A-Za-z0-9]", "_", REPO)
        alt = os.path.join(BUILD, tag)
        if os.path.isdir(alt):
            shutil.rmtree(alt)
        shutil.copytree(hdir, alt)
        gm = open(os.path.join(alt, "go.mod")).read().replace("=> /repo", "=> " + REPO)
        open(os.path.join(alt, "go.mod"), "w").write(gm)
        hdir = alt
    out = os.path.join(BUILD, key)
    gosum = os.path.join(hdir, "go.sum")
    if not os.path.exists(gosum) or REPO != "/repo":
        shutil.copy(os.path.join(REPO, "go.sum"), gosum)
    cmd = ["go", "build", "-tags", "verif"] + (["-race"] if race else []) + ["-o", out, "./cmd/" + cmd]
    t0 = time.time()
    p = subprocess.run(cmd, cwd=hdir, env=env, stdout=subprocess.PIPE, stderr=subprocess.STDOUT, text=True)
    if p.returncode != 0:
        raise Infra("harness build failed:\n" + p.stdout[-4000:])
    log("  [build] %s %.1fs" % (key, time.time() - t0))
    _built[key] = out
    return out


def harness(args, race=False, timeout=1800, env=None, ok_codes=(0,), cmd="vharness"):
    exe = build_harness(race, cmd)
    e = dict(os.environ)
    if env:
        e.update(env)
    try:
        p = subprocess.run([exe] + [str(a) for a in args], stdout=subprocess.PIPE, stderr=subprocess.STDOUT,
                           text=True, timeout=timeout, env=e)
    except subprocess.TimeoutExpired:
        raise Infra("harness timed out: %s" % " ".join(map(str, args)))
    if p.returncode not in ok_codes:
        raise Infra("harness %s exited %d:\n%s" % (" ".join(map(str, args)), p.returncode, p.stdout[-4000:]))
    return p


def take_stall(path):
    """A driver stopped by its stall guard (harness/vt.StallGuard) leaves a final {"op": "stall"} record: not an
    event of the trace but a verdict of its own.  Removes it (and a run header left dangling before it) and returns it."""
    evs = read_ndjson(path)
    if not evs or evs[-1].get("op") != "stall":
        return None
    st = evs.pop()
    while evs and evs[-1].get("op") == "reset":
        evs.pop()
    write_ndjson(path, evs)
    return st


# --------------------------------------------------------------------------
# TLC
# --------------------------------------------------------------------------
class TlcResult:
    def __init__(self, rc, out, wall):
        self.rc, self.out, self.wall = rc, out, wall
        m = re.search(r"(\d+) states generated, (\d+) distinct states found", out)
        self.generated = int(m.group(1)) if m else 0
        self.distinct = int(m.group(2)) if m else 0
        if not m:
            m = re.search(r"The number of states generated: (\d+)", out)
            if m:
                self.generated = self.distinct = int(m.group(1))
        m = re.search(r"depth of the complete state graph search is (\d+)", out)
        self.depth = int(m.group(1)) if m else 0
        self.ok = "Model checking completed. No error has been found." in out or \
                  ("Finished in" in out and rc == 0)
        self.violated = None
        m = re.search(r"Error: Invariant (\S+) is violated", out)
        if m:
            self.violated = m.group(1)
        elif re.search(r"Error: Action property .* is violated", out):
            self.violated = "ActionProperty"
        elif "Temporal properties were violated" in out:
            self.violated = "Temporal"
        elif "Error: Deadlock reached" in out:
            self.violated = "Deadlock"
        elif "Error: Postcondition" in out or "POSTCONDITION" in out and "false" in out.lower() and rc != 0:
            self.violated = "Postcondition"

    def trace_states(self):
        """Counterexample states as a list of raw text blocks."""
        parts = re.split(r"\nState \d+: ", self.out)
        return parts[1:]


def tlc(specdir, module, cfg, env=None, workers="auto", timeout=1800, extra=(), keep=None, jvm=None,
        cfg_text=None, files=None, include=()):
    """Run TLC on a scratch copy of specdir.  cfg is a file name inside specdir, or
    cfg_text gives the configuration verbatim.  files: {name: text} extra files to drop in.
    keep: list of relative file names to copy back out (returned as dict name->path in a temp dir
    that the caller removes)."""
    src = os.path.join(VERIF, "spec", specdir)
    work = scratch("tlc-")
    try:
        for d in list(include) + [specdir]:       # modules of other specification directories that are EXTENDed
            dd = os.path.join(VERIF, "spec", d)
            for f in os.listdir(dd):
                if f.endswith(".tla") or (d == specdir and f.endswith(".cfg")):
                    shutil.copy(os.path.join(dd, f), work)
        if cfg_text is not None:
            cfg = "_run.cfg"
            open(os.path.join(work, cfg), "w").write(cfg_text)
        for name, text in (files or {}).items():
            open(os.path.join(work, name), "w").write(text)
        e = dict(os.environ)
        # the JVM's default maximal heap is a quarter of the machine's memory PER PROCESS; checks run several TLCs
        # at once (and several checks may run side by side), which got TLC killed by the kernel's OOM killer
        jopts = jvm or ("-Xss512m -Xmx%s" % os.environ.get("VERIF_TLC_XMX", "6g"))
        e["JAVA_TOOL_OPTIONS"] = jopts
        if env:
            e.update({k: str(v) for k, v in env.items()})
        cmd = ["tlc", "-workers", str(workers), "-metadir", os.path.join(work, "meta"), "-config", cfg]
        cmd += list(extra) + [module + ".tla"]
        t0 = time.time()
        try:
            p = subprocess.run(cmd, cwd=work, env=e, stdout=subprocess.PIPE, stderr=subprocess.STDOUT, text=True,
                               timeout=timeout)
        except subprocess.TimeoutExpired:
            subprocess.run(["pkill", "-f", work], stdout=subprocess.DEVNULL, stderr=subprocess.DEVNULL)
            raise Infra("TLC timed out after %ds: %s %s" % (timeout, module, cfg))
        r = TlcResult(p.returncode, p.stdout, time.time() - t0)
        return r
    finally:
        shutil.rmtree(work, ignore_errors=True)


def tlc_expect_ok(r, what):
    if not r.ok or r.violated:
        raise Infra("TLC did not complete cleanly on %s (rc=%d, violated=%s):\n%s" %
                    (what, r.rc, r.violated, r.out[-3000:]))


def subst_cfg(specdir, cfg, repl):
    """Return the text of a cfg with 'NAME = value' constants replaced."""
    t = open(os.path.join(VERIF, "spec", specdir, cfg)).read()
    for k, v in repl.items():
        t2, n = re.subn(r"(?m)^(\s*%s\s*=\s*).*$" % re.escape(k), lambda m: m.group(1) + str(v), t)
        if n != 1:
            raise Infra("constant %s not found exactly once in %s" % (k, cfg))
        t = t2
    return t


# --------------------------------------------------------------------------
# traces
# --------------------------------------------------------------------------
def read_ndjson(path):
    out = []
    with open(path) as f:
        for line in f:
            line = line.strip()
            if line:
                out.append(json.loads(line))
    return out


def write_ndjson(path, evs):
    with open(path, "w") as f:
        for e in evs:
            f.write(json.dumps(e, separators=(",", ":")) + "\n")


def segments(events, key="op", reset="reset"):
    """Split a trace into segments starting at reset events; yields (first_index_1based, [events])."""
    cur, start, out = None, 0, []
    for i, e in enumerate(events):
        if e.get(key) == reset:
            if cur is not None:
                out.append((start, cur))
            cur, start = [e], i + 1
        elif cur is not None:
            cur.append(e)
    if cur is not None:
        out.append((start, cur))
    return out


def validate(specdir, module, cfg, trace_path, consts=None, timeout=1800, workers=1, include=()):
    """Run a trace specification over trace_path; returns (verdict dict, TlcResult).
    The trace spec writes {"events":n,"fails":[[index,why],...],...} to $OUT."""
    out = trace_path + ".verdict.json"
    if os.path.exists(out):
        os.remove(out)
    cfg_text = subst_cfg(specdir, cfg, consts) if consts else None
    r = tlc(specdir, module, cfg, env={"TRACE": trace_path, "OUT": out}, workers=workers, timeout=timeout,
            cfg_text=cfg_text, include=include)
    if not os.path.exists(out):
        raise Infra("trace validation produced no verdict (%s %s):\n%s" % (module, cfg, r.out[-3000:]))
    v = json.load(open(out))
    os.remove(out)
    if r.violated or not r.ok:
        raise Infra("trace validation did not consume the log (%s): %s\n%s" % (module, r.violated, r.out[-2000:]))
    return v, r


# --------------------------------------------------------------------------
# known findings, evidence, verdicts
# --------------------------------------------------------------------------
def known_findings(pid):
    p = os.path.join(VERIF, "known_findings.json")
    if not os.path.exists(p):
        return []
    return [k for k in json.load(open(p))["findings"] if k["property"] == pid and k.get("status") == "known"]


class Check:
    """Accumulates what one run of one property's check covered."""

    def __init__(self, pid, tier):
        self.pid, self.tier, self.seed = pid, tier, seed()
        self.t0 = time.time()
        self.states = 0
        self.transitions = 0
        self.traces = 0
        self.evaluations = 0
        self.nontrivial = 0
        self.samples = []
        self.parts = []
        self.violations = []     # (what, replay path)
        self.known = []          # strings
        self.assumptions = []
        self.rule = ""
        self.extra = {}
        self.exhaustive = False

    def mc(self, name, r, note=""):
        self.states += r.distinct
        self.transitions += r.generated
        self.parts.append({"part": name, "distinct_states": r.distinct, "states_generated": r.generated,
                           "depth": r.depth, "wall_s": round(r.wall, 1), "note": note})
        log("  [tlc] %-28s %9d generated %8d distinct depth %-5d %.1fs %s" %
            (name, r.generated, r.distinct, r.depth, r.wall, note))

    def violation(self, what, replay_obj):
        rdir = os.environ.get("VERIF_REPLAY_DIR", os.path.join(VERIF, "replays"))
        os.makedirs(rdir, exist_ok=True)
        n = len(self.violations)
        if n < 10:
            path = os.path.join(rdir, "%s-seed%d-%d.json" % (self.pid, self.seed, n))
            json.dump({"property": self.pid, "what": what, "replay": replay_obj}, open(path, "w"), indent=1)
            log("VIOLATION property=%s replay=%s" % (self.pid, path))
            log("  what: %s" % what[:600])
        else:
            path = self.violations[-1][1]
            if n == 10:
                log("  (further violations of %s are counted but not written out)" % self.pid)
        self.violations.append((what, path))

    def known_finding(self, key, what):
        s = "%s %s" % (key, what)
        if s not in self.known:
            self.known.append(s)
            log("KNOWN-FINDING: property=%s %s" % (self.pid, s))

    def finish(self):
        wall = time.time() - self.t0
        cov = {
            "states": self.states, "transitions": self.transitions,
            "traces_validated_against_impl": self.traces,
            "evaluations": self.evaluations, "distinct_nontrivial": self.nontrivial,
            "rule": self.rule, "samples": self.samples[:8], "parts": self.parts,
            "exhaustive": self.exhaustive,
            "known_findings_reported": self.known,
        }
        cov.update(self.extra)
        ev = {"property_id": self.pid, "tier": self.tier, "seed": self.seed, "level": "model_checking",
              "coverage": cov, "assumptions": self.assumptions, "wall_s": round(wall, 1),
              "violations": len(self.violations)}
        evdir = os.environ.get("VERIF_EVIDENCE_DIR", os.path.join(VERIF, "evidence"))
        os.makedirs(evdir, exist_ok=True)
        json.dump(ev, open(os.path.join(evdir, self.pid + ".json"), "w"), indent=1)
        log("  [done] %s tier=%s seed=%d states=%d transitions=%d traces=%d violations=%d wall=%.0fs" %
            (self.pid, self.tier, self.seed, self.states, self.transitions, self.traces, len(self.violations), wall))
        return 1 if self.violations else 0
