#!/usr/bin/env python3
"""Regenerates /verif/MANIFEST.json from the table below (one source of truth for the interface)."""
import json, os, subprocess

VERIF = os.path.dirname(os.path.dirname(os.path.abspath(__file__)))

COMMON = "Trusted: TLC, the Go driver's conversion between biogo values and specification records, Go's %v float formatting for GFF scores, record digests for files above 1.5 kB. Reader/spec disagreements outside what the property constrains are model drift, not verdicts."

SEQNOTE = "Trusted: the Go driver's observation of the containers through the public API (Row(i).At, Column/ColumnQL, Rows/Len/Start/End, Consensus). Column-stored alignments are exercised at offset 0 with >= 1 column; strand judged for RevComp/Reverse only."

ALIGNNOTE = "Trusted: the driver's conversion of feat.Pair values to interval/score tuples and of letters to alphabet indices. Recorded findings (known_findings.json) are recognised per input by as-found operators and reported as KNOWN-FINDING lines."

CHECKS = {
    "C11": dict(
        technique="TLA+ refinement check (TLC) of implementation-shaped sorter against abstract sorter; "
                  "TLC-emitted behaviours replayed on the real Morass; real traces validated by TLC",
        text="TLC exhaustively explores MorassImpl.tla (chunk/run-file/pool/fast-flag model of morass.go, one "
             "operator per API call) over all usage histories for chunk sizes 1..3 and shows it refines the abstract "
             "sorter Morass.tla (sorted output, exact multiset, Len/Pos); both as-found variants are refuted as "
             "negative controls. Every behaviour of a bounded instance is executed on a real *morass.Morass and "
             "random larger histories (chunk up to 100, 4 cycles, both element types, both modes) are logged; "
             "MorassTrace.tla accepts a log only if every call is a step of the abstract sorter. Random histories are also run with the concurrent constructor flag forced and with chunk sizes that are not powers of two (a buffer grown by append has a larger capacity than the chunk size).",
        note="Trusted: TLC, the Go driver's event logging, distinct value identities per cycle. Usage restricted to "
             "the grammar the property states. The verif-tagged accessor VerifView is used for a model-drift note only.",
        ref="DESIGN.md §6 C11"),
    "C12": dict(
        technique="TLC exhaustive interleaving check of caller vs chunk-writer processes at hook granularity; "
                  "TLC-simulated schedules forced on the real code through verif step hooks; un-gated hook traces "
                  "validated by TLC; race detector on un-hooked runs",
        text="MorassConc.tla models Push/write/Finalise as processes stepping between the verif hook sites with the "
             "channels, WaitGroup and m.files as shared state; TLC checks every interleaving for chunk sizes 1..3 and "
             "0..7 pushes (Finalise completeness, no torn run, race freedom as a state predicate, no deadlock, "
             "termination under fairness) and refutes the as-found variant. Simulated schedules are executed "
             "deterministically on a real concurrent Morass by holding goroutines at the hooks (expected arrivals, "
             "blocked processes and pulled values compared with the model), and un-gated runs are logged at every "
             "hook and accepted only if MorassConcTrace.tla explains them.",
        note="Trusted: atomicity of gate-to-gate segments, goroutine identity via runtime.Stack, 1.5 ms grace for "
             "'blocked' claims, Go race detector on un-hooked runs only.",
        ref="DESIGN.md §6 C12"),
    "C13": dict(
        technique="TLC exhaustive fault x schedule enumeration on the process model with an error slot; TLC-simulated "
                  "(fault, schedule) pairs forced on the real code with real I/O failures at the hooks; residue "
                  "invariants on the implementation-shaped model; random single-fault runs validated by TLC",
        text="MorassConc.tla carries the sorter's single error slot and a failure alternative for every TempFile, "
             "Encode and Sync of every writer; TLC checks NoSilentLoss (if all calls reported success, Finalise found "
             "every value) over every fault and interleaving in both modes and refutes the as-found setErr(nil) "
             "overwrite. MorassImpl.tla tracks run files on disk and the directory; TLC checks the AutoClear / "
             "AutoClean / CleanUp residue invariants over all histories and refutes the as-found in-memory path. "
             "Simulated (fault, schedule) pairs are executed on the real code by closing the run file or hiding the "
             "directory at the corresponding hook; model histories with residue logged and 800 random single-fault "
             "runs (also Seek / Decode / Pull read failures) are validated by MorassTrace.tla. Every single-fault run ends with (sometimes Clear and) CleanUp, after which the temporary directory must be gone, including after a Clear that failed half way on a removed run file.",
        note="Trusted: one failing operation per run; failures induced via closed descriptors / hidden directory / "
             "corrupted run; directory listing after each call; CleanUp only at quiescence.",
        ref="DESIGN.md §6 C13"),
    "C19": dict(
        technique="TLC exhaustive interleaving check of worker-pool and promise process models; TLC-simulated "
                  "schedules forced through verif hooks; steered executions validated by a TLC search over the "
                  "model's internal steps; race detector on un-gated runs",
        text="Processor.tla (workers, submitter, reader over the queue/result/token channels at hook granularity) and "
             "Promise.tla (mailbox + mutex + condition variable, one process per Fulfill/Fail/Wait call) are explored "
             "exhaustively: no panic, result channel closed exactly once and only after every worker left, "
             "exactly-once results, termination; single assignment, waits agree, no call blocks for ever; the as-found "
             "variants are refuted. Simulated Processor schedules are executed deterministically on the real code in "
             "a child process; steered Promise executions (goroutines held and released at the hooks) are accepted only "
             "if PromiseTrace.tla finds a model behaviour with exactly these observations; Map's chunks must "
             "partition the input. The Processor model includes panicking operations (the worker sends the error Result, then leaves); a Result sent after the worker is counted out is refuted as a negative control. PromiseSeq.tla gives every Promise method as a function of the mailbox and the three flags: all call sequences up to four are model-checked and about 2 000 call sequences per run are executed on real promises for all eight flag combinations. Map runs under a watchdog with a parked runaway.",
        note="Trusted: atomicity of hook-to-hook segments, goroutine identity via runtime.Stack, timing margins for "
             "'blocked' claims, non-nil fulfil values, relay promises judged on value only.",
        ref="DESIGN.md §6 C19"),
    "C01": dict(
        technique="byte-exact TLA+ writer and line-machine reader specifications; TLC checks the round-trip theorem on "
                  "all tiny files and emits them for the real readers; real writer/reader runs judged by TLC",
        text="Fasta.tla / Fastq.tla define the writers as byte-exact functions and the readers as state machines over "
             "lines; TLC proves Read(Write(recs,cfg)) = recs for every record list of the bounded domain, all widths, "
             "both '+'-line styles and both offsets, and every such file is also read by the real readers. Random "
             "records are written by the real writers: FormatsTrace.tla accepts only if the bytes equal the writer "
             "specification, every returned n equals the bytes emitted, and reading back returns the records; large "
             "files (20 000 letters, widths above bufio's buffer) are compared by digests.",
        note=COMMON, ref="DESIGN.md §6 C01-C04"),
    "C02": dict(
        technique="byte-exact TLA+ writer and field-level reader specifications for BED and GFF; TLC round-trip theorem "
                  "on the bounded domain; real writer/reader runs judged by TLC",
        text="Bed.tla / Gff.tla define the writers byte for byte (all five BED widths and every narrower width, GFF "
             "features, sequence-region lines, inline sequences, header) with the 1-based/0-based conversion, and the "
             "readers at field level; TLC proves the round trip incl. 'written at width w, read as its first r columns' "
             "on the bounded domain; every file of the model and random files from the real writers are read by the "
             "real readers and judged by FormatsTrace.tla (bytes, byte counts, records).",
        note=COMMON, ref="DESIGN.md §6 C01-C04"),
    "C03": dict(
        technique="TLC enumerates damaged files (truncation at every offset, field/byte edits) of the bounded model; the "
                  "reader specification must be total on them; the real readers are run on every one and judged by TLC",
        text="From every base file TLC applies every truncation and every single field or byte edit; evaluating the reader "
             "specification on each is the model-level totality check. The real readers are run on all of them and on "
             "randomly damaged real files (numeric boundary values, deleted/duplicated columns and lines) under a panic "
             "guard and a watchdog: FormatsTrace.tla rejects a panic, a hang, a (nil, nil) return, more than lines+1 calls "
             "before EOF or an error, and a record where the specification classifies the line as structurally invalid. Field edits include blank-separated tokens of directive lines and bytes that are blanks as Latin-1 runes only.",
        note=COMMON, ref="DESIGN.md §6 C01-C04"),
    "C04": dict(
        technique="layout transformations as TLA+ actions with invariant Read(text) = records; TLC explores all "
                  "transformed files and emits them for the real readers; negative control for the dropped last line",
        text="Formats.tla applies re-wrapping, blank lines, trailing blanks, CRLF and a missing final newline as actions "
             "to every file of the bounded model and TLC checks that the reader specification still returns the records; "
             "the as-found reader that drops an unterminated last line is refuted. Every transformed file is read by "
             "the real readers, and random real files are re-laid-out (wrap widths up to 20 000, physical lines longer "
             "than 4096 bytes) and read back; FormatsTrace.tla demands exactly the generating records. BED and GFF files with one line at bufio buffer boundaries (4093-4097, 8190-8193 bytes) are read under LF, CRLF and without final newline.",
        note=COMMON, ref="DESIGN.md §6 C01-C04"),
    "C16": dict(
        technique="TLA+ piler state machine (operational merge vs declarative connected components) checked by TLC over "
                  "all insertion orders; TLC-emitted Add sequences replayed on the real Piler; random instances judged by TLC",
        text="Piler.tla models Piler.Add/merge operationally (interval hits with slack 0, absorb, delete, reinsert, seen "
             "pairs in both orientations) and the components of overlap-or-abut declaratively; TLC checks in every "
             "reachable state that piles are apart, each pile is the hull and union of its members, piles = components "
             "(order independence), every feature in exactly one pile, duplicates rejected, and refutes four wrong "
             "variants. Every Add sequence of the bounded model and random walks in every order, plus random instances "
             "of up to 40 pairs, run on a real pals.Piler; PilerTrace.tla recomputes the components and judges every "
             "Piles call (filters included), Location() and Mate(). PilerPiles.tla states the place-all-then-filter discipline of Piles (a fused pass is refuted); filters that read their pair's piles and filter-first call plans are part of every run, and a filter must never be consulted about a feature that is not yet placed in its pile.",
        note="Trusted: driver's reading of Pile/Feature fields by pointer identity. Not judged: Add after Piles, inverted "
             "features, slack other than 0.",
        ref="DESIGN.md §6 C16"),
    "C17": dict(
        technique="TLA+ transcription of alphabet/pairing/complementor construction; TLC checks all laws over 256 letters "
                  "for the 7 built-ins and all small definitions; emitted cases and random definitions through the real "
                  "constructors judged by TLC",
        text="Alphabet.tla builds valid/index tables and pairing tables the way alphabet.go does and states the laws "
             "(validity = membership, IndexOf/Letter inverse, AllValid, case-preserving involution, method = table, "
             "index(comp(l)) = 3 - index(l), constructor rejections) as invariants over the seven built-in definitions "
             "and every definition of a small ASCII sample; four wrong variants are refuted. The driver dumps every "
             "accessor of the built-ins over all 256 letters and runs TLC-emitted and random (also non-ASCII, "
             "non-bijective) definitions through the constructors; AlphabetTrace.tla recomputes everything. Letter slices with multi-byte runs of letters >= 128 are cases of the bounded model (SliceLaw; negative control: a scan that reads the slice as UTF-8 text).",
        note="Trusted: the transcription of the seven definition strings; error classes compared only as accept/reject.",
        ref="DESIGN.md §6 C17"),
    "C18": dict(
        technique="TLA+ integer specification of the encodings and, via a TLC-certified mantissa table for 10^(r/20), of "
                  "the probabilities and Phred/Solexa conversions; the real functions dumped over their whole 8-bit "
                  "domains and judged by TLC",
        text="Quality.tla specifies Encode/Decode per encoding and, in 32-bit integer arithmetic from a 20-entry table "
             "certified by TLC through the functional equation of 10^x, the error probabilities to 4 significant digits "
             "and the correctly rounded conversions (near ties are excluded, counted). TLC checks monotonicity, "
             "score-probability-score identity, mutual inverses from Q=10, and refutes the as-found table and encoder. "
             "Every function of alphabet/letters.go and seq/quality is dumped for all 256 scores, bytes and 7 encodings "
             "plus thousands of sampled probabilities; QualityTrace.tla judges each value. Decoding a byte to the other score kind must equal the encoding's own decode followed by the stated conversion. A probability whose nearest score cannot be held (sampled down to the denormals and up to 1-1e-15) must saturate at the end of the score range, never wrap around.",
        note="Trusted: Go's float64 to (mantissa, exponent) rendering in the driver. Accuracy beyond 4 significant digits "
             "is not decided; a score of one kind under an encoding of the other kind is drift only.",
        ref="DESIGN.md §6 C18"),
    "C05": dict(
        technique="TLA+ grid model of the sequence containers; TLC checks the RevComp/Reverse laws over all tiny containers "
                  "and refutes the as-found re-offsetting; model histories and random histories replayed on the real types, "
                  "every observation judged by TLC",
        text="Containers.tla models linear, column-stored and row-stored sequences as one partial grid with an edit "
             "function; SeqMC.tla checks for every container of <= 2x2 cells (3 rows in the thorough tier), offsets -1..2 "
             "and short edit histories that RevComp is reversal + complement with qualities travelling, strand negated and "
             "every row mirrored about the span, that RevComp twice is the identity and Reverse twice restores the "
             "letters; the as-found Multi re-offsetting is refuted. The histories of the bounded model and random "
             "histories (6 rows x 30 columns, 6 edits, Clone-then-mutate probes, Set) run on linear.Seq/QSeq, "
             "alignment.Seq/QSeq and multi.Multi; SeqTrace.tla applies each edit to the model and compares the row view, "
             "the column view, Start/End/Len and strands. RevComp/Reverse of a single row through the row view and length-0 values of every kind are exercised as well.",
        note=SEQNOTE, ref="DESIGN.md §6 C05-C07"),
    "C06": dict(
        technique="positional TLA+ definitions of Truncate/Join/Stitch/Compose/Trim; TLC checks the code-shaped "
                  "algorithms against them on all small inputs and refutes the as-found Trim and Compose; real calls judged by TLC",
        text="SeqModel.tla defines the sequtils operations positionally; SeqMC.tla (PureLaws) checks on all small inputs "
             "that the running-sum Trim returns a maximal window, that Compose with a scratch reverser equals the "
             "declarative concatenation, that Stitch is the ascending union whatever the order of the features, and the "
             "Truncate cases incl. circular wrap; the as-found Trim (start of the last run) and Compose (first reversed "
             "segment reused) are refuted. Thousands of random calls on linear.Seq/QSeq with negative/zero/positive "
             "offsets, circular sources, overlapping unsorted partly-outside features in both orientations are judged by "
             "SeqTrace.tla: result, error-not-panic, source unchanged, no shared storage. Truncate is also run in place and into formerly circular destinations; Stitch and Compose results must be linear and start at 0.",
        note=SEQNOTE, ref="DESIGN.md §6 C05-C07"),
    "C07": dict(
        technique="TLA+ grid model with AppendColumns/AppendEach/Delete/Add/Flush/Truncate/Subseq/Clone edits; TLC checks "
                  "the edit laws over all tiny containers; histories replayed on the real containers with aliasing probes, "
                  "row and column views judged by TLC",
        text="SeqMC.tla checks that appends extend each row by exactly the letters supplied (column-stored alignments "
             "padding with the gap), Delete removes exactly the row, Flush pads to the span keeping every letter's "
             "position, Truncate keeps the requested columns, and the shape of column-stored alignments is preserved. "
             "Model histories and random histories run on alignment.Seq, alignment.QSeq and multi.Multi (plain and quality "
             "rows, arbitrary row offsets); after every edit the harness overwrites the buffers it passed in, and "
             "SeqTrace.tla requires the row view, the column view (with gap fill), Rows/Len/Start/End and the consensus of "
             "unanimous columns to be those of the model's grid.",
        note=SEQNOTE, ref="DESIGN.md §6 C05-C07"),
    "C20": dict(
        technique="TLA+ model of exon-set updates and of the position/orientation mapping; TLC checks tiling and atomicity "
                  "of rejected updates over all small layouts and refutes the in-place sort; emitted cases and random gene "
                  "models run on the real types and judged by TLC",
        text="Gene.tla models Exons.Add / SetExons with accepted and rejected outcomes (spare capacity included), introns, "
             "UTR5/CDS/UTR3 and the four mapping functions over nesting chains; TLC checks over all cuts of transcripts of "
             "length <= 8 (9 thorough), all CDS bounds, chains of depth <= 4 and all update histories that exons and "
             "introns tile, UTR/CDS tile in orientation order, mappings compose, conversions are inverse, and a rejected "
             "update leaves the exon set unchanged; the as-found in-place sort and two other wrong variants are refuted. "
             "The emitted cases, enumerated histories with spare capacity as the runtime leaves it, chains of 998..1003 "
             "features and random gene models up to 1500 exons run on NonCodingTranscript, CodingTranscript and Exons; "
             "GeneTrace.tla recomputes every result. The gene level is specified too: SetFeatures accept rule, bounds equal to the retained features, rejected calls change nothing (negative control: length updated before validation ends); coding transcripts are viewed again after their orientation was turned round.",
        note="Trusted: driver's reading of values through exported methods, pointer identity for locations. Zero-length "
             "exons with equal starts (unstable sort) are assumed away.",
        ref="DESIGN.md §6 C20"),
    "C08": dict(
        technique="TLC proves dynamic programming = maximum over all alignments (unmemoised enumeration) on a bounded "
                  "domain; every recorded Align call is judged by TLC against that optimum; as-found operators recognise "
                  "the recorded findings per input",
        text="AlignDP.tla defines the best global, local and fitted alignment score twice: Brute enumerates every "
             "alignment move by move, Opt is the three-layer recurrence folded row by row; AlignMC.tla checks Brute = Opt "
             "for all sequence pairs of length <= 2 (3 thorough) over two letters, all small matrices and gap-open "
             "values, both gap models, and refutes the claim that the code's three-state affine model is optimal. "
             "The driver calls all six aligners on every pair of length <= 3 under random small-valued (symmetric and "
             "asymmetric, tie-rich, zero-gap) matrices and on random DNA/protein pairs up to 60 (200 thorough) letters; "
             "AlignTrace.tla recomputes the path's score and compares it with Opt (for the fitted aligners: among "
             "alignments ending at the returned reference position). Every record gets a C08 verdict of its own: the alignment returned is scored from its letters, also when the reported pair scores are unfaithful (a C09 matter). Each recorded finding carries a witness call that is repeated on the real aligner in every run.",
        note=ALIGNNOTE, ref="DESIGN.md §6 C08/C09"),
    "C09": dict(
        technique="TLA+ predicates for path shape, abutment, bounds and per-pair scores, evaluated by TLC on every "
                  "recorded Align call incl. quality-letter runs, align.Format rows and ill-typed inputs",
        text="AlignTrace.tla requires of every recorded result: one monotone path (pairs abut in both sequences), each "
             "pair an ungapped block, a gap in one sequence, or empty with zero score; global alignments span both "
             "sequences, fitted ones the whole query, local ones stay in bounds; every reported pair score equals the "
             "score recomputed from letters, matrix and gap parameters; quality-letter input gives the same pairs; "
             "Format rows have equal length and degap to the aligned subsequences. 900 ill-typed calls (a letter outside "
             "the alphabet at every position, other alphabet, no gap at index 0, mixed slice types, ragged / undersized "
             "/ empty matrix) must return an error, never panic. Every record gets a C09 verdict of its own, independent of optimality (C08). Each recorded finding carries a witness call that is repeated on the real aligner in every run.",
        note=ALIGNNOTE, ref="DESIGN.md §6 C08/C09"),
    "C10": dict(
        technique="TLA+ rolling-word state machine and counting-sort Build checked against declarative occurrences by TLC "
                  "over all short sequences; emitted sequences and random long ones through the real index, judged by TLC",
        text="Kmer.tla writes ForEachKmerOf (rolling 2-bit word, high-water mark of invalid letters) and Build (prefix sum, "
             "placement) as they are coded and the occurrences declaratively; TLC checks that visits are exactly the valid "
             "windows of every sub-range, buckets are exactly the occurrences in ascending order, frequencies match, absent "
             "words are empty, and the word functions (KmerOf, Format, ComplementOf, GCof) agree with the string "
             "operations, for all sequences up to length 6 (7-8 thorough) over {a,c,g,t,n,A}, k in {2,3}; three wrong "
             "variants are refuted. Emitted sequences (MinKmerLen lowered), exhaustive k=4 and random sequences up to 5000 "
             "letters, k 4..10, with runs of invalid bytes run through the real index; KmerTrace.tla judges every result. KmerQueries.tla models the built index as a state machine of queries whose answers depend on the indexed sequence only (negative control: answers that alias the position table); on the real code every answer is overwritten by the caller and all questions are asked again.",
        note="This check also runs two extensions outside C10, judged as drift only: Util/DeBruijn.tla (util.DeBruijn) and Util/Wrapper.tla (the line-wrapping, limiting io.Writer util.Wrapper as a state machine, 12400 exhaustive small call histories plus random ones replayed on the real code). Trusted: the driver's dump of positions maps and callbacks; full maps judged up to 400 letters, longer "
             "sequences on sampled words and ranges.",
        ref="DESIGN.md §6 C10"),
    "C14": dict(
        technique="TLA+ transcription of the tube machine checked by TLC against declarative epsilon-matches on all tiny "
                  "inputs (as-found retirement refuted); real filter runs judged by TLC for coverage, hit lists compared "
                  "with the model's",
        text="QGram.tla defines epsilon-matches and coverage declaratively and transcribes filter.go's tube machine "
             "(circular tube list, ticker, tubeEnd, final flush); TLC checks completeness for every target <= 5 and query "
             "<= 8 (10 thorough; 7x7 thorough) over two letters, k=2, n in {4,5}, e in {0,1}, offsets 1..6, self and "
             "non-self, and refutes the as-found retirement. The real filter (MinKmerLen lowered to 2) runs on thousands "
             "of small inputs - TLC enumerates their epsilon-matches and compares the real hit list with the model's - and "
             "on random / repeat-planted pairs up to 300-400 letters, k 4..7, n 12..41, e 0..3, where every epsilon-match "
             "found by a scan and re-checked by TLC must be covered by a hit. A third of the small cases run on a Filter that has already served a longer query (PALS uses one Filter for both strands).",
        note="Trusted: the harness scan that proposes epsilon-matches for large inputs (each is re-checked; a missed "
             "candidate would weaken, not falsify, the verdict). Sequences over A,C,G,T only.",
        ref="DESIGN.md §6 C14"),
    "C15": dict(
        technique="TLA+ stage contract of the pipeline over the abstract sorter checked by TLC; hit soundness and repeat "
                  "recovery as TLA+ predicates (optimal region score from the AlignDP recurrence) evaluated by TLC on "
                  "recorded runs of the real pipeline",
        text="Pals.tla composes the filter, the external sorter (abstract machine of C11, two passes sharing one sorter) "
             "and the merger: TLC checks that each pass merges exactly its own hits in order, and refutes an unsorted "
             "sorter. The real pipeline (Optimise, BuildIndex, Align(false), Align(true)) runs on random 2-6 kb "
             "backgrounds (20 kb thorough) with 1-3 planted repeats - exact, with substitutions, with small indels, both "
             "strands, self and non-self - and PalsTrace.tla judges every hit (inside both sequences, both lengths >= "
             "minimum, error <= 1 - minimum identity, and for a sample of hits score <= the optimal global alignment "
             "score of its regions under +1/-3/-3) and requires every planted copy to be recovered by the pass of its "
             "strand, and no trivial self hit. PalsSelf.tla states the geometry of filter tubes, the merger's self-comparison guard and the aligner's band around the main diagonal (negative control: the guard as found, refuted); self comparisons over 45 consecutive lengths with a tandem repeat bind it to the code. Short repeats (1.2 x minimum) with substitutions near their ends are planted too (under identity thresholds from 0.9: below, the unchanged tree loses about 1 in 150 of them - a listed finding whose recorded comparison is repeated and judged in every run), and a quarter of the copies carry one gap run of up to MaxIGap letters. Recovered = some hit overlaps more than half of the copy on both axes. Two fixed series (constant random streams, the same in every run, every member recovered by the tree as received) cover boundary behaviour that random drawing would make flaky: copies with a run of exactly MaxIGap letters in their middle, and inverted repeats met by the complement pass after the forward pass left a word in an open filter tube.",
        note="Trusted: the driver's planting of repeats and coordinate bookkeeping. The score bound is judged for a sample "
             "of hits with regions <= 170 letters; recall is judged for copies >= 1.5 x minimum length with at most a third "
             "of the allowed differences.",
        ref="DESIGN.md §6 C15"),
}

NOT_YET = {}


def main():
    props = [json.loads(l) for l in open(os.path.join(VERIF, "properties.jsonl"))]
    hooks_commits = subprocess.run(["git", "-C", "/repo", "log", "--format=%h %s", "699d15a..HEAD"],
                                   stdout=subprocess.PIPE, text=True).stdout.strip().splitlines()
    hook_commits = [l.split()[0] for l in hooks_commits if "verif" in l and not l.split(" ", 1)[1].startswith("fix:")]
    checks, na = [], []
    for p in props:
        pid = p["id"]
        if pid in CHECKS:
            c = CHECKS[pid]
            checks.append({
                "property_id": pid,
                "quick_cmd": "bin/check %s --tier quick" % pid,
                "thorough_cmd": "bin/check %s --tier thorough" % pid,
                "evidence_file": "evidence/%s.json" % pid,
                "replay_cmd_template": "bin/check %s --replay {path}" % pid,
                "engine": "tlc+vharness",
                "level_claimed": {"category": "model_checking", "text": c["text"], "design_ref": c["ref"]},
                "level_note": c["note"],
                "technique": c["technique"],
            })
        else:
            na.append({"property_id": pid,
                       "reason": NOT_YET.get(pid, "check not built yet in this round (planned, see DESIGN.md §10); "
                                                  "not a claim that the technique cannot apply")})
    m = {
        "version": 1,
        "setup_cmd": "bin/setup",
        "hooks": {
            "guard": "verif",
            "enable": "go build -tags verif (harness module /verif/harness with replace github.com/biogo/biogo => /repo)",
            "baseline_off_cmd": "cd /repo && GOFLAGS=-mod=mod GOPROXY=off GOSUMDB=off GOTOOLCHAIN=local "
                                "go test -vet=off -count=1 -timeout 25m ./...",
            "source_commits": hook_commits,
            "add_only": True,
        },
        "engines": [
            {"name": "tlc+vharness", "path": "bin/check",
             "serves_properties": sorted(CHECKS),
             "kind_free_text": "TLA+ specifications under spec/ checked by TLC (exhaustive model checking, behaviour "
                               "emission, trace validation) bound to the Go code by harness/cmd/vharness "
                               "(drivers that log ndjson traces, replayers of TLC behaviours)"},
        ],
        "checks": checks,
        "not_applicable": na,
        "notes": "Known findings and repaired defects: known_findings.json. Design: DESIGN.md.",
    }
    json.dump(m, open(os.path.join(VERIF, "MANIFEST.json"), "w"), indent=1)
    print("MANIFEST.json: %d checks, %d not yet claimed" % (len(checks), len(na)))


if __name__ == "__main__":
    main()
