package alignd

// Extension beyond the listed properties: the scoring matrices shipped in align/matrix and bmatrix.Match, dumped
// for spec/Align/Matrices.tla.

import (
	"fmt"

	bmatrix "github.com/biogo/biogo/align/matrix"
	"github.com/biogo/biogo/alphabet"

	"verif/harness/vt"
)

var shipped = []struct {
	name string
	m    [][]int
}{
	{"NUC_4", bmatrix.NUC_4},
	{"NUC_4_4", bmatrix.NUC_4_4},
	{"DAYHOFF", bmatrix.DAYHOFF},
	{"GONNET", bmatrix.GONNET},
	{"IDENTITY", bmatrix.IDENTITY},
	{"MATCH", bmatrix.MATCH},
	{"BLOSUM100", bmatrix.BLOSUM100},
	{"BLOSUM30", bmatrix.BLOSUM30},
	{"BLOSUM35", bmatrix.BLOSUM35},
	{"BLOSUM40", bmatrix.BLOSUM40},
	{"BLOSUM45", bmatrix.BLOSUM45},
	{"BLOSUM50", bmatrix.BLOSUM50},
	{"BLOSUM55", bmatrix.BLOSUM55},
	{"BLOSUM60", bmatrix.BLOSUM60},
	{"BLOSUM62", bmatrix.BLOSUM62},
	{"BLOSUM65", bmatrix.BLOSUM65},
	{"BLOSUM70", bmatrix.BLOSUM70},
	{"BLOSUM75", bmatrix.BLOSUM75},
	{"BLOSUM80", bmatrix.BLOSUM80},
	{"BLOSUM85", bmatrix.BLOSUM85},
	{"BLOSUM90", bmatrix.BLOSUM90},
	{"BLOSUMN", bmatrix.BLOSUMN},
	{"PAM10", bmatrix.PAM10},
	{"PAM100", bmatrix.PAM100},
	{"PAM110", bmatrix.PAM110},
	{"PAM120", bmatrix.PAM120},
	{"PAM120_cdi", bmatrix.PAM120_cdi},
	{"PAM130", bmatrix.PAM130},
	{"PAM140", bmatrix.PAM140},
	{"PAM150", bmatrix.PAM150},
	{"PAM160", bmatrix.PAM160},
	{"PAM160_cdi", bmatrix.PAM160_cdi},
	{"PAM170", bmatrix.PAM170},
	{"PAM180", bmatrix.PAM180},
	{"PAM190", bmatrix.PAM190},
	{"PAM20", bmatrix.PAM20},
	{"PAM200", bmatrix.PAM200},
	{"PAM200_cdi", bmatrix.PAM200_cdi},
	{"PAM210", bmatrix.PAM210},
	{"PAM220", bmatrix.PAM220},
	{"PAM230", bmatrix.PAM230},
	{"PAM240", bmatrix.PAM240},
	{"PAM250", bmatrix.PAM250},
	{"PAM250_cdi", bmatrix.PAM250_cdi},
	{"PAM260", bmatrix.PAM260},
	{"PAM270", bmatrix.PAM270},
	{"PAM280", bmatrix.PAM280},
	{"PAM290", bmatrix.PAM290},
	{"PAM30", bmatrix.PAM30},
	{"PAM300", bmatrix.PAM300},
	{"PAM310", bmatrix.PAM310},
	{"PAM320", bmatrix.PAM320},
	{"PAM330", bmatrix.PAM330},
	{"PAM340", bmatrix.PAM340},
	{"PAM350", bmatrix.PAM350},
	{"PAM360", bmatrix.PAM360},
	{"PAM370", bmatrix.PAM370},
	{"PAM380", bmatrix.PAM380},
	{"PAM390", bmatrix.PAM390},
	{"PAM40", bmatrix.PAM40},
	{"PAM400", bmatrix.PAM400},
	{"PAM40_cdi", bmatrix.PAM40_cdi},
	{"PAM410", bmatrix.PAM410},
	{"PAM420", bmatrix.PAM420},
	{"PAM430", bmatrix.PAM430},
	{"PAM440", bmatrix.PAM440},
	{"PAM450", bmatrix.PAM450},
	{"PAM460", bmatrix.PAM460},
	{"PAM470", bmatrix.PAM470},
	{"PAM480", bmatrix.PAM480},
	{"PAM490", bmatrix.PAM490},
	{"PAM50", bmatrix.PAM50},
	{"PAM500", bmatrix.PAM500},
	{"PAM60", bmatrix.PAM60},
	{"PAM70", bmatrix.PAM70},
	{"PAM80", bmatrix.PAM80},
	{"PAM80_cdi", bmatrix.PAM80_cdi},
	{"PAM90", bmatrix.PAM90},
}

var builtins = []struct {
	name string
	a    alphabet.Alphabet
}{
	{"DNA", alphabet.DNA}, {"DNAgapped", alphabet.DNAgapped}, {"DNAredundant", alphabet.DNAredundant},
	{"RNA", alphabet.RNA}, {"RNAgapped", alphabet.RNAgapped}, {"RNAredundant", alphabet.RNAredundant},
	{"Protein", alphabet.Protein},
}

// Matrices logs every shipped matrix and bmatrix.Match for every built-in alphabet under a few score triples.
func Matrices(w *vt.W) {
	lens := map[string]int{}
	for _, b := range builtins {
		lens[b.name] = b.a.Len()
	}
	for _, s := range shipped {
		w.Emit(vt.Ev{"op": "shipped", "name": s.name, "M": s.m, "lens": lens})
	}
	for _, b := range builtins {
		for _, t := range [][3]int{{0, 1, -1}, {-2, 3, -1}, {-5, 0, 0}, {1, -1, 2}} {
			ev := vt.Ev{"op": "match", "alpha": b.name, "n": b.a.Len(), "g": b.a.IndexOf(b.a.Gap()), "gap": t[0], "match": t[1],
				"mismatch": t[2], "M": [][]int{}, "panic": ""}
			func() {
				defer func() {
					if p := recover(); p != nil {
						ev["panic"] = fmt.Sprint(p)
					}
				}()
				ev["M"] = bmatrix.Match(b.a, t[0], t[1], t[2])
			}()
			w.Emit(ev)
		}
	}
}
