// Package alignd calls biogo's six pairwise aligners on enumerated and
// random inputs (and on ill-typed ones) and records what they return.
package alignd

import (
	"bytes"
	"encoding/json"
	"fmt"
	"math/rand"
	"os"

	"github.com/biogo/biogo/align"
	"github.com/biogo/biogo/alphabet"
	"github.com/biogo/biogo/feat"
	"github.com/biogo/biogo/seq"
	"github.com/biogo/biogo/seq/linear"

	"verif/harness/vt"
)

var Aligners = []string{"NW", "SW", "Fitted", "NWAffine", "SWAffine", "FittedAffine"}

func aligner(name string, m [][]int, open int) align.Aligner {
	switch name {
	case "NW":
		return align.NW(m)
	case "SW":
		return align.SW(m)
	case "Fitted":
		return align.Fitted(m)
	case "NWAffine":
		return align.NWAffine{Matrix: m, GapOpen: open}
	case "SWAffine":
		return align.SWAffine{Matrix: m, GapOpen: open}
	case "FittedAffine":
		return align.FittedAffine{Matrix: m, GapOpen: open}
	}
	panic(name)
}

func letters(idx []int, a alphabet.Alphabet) []alphabet.Letter {
	l := make([]alphabet.Letter, len(idx))
	for i, x := range idx {
		l[i] = a.Letter(x)
	}
	return l
}

func call(al align.Aligner, r, q align.AlphabetSlicer) (pairs [][]int, es, ps string, raw []feat.Pair) {
	pairs = [][]int{}
	defer func() {
		if p := recover(); p != nil {
			ps = fmt.Sprint(p)
		}
	}()
	fp, err := al.Align(r, q)
	if err != nil {
		return pairs, err.Error(), "", nil
	}
	for _, p := range fp {
		f := p.Features()
		sc := 0
		if s, ok := p.(interface{ Score() int }); ok {
			sc = s.Score()
		}
		pairs = append(pairs, []int{f[0].Start(), f[0].End(), f[1].Start(), f[1].End(), sc})
	}
	return pairs, "", "", fp
}

// record performs one well-typed call (plain and quality letters) and logs it.
func record(w *vt.W, name string, a alphabet.Alphabet, r, q []int, m [][]int, open int) {
	al := aligner(name, m, open)
	rs := linear.NewSeq("r", letters(r, a), a)
	qs := linear.NewSeq("q", letters(q, a), a)
	pairs, es, ps, raw := call(al, rs, qs)
	ql := func(idx []int) []alphabet.QLetter {
		out := make([]alphabet.QLetter, len(idx))
		for i, x := range idx {
			out[i] = alphabet.QLetter{L: a.Letter(x), Q: alphabet.Qphred(20 + i%10)}
		}
		return out
	}
	rq := linear.NewQSeq("r", ql(r), a, alphabet.Sanger)
	qq := linear.NewQSeq("q", ql(q), a, alphabet.Sanger)
	qpairs, qes, qps, _ := call(al, rq, qq)
	if qes != es || qps != ps {
		qpairs = [][]int{{-1, -1, -1, -1, 0}}
	}
	rows := [][]int{{}, {}}
	if raw != nil {
		func() {
			defer func() {
				if p := recover(); p != nil {
					ps = "Format: " + fmt.Sprint(p)
				}
			}()
			f := align.Format(rs, qs, raw, a.Gap())
			for k := 0; k < 2; k++ {
				ls := f[k].(alphabet.Letters)
				rows[k] = make([]int, len(ls))
				for i, l := range ls {
					rows[k][i] = a.IndexOf(l)
				}
			}
		}()
	}
	w.Emit(vt.Ev{"ill": false, "aligner": name, "r": r, "q": q, "M": m, "open": open, "pairs": pairs, "qpairs": qpairs,
		"err": es, "panic": ps, "fmt": rows})
}

func matrix(n int, f func(i, j int) int) [][]int {
	m := make([][]int, n)
	for i := range m {
		m[i] = make([]int, n)
		for j := range m[i] {
			m[i][j] = f(i, j)
		}
	}
	return m
}

func seqs(letters []int, maxLen int) [][]int {
	out := [][]int{}
	var rec func(cur []int)
	rec = func(cur []int) {
		if len(cur) > 0 {
			out = append(out, append([]int{}, cur...))
		}
		if len(cur) == maxLen {
			return
		}
		for _, l := range letters {
			rec(append(cur, l))
		}
	}
	rec(nil)
	return out
}

// Bounded enumerates all sequence pairs up to maxLen over two letters for nm random small-valued matrices.
func Bounded(w *vt.W, rng *rand.Rand, nm, maxLen int) {
	a := alphabet.DNAgapped
	ss := seqs([]int{1, 2}, maxLen)
	for k := 0; k < nm; k++ {
		subs := []int{-2, -1, 0, 1}
		gaps := []int{-2, -1, 0}
		if k%3 == 2 {
			// strongly asymmetric gap scores: a letter against a gap costs differently in the two sequences
			subs = []int{-3, -1, 1, 2}
			gaps = []int{-4, -1, 0}
		}
		sym := rng.Intn(2) == 0 && k%3 != 2
		pairing := k%4 == 1 // a letter scores no better against itself than against another letter (base pairing)
		// a letter scores a little against itself but some other letter scores far more against it (a matrix that
		// rewards a particular substitution): taking the diagonal on equal letters is then not always best
		cross := k%4 == 3
		m := matrix(5, func(i, j int) int {
			if i == 0 && j == 0 {
				return 0
			}
			if i == 0 || j == 0 {
				return gaps[rng.Intn(3)]
			}
			if pairing {
				if i == j {
					return []int{-2, -1, 0}[rng.Intn(3)]
				}
				return []int{-1, 1, 2}[rng.Intn(3)]
			}
			if cross {
				if i == j {
					return []int{1, 1, 2}[rng.Intn(3)]
				}
				return []int{-1, 2, 3, 5}[rng.Intn(4)]
			}
			return subs[rng.Intn(4)]
		})
		if sym {
			for i := 0; i < 5; i++ {
				for j := 0; j < i; j++ {
					m[i][j] = m[j][i]
				}
			}
		}
		open := []int{-2, -1, 0}[rng.Intn(3)]
		for _, r := range ss {
			for _, q := range ss {
				for _, name := range Aligners {
					record(w, name, a, r, q, m, open)
				}
			}
		}
	}
}

// Calls repeats the recorded calls of an ndjson file (fields aligner, r, q, M, open; DNAgapped indices):
// the witnesses of the known findings are re-run on the real aligners in every check run.
func Calls(w *vt.W, path string) {
	data, err := os.ReadFile(path)
	if err != nil {
		vt.Fatal("read %s: %v", path, err)
	}
	for _, line := range bytes.Split(data, []byte{'\n'}) {
		if len(bytes.TrimSpace(line)) == 0 {
			continue
		}
		var c struct {
			Aligner string
			R, Q    []int
			M       [][]int
			Open    int
		}
		if err := json.Unmarshal(line, &c); err != nil {
			vt.Fatal("call: %v", err)
		}
		record(w, c.Aligner, alphabet.DNAgapped, c.R, c.Q, c.M, c.Open)
	}
}

// Random runs DNA and protein pairs of realistic length.
func Random(w *vt.W, rng *rand.Rand, n, maxLen int) {
	sweep := map[int][][]int{}
	for k := 0; k < n; k++ {
		var a alphabet.Alphabet = alphabet.DNAgapped
		inSweep := (k/4)%2 == 1 // blocks of four consecutive cases share one matrix object, rewritten in place
		if k%3 == 2 && !inSweep {
			a = alphabet.Protein
		}
		nl := a.Len()
		match, mismatch, g := 1+rng.Intn(5), -rng.Intn(5), -rng.Intn(6)
		noisy := rng.Intn(2) == 0
		crossed := k%7 == 3 && (k/4)%2 == 0
		if (k/4)%2 == 1 {
			// within a sweep block (below) the scores swing between gaps being nearly free and gaps being dear, so
			// that the best alignment under one setting is a poor one under the next
			if k%2 == 0 {
				match, mismatch, g = 2, -4, -1
			} else {
				match, mismatch, g = 2, -1, -6
			}
		}
		// a matrix may be larger than the alphabet (only smaller ones are refused): the surplus rows and columns,
		// filled with conspicuous scores, must never be read
		size := nl
		if k%5 == 1 && !inSweep {
			size = nl + 1 + rng.Intn(2)
		}
		m := matrix(size, func(i, j int) int {
			switch {
			case i >= nl || j >= nl:
				return 9 - 18*((i+j)%2)
			case i == 0 && j == 0:
				return 0
			case i == 0 || j == 0:
				if noisy {
					return g - rng.Intn(2)
				}
				return g
			case i == j:
				return match
			}
			if crossed && (i+2*j)%5 == 1 {
				// a favoured substitution: scores more than a letter against itself
				return match + 1 + (i+j)%4
			}
			if noisy {
				return mismatch + rng.Intn(3) - 1
			}
			return mismatch
		})
		// a parameter sweep: these cases write their scores into one long-lived matrix instead of handing the
		// aligners a fresh one (a result may depend on the scores at the time of the call only)
		if inSweep {
			if sweep[size] == nil {
				sweep[size] = matrix(size, func(i, j int) int { return 0 })
			}
			for i := range m {
				copy(sweep[size][i], m[i])
			}
			m = sweep[size]
		}
		open := -rng.Intn(8)
		lr, lq := 1+rng.Intn(maxLen), 1+rng.Intn(maxLen)
		r := make([]int, lr)
		for i := range r {
			r[i] = 1 + rng.Intn(nl-1)
		}
		// the query is a mutated piece of the reference, or unrelated
		q := make([]int, lq)
		off := 0
		if lr > lq {
			off = rng.Intn(lr - lq + 1)
		}
		for i := range q {
			if rng.Intn(4) != 0 && off+i < lr {
				q[i] = r[off+i]
			} else {
				q[i] = 1 + rng.Intn(nl-1)
			}
		}
		for _, name := range Aligners {
			record(w, name, a, r, q, m, open)
		}
	}
}

type rawSlicer struct {
	a  alphabet.Alphabet
	sl alphabet.Slice
}

func (r rawSlicer) Alphabet() alphabet.Alphabet { return r.a }
func (r rawSlicer) Slice() alphabet.Slice       { return r.sl }

var _ seq.Sequence = (*linear.Seq)(nil)

// IllTyped feeds every aligner inputs that must be rejected with an error.
func IllTyped(w *vt.W, rng *rand.Rand) {
	a := alphabet.DNAgapped
	good := matrix(5, func(i, j int) int {
		if i == j && i > 0 {
			return 2
		}
		if i == 0 && j == 0 {
			return 0
		}
		return -1
	})
	mk := func(s string, al alphabet.Alphabet) *linear.Seq {
		return linear.NewSeq("s", alphabet.BytesToLetters([]byte(s)), al)
	}
	mkq := func(s string, al alphabet.Alphabet) *linear.QSeq {
		ql := make([]alphabet.QLetter, len(s))
		for i := range ql {
			ql[i] = alphabet.QLetter{L: alphabet.Letter(s[i]), Q: 30}
		}
		return linear.NewQSeq("s", ql, al, alphabet.Sanger)
	}
	emit := func(name, kind string, al align.Aligner, r, q align.AlphabetSlicer) {
		_, es, ps, _ := call(al, r, q)
		w.Emit(vt.Ev{"ill": true, "aligner": name, "kind": kind, "err": es, "panic": ps, "r": []int{}, "q": []int{}, "M": [][]int{},
			"open": 0, "pairs": [][]int{}, "qpairs": [][]int{}, "fmt": [][]int{{}, {}}})
	}
	base := "acgtacg"
	for _, name := range Aligners {
		al := aligner(name, good, -2)
		// a letter outside the alphabet at every position of either sequence, plain and quality letters
		for _, bad := range []byte{'x', 'N', '*', 0, 255} {
			for p := 0; p < len(base); p++ {
				s := []byte(base)
				s[p] = bad
				emit(name, fmt.Sprintf("illegal letter %q in reference at %d", bad, p), al, mk(string(s), a), mk(base, a))
				emit(name, fmt.Sprintf("illegal letter %q in query at %d", bad, p), al, mk(base, a), mk(string(s), a))
				emit(name, fmt.Sprintf("illegal quality letter %q in reference at %d", bad, p), al, mkq(string(s), a), mkq(base, a))
				emit(name, fmt.Sprintf("illegal quality letter %q in query at %d", bad, p), al, mkq(base, a), mkq(string(s), a))
			}
		}
		// sequences of unequal length: the illegal letter lies beyond the end of the other sequence
		for _, bad := range []byte{'x', 0} {
			long := []byte(base + base)
			long[len(long)-2] = bad
			emit(name, fmt.Sprintf("illegal letter %q in the tail of a query longer than the reference", bad), al, mk("acg", a), mk(string(long), a))
			emit(name, fmt.Sprintf("illegal letter %q in the tail of a reference longer than the query", bad), al, mk(string(long), a), mk("acg", a))
			emit(name, fmt.Sprintf("illegal quality letter %q in the tail of a query longer than the reference", bad), al, mkq("acg", a), mkq(string(long), a))
			emit(name, fmt.Sprintf("illegal quality letter %q in the tail of a reference longer than the query", bad), al, mkq(string(long), a), mkq("acg", a))
		}
		emit(name, "differing alphabets", al, mk(base, a), mk("acguacg", alphabet.RNAgapped))
		// another alphabet of the same molecule type, length and gap letter, with the letters in another order
		if twin, err := alphabet.NewAlphabet("-tgca", feat.DNA, '-', 'n', false); err == nil {
			emit(name, "differing alphabets of equal type, length and gap", al, mk(base, a), mk(base, twin))
		}
		emit(name, "alphabet without gap at index 0", al, mk(base, alphabet.DNA), mk(base, alphabet.DNA))
		emit(name, "letters against quality letters", al, mk(base, a), mkq(base, a))
		emit(name, "quality letters against letters", al, mkq(base, a), mk(base, a))
		emit(name, "no alphabet", al, rawSlicer{nil, alphabet.Letters("acg")}, mk(base, a))
		ragged := matrix(5, func(i, j int) int { return good[i][j] })
		ragged[2] = ragged[2][:4]
		emit(name, "ragged matrix", aligner(name, ragged, -2), mk(base, a), mk(base, a))
		ragged2 := matrix(5, func(i, j int) int { return good[i][j] })
		ragged2[4] = append(ragged2[4], 0)
		emit(name, "ragged matrix (long last row)", aligner(name, ragged2, -2), mk(base, a), mk(base, a))
		// ragged, but with the right number of entries in total: row lengths that compensate each other
		for _, lens := range [][]int{{5, 4, 6, 5, 5}, {7, 5, 5, 5, 3}, {6, 4, 5, 5, 5}, {5, 5, 5, 4, 6}, {4, 6, 5, 5, 5}} {
			comp := make([][]int, 5)
			for i, n := range lens {
				comp[i] = make([]int, n)
				for j := range comp[i] {
					comp[i][j] = good[i%5][j%5]
				}
			}
			emit(name, fmt.Sprintf("ragged matrix with n*n entries %v", lens), aligner(name, comp, -2), mk(base, a), mk(base, a))
		}
		small := matrix(4, func(i, j int) int { return good[i][j] })
		emit(name, "undersized matrix", aligner(name, small, -2), mk(base, a), mk(base, a))
		emit(name, "undersized matrix, short sequences", aligner(name, matrix(2, func(i, j int) int { return -1 }), -2), mk("t", a), mk("g", a))
		emit(name, "empty matrix", aligner(name, [][]int{}, -2), mk(base, a), mk(base, a))
	}
}
