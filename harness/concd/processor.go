// Package concd drives package concurrent: gated replay of TLC schedules
// on a real Processor / Promise, and un-gated runs logged for TLC.
package concd

import (
	"bufio"
	"encoding/json"
	"fmt"
	"os"
	"sort"
	"strings"
	"sync/atomic"
	"time"

	"github.com/biogo/biogo/concurrent"

	"verif/harness/gate"
	"verif/harness/vt"
)

type op int

// panicOps: the operations that panic in the current run (set before the Processor is made).
var panicOpsV atomic.Value // map[int]bool, never modified after being stored

func setPanicOps(m map[int]bool) { panicOpsV.Store(m) }
func panics(i int) bool {
	m, _ := panicOpsV.Load().(map[int]bool)
	return m[i]
}

const panicPrefix = "concurrent: processor panic: p"

// resultOp decodes a Result: the operation it belongs to, and whether it is what that operation gives.
func resultOp(v interface{}, err error) (i int, ok bool) {
	if v == nil && err != nil && strings.HasPrefix(err.Error(), panicPrefix) {
		fmt.Sscanf(err.Error()[len(panicPrefix):], "%d", &i)
		return i, panics(i)
	}
	i, _ = v.(int)
	if panics(i) {
		return i, false
	}
	return i, (i%2 == 0) == (err != nil) && (err == nil || err.Error() == fmt.Sprintf("e%d", i))
}

func (o op) Operation() (interface{}, error) {
	if panics(int(o)) {
		panic(fmt.Sprintf("p%d", int(o)))
	}
	if o%2 == 0 {
		return int(o), fmt.Errorf("e%d", int(o))
	}
	return int(o), nil
}

// ProcSchedule is one behaviour of ProcessorGen.tla.
type ProcSchedule struct {
	T     int         `json:"t"`
	N     int         `json:"n"`
	B     int         `json:"b"`
	Q     int         `json:"q"`
	Bad   []int       `json:"bad"`
	Got   []int       `json:"got"`
	Sched []gate.Step `json:"sched"`
}

func isWorker(s string) bool { return strings.HasPrefix(s, "w") }

// RunProcSchedule forces one schedule on a real Processor.
func RunProcSchedule(id int, s ProcSchedule, timeout time.Duration) vt.Ev {
	ev := vt.Ev{"op": "procsched", "id": id, "t": s.T, "n": s.N, "b": s.B, "q": s.Q, "steps": len(s.Sched)}
	g := gate.New(timeout)
	nw := 0
	g.NameNew = func(site string) (string, error) {
		if site != "proc.start" {
			return "", fmt.Errorf("unknown goroutine arrived at %q", site)
		}
		nw++
		return fmt.Sprintf("w%d", nw), nil
	}
	g.Symmetric = func(q, q2 string) bool { return isWorker(q) && isWorker(q2) }
	var cur atomic.Value
	concurrent.VerifStep = func(owner interface{}, site string) {
		p, ok := owner.(*concurrent.Processor)
		if !ok {
			return
		}
		if c := cur.Load(); c != nil && c != p {
			return
		}
		g.Hook(site)
	}
	defer func() { concurrent.VerifStep = nil }()

	pm := map[int]bool{}
	for _, i := range s.Bad {
		pm[i] = true
	}
	setPanicOps(pm)
	ev["bad"] = append([]int{}, s.Bad...)
	queue := make(chan concurrent.Operator, s.Q)
	p := concurrent.NewProcessor(queue, s.B, s.T)
	cur.Store(p)

	mainDone, readerDone := make(chan struct{}), make(chan struct{})
	var got []int
	var badResult string
	api := func(me int64, site string) { g.Hook(site) }
	go func() {
		defer close(mainDone)
		me := gate.GoID()
		for i := 1; i <= s.N; i++ {
			api(me, "m.submit")
			p.Process(op(i))
		}
		api(me, "m.close")
		p.Close()
	}()
	go func() {
		defer close(readerDone)
		me := gate.GoID()
		for {
			api(me, "r.read")
			v, err := p.Result()
			if v == nil && err == nil {
				return // closed
			}
			i, ok := resultOp(v, err)
			if !ok {
				badResult = fmt.Sprintf("result (%v, %v) is not what any operation returned", v, err)
			}
			got = append(got, i)
		}
	}()
	waiterDone := make(chan struct{})
	go func() {
		defer close(waiterDone)
		g.Hook("x.wait")
		p.Wait()
		g.Hook("x.returned")
	}()
	// the harness goroutines identify themselves by their first gate
	base := g.NameNew
	g.NameNew = func(site string) (string, error) {
		switch site {
		case "m.submit", "m.close":
			return "m0", nil
		case "r.read":
			return "r0", nil
		case "x.wait":
			return "x0", nil
		}
		return base(site)
	}
	fail := func(step int, err error) vt.Ev {
		ev["ok"] = false
		ev["step"] = step
		ev["mismatch"] = err.Error()
		g.Abort(readerDone, 2*time.Second)
		return ev
	}
	// the model's initial state: every worker at proc.start, submitter and reader at their first gate
	for k := 1; k <= s.T; k++ {
		if err := g.Await(fmt.Sprintf("w%d", k), "proc.start"); err != nil {
			return fail(-1, err)
		}
	}
	first := "m.submit"
	if s.N == 0 {
		first = "m.close"
	}
	if err := g.Await("m0", first); err != nil {
		return fail(-1, err)
	}
	if err := g.Await("r0", "r.read"); err != nil {
		return fail(-1, err)
	}
	if err := g.Await("x0", "x.wait"); err != nil {
		return fail(-1, err)
	}
	for i, st := range s.Sched {
		if err := g.Exec(i, st, nil, nil); err != nil {
			return fail(i, err)
		}
	}
	for _, c := range []struct {
		ch   chan struct{}
		what string
	}{{mainDone, "the submitter"}, {readerDone, "the reader (result channel never closed)"}, {waiterDone, "the goroutine calling Wait"}} {
		select {
		case <-c.ch:
		case <-time.After(timeout):
			return fail(len(s.Sched), fmt.Errorf("%s did not finish within %v after the last step", c.what, timeout))
		}
	}
	waited := make(chan struct{})
	go func() { p.Wait(); close(waited) }()
	select {
	case <-waited:
	case <-time.After(timeout):
		return fail(len(s.Sched), fmt.Errorf("Wait did not return within %v", timeout))
	}
	g.Stop()
	sort.Ints(got)
	want := make([]int, s.N)
	for i := range want {
		want[i] = i + 1
	}
	ev["got"] = got
	if badResult != "" || fmt.Sprint(got) != fmt.Sprint(want) {
		ev["ok"] = false
		ev["mismatch"] = fmt.Sprintf("results %v for operations %v %s", got, want, badResult)
		return ev
	}
	ev["ok"] = true
	return ev
}

// ReplayProc runs schedules skip.. of a file; each is announced before it
// starts so that a crash (panic in a worker goroutine) can be attributed.
func ReplayProc(path, out string, skip int, timeout time.Duration) {
	f, err := os.Open(path)
	if err != nil {
		vt.Fatal("open %s: %v", path, err)
	}
	defer f.Close()
	o, err := os.OpenFile(out, os.O_APPEND|os.O_CREATE|os.O_WRONLY, 0644)
	if err != nil {
		vt.Fatal("open %s: %v", out, err)
	}
	defer o.Close()
	emit := func(e vt.Ev) {
		b, _ := json.Marshal(e)
		o.Write(append(b, '\n'))
	}
	sc := bufio.NewScanner(f)
	sc.Buffer(make([]byte, 1<<20), 1<<26)
	n, failures := 0, 0
	for sc.Scan() {
		if failures >= 6 {
			// enough divergences to report; each costs several time-outs
			emit(vt.Ev{"op": "stopped", "id": n})
			break
		}
		if n < skip {
			n++
			continue
		}
		var s ProcSchedule
		if err := json.Unmarshal(sc.Bytes(), &s); err != nil {
			vt.Fatal("schedule %d: %v", n, err)
		}
		emit(vt.Ev{"op": "begin", "id": n})
		ev := RunProcSchedule(n, s, timeout)
		if ev["ok"] != true {
			confirmed := false
			for k := 0; k < 2 && !confirmed; k++ {
				if ev2 := RunProcSchedule(n, s, 2*timeout); ev2["ok"] != true {
					confirmed, ev = true, ev2
				}
			}
			if !confirmed {
				ev["ok"], ev["retried"] = true, true
			} else {
				failures++
			}
		}
		emit(ev)
		n++
	}
}
