package concd

import (
	"math/rand"
	"time"

	"github.com/biogo/biogo/concurrent"

	"verif/harness/vt"
)

// PromiseSeq performs call sequences on real promises from one goroutine, for all eight flag
// combinations (spec/Concurrent/PromiseSeq.tla). A Wait is given 40 ms to return (2 s when the
// sequence so far says the promise is set); one that does not is recorded as blocked and ends the
// sequence (the goroutine stays parked on that promise, which is dropped).
func PromiseSeq(w *vt.W, rng *rand.Rand, n int, exhaustive bool) {
	slow := 0 // Waits that timed out although the calls so far suggest the promise is set: 2 s each
	run := func(mu, rc, re bool, ops [][2]int) {
		if slow >= 8 {
			return // enough of them for a verdict
		}
		pr := concurrent.NewPromise(mu, rc, re)
		out := []vt.Ev{}
		maybeSet := false
		for _, o := range ops {
			kind := "FXRBW"[o[0] : o[0]+1]
			ev := vt.Ev{"op": kind, "x": o[1], "err": 0, "ok": false, "v": 0, "e": 0, "blocked": false}
			var arg interface{}
			if o[1] != 0 {
				arg = o[1]
			}
			switch kind {
			case "F":
				err := pr.Fulfill(arg)
				ev["err"], ev["ok"] = errCode(err), err == nil
				maybeSet = true
			case "X":
				ev["ok"] = pr.Fail(arg, failErr)
				maybeSet = true
			case "R":
				ev["ok"] = pr.Recover(arg)
				maybeSet = false
			case "B":
				pr.Break()
				ev["x"] = 0
				maybeSet = false
			case "W":
				ev["x"] = 0
				ch := make(chan concurrent.Result, 1)
				go func() { ch <- <-pr.Wait() }()
				d := 40 * time.Millisecond
				if maybeSet {
					d = 2 * time.Second
				}
				select {
				case r := <-ch:
					v, _ := r.Value.(int)
					ev["v"], ev["e"] = v, errCode(r.Err)
				case <-time.After(d):
					ev["blocked"] = true
					if maybeSet {
						slow++
					}
				}
			}
			out = append(out, ev)
			if ev["blocked"] == true {
				break
			}
		}
		w.Emit(vt.Ev{"op": "promiseseq", "mutable": mu, "recoverable": rc, "relay": re, "ops": out})
	}
	flags := func(f int) (bool, bool, bool) { return f&1 != 0, f&2 != 0, f&4 != 0 }
	// operations: kind 0 F, 1 X, 2 R, 3 B, 4 W; argument 0 is nil
	alphabet := [][2]int{{0, 1}, {0, 2}, {0, 0}, {1, 0}, {1, 3}, {2, 0}, {2, 4}, {3, 0}, {4, 0}}
	if exhaustive {
		// every sequence of up to three calls, and every sequence of Fulfill/Fail/Wait of up to four, for every flag set
		var rec func(f int, seq [][2]int, max int, alpha [][2]int)
		rec = func(f int, seq [][2]int, max int, alpha [][2]int) {
			if len(seq) > 0 {
				mu, rc, re := flags(f)
				run(mu, rc, re, seq)
			}
			if len(seq) == max {
				return
			}
			for _, a := range alpha {
				// a Wait the model says blocks costs 40 ms: allow it only as the last call of short sequences
				rec(f, append(append([][2]int{}, seq...), a), max, alpha)
			}
		}
		fxw := [][2]int{{0, 1}, {0, 2}, {0, 0}, {1, 0}, {4, 0}}
		for f := 0; f < 8; f++ {
			rec(f, nil, 2, alphabet)
			rec(f, [][2]int{{0, 1}}, 4, fxw)
			rec(f, [][2]int{{0, 0}}, 4, fxw) // a promise fulfilled with nil is set all the same
			rec(f, [][2]int{{1, 0}}, 4, fxw)
		}
	}
	for i := 0; i < n; i++ {
		mu, rc, re := flags(rng.Intn(8))
		k := 1 + rng.Intn(7)
		seq := make([][2]int, k)
		for j := range seq {
			seq[j] = alphabet[rng.Intn(len(alphabet))]
			if j == 0 && seq[j][0] == 4 {
				seq[j] = [2]int{0, 1}
			}
		}
		run(mu, rc, re, seq)
	}
}
