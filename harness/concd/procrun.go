package concd

import (
	"fmt"
	"math/rand"
	"os"
	"runtime"
	"sort"
	"sync/atomic"
	"time"

	"github.com/biogo/biogo/concurrent"

	"verif/harness/vt"
)

type countOp struct {
	op
	ran *int32
}

func (c countOp) Operation() (interface{}, error) {
	atomic.AddInt32(c.ran, 1)
	return c.op.Operation()
}

// ProcRuns performs un-gated Processor runs: n operations through t workers.
// A panic in a worker goroutine kills the process; the caller (bin/check)
// treats that as the verdict for the run announced last on stderr.
func ProcRuns(w *vt.W, rng *rand.Rand, runs int) {
	maxT := runtime.GOMAXPROCS(0)
	badRuns := 0
	for id := 0; id < runs && badRuns < 5; id++ {
		t := 1 + rng.Intn(maxT)
		if rng.Intn(2) == 0 {
			t = 1 + rng.Intn(4)
		}
		// "any number of worker threads": requests outside 1..GOMAXPROCS are clamped to GOMAXPROCS by NewProcessor
		req := t
		if rng.Intn(6) == 0 {
			req = []int{0, -1, maxT + 1, maxT + 3}[rng.Intn(4)]
			t = maxT
		}
		ns := []int{0, 1, t - 1, t, t + 1, 2*t + 1, 3 * t}
		n := ns[rng.Intn(len(ns))]
		if n < 0 {
			n = 0
		}
		b := []int{0, 1, 2, t, n + 1}[rng.Intn(5)]
		q := 1 + rng.Intn(3)
		// some operations panic: fewer than there are workers, so that the queue is still drained
		panicOps := map[int]bool{}
		if t > 1 && n > 0 && rng.Intn(3) == 0 {
			for k := 0; k < 1+rng.Intn(t-1) && k < n; k++ {
				panicOps[1+rng.Intn(n)] = true
			}
		}
		setPanicOps(panicOps)
		fmt.Fprintf(os.Stderr, "procrun id=%d t=%d (requested %d) n=%d b=%d q=%d panics=%d\n", id, t, req, n, b, q, len(panicOps))
		if id%3 == 2 {
			// Wait right after Close, with room for every operation and result so that
			// nothing blocks: when Wait returns every operation must have been run
			var ran int32
			queue := make(chan concurrent.Operator, n+1)
			p := concurrent.NewProcessor(queue, n+1, req)
			for i := 1; i <= n; i++ {
				p.Process(countOp{op(i), &ran})
			}
			p.Close()
			p.Wait()
			done := int(atomic.LoadInt32(&ran))
			bad := ""
			if done != n {
				bad = fmt.Sprintf("Wait returned after Close with %d of %d operations run", done, n)
			}
			got := []int{}
			closed := false
			type res struct {
				v   interface{}
				err error
			}
			rc := make(chan res, 1)
			go func() {
				for {
					v, err := p.Result()
					rc <- res{v, err}
					if v == nil && err == nil {
						return
					}
				}
			}()
			deadline := time.After(10 * time.Second)
		drain:
			for {
				select {
				case r := <-rc:
					if r.v == nil && r.err == nil {
						closed = true
						break drain
					}
					i, ok := resultOp(r.v, r.err)
					if !ok {
						bad = fmt.Sprintf("result (%v, %v) is not what any operation returned", r.v, r.err)
					}
					got = append(got, i)
				case <-deadline:
					bad = "result channel not closed within 10s of Wait returning"
					break drain
				}
			}
			sort.Ints(got)
			if bad != "" || !closed {
				badRuns++ // each costs a time-out: a handful is enough for a verdict
			}
			w.Emit(vt.Ev{"op": "procrun", "id": id, "t": t, "n": n, "b": n + 1, "q": n + 1, "results": got, "closed": closed,
				"waited": true, "bad": bad})
			continue
		}
		queue := make(chan concurrent.Operator, q)
		p := concurrent.NewProcessor(queue, b, req)
		go func() {
			for i := 1; i <= n; i++ {
				p.Process(op(i))
			}
			p.Close()
		}()
		var got []int
		bad := ""
		closed := false
		deadline := time.After(10 * time.Second)
		res := make(chan [2]interface{}, 1)
		go func() {
			for {
				v, err := p.Result()
				res <- [2]interface{}{v, err}
				if v == nil && err == nil {
					return
				}
			}
		}()
	loop:
		for {
			select {
			case r := <-res:
				if r[0] == nil && r[1] == nil {
					closed = true
					break loop
				}
				var err error
				if r[1] != nil {
					err = r[1].(error)
				}
				i, ok := resultOp(r[0], err)
				if !ok {
					bad = fmt.Sprintf("result (%v, %v) is not what any operation returned", r[0], r[1])
				}
				got = append(got, i)
			case <-deadline:
				bad = "result channel not closed within 10s"
				break loop
			}
		}
		waited := false
		wd := make(chan struct{})
		go func() { p.Wait(); close(wd) }()
		select {
		case <-wd:
			waited = true
		case <-time.After(5 * time.Second):
		}
		sort.Ints(got)
		if got == nil {
			got = []int{}
		}
		if bad != "" || !closed || !waited {
			badRuns++
		}
		w.Emit(vt.Ev{"op": "procrun", "id": id, "t": t, "n": n, "b": b, "q": q, "results": got, "closed": closed,
			"waited": waited, "bad": bad})
	}
}
