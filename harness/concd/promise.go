package concd

// Steered executions of a real concurrent.Promise: goroutines are held at
// the verif hooks, released in a chosen order, and everything observed is
// logged for PromiseTrace.tla.

import (
	"errors"
	"fmt"
	"math/rand"
	"sort"
	"sync"
	"sync/atomic"
	"time"

	"github.com/biogo/biogo/concurrent"

	"verif/harness/gate"
	"verif/harness/vt"
)

var failErr = errors.New("E9")

func errCode(err error) int {
	switch {
	case err == nil:
		return 0
	case err == failErr:
		return 9
	}
	s := err.Error()
	switch {
	case len(s) >= 47 && s[:47] == "concurrent: attempt to fulfill failed promise: ":
		return -1
	case s == "concurrent: attempt to fulfill already set immutable promise":
		return -2
	case len(s) >= 36 && s[:36] == "concurrent: promise already failed -":
		return -3
	}
	return -99
}

var promMu sync.Mutex

// RunPromiseCase performs one steered execution; plan is the preferred release order.
func RunPromiseCase(id int, mu, re bool, kinds [4]string, plan []int, rng *rand.Rand) vt.Ev {
	promMu.Lock()
	defer promMu.Unlock()
	g := gate.New(time.Second)
	var evs []vt.Ev
	num := func(p string) int { return int(p[1] - '0') }
	g.OnArrive = func(p, site string) {
		if site != "call" {
			evs = append(evs, vt.Ev{"e": "arr", "p": num(p), "g": site})
		}
	}
	var cur atomic.Value
	concurrent.VerifStep = func(owner interface{}, site string) {
		if p, ok := owner.(*concurrent.Promise); ok && cur.Load() == p {
			g.Hook(site)
		}
	}
	defer func() { concurrent.VerifStep = nil }()
	pr := concurrent.NewPromise(mu, false, re)
	cur.Store(pr)

	type ret struct {
		p  int
		ev vt.Ev
	}
	rets := make(chan ret, 8)
	nprocs := 0
	registered := make(chan struct{}, 4)
	var regMu sync.Mutex
	for k := 1; k <= 4; k++ {
		if kinds[k-1] == "none" {
			continue
		}
		nprocs++
		go func(k int, kind string) {
			regMu.Lock()
			g.Register(gate.GoID(), fmt.Sprintf("p%d", k))
			regMu.Unlock()
			registered <- struct{}{}
			g.Hook("call")
			switch kind {
			case "F":
				err := pr.Fulfill(k)
				rets <- ret{k, vt.Ev{"e": "ret", "p": k, "err": errCode(err), "ok": err == nil, "v": 0}}
			case "X":
				ok := pr.Fail(nil, failErr)
				rets <- ret{k, vt.Ev{"e": "ret", "p": k, "err": 0, "ok": ok, "v": 0}}
			case "W":
				r := <-pr.Wait()
				v, _ := r.Value.(int)
				rets <- ret{k, vt.Ev{"e": "ret", "p": k, "err": errCode(r.Err), "ok": true, "v": v}}
			}
		}(k, kinds[k-1])
	}
	for i := 0; i < nprocs; i++ {
		<-registered
	}
	returned := map[int]bool{}
	collectRets := func() {
		for {
			select {
			case r := <-rets:
				returned[r.p] = true
				evs = append(evs, r.ev)
			default:
				return
			}
		}
	}
	bad := ""
	idle := 0
	for steps := 0; steps < 64 && len(returned) < nprocs && bad == ""; steps++ {
		if err := g.Collect(250 * time.Microsecond); err != nil {
			bad = err.Error()
			break
		}
		collectRets()
		if len(returned) == nprocs {
			break
		}
		var cands []string
		for p := range g.Pending {
			cands = append(cands, p)
		}
		sort.Strings(cands)
		if len(cands) == 0 {
			idle++
			if idle > 12 { // ~ 60 ms with nothing moving: blocked for good
				break
			}
			g.Collect(5 * time.Millisecond)
			collectRets()
			continue
		}
		idle = 0
		pick := cands[rng.Intn(len(cands))]
		for len(plan) > 0 {
			want := fmt.Sprintf("p%d", plan[0])
			plan = plan[1:]
			if _, ok := g.Pending[want]; ok {
				pick = want
				break
			}
		}
		site, _ := g.ReleaseProc(pick)
		evs = append(evs, vt.Ev{"e": "rel", "p": num(pick), "g": site})
	}
	g.Collect(250 * time.Microsecond)
	collectRets()
	alive := []int{}
	for k := 1; k <= 4; k++ {
		if kinds[k-1] != "none" && !returned[k] {
			alive = append(alive, k)
		}
	}
	evs = append(evs, vt.Ev{"e": "end", "alive": alive})
	// let whatever is left run out (sleeping Waits are woken by a last Fulfill)
	g.Stop()
	for p := range g.Pending {
		g.ReleaseProc(p)
	}
	if len(alive) > 0 {
		done := make(chan struct{})
		go func() { pr.Fulfill(99); close(done) }()
		select {
		case <-done:
		case <-time.After(200 * time.Millisecond):
		}
	}
	e := vt.Ev{"id": id, "mu": mu, "re": re, "kinds": kinds[:], "ev": evs}
	if bad != "" {
		e["harness"] = bad
	}
	return e
}

var kindNames = []string{"none", "F", "X", "W"}

// PromiseRandom runs n steered executions with random call sets and release orders.
func PromiseRandom(w *vt.W, rng *rand.Rand, n int) {
	for id := 0; id < n; id++ {
		var kinds [4]string
		for {
			c := 0
			for i := range kinds {
				kinds[i] = kindNames[rng.Intn(4)]
				if kinds[i] != "none" {
					c++
				}
			}
			if c >= 2 {
				break
			}
		}
		plan := make([]int, 16)
		for i := range plan {
			plan[i] = 1 + rng.Intn(4)
		}
		w.Emit(RunPromiseCase(id, false, rng.Intn(2) == 0, kinds, plan, rng))
	}
}
