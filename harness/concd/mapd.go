package concd

import (
	"fmt"
	"math/rand"
	"sort"
	"sync"
	"sync/atomic"
	"time"

	"github.com/biogo/biogo/concurrent"

	"verif/harness/vt"
)

// span is a Mapper whose Operation reports the bounds it was given. Slice calls are counted: a Map that
// keeps slicing (more calls than any partition needs) is parked so that a runaway cannot eat the memory.
type span struct {
	lo, hi int
	calls  *int64
	limit  int64
	log    *sliceLog // where Slice records the bounds it was asked for
	nilres bool      // chunks starting at an odd position return (nil, nil): still one result each
}

type sliceLog struct {
	mu sync.Mutex
	bs [][2]int
}

func (s span) Operation() (interface{}, error) {
	if s.nilres && s.lo%2 == 1 {
		return nil, nil
	}
	return [2]int{s.lo, s.hi}, nil
}
func (s span) Slice(i, j int) concurrent.Mapper {
	if atomic.AddInt64(s.calls, 1) > s.limit {
		select {} // runaway: park for ever, the watchdog reports it
	}
	if s.log != nil {
		s.log.mu.Lock()
		s.log.bs = append(s.log.bs, [2]int{s.lo + i, s.lo + j})
		s.log.mu.Unlock()
	}
	return span{s.lo + i, s.lo + j, s.calls, s.limit, nil, s.nilres}
}
func (s span) Len() int { return s.hi - s.lo }

// MapCalls logs calls of concurrent.Map over spans.
func MapCalls(w *vt.W, rng *rand.Rand, nrandom int, exhaustive bool) {
	hung := false
	one := func(n, threads, maxChunk int) {
		if hung {
			return
		}
		var calls int64
		var sl sliceLog
		nilres := (n+threads+maxChunk)%3 == 0
		type ret struct {
			res []interface{}
			err error
		}
		ch := make(chan ret, 1)
		go func() {
			// a panic in the calling goroutine (not in a worker) is what the caller would see: a result of the call
			defer func() {
				if p := recover(); p != nil {
					ch <- ret{nil, fmt.Errorf("Map panicked: %v", p)}
				}
			}()
			r, e := concurrent.Map(span{0, n, &calls, int64(10*n + 10), &sl, nilres}, threads, maxChunk)
			ch <- ret{r, e}
		}()
		var res []interface{}
		var err error
		select {
		case r := <-ch:
			res, err = r.res, r.err
		case <-time.After(30 * time.Second):
			hung = true
			w.Emit(vt.Ev{"op": "map", "n": n, "threads": threads, "maxchunk": maxChunk,
				"err": fmt.Sprintf("Map did not return within 30 s (%d Slice calls)", atomic.LoadInt64(&calls)), "results": 0, "chunks": [][2]int{}})
			return
		}
		// the chunks are what Map asked Slice for; every non-nil result must be one of them
		sl.mu.Lock()
		chunks := append([][2]int{}, sl.bs...)
		sl.mu.Unlock()
		sort.Slice(chunks, func(i, j int) bool { return chunks[i][0] < chunks[j][0] })
		nonnil, seen := 0, map[[2]int]int{}
		for _, r := range res {
			if c, ok := r.([2]int); ok {
				nonnil++
				seen[c]++
			}
		}
		for _, c := range chunks {
			if !(nilres && c[0]%2 == 1) {
				if seen[c] != 1 && err == nil {
					err = fmt.Errorf("harness: chunk %v has %d results", c, seen[c])
				}
			}
		}
		_ = nonnil
		w.Emit(vt.Ev{"op": "map", "n": n, "threads": threads, "maxchunk": maxChunk, "err": vt.ErrStr(err),
			"results": len(res), "chunks": chunks})
	}
	if exhaustive {
		for n := 0; n <= 12; n++ {
			for th := 1; th <= 4; th++ {
				for mc := 1; mc <= 5; mc++ {
					one(n, th, mc)
				}
			}
		}
	}
	for i := 0; i < nrandom; i++ {
		one(rng.Intn(200), 1+rng.Intn(16), 1+rng.Intn(40))
	}
}

// LazyRuns exercises concurrent.Lazily with a counting evaluator.
func LazyRuns(w *vt.W, rng *rand.Rand, runs int) {
	for id := 0; id < runs; id++ {
		la := rng.Intn(5)
		calls := 1 + rng.Intn(30)
		reapAt := -1
		if rng.Intn(2) == 0 {
			reapAt = rng.Intn(calls)
		}
		var produced int32
		reaper := make(chan struct{})
		next := concurrent.Lazily(func(state ...interface{}) (interface{}, concurrent.State) {
			n := state[0].(int) + 1
			atomic.StoreInt32(&produced, int32(n))
			return n, concurrent.State{n}
		}, la, reaper, 0)
		values := []int{}
		ahead := 0
		for c := 0; c < calls; c++ {
			if c == reapAt {
				close(reaper)
			}
			if rng.Intn(3) == 0 {
				time.Sleep(time.Duration(rng.Intn(200)) * time.Microsecond)
			}
			v := next()
			n, _ := v.(int)
			values = append(values, n)
			if n > 0 {
				if a := int(atomic.LoadInt32(&produced)) - n; a > ahead {
					ahead = a
				}
			}
		}
		if reapAt < 0 {
			close(reaper)
		}
		w.Emit(vt.Ev{"op": "lazy", "id": id, "la": la, "values": values, "ahead": ahead, "reapat": reapAt})
	}
}
