// Command vutil drives util functions for the extension specifications (spec/Util).
package main

import (
	"flag"
	"fmt"
	"os"

	"verif/harness/utild"
	"verif/harness/vt"
)

func main() {
	if len(os.Args) < 2 {
		vt.Fatal("usage: vutil debruijn [flags]")
	}
	fs := flag.NewFlagSet("vutil", flag.ExitOnError)
	out := fs.String("out", "", "output ndjson")
	max := fs.Int("max", 300, "largest sequence length")
	n := fs.Int("n", 500, "random histories (mode wrapper)")
	seed := fs.Int64("seed", 1, "seed")
	fs.Parse(os.Args[2:])
	w := vt.Create(*out)
	switch os.Args[1] {
	case "debruijn":
		utild.DeBruijn(w, *max)
	case "wrapper":
		utild.Wrappers(w, vt.Rand(*seed, "wrapper"), *n)
	default:
		vt.Fatal("unknown mode %s", os.Args[1])
	}
	w.Close()
	fmt.Printf("events=%d\n", w.N)
}
