// Command vkmer runs the Go side of the k-mer index check (property C10):
// drivers that exercise the real index/kmerindex code and log ndjson traces.
//
//	vkmer kmer cases  -in cases.ndjson -out trace.ndjson   cases emitted by TLC (or stored replays)
//	vkmer kmer random -seed S -n N [-big] -out trace.ndjson
//	vkmer kmer words  -seed S -n N [-big] -out trace.ndjson
package main

import (
	"flag"
	"os"

	_ "verif/harness/kmerd"
	"verif/harness/vt"
)

func main() {
	if len(os.Args) < 3 {
		vt.Fatal("usage: vkmer kmer <cases|random|words> [flags]")
	}
	sub, mode := os.Args[1], os.Args[2]
	fs := flag.NewFlagSet(sub, flag.ExitOnError)
	seed := fs.Int64("seed", 1, "random seed")
	out := fs.String("out", "", "output trace (ndjson)")
	in := fs.String("in", "", "input cases (ndjson)")
	n := fs.Int("n", 100, "number of random cases")
	big := fs.Bool("big", false, "include large sizes")
	fs.Parse(os.Args[3:])
	f, ok := vt.Commands[sub+"/"+mode]
	if !ok {
		vt.Fatal("unknown command %s %s", sub, mode)
	}
	if *out == "" {
		vt.Fatal("-out is required")
	}
	f(vt.Args{Seed: *seed, Out: *out, In: *in, N: *n, Big: *big})
}
