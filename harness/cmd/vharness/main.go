// Command vharness runs the Go side of the conformance checks: drivers
// that exercise the real biogo code and log ndjson traces, and replayers
// that execute TLC-generated behaviours on the real code.
package main

import (
	"flag"
	"fmt"
	"os"
	"time"

	"verif/harness/concd"
	"verif/harness/formatsd"
	"verif/harness/morassd"
	"verif/harness/vt"
)

func main() {
	if len(os.Args) < 3 {
		vt.Fatal("usage: vharness <subsystem> <mode> [flags]")
	}
	sub, mode := os.Args[1], os.Args[2]
	fs := flag.NewFlagSet(sub, flag.ExitOnError)
	seed := fs.Int64("seed", 1, "random seed")
	out := fs.String("out", "", "output trace (ndjson)")
	in := fs.String("in", "", "input behaviours (ndjson)")
	n := fs.Int("n", 100, "number of random cases")
	conc := fs.Bool("conc", false, "force concurrent mode")
	big := fs.Bool("big", false, "include large sizes")
	tmo := fs.Int("timeout-ms", 5000, "arrival timeout for gated replays")
	skip := fs.Int("skip", 0, "schedules to skip")
	kd := fs.Int("kd", 8, "key divisor used by the model that emitted -in")
	fs.Parse(os.Args[3:])
	_ = in

	switch sub + "/" + mode {
	case "morass/replay":
		w := vt.Create(*out)
		k := morassd.Replay(w, *in, *kd, *seed)
		w.Close()
		fmt.Printf("replayed=%d events=%d\n", k, w.N)
	case "morass/random":
		w := vt.Create(*out)
		vt.StallGuard(w, 60*time.Second)
		morassd.Random(w, vt.Rand(*seed, "morass"), *n, *big, *conc)
		w.Close()
		fmt.Printf("cases=%d events=%d\n", *n, w.N)
	case "morass/conctrace":
		w := vt.Create(*out)
		vt.StallGuard(w, 30*time.Second)
		morassd.ConcTraces(w, vt.Rand(*seed, "morassconc"), *n)
		w.Close()
		fmt.Printf("runs=%d events=%d\n", *n, w.N)
	case "formats/random":
		w := vt.Create(*out)
		formatsd.Random(w, vt.Rand(*seed, "formats"), *n, *big)
		w.Close()
		fmt.Printf("events=%d\n", w.N)
	case "formats/emitted":
		w := vt.Create(*out)
		k := formatsd.ReadEmitted(w, *in)
		w.Close()
		fmt.Printf("files=%d\n", k)
	case "conc/map":
		w := vt.Create(*out)
		concd.MapCalls(w, vt.Rand(*seed, "map"), *n, true)
		concd.LazyRuns(w, vt.Rand(*seed, "lazy"), *n)
		w.Close()
		fmt.Printf("calls=%d\n", w.N)
	case "conc/procrun":
		w := vt.Create(*out)
		concd.ProcRuns(w, vt.Rand(*seed, "procrun"), *n)
		w.Close()
		fmt.Printf("runs=%d\n", w.N)
	case "conc/promise":
		w := vt.Create(*out)
		concd.PromiseRandom(w, vt.Rand(*seed, "promise"), *n)
		w.Close()
		fmt.Printf("executions=%d\n", *n)
	case "conc/promiseseq":
		w := vt.Create(*out)
		concd.PromiseSeq(w, vt.Rand(*seed, "promiseseq"), *n, true)
		w.Close()
		fmt.Printf("sequences=%d\n", w.N)
	case "conc/procsched":
		concd.ReplayProc(*in, *out, *skip, time.Duration(*tmo)*time.Millisecond)
	case "morass/faults":
		w := vt.Create(*out)
		morassd.Faults(w, vt.Rand(*seed, "morassfault"), *n)
		w.Close()
		fmt.Printf("runs=%d\n", *n)
	case "morass/sched":
		w := vt.Create(*out)
		k, bad := morassd.ReplaySchedules(w, *in, time.Duration(*tmo)*time.Millisecond)
		w.Close()
		fmt.Printf("schedules=%d mismatched=%d\n", k, bad)
	default:
		if f, ok := vt.Commands[sub+"/"+mode]; ok {
			f(vt.Args{Seed: *seed, Out: *out, In: *in, N: *n, Big: *big, Conc: *conc, Timeout: *tmo, Skip: *skip, KD: *kd})
			return
		}
		vt.Fatal("unknown command %s %s", sub, mode)
	}
}
