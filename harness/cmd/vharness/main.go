// Command vharness runs the Go side of the conformance checks: drivers
// that exercise the real biogo code and log ndjson traces, and replayers
// that execute TLC-generated behaviours on the real code.
package main

import (
	"flag"
	"fmt"
	"os"

	"verif/harness/morassd"
	"verif/harness/vt"
)

func main() {
	if len(os.Args) < 3 {
		vt.Fatal("usage: vharness <subsystem> <mode> [flags]")
	}
	sub, mode := os.Args[1], os.Args[2]
	fs := flag.NewFlagSet(sub, flag.ExitOnError)
	seed := fs.Int64("seed", 1, "random seed")
	out := fs.String("out", "", "output trace (ndjson)")
	in := fs.String("in", "", "input behaviours (ndjson)")
	n := fs.Int("n", 100, "number of random cases")
	big := fs.Bool("big", false, "include large sizes")
	kd := fs.Int("kd", 8, "key divisor used by the model that emitted -in")
	fs.Parse(os.Args[3:])
	_ = in

	switch sub + "/" + mode {
	case "morass/replay":
		w := vt.Create(*out)
		k := morassd.Replay(w, *in, *kd, *seed)
		w.Close()
		fmt.Printf("replayed=%d events=%d\n", k, w.N)
	case "morass/random":
		w := vt.Create(*out)
		morassd.Random(w, vt.Rand(*seed, "morass"), *n, *big)
		w.Close()
		fmt.Printf("cases=%d events=%d\n", *n, w.N)
	default:
		vt.Fatal("unknown command %s %s", sub, mode)
	}
}
