// Command valphabet is the Go side of the C17 check (biogo/alphabet):
//
//	valphabet builtins -seed S -n N -out F   the 7 built-in alphabets, every accessor over all 256 letters,
//	                                         AllValid on all short and N random slices per alphabet, and on
//	                                         slices with runs of letters >= 128 (well-formed UTF-8 whose code
//	                                         point has the low byte of a valid letter, malformed runs)
//	valphabet cases -in CASES -out F         the definitions of an ndjson file (emitted by TLC from the
//	                                         bounded model of Alphabet.tla, or a replay file)
//	valphabet random -seed S -n N -out F     N random alphabets, pairings, complementors, slices and slices
//	                                         with runs of letters >= 128 each
package main

import (
	"flag"
	"fmt"
	"os"

	"verif/harness/alphabetd"
	"verif/harness/vt"
)

func main() {
	if len(os.Args) < 2 {
		vt.Fatal("usage: valphabet builtins|cases|random [flags]")
	}
	mode := os.Args[1]
	fs := flag.NewFlagSet(mode, flag.ExitOnError)
	seed := fs.Int64("seed", 1, "random seed")
	n := fs.Int("n", 100, "number of random cases")
	in := fs.String("in", "", "input cases (ndjson)")
	out := fs.String("out", "", "output trace (ndjson)")
	fs.Parse(os.Args[2:])
	if *out == "" {
		vt.Fatal("-out is required")
	}
	w := vt.Create(*out)
	switch mode {
	case "builtins":
		alphabetd.BuiltinDump(w, vt.Rand(*seed, "alphabet-builtins"), *n)
	case "cases":
		if *in == "" {
			vt.Fatal("-in is required")
		}
		alphabetd.Cases(w, *in)
	case "random":
		alphabetd.Random(w, vt.Rand(*seed, "alphabet-random"), *n)
	default:
		vt.Fatal("unknown mode %s", mode)
	}
	w.Close()
	fmt.Printf("events=%d\n", w.N)
}
