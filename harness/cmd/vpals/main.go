// Command vpals drives the PALS pipeline for the check C15.
package main

import (
	"flag"
	"fmt"
	"os"

	"verif/harness/palsd"
	"verif/harness/vt"
)

func main() {
	fs := flag.NewFlagSet("vpals", flag.ExitOnError)
	seed := fs.Int64("seed", 1, "seed")
	n := fs.Int("n", 20, "cases")
	maxLen := fs.Int("len", 6000, "maximal sequence length")
	out := fs.String("out", "", "output ndjson")
	regions := fs.Int("regions", 3, "log the regions of the first hit of every n-th case")
	in := fs.String("in", "", "recorded comparison to repeat (mode witness)")
	fs.Parse(os.Args[2:])
	palsd.RegionEvery = *regions
	w := vt.Create(*out)
	vt.MemGuard(w, 6<<30, func() vt.Ev { return vt.Ev{"case": palsd.Current.Load()} })
	rng := vt.Rand(*seed, "pals")
	if os.Args[1] == "packs" {
		palsd.Packs(w, rng, *n)
	} else if os.Args[1] == "witness" {
		palsd.Witness(w, *in)
	} else if os.Args[1] == "selfsweep" {
		palsd.SelfSweep(w, rng, *n)
	} else {
		for i := 0; i < *n; i++ {
			palsd.Case(w, rng, i, *maxLen)
		}
		palsd.GapSeries(w, 40+*n/5)
		palsd.StrandSeries(w, 150+*n/4)
	}
	w.Close()
	fmt.Printf("records=%d\n", w.N)
}
