// Command vqgram drives the PALS q-gram filter for the check C14.
package main

import (
	"flag"
	"fmt"
	"os"

	"verif/harness/qgramd"
	"verif/harness/vt"
)

func main() {
	if len(os.Args) < 2 {
		vt.Fatal("usage: vqgram small|planted [flags]")
	}
	fs := flag.NewFlagSet("vqgram", flag.ExitOnError)
	seed := fs.Int64("seed", 1, "seed")
	n := fs.Int("n", 100, "cases")
	maxLen := fs.Int("len", 200, "maximal sequence length")
	out := fs.String("out", "", "output ndjson")
	fs.Parse(os.Args[2:])
	w := vt.Create(*out)
	rng := vt.Rand(*seed, "qgram"+os.Args[1])
	switch os.Args[1] {
	case "small":
		qgramd.Small(w, rng, *n)
	case "planted":
		qgramd.Planted(w, rng, *n, *maxLen)
	default:
		vt.Fatal("unknown mode %s", os.Args[1])
	}
	w.Close()
	fmt.Printf("records=%d\n", w.N)
}
