// Command valign drives biogo's pairwise aligners for the checks C08 and C09.
package main

import (
	"flag"
	"fmt"
	"os"

	"verif/harness/alignd"
	"verif/harness/vt"
)

func main() {
	if len(os.Args) < 2 {
		vt.Fatal("usage: valign bounded|random|ill [flags]")
	}
	fs := flag.NewFlagSet("valign", flag.ExitOnError)
	seed := fs.Int64("seed", 1, "seed")
	n := fs.Int("n", 10, "matrices / cases")
	maxLen := fs.Int("len", 3, "maximal sequence length")
	out := fs.String("out", "", "output ndjson")
	in := fs.String("in", "", "calls to repeat (mode calls)")
	fs.Parse(os.Args[2:])
	w := vt.Create(*out)
	rng := vt.Rand(*seed, "align"+os.Args[1])
	switch os.Args[1] {
	case "bounded":
		alignd.Bounded(w, rng, *n, *maxLen)
	case "random":
		alignd.Random(w, rng, *n, *maxLen)
	case "calls":
		alignd.Calls(w, *in)
	case "ill":
		alignd.IllTyped(w, rng)
	case "matrices":
		alignd.Matrices(w)
	default:
		vt.Fatal("unknown mode %s", os.Args[1])
	}
	w.Close()
	fmt.Printf("records=%d\n", w.N)
}
