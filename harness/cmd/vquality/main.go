// Command vquality runs the Go side of the C18 conformance check: it dumps the
// quality score functions of biogo over their whole 8-bit domains, a dense sample
// of probabilities, and accessor calls on small quality sequences, as ndjson.
//
//	vquality all|tables|samples|seqs -seed S -n N -out FILE
//	vquality replay -in EVENTS -out FILE
package main

import (
	"flag"
	"fmt"
	"os"

	"verif/harness/qualityd"
	"verif/harness/vt"
)

func main() {
	if len(os.Args) < 2 {
		vt.Fatal("usage: vquality all|tables|samples|seqs|replay [flags]")
	}
	mode := os.Args[1]
	fs := flag.NewFlagSet(mode, flag.ExitOnError)
	seed := fs.Int64("seed", 1, "random seed")
	n := fs.Int("n", 1000, "number of random cases (probability samples; sequence calls = n/2)")
	out := fs.String("out", "", "output trace (ndjson)")
	in := fs.String("in", "", "events to replay (ndjson)")
	fs.Parse(os.Args[2:])
	if *out == "" {
		vt.Fatal("-out is required")
	}
	w := vt.Create(*out)
	switch mode {
	case "all":
		qualityd.Tables(w)
		qualityd.Samples(w, vt.Rand(*seed, "quality-samples"), *n)
		qualityd.Seqs(w, vt.Rand(*seed, "quality-seqs"), *n/2)
	case "tables":
		qualityd.Tables(w)
	case "samples":
		qualityd.Samples(w, vt.Rand(*seed, "quality-samples"), *n)
	case "seqs":
		qualityd.Seqs(w, vt.Rand(*seed, "quality-seqs"), *n/2)
	case "replay":
		if *in == "" {
			vt.Fatal("replay needs -in")
		}
		qualityd.Replay(w, *in)
	default:
		vt.Fatal("unknown mode %s", mode)
	}
	w.Close()
	fmt.Printf("events=%d\n", w.N)
}
