// Command vpiler runs the Go side of the C16 check: it replays Add sequences
// emitted by TLC from spec/Piler/Piler.tla (optionally in every order) and random
// larger instances on a real pals.Piler and logs what the piler reports as ndjson.
package main

import (
	"flag"
	"fmt"
	"os"

	"verif/harness/pilerd"
	"verif/harness/vt"
)

func main() {
	if len(os.Args) < 2 {
		vt.Fatal("usage: vpiler replay|random [flags]")
	}
	mode := os.Args[1]
	fs := flag.NewFlagSet(mode, flag.ExitOnError)
	seed := fs.Int64("seed", 1, "random seed")
	out := fs.String("out", "", "output trace (ndjson)")
	in := fs.String("in", "", "Add sequences emitted by TLC (ndjson)")
	n := fs.Int("n", 100, "number of random instances")
	maxPairs := fs.Int("pairs", 40, "largest number of pairs of a random instance")
	perm := fs.Bool("perm", false, "replay every distinct ordering of each emitted sequence")
	corrupt := fs.String("corrupt", "", "self-test: falsify one logged field (to|member|mate|loc|dup|unplaced|seen|spanim)")
	fs.Parse(os.Args[2:])
	if *out == "" {
		vt.Fatal("-out is required")
	}
	w := vt.Create(*out)
	switch mode {
	case "replay":
		b, k := pilerd.Replay(w, *in, vt.Rand(*seed, "piler-replay"), *perm, *corrupt)
		w.Close()
		fmt.Printf("behaviours=%d instances=%d\n", b, k)
	case "random":
		pilerd.Random(w, vt.Rand(*seed, "piler-random"), *n, *maxPairs)
		w.Close()
		fmt.Printf("instances=%d\n", *n)
		fmt.Printf("probe_add_after_piles=%s\n", pilerd.ProbeAddAfterPiles())
	default:
		vt.Fatal("unknown mode %s", mode)
	}
}
