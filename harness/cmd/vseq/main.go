// Command vseq drives biogo's sequence types for the checks C05, C06, C07.
package main

import (
	"flag"
	"fmt"
	"os"

	"verif/harness/seqd"
	"verif/harness/vt"
)

func main() {
	if len(os.Args) < 2 {
		vt.Fatal("usage: vseq histories|calls [flags]")
	}
	fs := flag.NewFlagSet("vseq", flag.ExitOnError)
	seed := fs.Int64("seed", 1, "seed")
	n := fs.Int("n", 100, "cases")
	out := fs.String("out", "", "output ndjson")
	small := fs.Bool("small", false, "tiny sizes")
	in := fs.String("in", "", "histories emitted by TLC")
	stride := fs.Int("stride", 1, "replay every stride-th history")
	fs.Parse(os.Args[2:])
	w := vt.Create(*out)
	switch os.Args[1] {
	case "histories":
		seqd.Histories(w, vt.Rand(*seed, "seqhist"), *n, *small)
	case "replay":
		k := seqd.Replay(w, *in, *stride, int(*seed))
		fmt.Printf("histories=%d ", k)
	case "qualcalls":
		seqd.QualCalls(w, vt.Rand(*seed, "seqqual"), *n)
	case "multiext":
		seqd.MultiExt(w, vt.Rand(*seed, "seqmultiext"), *n, *small)
	case "calls":
		seqd.Calls(w, vt.Rand(*seed, "seqcalls"), *n, *small)
	default:
		vt.Fatal("unknown mode %s", os.Args[1])
	}
	w.Close()
	fmt.Printf("events=%d\n", w.N)
}
