// Package vt holds the small amount of plumbing shared by all drivers:
// an ndjson event writer and a seeded random source.
package vt

import (
	"bufio"
	"encoding/json"
	"fmt"
	"math/rand"
	"os"
	"runtime"
	"sync"
	"sync/atomic"
	"time"
)

// Ev is one trace event.
type Ev map[string]interface{}

// W writes ndjson.
type W struct {
	mu sync.Mutex
	f  *os.File
	b  *bufio.Writer
	N  int
}

func Create(path string) *W {
	f, err := os.Create(path)
	if err != nil {
		Fatal("create %s: %v", path, err)
	}
	return &W{f: f, b: bufio.NewWriterSize(f, 1<<20)}
}

func (w *W) Emit(e Ev) {
	b, err := json.Marshal(e)
	if err != nil {
		Fatal("marshal: %v", err)
	}
	w.mu.Lock()
	defer w.mu.Unlock()
	w.b.Write(b)
	w.b.WriteByte('\n')
	w.N++
}

func (w *W) Close() {
	w.mu.Lock()
	defer w.mu.Unlock()
	w.b.Flush()
	w.f.Close()
}

// MemGuard watches the heap of a driver process. An implementation under test that allocates without bound on
// a small input would otherwise take the machine down (and other checks with it): when the heap exceeds limit
// bytes the guard writes a final event {"op": "runaway", ...what()}, closes the trace and ends the process with
// status 0, so that the check judges what was recorded and reports the runaway itself.
func MemGuard(w *W, limit uint64, what func() Ev) {
	go func() {
		var ms runtime.MemStats
		for {
			time.Sleep(200 * time.Millisecond)
			runtime.ReadMemStats(&ms)
			if ms.HeapAlloc > limit {
				e := Ev{}
				if what != nil {
					e = what()
				}
				e["op"], e["heap"] = "runaway", ms.HeapAlloc
				w.Emit(e)
				w.Close()
				fmt.Fprintf(os.Stderr, "vharness: memory guard: heap %d MB exceeds %d MB, stopping\n", ms.HeapAlloc>>20, limit>>20)
				os.Exit(0)
			}
		}
	}()
}

// StallGuard watches a driver whose subject may deadlock (the Go runtime would end the process with "all
// goroutines are asleep", or the driver would hang until the check's time-out: no verdict either way): when
// Beat has not been called for d, the guard writes a final event {"op": "stall", "after": <last Beat's note>},
// closes the trace and ends the process with status 0; the check reports the stall itself.
var beat atomic.Value

func Beat(note string) { beat.Store([2]interface{}{time.Now(), note}) }

func StallGuard(w *W, d time.Duration) {
	Beat("start")
	go func() {
		for {
			time.Sleep(500 * time.Millisecond)
			b := beat.Load().([2]interface{})
			if time.Since(b[0].(time.Time)) > d {
				buf := make([]byte, 1<<16)
				buf = buf[:runtime.Stack(buf, true)]
				w.Emit(Ev{"op": "stall", "after": b[1], "seconds": int(d.Seconds()), "stacks": string(buf)})
				w.Close()
				fmt.Fprintf(os.Stderr, "vharness: stall guard: no progress for %v after %v, stopping\n", d, b[1])
				os.Exit(0)
			}
		}
	}()
}

// Fatal reports an infrastructure failure (exit status 2, never a verdict).
func Fatal(format string, a ...interface{}) {
	fmt.Fprintf(os.Stderr, "vharness: "+format+"\n", a...)
	os.Exit(2)
}

// Rand returns the seeded source used by a driver.
func Rand(seed int64, salt string) *rand.Rand {
	h := int64(1469598103934665603)
	for _, c := range salt {
		h = (h ^ int64(c)) * 1099511628211
	}
	return rand.New(rand.NewSource(seed*7919 + h))
}

// Ints converts a byte slice to a JSON-friendly []int.
func Ints(b []byte) []int {
	r := make([]int, len(b))
	for i, c := range b {
		r[i] = int(c)
	}
	return r
}

// ErrClass maps an error to the string logged for it.
func ErrStr(err error) string {
	if err == nil {
		return ""
	}
	return err.Error()
}

// ScratchBase returns a directory for short-lived files: a memory-backed
// file system when there is one (fsync on every spilled run is otherwise
// the dominant cost of the morass drivers), else the default temp dir.
func ScratchBase() string {
	if d := os.Getenv("VERIF_SCRATCH"); d != "" {
		return d
	}
	if st, err := os.Stat("/dev/shm"); err == nil && st.IsDir() {
		return "/dev/shm"
	}
	return ""
}

// Args are the command line options shared by all drivers.
type Args struct {
	Seed    int64
	Out, In string
	N       int
	Big     bool
	Conc    bool
	Timeout int
	Skip    int
	KD      int
}

// Commands maps "subsystem/mode" to a driver. Driver packages register
// themselves from an init function; cmd/vharness imports them.
var Commands = map[string]func(a Args){}

// Register adds a driver command.
func Register(name string, f func(a Args)) { Commands[name] = f }
