// Package vt holds the small amount of plumbing shared by all drivers:
// an ndjson event writer and a seeded random source.
package vt

import (
	"bufio"
	"encoding/json"
	"fmt"
	"math/rand"
	"os"
)

// Ev is one trace event.
type Ev map[string]interface{}

// W writes ndjson.
type W struct {
	f *os.File
	b *bufio.Writer
	N int
}

func Create(path string) *W {
	f, err := os.Create(path)
	if err != nil {
		Fatal("create %s: %v", path, err)
	}
	return &W{f: f, b: bufio.NewWriterSize(f, 1<<20)}
}

func (w *W) Emit(e Ev) {
	b, err := json.Marshal(e)
	if err != nil {
		Fatal("marshal: %v", err)
	}
	w.b.Write(b)
	w.b.WriteByte('\n')
	w.N++
}

func (w *W) Close() {
	w.b.Flush()
	w.f.Close()
}

// Fatal reports an infrastructure failure (exit status 2, never a verdict).
func Fatal(format string, a ...interface{}) {
	fmt.Fprintf(os.Stderr, "vharness: "+format+"\n", a...)
	os.Exit(2)
}

// Rand returns the seeded source used by a driver.
func Rand(seed int64, salt string) *rand.Rand {
	h := int64(1469598103934665603)
	for _, c := range salt {
		h = (h ^ int64(c)) * 1099511628211
	}
	return rand.New(rand.NewSource(seed*7919 + h))
}

// Ints converts a byte slice to a JSON-friendly []int.
func Ints(b []byte) []int {
	r := make([]int, len(b))
	for i, c := range b {
		r[i] = int(c)
	}
	return r
}

// ErrClass maps an error to the string logged for it.
func ErrStr(err error) string {
	if err == nil {
		return ""
	}
	return err.Error()
}

// ScratchBase returns a directory for short-lived files: a memory-backed
// file system when there is one (fsync on every spilled run is otherwise
// the dominant cost of the morass drivers), else the default temp dir.
func ScratchBase() string {
	if d := os.Getenv("VERIF_SCRATCH"); d != "" {
		return d
	}
	if st, err := os.Stat("/dev/shm"); err == nil && st.IsDir() {
		return "/dev/shm"
	}
	return ""
}

// Args are the command line options shared by all drivers.
type Args struct {
	Seed    int64
	Out, In string
	N       int
	Big     bool
	Conc    bool
	Timeout int
	Skip    int
	KD      int
}

// Commands maps "subsystem/mode" to a driver. Driver packages register
// themselves from an init function; cmd/vharness imports them.
var Commands = map[string]func(a Args){}

// Register adds a driver command.
func Register(name string, f func(a Args)) { Commands[name] = f }
