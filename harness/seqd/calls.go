package seqd

// sequtils calls (C06): Truncate, Join, Stitch, Compose, Trim on linear
// sequences with arbitrary offsets and conformations.

import (
	"fmt"
	"math/rand"

	"github.com/biogo/biogo/alphabet"
	"github.com/biogo/biogo/feat"
	"github.com/biogo/biogo/seq"
	"github.com/biogo/biogo/seq/sequtils"

	"verif/harness/vt"
)

type fe struct {
	S, E int
	O    feat.Orientation
}

func (f fe) Start() int                    { return f.S }
func (f fe) End() int                      { return f.E }
func (f fe) Len() int                      { return f.E - f.S }
func (f fe) Name() string                  { return "f" }
func (f fe) Description() string           { return "f" }
func (f fe) Location() feat.Feature        { return nil }
func (f fe) Orientation() feat.Orientation { return f.O }

type fset []feat.Feature

func (f fset) Features() []feat.Feature { return f }

// qfeat is a QualityFeature with dyadic error probabilities (errs[i]/8).
type qfeat struct {
	off  int
	errs []int
}

func (q qfeat) Start() int             { return q.off }
func (q qfeat) End() int               { return q.off + len(q.errs) }
func (q qfeat) Len() int               { return len(q.errs) }
func (q qfeat) Name() string           { return "q" }
func (q qfeat) Description() string    { return "q" }
func (q qfeat) Location() feat.Feature { return nil }
func (q qfeat) EAt(i int) float64      { return float64(q.errs[i-q.off]) / 8 }

func cellsOf(s seq.Sequence, q bool) []cell { return rowView(s, 0, q).Cells }

type sliceable interface {
	seq.Sequence
	sequtils.Sliceable
}

func srcEv(r row, circular bool) vt.Ev {
	return vt.Ev{"off": r.Off, "cells": r.Cells, "circular": circular}
}

// backing reports whether two sequences share letter storage: write through one, look through the other.
func aliased(dst, src sliceable) (shared bool) {
	defer func() { recover() }()
	if dst.Len() == 0 || src.Len() == 0 {
		return false
	}
	for p := dst.Start(); p < dst.End(); p++ {
		old := dst.At(p)
		before := cellsOf(src, true)
		dst.Set(p, alphabet.QLetter{L: '#', Q: 77})
		after := cellsOf(src, true)
		dst.Set(p, old)
		if fmt.Sprint(before) != fmt.Sprint(after) {
			return true
		}
	}
	return false
}

// Calls logs n random sequtils calls.
func Calls(w *vt.W, rng *rand.Rand, n int, small bool) {
	maxLen := 40
	if small {
		maxLen = 6
	}
	for id := 0; id < n; id++ {
		q := rng.Intn(2) == 0
		r := row{Off: rng.Intn(11) - 4, Cells: randCells(rng, rng.Intn(maxLen+1), q), Strand: 1}
		circular := rng.Intn(3) == 0
		mk := func() sliceable {
			s := linearOf(q, r, "s")
			if circular {
				s.(seq.ConformationSetter).SetConformation(feat.Circular)
			}
			return s.(sliceable)
		}
		src := mk()

		ev := vt.Ev{"ev": "call", "id": id, "q": q, "src": srcEv(r, circular), "alpha": "DNA", "err": "", "panic": "", "aliased": false,
			"res": vt.Ev{"off": 0, "cells": []cell{}, "circular": false}, "fs": []vt.Ev{}, "other": []cell{}, "errs": []int{},
			"s": 0, "e": 0, "where": 0, "limit": 0, "ts": 0, "te": 0, "inplace": false}
		var dst sliceable
		finish := func(err error) {
			if err != nil {
				ev["err"] = err.Error()
			} else if dst != nil {
				circ := false
				if c, ok := dst.(seq.Conformationer); ok {
					circ = c.Conformation() > feat.Linear
				}
				ev["res"] = vt.Ev{"off": dst.Start(), "cells": cellsOf(dst, q), "circular": circ}
				ev["aliased"] = aliased(dst, src)
			}
		}
		func() {
			defer func() {
				if p := recover(); p != nil {
					ev["panic"] = fmt.Sprint(p)
				}
			}()
			feats := func() (fset, []vt.Ev) {
				k := 1 + rng.Intn(4)
				var fs fset
				var out []vt.Ev
				for i := 0; i < k; i++ {
					s := r.Off - 2 + rng.Intn(len(r.Cells)+5)
					e := s + rng.Intn(len(r.Cells)+3)
					o := feat.Forward
					if rng.Intn(2) == 0 {
						o = feat.Reverse
					}
					fs = append(fs, fe{s, e, o})
					out = append(out, vt.Ev{"s": s, "e": e, "o": int(o)})
				}
				return fs, out
			}
			switch rng.Intn(5) {
			case 0:
				ev["op"] = "truncate"
				s := r.Off - 2 + rng.Intn(len(r.Cells)+5)
				e := r.Off - 2 + rng.Intn(len(r.Cells)+5)
				if rng.Intn(3) != 0 && len(r.Cells) > 0 { // mostly inside
					s = r.Off + rng.Intn(len(r.Cells)+1)
					e = r.Off + rng.Intn(len(r.Cells)+1)
					if !circular && s > e {
						s, e = e, s
					}
				}
				ev["s"], ev["e"] = s, e
				switch rng.Intn(4) {
				case 0:
					// in place: the result replaces the source
					dst = src
					ev["inplace"] = true
				case 1:
					// a destination that was circular before: the result is linear all the same
					dst = mk().New().(sliceable)
					dst.(seq.ConformationSetter).SetConformation(feat.Circular)
				default:
					dst = mk().New().(sliceable)
				}
				finish(sequtils.Truncate(dst, src, s, e))
			case 1:
				ev["op"] = "stitch"
				fs, out := feats()
				ev["fs"] = out
				dst = mk().New().(sliceable)
				finish(sequtils.Stitch(dst, src, fs))
			case 2:
				ev["op"] = "compose"
				fs, out := feats()
				ev["fs"] = out
				dst = mk().New().(sliceable)
				finish(sequtils.Compose(dst, src, fs))
			case 3:
				ev["op"] = "join"
				circular = false
				ev["src"] = srcEv(r, false)
				src = mk()
				other := row{Off: rng.Intn(5), Cells: randCells(rng, rng.Intn(maxLen/2+1), q), Strand: 1}
				ev["other"] = other.Cells
				where := []int{seq.Start, seq.End}[rng.Intn(2)]
				ev["where"] = where
				d := mk()
				o := linearOf(q, other, "o").(sliceable)
				if rng.Intn(3) == 0 {
					// both sequences are views of one array, as after cutting one read in two: the destination first, with
					// room behind it, the joined-in sequence two letters further on
					switch dl := d.Slice().(type) {
					case alphabet.Letters:
						ol := o.Slice().(alphabet.Letters)
						back := make(alphabet.Letters, 0, len(dl)+2+len(ol))
						back = append(append(append(back, dl...), 'n', 'n'), ol...)
						d.SetSlice(back[:len(dl)])
						o.SetSlice(back[len(dl)+2:])
					case alphabet.QLetters:
						ol := o.Slice().(alphabet.QLetters)
						back := make(alphabet.QLetters, 0, len(dl)+2+len(ol))
						back = append(append(append(back, dl...), alphabet.QLetter{L: 'n'}, alphabet.QLetter{L: 'n'}), ol...)
						d.SetSlice(back[:len(dl)])
						o.SetSlice(back[len(dl)+2:])
					}
				}
				err := sequtils.Join(d.(sequtils.Joinable), o.(sequtils.Joinable), where)
				dst = d
				finish(err)
				ev["aliased"] = false
				// the joined-in sequence must be left as it was
				if fmt.Sprint(cellsOf(o, q)) != fmt.Sprint(other.Cells) {
					ev["aliased"] = true
				}
			default:
				ev["op"] = "trim"
				errs := make([]int, rng.Intn(maxLen+1))
				for i := range errs {
					errs[i] = []int{0, 1, 2, 4, 8}[rng.Intn(5)]
				}
				limit := []int{1, 2, 4}[rng.Intn(3)]
				ev["errs"], ev["limit"] = errs, limit
				ev["src"] = srcEv(row{Off: r.Off, Cells: []cell{}}, false)
				src = linearOf(q, row{Off: r.Off, Cells: []cell{}}, "s").(sliceable)
				ts, te := sequtils.Trim(qfeat{r.Off, errs}, float64(limit)/8)
				ev["ts"], ev["te"] = ts, te
			}
		}()
		ev["srcafter"] = cellsOf(src, q)
		w.Emit(ev)
	}
}
