// Package seqd drives biogo's sequence types (seq/linear, seq/alignment,
// seq/multi, seq/sequtils) and logs what the public API shows after every
// edit, in the shapes of spec/Seq.
package seqd

import (
	"fmt"
	"math/rand"
	"strings"

	"github.com/biogo/biogo/alphabet"
	"github.com/biogo/biogo/seq"
	"github.com/biogo/biogo/seq/alignment"
	"github.com/biogo/biogo/seq/linear"
	"github.com/biogo/biogo/seq/multi"

	"verif/harness/vt"
)

type cell [2]int // letter, quality

type row struct {
	Off    int    `json:"off"`
	Cells  []cell `json:"cells"`
	Strand int    `json:"strand"`
}

var alpha alphabet.Complementor = alphabet.DNAgapped
var alphaName = "DNA"

const gap = '-'

func isQ(kind string) bool { return kind == "qlin" || kind == "qaln" || kind == "qmulti" }

func qls(cs []cell) []alphabet.QLetter {
	out := make([]alphabet.QLetter, len(cs))
	for i, c := range cs {
		out[i] = alphabet.QLetter{L: alphabet.Letter(c[0]), Q: alphabet.Qphred(c[1])}
	}
	return out
}

func ls(cs []cell) []alphabet.Letter {
	out := make([]alphabet.Letter, len(cs))
	for i, c := range cs {
		out[i] = alphabet.Letter(c[0])
	}
	return out
}

// linearOf builds a linear sequence whose letter slice has spare capacity (as a recycled or preallocated
// buffer has), so that copies which merely re-slice are told apart from copies which allocate.
func linearOf(kindq bool, r row, id string) seq.Sequence {
	if kindq {
		s := linear.NewQSeq(id, qls(r.Cells), alpha, alphabet.Sanger)
		s.Seq = append(make(alphabet.QLetters, 0, len(s.Seq)+3), s.Seq...)
		s.Offset = r.Off
		s.Strand = seq.Strand(r.Strand)
		return s
	}
	s := linear.NewSeq(id, ls(r.Cells), alpha)
	s.Seq = append(make(alphabet.Letters, 0, len(s.Seq)+3), s.Seq...)
	s.Offset = r.Off
	s.Strand = seq.Strand(r.Strand)
	return s
}

// build constructs a real container of the given kind from rows.
func build(kind string, rows []row) (interface{}, error) {
	switch kind {
	case "lin", "qlin":
		return linearOf(kind == "qlin", rows[0], "s"), nil
	case "aln", "qaln":
		n := len(rows[0].Cells)
		ids := make([]string, len(rows))
		for i := range ids {
			ids[i] = fmt.Sprintf("r%d", i)
		}
		if kind == "aln" {
			cols := make([][]alphabet.Letter, n)
			for k := range cols {
				cols[k] = make([]alphabet.Letter, len(rows))
				for i := range rows {
					cols[k][i] = alphabet.Letter(rows[i].Cells[k][0])
				}
			}
			a, err := alignment.NewSeq("a", ids, cols, alpha, seq.DefaultConsensus)
			if a != nil {
				a.Strand = seq.Strand(rows[0].Strand)
			}
			return a, err
		}
		cols := make([][]alphabet.QLetter, n)
		for k := range cols {
			cols[k] = make([]alphabet.QLetter, len(rows))
			for i := range rows {
				cols[k][i] = alphabet.QLetter{L: alphabet.Letter(rows[i].Cells[k][0]), Q: alphabet.Qphred(rows[i].Cells[k][1])}
			}
		}
		a, err := alignment.NewQSeq("a", ids, cols, alpha, alphabet.Sanger, seq.DefaultConsensus)
		if a != nil {
			a.Strand = seq.Strand(rows[0].Strand)
		}
		return a, err
	case "multi", "qmulti":
		ss := make([]seq.Sequence, len(rows))
		for i, r := range rows {
			ss[i] = linearOf(kind == "qmulti", r, fmt.Sprintf("r%d", i))
		}
		m, err := multi.NewMulti("m", ss, seq.DefaultConsensus)
		if m != nil {
			m.Desc, m.Strand = "a multiple alignment", seq.Minus // annotation of its own, for the clone to carry
		}
		return m, err
	}
	return nil, fmt.Errorf("unknown kind %q", kind)
}

type obs struct {
	NRows int      `json:"nrows"`
	Len   int      `json:"len"`
	Start int      `json:"start"`
	End   int      `json:"end"`
	Rows  []row    `json:"rows"`
	Cols  [][]cell `json:"cols"`
	Cons  []int    `json:"cons"`
	ColsL [][]int  `json:"colsl"` // quality alignments: the letters-only column view (letters below the threshold are filtered)
	Ann   []int    `json:"ann"`   // annotation at the container's own level: strand, conformation, length of the description
	Panic string   `json:"panic"`
}

func rowView(s seq.Sequence, strand int, q bool) row {
	r := row{Off: s.Start(), Cells: []cell{}, Strand: strand}
	for p := s.Start(); p < s.End(); p++ {
		ql := s.At(p)
		c := cell{int(ql.L), 0}
		if q {
			c[1] = int(ql.Q)
		}
		r.Cells = append(r.Cells, c)
	}
	return r
}

func strandOf(s interface{}) int {
	switch v := s.(type) {
	case *linear.Seq:
		return int(v.Strand)
	case *linear.QSeq:
		return int(v.Strand)
	}
	return 0
}

// observe reads the container through its public API only.
func observe(kind string, c interface{}) (o obs) {
	o = obs{Rows: []row{}, Cols: [][]cell{}, Cons: []int{}, ColsL: [][]int{}, Ann: []int{}}
	defer func() {
		if p := recover(); p != nil {
			o.Panic = fmt.Sprint(p)
		}
	}()
	q := isQ(kind)
	switch v := c.(type) {
	case *linear.Seq:
		o.Ann = []int{int(v.Strand), int(v.Conform), len(v.Desc)}
		o.NRows, o.Len, o.Start, o.End = 1, v.Len(), v.Start(), v.End()
		o.Rows = []row{rowView(v, int(v.Strand), q)}
		for p := v.Start(); p < v.End(); p++ {
			o.Cols = append(o.Cols, []cell{{int(v.At(p).L), 0}})
		}
	case *linear.QSeq:
		o.Ann = []int{int(v.Strand), int(v.Conform), len(v.Desc)}
		o.NRows, o.Len, o.Start, o.End = 1, v.Len(), v.Start(), v.End()
		o.Rows = []row{rowView(v, int(v.Strand), q)}
		for p := v.Start(); p < v.End(); p++ {
			o.Cols = append(o.Cols, []cell{{int(v.At(p).L), int(v.At(p).Q)}})
		}
	case *alignment.Seq:
		o.Ann = []int{int(v.Strand), int(v.Conform), len(v.Desc)}
		o.NRows, o.Len, o.Start, o.End = v.Rows(), v.Len(), v.Start(), v.End()
		for i := 0; i < v.Rows(); i++ {
			r := v.Row(i)
			rv := row{Off: v.Start(), Cells: []cell{}, Strand: int(v.Strand)}
			for p := v.Start(); p < v.End(); p++ {
				rv.Cells = append(rv.Cells, cell{int(r.At(p).L), 0})
			}
			o.Rows = append(o.Rows, rv)
		}
		for p := v.Start(); p < v.End(); p++ {
			col := []cell{}
			for _, l := range v.Column(p, true) {
				col = append(col, cell{int(l), 0})
			}
			o.Cols = append(o.Cols, col)
		}
		if v.Len() > 0 && v.Rows() > 0 {
			cs := v.Consensus(false)
			for p := cs.Start(); p < cs.End(); p++ {
				o.Cons = append(o.Cons, int(cs.At(p).L))
			}
		}
	case *alignment.QSeq:
		o.NRows, o.Len, o.Start, o.End = v.Rows(), v.Len(), v.Start(), v.End()
		for i := 0; i < v.Rows(); i++ {
			r := v.Row(i)
			rv := row{Off: v.Start(), Cells: []cell{}, Strand: int(v.Strand)}
			for p := v.Start(); p < v.End(); p++ {
				rv.Cells = append(rv.Cells, cell{int(r.At(p).L), int(r.At(p).Q)})
			}
			o.Rows = append(o.Rows, rv)
		}
		for p := v.Start(); p < v.End(); p++ {
			col := []cell{}
			for _, ql := range v.ColumnQL(p, true) {
				col = append(col, cell{int(ql.L), int(ql.Q)})
			}
			o.Cols = append(o.Cols, col)
			ls := []int{}
			for _, l := range v.Column(p, true) {
				ls = append(ls, int(l))
			}
			o.ColsL = append(o.ColsL, ls)
		}
		o.Ann = []int{int(v.Strand), int(v.Conform), len(v.Desc)}
	case *multi.Multi:
		o.Ann = []int{int(v.Strand), int(v.Conform), len(v.Desc)}
		o.NRows, o.Len, o.Start, o.End = v.Rows(), v.Len(), v.Start(), v.End()
		for i := 0; i < v.Rows(); i++ {
			r := v.Row(i)
			o.Rows = append(o.Rows, rowView(r, strandOf(r), q))
		}
		for p := v.Start(); p < v.End(); p++ {
			col := []cell{}
			if q {
				for _, ql := range v.ColumnQL(p, true) {
					col = append(col, cell{int(ql.L), int(ql.Q)})
				}
			} else {
				for _, l := range v.Column(p, true) {
					col = append(col, cell{int(l), 0})
				}
			}
			o.Cols = append(o.Cols, col)
		}
		if v.Len() > 0 {
			cs := v.Consensus(true)
			for p := cs.Start(); p < cs.End(); p++ {
				o.Cons = append(o.Cons, int(cs.At(p).L))
			}
		}
	}
	return o
}

// ------------------------------------------------------------------ random histories

// the letters drawn for cells: those of the gapped DNA alphabet, or (single sequences of every other round) all of
// the redundant DNA alphabet, whose ambiguity codes complement to other codes (m/k, r/y, b/v, d/h)
var lettersPool = "acgtnACGTN-"

const (
	plainPool     = "acgtnACGTN-"
	redundantPool = "acmgrsvtwyhkdbnxACMGRSVTWYHKDBNX-"
)

func randCell(rng *rand.Rand, q bool) cell {
	c := cell{int(lettersPool[rng.Intn(len(lettersPool))]), 0}
	if q {
		c[1] = []int{0, 1, 2, 20, 40, 93}[rng.Intn(6)]
	}
	return c
}

func randCells(rng *rand.Rand, n int, q bool) []cell {
	cs := make([]cell, n)
	for i := range cs {
		cs[i] = randCell(rng, q)
	}
	return cs
}

type model struct {
	kind string
	rows []row
}

func (m *model) start() int {
	s := m.rows[0].Off
	for _, r := range m.rows {
		if r.Off < s {
			s = r.Off
		}
	}
	return s
}
func (m *model) end() int {
	e := m.rows[0].Off + len(m.rows[0].Cells)
	for _, r := range m.rows {
		if x := r.Off + len(r.Cells); x > e {
			e = x
		}
	}
	return e
}

// shape tracks only offsets and lengths (never letters): it is what the
// generator needs to propose edits that are inside the property's domain.
func (m *model) apply(e vt.Ev) {
	switch e["op"] {
	case "appendcolumns":
		k := len(e["cols"].([][]cell))
		for i := range m.rows {
			m.rows[i].Cells = append(m.rows[i].Cells, make([]cell, k)...)
		}
	case "appendeach":
		runs := e["runs"].([][]cell)
		max := 0
		for _, r := range runs {
			if len(r) > max {
				max = len(r)
			}
		}
		for i := range m.rows {
			n := len(runs[i])
			if m.kind == "aln" || m.kind == "qaln" {
				n = max
			}
			m.rows[i].Cells = append(m.rows[i].Cells, make([]cell, n)...)
		}
	case "delete":
		i := e["i"].(int) - 1
		m.rows = append(m.rows[:i], m.rows[i+1:]...)
	case "flush":
		s, en, w := m.start(), m.end(), e["where"].(int)
		for i := range m.rows {
			r := &m.rows[i]
			if w&1 != 0 {
				r.Cells = append(make([]cell, r.Off-s), r.Cells...)
				r.Off = s
			}
			if w&2 != 0 {
				r.Cells = append(r.Cells, make([]cell, en-(r.Off+len(r.Cells)))...)
			}
		}
	case "truncate", "subseq":
		s, en := e["s"].(int), e["e"].(int)
		for i := range m.rows {
			r := &m.rows[i]
			r.Cells = make([]cell, en-s)
			r.Off = s
		}
	case "revcomp", "reverse":
		s, en := m.start(), m.end()
		for i := range m.rows {
			r := &m.rows[i]
			r.Off = s + en - (r.Off + len(r.Cells))
		}
	case "cloneappend":
		m.rows[0].Cells = append(m.rows[0].Cells, cell{})
	case "add":
		for range e["news"].([]row) {
			m.rows = append(m.rows, row{Off: 0, Cells: make([]cell, len(m.rows[0].Cells))})
		}
	}
}

// emptyProbes: RevComp, RevComp, Reverse and Clone on empty values of every kind (C05 at length 0).
func emptyProbes(w *vt.W) {
	type rcl interface {
		RevComp()
		Reverse()
		Len() int
	}
	mk := map[string]func() (rcl, func() int){
		"lin": func() (rcl, func() int) {
			s := linear.NewSeq("e", nil, alpha)
			s.Strand = 1
			return s, func() int { return int(s.Strand) }
		},
		"qlin": func() (rcl, func() int) {
			s := linear.NewQSeq("e", nil, alpha, alphabet.Sanger)
			s.Strand = 1
			return s, func() int { return int(s.Strand) }
		},
		"aln": func() (rcl, func() int) {
			s, err := alignment.NewSeq("e", nil, nil, alpha, seq.DefaultConsensus)
			if err != nil {
				vt.Fatal("empty alignment: %v", err)
			}
			s.Strand = 1
			return s, func() int { return int(s.Strand) }
		},
		"qaln": func() (rcl, func() int) {
			s, err := alignment.NewQSeq("e", nil, nil, alpha, alphabet.Sanger, seq.DefaultQConsensus)
			if err != nil {
				vt.Fatal("empty alignment: %v", err)
			}
			s.Strand = 1
			return s, func() int { return int(s.Strand) }
		},
	}
	for _, kind := range []string{"lin", "qlin", "aln", "qaln"} {
		ev := vt.Ev{"ev": "emptyprobe", "kind": kind, "panic": "", "len": -1, "strands": []int{}}
		func() {
			defer func() {
				if p := recover(); p != nil {
					ev["panic"] = fmt.Sprint(p)
				}
			}()
			c, strand := mk[kind]()
			st := []int{}
			c.RevComp()
			st = append(st, strand())
			c.RevComp()
			st = append(st, strand())
			c.Reverse()
			st = append(st, strand())
			cloneOf(c)
			ev["strands"], ev["len"] = st, c.Len()
		}()
		w.Emit(ev)
	}
}

// Histories runs n random edit histories on real containers.
func Histories(w *vt.W, rng *rand.Rand, n int, small bool) {
	kinds := []string{"lin", "qlin", "aln", "qaln", "multi", "qmulti"}
	defer func() { alpha, lettersPool, alphaName = alphabet.DNAgapped, plainPool, "DNA" }()
	emptyProbes(w)
	for id := 0; id < n; id++ {
		kind := kinds[id%len(kinds)]
		q := isQ(kind)
		alpha, lettersPool, alphaName = alphabet.DNAgapped, plainPool, "DNA"
		if (kind == "lin" || kind == "qlin") && (id/len(kinds))%2 == 1 {
			alpha, lettersPool, alphaName = alphabet.DNAredundant, redundantPool, "DNAredundant"
		}
		maxRows, maxCols := 6, 30
		if small {
			maxRows, maxCols = 3, 4
		}
		nrows := 1
		if kind != "lin" && kind != "qlin" {
			nrows = 1 + rng.Intn(maxRows)
		}
		var rows []row
		switch kind {
		case "aln", "qaln":
			nc := 1 + rng.Intn(maxCols)
			for i := 0; i < nrows; i++ {
				rows = append(rows, row{Off: 0, Cells: randCells(rng, nc, q), Strand: 1})
			}
		default:
			for i := 0; i < nrows; i++ {
				rows = append(rows, row{Off: rng.Intn(9) - 3, Cells: randCells(rng, rng.Intn(maxCols+1), q), Strand: 1})
			}
		}
		c, err := build(kind, rows)
		if err != nil {
			vt.Fatal("build %s: %v", kind, err)
		}
		w.Emit(vt.Ev{"ev": "reset", "id": id, "kind": kind, "alpha": alphaName, "rows": rows, "obs": observe(kind, c)})
		m := &model{kind: kind, rows: append([]row{}, rows...)}
		for i := range m.rows {
			m.rows[i].Cells = append([]cell{}, m.rows[i].Cells...)
		}
		nedits := 1 + rng.Intn(6)
		for k := 0; k < nedits; k++ {
			e, nc := edit(rng, m, kind, c)
			if e == nil {
				continue
			}
			c = nc
			e["ev"] = "edit"
			e["obs"] = observe(kind, c)
			w.Emit(e)
			m.apply(e)
			if e["obs"].(obs).Panic != "" || (e["err"] != "" && e["op"] != "badappendcolumns") {
				break
			}
		}
	}
}

func guardErr(f func() error) (es string) {
	defer func() {
		if p := recover(); p != nil {
			es = fmt.Sprintf("panic: %v", p)
		}
	}()
	if err := f(); err != nil {
		return err.Error()
	}
	return ""
}

// edit proposes and performs one random edit; it returns the event (without obs) and the container to go on with.
func edit(rng *rand.Rand, m *model, kind string, c interface{}) (vt.Ev, interface{}) {
	q := isQ(kind)
	single := kind == "lin" || kind == "qlin"
	colStored := kind == "aln" || kind == "qaln"
	nrows := len(m.rows)
	type rc interface {
		RevComp()
		Reverse()
	}
	for try := 0; try < 20; try++ {
		switch rng.Intn(16) {
		case 15: // the history goes on with a clone of the container: a clone is a container like any other
			return vt.Ev{"op": "adoptclone", "err": ""}, cloneOf(c)
		case 14: // AppendColumns with good columns followed by one of the wrong height: an error, and nothing appended
			if single {
				continue
			}
			k := 2 + rng.Intn(2)
			cols := make([][]cell, k)
			bufs := make([][]alphabet.QLetter, k)
			for j := range cols {
				h := nrows
				if j == k-1 {
					h = nrows + []int{-1, 1, 2}[rng.Intn(3)]
				}
				cols[j] = randCells(rng, h, q)
				bufs[j] = qls(cols[j])
			}
			es := guardErr(func() error { return appendColumns(c, bufs) })
			return vt.Ev{"op": "badappendcolumns", "cols": cols, "err": es, "rejected": es != "" && !strings.HasPrefix(es, "panic")}, c
		case 13: // clone, then append to the original and to the clone: neither append may show in the other
			if !single {
				continue
			}
			c1, c2 := randCell(rng, q), randCell(rng, q)
			var co obs
			es := guardErr(func() error {
				cc := cloneOf(c)
				type app interface {
					AppendQLetters(...alphabet.QLetter) error
				}
				if err := c.(app).AppendQLetters(alphabet.QLetter{L: alphabet.Letter(c1[0]), Q: alphabet.Qphred(c1[1])}); err != nil {
					return err
				}
				if err := cc.(app).AppendQLetters(alphabet.QLetter{L: alphabet.Letter(c2[0]), Q: alphabet.Qphred(c2[1])}); err != nil {
					return err
				}
				co = observe(kind, cc)
				return nil
			})
			if co.Rows == nil {
				co.Rows = []row{}
			}
			return vt.Ev{"op": "cloneappend", "c": c1, "c2": c2, "cloneobs": co.Rows, "err": es}, c
		case 12: // RevComp / Reverse of one row through the row view
			if single {
				continue
			}
			i := rng.Intn(nrows)
			comp := rng.Intn(2) == 0
			// the row is given a strand of its own first, as a row added from a stranded sequence has: RevComp
			// must negate it, Reverse must clear it
			get, set := rowStrand(c, i)
			sb := []int{1, -1}[rng.Intn(2)]
			set(sb)
			sb = get()
			es := guardErr(func() error { rowMirror(c, i, comp); return nil })
			if comp {
				return vt.Ev{"op": "rowrevcomp", "i": i + 1, "err": es, "sb": sb, "sa": get()}, c
			}
			return vt.Ev{"op": "rowreverse", "i": i + 1, "err": es, "sb": sb, "sa": get()}, c
		case 0:
			es := guardErr(func() error { c.(rc).RevComp(); return nil })
			return vt.Ev{"op": "revcomp", "err": es}, c
		case 1:
			es := guardErr(func() error { c.(rc).Reverse(); return nil })
			return vt.Ev{"op": "reverse", "err": es}, c
		case 2: // set one cell through the row view
			i := rng.Intn(nrows)
			r := m.rows[i]
			if len(r.Cells) == 0 {
				continue
			}
			p := r.Off + rng.Intn(len(r.Cells))
			cl := randCell(rng, q)
			es := guardErr(func() error {
				return rowOf(c, i).Set(p, alphabet.QLetter{L: alphabet.Letter(cl[0]), Q: alphabet.Qphred(cl[1])})
			})
			return vt.Ev{"op": "set", "i": i + 1, "p": p, "c": cl, "err": es}, c
		case 3: // clone, mutate the clone, the original must not change
			i := rng.Intn(nrows)
			r := m.rows[i]
			if len(r.Cells) == 0 {
				continue
			}
			p := r.Off + rng.Intn(len(r.Cells))
			cl := cell{'x', 7}
			if !q {
				cl[1] = 0
			}
			var co obs
			es := guardErr(func() error {
				cc := cloneOf(c)
				rowOf(cc, i).Set(p, alphabet.QLetter{L: alphabet.Letter(cl[0]), Q: alphabet.Qphred(cl[1])})
				co = observe(kind, cc)
				return nil
			})
			if co.Rows == nil {
				co.Rows = []row{}
			}
			ann := co.Ann
			if ann == nil {
				ann = []int{}
			}
			return vt.Ev{"op": "cloneprobe", "i": i + 1, "p": p, "c": cl, "cloneobs": co.Rows, "cloneann": ann, "err": es}, c
		case 4, 5: // AppendColumns, then write into the buffers that were passed in
			if single {
				continue
			}
			k := 1 + rng.Intn(3)
			cols := make([][]cell, k)
			bufs := make([][]alphabet.QLetter, k)
			for j := range cols {
				cols[j] = randCells(rng, nrows, q)
				bufs[j] = qls(cols[j])
			}
			es := guardErr(func() error { return appendColumns(c, bufs) })
			for j := range bufs {
				for x := range bufs[j] {
					bufs[j][x] = alphabet.QLetter{L: 'X', Q: 9}
				}
			}
			return vt.Ev{"op": "appendcolumns", "cols": cols, "err": es}, c
		case 6, 7: // AppendEach with unequal runs
			if single {
				continue
			}
			runs := make([][]cell, nrows)
			bufs := make([][]alphabet.QLetter, nrows)
			for j := range runs {
				runs[j] = randCells(rng, rng.Intn(4), q)
				bufs[j] = qls(runs[j])
			}
			es := guardErr(func() error { return appendEach(c, bufs) })
			for j := range bufs {
				for x := range bufs[j] {
					bufs[j][x] = alphabet.QLetter{L: 'X', Q: 9}
				}
			}
			return vt.Ev{"op": "appendeach", "runs": runs, "err": es}, c
		case 8:
			if single || nrows < 2 {
				continue
			}
			i := rng.Intn(nrows)
			es := guardErr(func() error { deleteRow(c, i); return nil })
			return vt.Ev{"op": "delete", "i": i + 1, "err": es}, c
		case 9:
			if colStored && rng.Intn(2) == 0 {
				// Add linear sequences to a column-stored alignment (kept at offset 0)
				k := 1 + rng.Intn(2)
				news := make([]row, k)
				ss := make([]seq.Sequence, k)
				n := len(m.rows[0].Cells)
				for j := range news {
					news[j] = row{Off: rng.Intn(n+4) - 2, Cells: randCells(rng, rng.Intn(n+3), q), Strand: 1}
					ss[j] = linearOf(q, news[j], fmt.Sprintf("n%d", j))
				}
				es := guardErr(func() error {
					switch v := c.(type) {
					case *alignment.Seq:
						return v.Add(ss...)
					case *alignment.QSeq:
						return v.Add(ss...)
					}
					return nil
				})
				return vt.Ev{"op": "add", "news": news, "err": es}, c
			}
			mm, ok := c.(*multi.Multi)
			if !ok {
				continue
			}
			where := 1 + rng.Intn(3)
			fill := int("-nN"[rng.Intn(3)])
			es := guardErr(func() error { mm.Flush(where, alphabet.Letter(fill)); return nil })
			return vt.Ev{"op": "flush", "where": where, "fill": fill, "err": es}, c
		case 10, 11: // Truncate / Subseq over a range every row covers
			lo, hi := m.rows[0].Off, m.rows[0].Off+len(m.rows[0].Cells)
			for _, r := range m.rows {
				if r.Off > lo {
					lo = r.Off
				}
				if e := r.Off + len(r.Cells); e < hi {
					hi = e
				}
			}
			if lo > hi {
				continue
			}
			s := lo + rng.Intn(hi-lo+1)
			e := s + rng.Intn(hi-s+1)
			if colStored {
				s = 0 // column-stored alignments are kept at offset 0 (see DESIGN.md, scoping)
				if e <= s {
					continue // and with at least one column: Rows() of an empty alignment is undefined
				}
			}
			if mm, ok := c.(*multi.Multi); ok && rng.Intn(2) == 0 {
				var sub *multi.Multi
				es := guardErr(func() error {
					var err error
					sub, err = mm.Subseq(s, e)
					return err
				})
				if es != "" || sub == nil {
					return vt.Ev{"op": "subseq", "s": s, "e": e, "err": es}, c
				}
				// the original must be untouched by later edits of the sub-alignment: go on with the result
				return vt.Ev{"op": "subseq", "s": s, "e": e, "err": ""}, sub
			}
			es := guardErr(func() error { return truncate(c, s, e) })
			return vt.Ev{"op": "truncate", "s": s, "e": e, "err": es}, c
		}
	}
	return nil, c
}
