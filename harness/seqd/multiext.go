package seqd

import (
	"fmt"
	"math/rand"

	"github.com/biogo/biogo/feat"
	"github.com/biogo/biogo/seq/multi"

	"verif/harness/vt"
)

func multiRows(m *multi.Multi, q bool) []row {
	out := []row{}
	for i := 0; i < m.Rows(); i++ {
		r := m.Row(i)
		out = append(out, rowView(r, strandOf(r), q))
	}
	return out
}

func randRows(rng *rand.Rand, n, maxCols int, q bool) []row {
	rows := make([]row, n)
	for i := range rows {
		rows[i] = row{Off: rng.Intn(7) - 2, Cells: randCells(rng, 1+rng.Intn(maxCols), q), Strand: 1}
	}
	return rows
}

// MultiExt exercises the whole-alignment operations of multi.Multi that lie outside C05-C07
// (IsFlush, Column without filling, Join, Stitch, Compose); judged by spec/Seq/MultiExt.tla as drift only.
func MultiExt(w *vt.W, rng *rand.Rand, n int, small bool) {
	maxRows, maxCols := 5, 14
	if small {
		maxRows, maxCols = 3, 4
	}
	for id := 0; id < n; id++ {
		q := id%2 == 1
		kind := "multi"
		if q {
			kind = "qmulti"
		}
		nrows := 1 + rng.Intn(maxRows)
		rows := randRows(rng, nrows, maxCols, q)
		c, err := build(kind, rows)
		if err != nil {
			vt.Fatal("build: %v", err)
		}
		m := c.(*multi.Multi)
		ev := vt.Ev{"ev": "ext", "id": id, "kind": kind, "alpha": "DNA", "rows": rows, "err": "", "panic": "", "res": []row{},
			"other": []row{}, "otherafter": []row{}, "fs": []vt.Ev{}, "where": 0, "pos": 0, "fill": false, "flag": false, "col": []cell{}}
		lo, hi := m.Start(), m.End()
		feats := func() (fset, []vt.Ev) {
			k := 1 + rng.Intn(3)
			var fs fset
			out := []vt.Ev{}
			for i := 0; i < k; i++ {
				s := lo - 2 + rng.Intn(hi-lo+4)
				e := s + rng.Intn(hi-lo+3)
				if rng.Intn(12) == 0 {
					e = s - 1
				}
				o := feat.Forward
				if rng.Intn(3) == 0 {
					o = feat.Reverse
				}
				fs = append(fs, fe{s, e, o})
				out = append(out, vt.Ev{"s": s, "e": e, "o": int(o)})
			}
			return fs, out
		}
		func() {
			defer func() {
				if p := recover(); p != nil {
					ev["panic"] = fmt.Sprint(p)
				}
			}()
			seterr := func(err error) {
				if err != nil {
					ev["err"] = err.Error()
				}
			}
			switch id % 5 {
			case 0:
				ev["op"] = "isflush"
				if rng.Intn(3) == 0 {
					// make it flush at one end first so that both answers occur
					m.Flush(1+rng.Intn(3), gap)
					ev["rows"] = multiRows(m, q)
				}
				wh := 1 + rng.Intn(3)
				ev["where"] = wh
				ev["flag"] = m.IsFlush(wh)
			case 1:
				ev["op"] = "column"
				pos := lo - 1 + rng.Intn(hi-lo+2)
				fill := rng.Intn(2) == 0
				ev["pos"], ev["fill"] = pos, fill
				col := []cell{}
				if q {
					for _, ql := range m.ColumnQL(pos, fill) {
						col = append(col, cell{int(ql.L), int(ql.Q)})
					}
				} else {
					for _, l := range m.Column(pos, fill) {
						col = append(col, cell{int(l), 0})
					}
				}
				ev["col"] = col
			case 2:
				ev["op"] = "join"
				on := nrows
				if rng.Intn(8) == 0 {
					on = 1 + rng.Intn(maxRows)
				}
				orows := randRows(rng, on, maxCols, q)
				oc, err := build(kind, orows)
				if err != nil {
					vt.Fatal("build: %v", err)
				}
				o := oc.(*multi.Multi)
				wh := 1 + rng.Intn(2)
				ev["other"], ev["where"] = orows, wh
				seterr(m.Join(o, wh))
				ev["otherafter"] = multiRows(o, q)
			case 3:
				ev["op"] = "stitch"
				fs, out := feats()
				ev["fs"] = out
				seterr(m.Stitch(fs))
			case 4:
				ev["op"] = "compose"
				fs, out := feats()
				ev["fs"] = out
				seterr(m.Compose(fs))
			}
			ev["res"] = multiRows(m, q)
		}()
		w.Emit(ev)
	}
}
