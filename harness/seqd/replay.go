package seqd

// Replay of histories emitted by TLC from SeqMC.tla on real containers.

import (
	"bufio"
	"encoding/json"
	"os"

	"github.com/biogo/biogo/alphabet"
	"github.com/biogo/biogo/seq/multi"

	"verif/harness/vt"
)

type jsonEdit struct {
	Op    string   `json:"op"`
	I     int      `json:"i"`
	S     int      `json:"s"`
	E     int      `json:"e"`
	Where int      `json:"where"`
	Fill  int      `json:"fill"`
	Cols  [][]cell `json:"cols"`
	Runs  [][]cell `json:"runs"`
}

type jsonHistory struct {
	Kind  string     `json:"kind"`
	Rows  []row      `json:"rows"`
	Edits []jsonEdit `json:"edits"`
}

// Replay runs every k-th history of the file (k = stride) on a real container.
func Replay(w *vt.W, path string, stride, phase int) (n int) {
	f, err := os.Open(path)
	if err != nil {
		vt.Fatal("open %s: %v", path, err)
	}
	defer f.Close()
	sc := bufio.NewScanner(f)
	sc.Buffer(make([]byte, 1<<20), 1<<26)
	line := 0
	for sc.Scan() {
		line++
		if stride > 1 && line%stride != phase%stride {
			continue
		}
		var h jsonHistory
		if err := json.Unmarshal(sc.Bytes(), &h); err != nil {
			vt.Fatal("history %d: %v", line, err)
		}
		colStored := h.Kind == "aln" || h.Kind == "qaln"
		skip := false
		for i := range h.Rows {
			if h.Rows[i].Cells == nil {
				h.Rows[i].Cells = []cell{}
			}
		}
		if colStored && len(h.Rows[0].Cells) == 0 {
			skip = true // a column-stored alignment cannot be constructed with rows but no columns
		}
		for _, e := range h.Edits {
			if colStored && e.Op == "truncate" && (e.S != 0 || e.E <= e.S) {
				skip = true // column-stored alignments are kept at offset 0 (scoping, DESIGN.md)
			}
		}
		if skip {
			continue
		}
		c, err := build(h.Kind, h.Rows)
		if err != nil {
			vt.Fatal("build: %v", err)
		}
		w.Emit(vt.Ev{"ev": "reset", "id": line, "kind": h.Kind, "alpha": "DNA", "rows": h.Rows, "obs": observe(h.Kind, c)})
		for _, e := range h.Edits {
			ev := vt.Ev{"ev": "edit", "op": e.Op}
			var es string
			switch e.Op {
			case "revcomp":
				es = guardErr(func() error { c.(interface{ RevComp() }).RevComp(); return nil })
			case "reverse":
				es = guardErr(func() error { c.(interface{ Reverse() }).Reverse(); return nil })
			case "rowrevcomp", "rowreverse":
				ev["i"] = e.I
				es = guardErr(func() error { rowMirror(c, e.I-1, e.Op == "rowrevcomp"); return nil })
			case "delete":
				ev["i"] = e.I
				es = guardErr(func() error { deleteRow(c, e.I-1); return nil })
			case "appendcolumns":
				ev["cols"] = e.Cols
				bufs := make([][]alphabet.QLetter, len(e.Cols))
				for j := range bufs {
					bufs[j] = qls(e.Cols[j])
				}
				es = guardErr(func() error { return appendColumns(c, bufs) })
				for j := range bufs {
					for x := range bufs[j] {
						bufs[j][x] = alphabet.QLetter{L: 'X', Q: 9}
					}
				}
			case "appendeach":
				for j := range e.Runs {
					if e.Runs[j] == nil {
						e.Runs[j] = []cell{}
					}
				}
				ev["runs"] = e.Runs
				bufs := make([][]alphabet.QLetter, len(e.Runs))
				for j := range bufs {
					bufs[j] = qls(e.Runs[j])
				}
				es = guardErr(func() error { return appendEach(c, bufs) })
				for j := range bufs {
					for x := range bufs[j] {
						bufs[j][x] = alphabet.QLetter{L: 'X', Q: 9}
					}
				}
			case "flush":
				ev["where"], ev["fill"] = e.Where, e.Fill
				es = guardErr(func() error { c.(*multi.Multi).Flush(e.Where, alphabet.Letter(e.Fill)); return nil })
			case "truncate":
				ev["s"], ev["e"] = e.S, e.E
				es = guardErr(func() error { return truncate(c, e.S, e.E) })
			default:
				vt.Fatal("unknown edit %q", e.Op)
			}
			ev["err"] = es
			ev["obs"] = observe(h.Kind, c)
			w.Emit(ev)
			if es != "" {
				break
			}
		}
		n++
	}
	return n
}
