package seqd

import (
	"fmt"
	"math/rand"

	"github.com/biogo/biogo/alphabet"
	"github.com/biogo/biogo/feat"
	"github.com/biogo/biogo/seq"
	"github.com/biogo/biogo/seq/quality"
	"github.com/biogo/biogo/seq/sequtils"

	"verif/harness/vt"
)

// quality vectors (seq/quality.Phred, Solexa) are Sliceable too: the same sequtils calls on them, judged by the
// SeqModel operators with letter 0 in every cell (extension beyond C06: drift only).
type qvec interface {
	sequtils.Sliceable
	Len() int
	Reverse()
}

func qvecOf(solexa bool, r row) qvec {
	if solexa {
		qs := make([]alphabet.Qsolexa, len(r.Cells))
		for i, c := range r.Cells {
			qs[i] = alphabet.Qsolexa(c[1])
		}
		v := quality.NewSolexa("q", qs, alphabet.Solexa)
		v.Offset = r.Off
		return v
	}
	qs := make([]alphabet.Qphred, len(r.Cells))
	for i, c := range r.Cells {
		qs[i] = alphabet.Qphred(c[1])
	}
	v := quality.NewPhred("q", qs, alphabet.Sanger)
	v.Offset = r.Off
	return v
}

func qcells(v sequtils.Sliceable) []cell {
	out := []cell{}
	switch s := v.Slice().(type) {
	case quality.Qphreds:
		for _, q := range s {
			out = append(out, cell{0, int(q)})
		}
	case quality.Qsolexas:
		for _, q := range s {
			out = append(out, cell{0, int(q)})
		}
	}
	return out
}

// QualCalls emits "qcall" events.
func QualCalls(w *vt.W, rng *rand.Rand, n int) {
	for id := 0; id < n; id++ {
		solexa := id%2 == 1
		r := row{Off: rng.Intn(11) - 4, Cells: []cell{}, Strand: 0}
		for i := rng.Intn(25); i > 0; i-- {
			r.Cells = append(r.Cells, cell{0, rng.Intn(41)})
		}
		src := qvecOf(solexa, r)
		ev := vt.Ev{"ev": "qcall", "id": id, "q": true, "solexa": solexa, "src": srcEv(r, false), "alpha": "", "err": "", "panic": "", "aliased": false,
			"res": vt.Ev{"off": 0, "cells": []cell{}, "circular": false}, "fs": []vt.Ev{}, "other": []cell{}, "errs": []int{},
			"s": 0, "e": 0, "where": 0, "limit": 0, "ts": 0, "te": 0, "inplace": false}
		var dst sequtils.Sliceable
		finish := func(err error) {
			if err != nil {
				ev["err"] = err.Error()
			} else if dst != nil {
				ev["res"] = vt.Ev{"off": dst.Start(), "cells": qcells(dst), "circular": false}
			}
		}
		fresh := func() sequtils.Sliceable { return qvecOf(solexa, row{Off: 0, Cells: []cell{}}) }
		func() {
			defer func() {
				if p := recover(); p != nil {
					ev["panic"] = fmt.Sprint(p)
				}
			}()
			feats := func(allowReverse bool) (fset, []vt.Ev) {
				var fs fset
				out := []vt.Ev{}
				for i := 1 + rng.Intn(3); i > 0; i-- {
					s := r.Off - 2 + rng.Intn(len(r.Cells)+5)
					e := s + rng.Intn(len(r.Cells)+3)
					o := feat.Forward
					if allowReverse && rng.Intn(4) == 0 {
						o = feat.Reverse
					}
					fs = append(fs, fe{s, e, o})
					out = append(out, vt.Ev{"s": s, "e": e, "o": int(o)})
				}
				return fs, out
			}
			switch rng.Intn(5) {
			case 0:
				ev["op"] = "truncate"
				s := r.Off - 1 + rng.Intn(len(r.Cells)+3)
				e := r.Off - 1 + rng.Intn(len(r.Cells)+3)
				if s > e && rng.Intn(3) != 0 {
					s, e = e, s
				}
				ev["s"], ev["e"] = s, e
				dst = fresh()
				finish(sequtils.Truncate(dst, src, s, e))
			case 1:
				ev["op"] = "stitch"
				fs, out := feats(false)
				ev["fs"] = out
				dst = fresh()
				finish(sequtils.Stitch(dst, src, fs))
			case 2:
				ev["op"] = "compose"
				fs, out := feats(true)
				ev["fs"] = out
				dst = fresh()
				finish(sequtils.Compose(dst, src, fs))
			case 3:
				ev["op"] = "join"
				other := row{Off: rng.Intn(5), Cells: []cell{}}
				for i := rng.Intn(10); i > 0; i-- {
					other.Cells = append(other.Cells, cell{0, rng.Intn(41)})
				}
				ev["other"] = other.Cells
				where := []int{seq.Start, seq.End}[rng.Intn(2)]
				ev["where"] = where
				d := qvecOf(solexa, r)
				o := qvecOf(solexa, other)
				err := sequtils.Join(d, o, where)
				dst = d
				finish(err)
				if fmt.Sprint(qcells(o)) != fmt.Sprint(other.Cells) {
					ev["aliased"] = true
				}
			default:
				ev["op"] = "reverse"
				d := qvecOf(solexa, r)
				d.Reverse()
				dst = d
				finish(nil)
			}
		}()
		ev["srcafter"] = qcells(src)
		w.Emit(ev)
	}
}
