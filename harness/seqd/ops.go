package seqd

import (
	"fmt"

	"github.com/biogo/biogo/alphabet"
	"github.com/biogo/biogo/seq"
	"github.com/biogo/biogo/seq/alignment"
	"github.com/biogo/biogo/seq/linear"
	"github.com/biogo/biogo/seq/multi"
	"github.com/biogo/biogo/seq/sequtils"
)

type setter interface {
	Set(int, alphabet.QLetter) error
}

func rowOf(c interface{}, i int) setter {
	switch v := c.(type) {
	case *linear.Seq:
		return v
	case *linear.QSeq:
		return v
	case *alignment.Seq:
		return v.Row(i)
	case *alignment.QSeq:
		return v.Row(i)
	case *multi.Multi:
		return v.Row(i)
	}
	panic(fmt.Sprintf("rowOf: %T", c))
}

// rowMirror calls RevComp (or Reverse) on row i through the row view.
func rowMirror(c interface{}, i int, complement bool) {
	type rc interface {
		RevComp()
		Reverse()
	}
	var r rc
	switch v := c.(type) {
	case *alignment.Seq:
		r = v.Row(i).(rc)
	case *alignment.QSeq:
		r = v.Row(i).(rc)
	case *multi.Multi:
		r = v.Row(i).(rc)
	default:
		panic(fmt.Sprintf("rowMirror: %T", c))
	}
	if complement {
		r.RevComp()
	} else {
		r.Reverse()
	}
}

func cloneOf(c interface{}) interface{} {
	switch v := c.(type) {
	case *linear.Seq:
		return v.Clone()
	case *linear.QSeq:
		return v.Clone()
	case *alignment.Seq:
		return v.Clone()
	case *alignment.QSeq:
		return v.Clone()
	case *multi.Multi:
		return v.Clone()
	}
	panic(fmt.Sprintf("cloneOf: %T", c))
}

func appendColumns(c interface{}, cols [][]alphabet.QLetter) error {
	switch v := c.(type) {
	case *alignment.Seq:
		return v.AppendColumns(cols...)
	case *alignment.QSeq:
		return v.AppendColumns(cols...)
	case *multi.Multi:
		return v.AppendColumns(cols...)
	}
	panic(fmt.Sprintf("appendColumns: %T", c))
}

func appendEach(c interface{}, runs [][]alphabet.QLetter) error {
	switch v := c.(type) {
	case *alignment.Seq:
		return v.AppendEach(runs)
	case *alignment.QSeq:
		return v.AppendEach(runs)
	case *multi.Multi:
		return v.AppendEach(runs)
	}
	panic(fmt.Sprintf("appendEach: %T", c))
}

func deleteRow(c interface{}, i int) {
	switch v := c.(type) {
	case *alignment.Seq:
		v.Delete(i)
	case *alignment.QSeq:
		v.Delete(i)
	case *multi.Multi:
		v.Delete(i)
	default:
		panic(fmt.Sprintf("deleteRow: %T", c))
	}
}

func truncate(c interface{}, s, e int) error {
	switch v := c.(type) {
	case *linear.Seq:
		return sequtils.Truncate(v, v, s, e)
	case *linear.QSeq:
		return sequtils.Truncate(v, v, s, e)
	case *alignment.Seq:
		return sequtils.Truncate(v, v, s, e)
	case *alignment.QSeq:
		return sequtils.Truncate(v, v, s, e)
	case *multi.Multi:
		return v.Truncate(s, e)
	}
	panic(fmt.Sprintf("truncate: %T", c))
}

var _ seq.Sequence = (*linear.Seq)(nil)
