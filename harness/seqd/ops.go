package seqd

import (
	"fmt"

	"github.com/biogo/biogo/alphabet"
	"github.com/biogo/biogo/seq"
	"github.com/biogo/biogo/seq/alignment"
	"github.com/biogo/biogo/seq/linear"
	"github.com/biogo/biogo/seq/multi"
	"github.com/biogo/biogo/seq/sequtils"
)

type setter interface {
	Set(int, alphabet.QLetter) error
}

func rowOf(c interface{}, i int) setter {
	switch v := c.(type) {
	case *linear.Seq:
		return v
	case *linear.QSeq:
		return v
	case *alignment.Seq:
		return v.Row(i)
	case *alignment.QSeq:
		return v.Row(i)
	case *multi.Multi:
		return v.Row(i)
	}
	panic(fmt.Sprintf("rowOf: %T", c))
}

// rowMirror calls RevComp (or Reverse) on row i through the row view.
func rowMirror(c interface{}, i int, complement bool) {
	type rc interface {
		RevComp()
		Reverse()
	}
	var r rc
	switch v := c.(type) {
	case *alignment.Seq:
		r = v.Row(i).(rc)
	case *alignment.QSeq:
		r = v.Row(i).(rc)
	case *multi.Multi:
		r = v.Row(i).(rc)
	default:
		panic(fmt.Sprintf("rowMirror: %T", c))
	}
	if complement {
		r.RevComp()
	} else {
		r.Reverse()
	}
}

// rowStrand gives access to the strand a row of a container carries itself (not the container's).
func rowStrand(c interface{}, i int) (get func() int, set func(int)) {
	switch v := c.(type) {
	case *alignment.Seq:
		return func() int { return int(v.SubAnnotations[i].Strand) }, func(s int) { v.SubAnnotations[i].Strand = seq.Strand(s) }
	case *alignment.QSeq:
		return func() int { return int(v.SubAnnotations[i].Strand) }, func(s int) { v.SubAnnotations[i].Strand = seq.Strand(s) }
	case *multi.Multi:
		switch r := v.Row(i).(type) {
		case *linear.Seq:
			return func() int { return int(r.Strand) }, func(s int) { r.Strand = seq.Strand(s) }
		case *linear.QSeq:
			return func() int { return int(r.Strand) }, func(s int) { r.Strand = seq.Strand(s) }
		}
	}
	return func() int { return 0 }, func(int) {}
}

func cloneOf(c interface{}) interface{} {
	switch v := c.(type) {
	case *linear.Seq:
		return v.Clone()
	case *linear.QSeq:
		return v.Clone()
	case *alignment.Seq:
		return v.Clone()
	case *alignment.QSeq:
		return v.Clone()
	case *multi.Multi:
		return v.Clone()
	}
	panic(fmt.Sprintf("cloneOf: %T", c))
}

func appendColumns(c interface{}, cols [][]alphabet.QLetter) error {
	switch v := c.(type) {
	case *alignment.Seq:
		return v.AppendColumns(cols...)
	case *alignment.QSeq:
		return v.AppendColumns(cols...)
	case *multi.Multi:
		return v.AppendColumns(cols...)
	}
	panic(fmt.Sprintf("appendColumns: %T", c))
}

func appendEach(c interface{}, runs [][]alphabet.QLetter) error {
	switch v := c.(type) {
	case *alignment.Seq:
		return v.AppendEach(runs)
	case *alignment.QSeq:
		return v.AppendEach(runs)
	case *multi.Multi:
		return v.AppendEach(runs)
	}
	panic(fmt.Sprintf("appendEach: %T", c))
}

func deleteRow(c interface{}, i int) {
	switch v := c.(type) {
	case *alignment.Seq:
		v.Delete(i)
	case *alignment.QSeq:
		v.Delete(i)
	case *multi.Multi:
		v.Delete(i)
	default:
		panic(fmt.Sprintf("deleteRow: %T", c))
	}
}

func truncate(c interface{}, s, e int) error {
	switch v := c.(type) {
	case *linear.Seq:
		return sequtils.Truncate(v, v, s, e)
	case *linear.QSeq:
		return sequtils.Truncate(v, v, s, e)
	case *alignment.Seq:
		return sequtils.Truncate(v, v, s, e)
	case *alignment.QSeq:
		return sequtils.Truncate(v, v, s, e)
	case *multi.Multi:
		return v.Truncate(s, e)
	}
	panic(fmt.Sprintf("truncate: %T", c))
}

var _ seq.Sequence = (*linear.Seq)(nil)
