package palsd

import (
	"fmt"
	"math/rand"

	"github.com/biogo/biogo/align/pals"
	"github.com/biogo/biogo/align/pals/dp"
	"github.com/biogo/biogo/alphabet"
	"github.com/biogo/biogo/seq/linear"

	"verif/harness/vt"
)

// runsOf: the maximal runs of letters other than N in a packed sequence, as [start, length].
func runsOf(s *linear.Seq) [][2]int {
	out := [][2]int{}
	start := -1
	for i, l := range s.Seq {
		if l != 'N' && start < 0 {
			start = i
		}
		if l == 'N' && start >= 0 {
			out = append(out, [2]int{start, i - start})
			start = -1
		}
	}
	if start >= 0 {
		out = append(out, [2]int{start, len(s.Seq) - start})
	}
	return out
}

func packOf(rng *rand.Rand, id string, lens []int) (*pals.Packed, string) {
	p := pals.NewPacker(id)
	for i, n := range lens {
		if _, err := p.Pack(linear.NewSeq(fmt.Sprintf("c%d", i), alphabet.BytesToLetters(randSeq(rng, n)), alphabet.DNA)); err != nil {
			return nil, err.Error()
		}
	}
	return p.FinalisePack(), ""
}

func featOf(f *pals.Feature) []int {
	idx := -1
	fmt.Sscanf(f.ID, "c%d", &idx)
	return []int{idx, f.From, f.To}
}

// Packs exercises pals.Packer and pals.NewPair (extension, spec/Pals/Pack.tla): random contig lengths around
// the bin size, the layout of the packed sequence, and hits mapped back to contigs on both strands.
func Packs(w *vt.W, rng *rand.Rand, n int) {
	lenOf := func() int {
		switch rng.Intn(6) {
		case 0:
			return rng.Intn(60)
		case 1:
			return 1024*(1+rng.Intn(3)) - rng.Intn(60) // padding below, at and above minPadding
		case 2:
			return 1024 * (1 + rng.Intn(2))
		}
		return 1 + rng.Intn(3000)
	}
	for id := 0; id < n; id++ {
		tl, ql := make([]int, 1+rng.Intn(4)), make([]int, 1+rng.Intn(4))
		for i := range tl {
			tl[i] = lenOf()
		}
		for i := range ql {
			ql[i] = lenOf()
		}
		ev := vt.Ev{"op": "pack", "id": id, "tlens": tl, "qlens": ql, "panic": "", "pairs": []vt.Ev{}, "truns": [][2]int{}, "qruns": [][2]int{},
			"tlen": 0, "qlen": 0}
		func() {
			defer func() {
				if p := recover(); p != nil {
					ev["panic"] = fmt.Sprint(p)
				}
			}()
			tp, e1 := packOf(rng, "T", tl)
			qp, e2 := packOf(rng, "Q", ql)
			if e1 != "" || e2 != "" {
				ev["panic"] = "pack error: " + e1 + e2
				return
			}
			ev["tlen"], ev["qlen"] = tp.Len(), qp.Len()
			ev["truns"], ev["qruns"] = runsOf(tp.Seq), runsOf(qp.Seq)
			pairs := []vt.Ev{}
			for k := 0; k < 12; k++ {
				// an interval inside a contig, across a contig's end, or anywhere
				pick := func(p *pals.Packed, lens []int) (int, int) {
					runs := runsOf(p.Seq)
					if len(runs) > 0 && rng.Intn(4) != 0 {
						r := runs[rng.Intn(len(runs))]
						a := r[0] + rng.Intn(r[1])
						b := a + 1 + rng.Intn(r[0]+r[1]-a)
						if rng.Intn(5) == 0 {
							b += rng.Intn(40)
						}
						return a, b
					}
					a := rng.Intn(p.Len()+20) - 10
					return a, a + rng.Intn(200) - 20
				}
				ab, ae := pick(tp, tl)
				bb, be := pick(qp, ql)
				comp := rng.Intn(2) == 0
				if comp {
					bb, be = qp.Len()-be, qp.Len()-bb
				}
				pe := vt.Ev{"ab": ab, "ae": ae, "bb": bb, "be": be, "comp": comp, "err": false, "a": []int{}, "b": []int{}, "strand": 0}
				pr, err := pals.NewPair(tp, qp, dp.Hit{Abpos: ab, Aepos: ae, Bbpos: bb, Bepos: be, Score: 1}, comp)
				if err != nil {
					pe["err"] = true
				} else {
					pe["a"], pe["b"], pe["strand"] = featOf(pr.A), featOf(pr.B), int(pr.Strand)
				}
				pairs = append(pairs, pe)
			}
			ev["pairs"] = pairs
		}()
		w.Emit(ev)
	}
}
