// Package palsd runs the real PALS pipeline on sequences with planted
// repeats and records parameters, plants, hits and the hit regions.
package palsd

import (
	"encoding/json"
	"fmt"
	"io/ioutil"
	"math/rand"
	"os"
	"sync/atomic"

	"github.com/biogo/biogo/align/pals"
	"github.com/biogo/biogo/align/pals/filter"
	"github.com/biogo/biogo/alphabet"
	"github.com/biogo/biogo/morass"
	"github.com/biogo/biogo/seq/linear"

	"verif/harness/vt"
)

const acgt = "ACGT"

// regionEvery: the letters of a hit's regions are logged (and the hit's score judged against the optimal
// alignment of the regions by TLC, which costs seconds per hit) for the first hit of every n-th case.
var RegionEvery = 3

func randSeq(rng *rand.Rand, n int) []byte {
	s := make([]byte, n)
	for i := range s {
		s[i] = acgt[rng.Intn(4)]
	}
	return s
}

func revcomp(s []byte) []byte {
	out := make([]byte, len(s))
	for i, c := range s {
		var d byte
		switch c {
		case 'A':
			d = 'T'
		case 'C':
			d = 'G'
		case 'G':
			d = 'C'
		default:
			d = 'A'
		}
		out[len(s)-1-i] = d
	}
	return out
}

// Plant describes a copy of T[TA,TB) placed in the query at [QA,QB) (coordinates of the query as given,
// forward strand); Rev: the copy is reverse complemented; Subs/Indels: edits applied to the copy.
type Plant struct {
	TA, TB, QA, QB int
	Rev            bool
	Subs, Indels   int
	// Marginal: a copy around the minimum hit length, shorter than it on the target and longer on the
	// query; its recovery is not demanded, but any hit reported for it must still be sound.
	Marginal bool
}

func mutate(rng *rand.Rand, s []byte, subs, indels int) []byte {
	out := append([]byte{}, s...)
	for i := 0; i < subs; i++ {
		p := rng.Intn(len(out))
		out[p] = acgt[(indexOf(out[p])+1+rng.Intn(3))%4]
	}
	for i := 0; i < indels; i++ {
		p := 1 + rng.Intn(len(out)-2)
		if rng.Intn(2) == 0 {
			out = append(out[:p], out[p+1:]...)
		} else {
			out = append(out[:p], append([]byte{acgt[rng.Intn(4)]}, out[p:]...)...)
		}
	}
	return out
}

func indexOf(c byte) int {
	for i := 0; i < 4; i++ {
		if acgt[i] == c {
			return i
		}
	}
	return 0
}

func idx(s []byte) []int {
	out := make([]int, len(s))
	for i, c := range s {
		out[i] = indexOf(c) + 1
	}
	return out
}

// Case runs one comparison and emits its record.
func Case(w *vt.W, rng *rand.Rand, id, maxLen int) {
	minLen := []int{40, 50, 60, 80, 100}[rng.Intn(5)]
	minID := []float64{0.8, 0.85, 0.9, 0.94}[rng.Intn(4)]
	self := rng.Intn(4) == 0 || id%8 == 4
	lt := 2000 + rng.Intn(maxLen-1999)
	nplants := 1 + rng.Intn(3)
	// settings for which Optimise cannot keep the filter's seed as long as the minimum hit length (it halves
	// the seed): the aligner must still apply the minimum hit length, so a repeat between the two lengths is
	// planted as well (not demanded, but whatever is reported for it must be a sound hit)
	shortSeed := rng.Intn(8) == 0 && maxLen >= 5000
	if shortSeed {
		minLen, minID, self, nplants = 200, 0.75, false, 1
		lt = 4500 + rng.Intn(maxLen-4499)
	}
	// settings under which the short repeat with differences near its ends (below) shares k-mers with the target
	// over less than the minimum hit length: word length 10, minimum 50 or 60
	shortEnds := !shortSeed && rng.Intn(6) == 0
	if shortEnds {
		minLen, minID, self = []int{50, 60}[rng.Intn(2)], 0.9, false
	}
	// a target longer than 15360 letters under the loosest settings: Optimise's seed fallback decides there whether
	// the settings are accepted at all (if they are, the copy must be found; if not, nothing is demanded)
	if id%40 == 7 && !shortSeed {
		minLen, minID, self, shortEnds = 40, 0.8, false, false
		lt = 15500 + rng.Intn(2000)
	}
	T := randSeq(rng, lt)
	var Q []byte
	var plants []Plant
	// maxLn bounds the copy (indels included) so that it fits its slot
	// forceRev: the next copy is reverse complemented whatever is drawn (every other self comparison has an
	// inverted repeat, so that both halves of the complement pass of a self comparison are always in the sample)
	forceRev := false
	place := func(tsrc []byte, ta, maxLn int) (int, int, bool, int, int, []byte) {
		ln := minLen*3/2 + rng.Intn(minLen*2)
		if ln > maxLn-8 {
			ln = maxLn - 8
		}
		if ta+ln > len(tsrc) {
			ta = len(tsrc) - ln
		}
		cp := append([]byte{}, tsrc[ta:ta+ln]...)
		// identity comfortably above the threshold: at most a third of the allowed differences
		budget := int(float64(ln) * (1 - minID) / 3)
		subs, indels := 0, 0
		switch rng.Intn(4) {
		case 1:
			subs = rng.Intn(budget + 1)
		case 2:
			subs = rng.Intn(budget/2 + 1)
			indels = rng.Intn(budget/4 + 1)
		case 3:
			// one run of 1..MaxIGap inserted or deleted bases in an otherwise exact copy, away from its ends:
			// the longest gap the aligner is documented to extend through
			g := 1 + rng.Intn(pals.MaxIGap)
			if rng.Intn(2) == 0 {
				g = pals.MaxIGap // the boundary case half of the time
			}
			if g > budget {
				g = budget
			}
			if ln >= 60 && g >= 1 {
				indels = g
				at := 20 + rng.Intn(ln-40)
				if rng.Intn(2) == 0 {
					cp = append(cp[:at], cp[at+g:]...)
				} else {
					cp = append(cp[:at], append(randSeq(rng, g), cp[at:]...)...)
				}
				rev := rng.Intn(3) == 0 || forceRev
				if rev {
					cp = revcomp(cp)
				}
				return ta, ta + ln, rev, 0, indels, cp
			}
		}
		cp = mutate(rng, cp, subs, indels)
		rev := rng.Intn(3) == 0 || forceRev
		if rev {
			cp = revcomp(cp)
		}
		return ta, ta + ln, rev, subs, indels, cp
	}
	if self {
		// repeats inside one sequence: segments of the first third are copied into disjoint slots of the second half
		// The sources are disjoint as well (slots of the first third): two copies of one source region would
		// occupy the same query range in the mirrored half of the complement comparison, where the aligner's
		// recursion (which splits a trapezoid along the query axis only) reports one of them - a scenario of
		// several interacting repeats that the property (a repeat in otherwise random sequence) does not cover.
		half := len(T) / 2
		for i := 0; i < nplants; i++ {
			slot := half / nplants
			sslot := len(T) / 3 / nplants
			ta := i*sslot + rng.Intn(sslot/4+1)
			maxLn := slot - 2
			if sslot-sslot/4-2 < maxLn {
				maxLn = sslot - sslot/4 - 2
			}
			forceRev = i == 0 && id%2 == 0
			a, b, rev, subs, indels, cp := place(T[:(i+1)*sslot], ta, maxLn)
			forceRev = false
			qa := half + i*slot + rng.Intn(slot-len(cp)-1)
			copy(T[qa:qa+len(cp)], cp)
			plants = append(plants, Plant{a, b, qa, qa + len(cp), rev, subs, indels, false})
		}
		Q = T
	} else {
		Q = randSeq(rng, 2000+rng.Intn(maxLen-1999))
		if shortSeed {
			Q = randSeq(rng, 4500+rng.Intn(maxLen-4499))
		}
		used := 0
		family := rng.Intn(3) == 0
		for i := 0; i < nplants; i++ {
			ta := rng.Intn(len(T) - 10)
			a, b, rev, subs, indels, cp := place(T, ta, len(Q)/nplants-2)
			if i > 0 && family {
				// a repeat family: the very same target segment copied once more, unchanged, elsewhere in the query
				// (the two hits then begin and end at the same target coordinates)
				first := plants[0]
				a, b, rev, subs, indels = first.TA, first.TB, false, 0, 0
				cp = append([]byte{}, T[a:b]...)
			}
			qa := used + rng.Intn(len(Q)/nplants-len(cp)-1)
			copy(Q[qa:qa+len(cp)], cp)
			used = (i + 1) * len(Q) / nplants
			plants = append(plants, Plant{a, b, qa, qa + len(cp), rev, subs, indels, false})
		}
		// a short repeat (a fifth longer than the minimum) whose only differences are two substitutions near
		// its ends, so that the k-mers it shares with the target span less than the minimum hit length
		// Only under identity thresholds from 0.9 (filter word length 10 and more). Below, Optimise chooses words
		// of 5 or 6 letters, the filter is unspecific, the merged trapezoid is the whole comparison, and the
		// aligner's recursion - which cuts a trapezoid along the query at the ends of the best local path through
		// its middle row - loses about 1 in 100 of these short copies to a cut through the copy (measured on
		// the unchanged tree; recorded as a finding, whose recorded comparison witness/C15-short-repeat-k5.json is
		// repeated in every run).
		if ln := minLen * 6 / 5; (shortEnds || rng.Intn(2) == 0) && int(float64(ln)*(1-minID)/3) >= 2 && minID >= 0.9 {
			d := 7 + rng.Intn(4)
			ta := rng.Intn(len(T) - ln)
			cp := append([]byte{}, T[ta:ta+ln]...)
			for _, pos := range []int{d, ln - 1 - d} {
				cp[pos] = acgt[(indexOf(cp[pos])+1+rng.Intn(3))%4]
			}
			qa := rng.Intn(len(Q) - len(cp))
			clash := false
			for _, pl := range plants {
				if qa < pl.QB+50 && pl.QA < qa+len(cp)+50 {
					clash = true
				}
			}
			if !clash {
				copy(Q[qa:qa+len(cp)], cp)
				plants = append(plants, Plant{ta, ta + ln, qa, qa + len(cp), false, 2, 0, false})
			}
		}
		if shortSeed {
			// between the seed length and the minimum hit length: an exact copy of 100-150 letters
			ln := 100 + rng.Intn(51)
			ta := rng.Intn(len(T) - ln)
			qa := rng.Intn(len(Q) - ln)
			clash := false
			for _, pl := range plants {
				if qa < pl.QB+50 && pl.QA < qa+ln+50 {
					clash = true
				}
			}
			if !clash {
				copy(Q[qa:qa+ln], T[ta:ta+ln])
				plants = append(plants, Plant{ta, ta + ln, qa, qa + ln, false, 0, 0, true})
			}
		}
		if rng.Intn(2) == 0 && minID <= 0.9 {
			// a marginal repeat: minLen-2 letters of the target, with 5 letters inserted in the query copy
			ln := minLen - 2
			ta := rng.Intn(len(T) - ln)
			cp := append([]byte{}, T[ta:ta+ln]...)
			for k := 0; k < 5; k++ {
				pos := (k + 1) * ln / 6
				cp = append(cp[:pos+k], append([]byte{acgt[rng.Intn(4)]}, cp[pos+k:]...)...)
			}
			qa := rng.Intn(len(Q) - len(cp))
			clash := false
			for _, pl := range plants {
				if qa < pl.QB+50 && pl.QA < qa+len(cp)+50 {
					clash = true
				}
			}
			if !clash {
				copy(Q[qa:qa+len(cp)], cp)
				plants = append(plants, Plant{ta, ta + ln, qa, qa + len(cp), false, 0, 5, true})
			}
		}
		if rng.Intn(3) == 0 && !shortSeed {
			// a copy at the identity threshold: about four minimum lengths long, with as many evenly spaced
			// substitutions as the threshold allows, or one more or one fewer. Not demanded (marginal), but if it is
			// reported its error must be within the bound
			ln := 3*minLen + rng.Intn(2*minLen)
			if ln < len(T)-2 && ln < len(Q)-2 {
				d := int(float64(ln)*(1-minID)) - 1 + rng.Intn(3)
				if d < 1 {
					d = 1
				}
				ta := rng.Intn(len(T) - ln)
				cp := append([]byte{}, T[ta:ta+ln]...)
				for k := 0; k < d; k++ {
					pos := (2*k + 1) * ln / (2 * d)
					cp[pos] = acgt[(indexOf(cp[pos])+1+rng.Intn(3))%4]
				}
				qa := rng.Intn(len(Q) - ln)
				clash := false
				for _, pl := range plants {
					if qa < pl.QB+50 && pl.QA < qa+ln+50 {
						clash = true
					}
				}
				if !clash {
					copy(Q[qa:qa+ln], cp)
					plants = append(plants, Plant{ta, ta + ln, qa, qa + ln, false, d, 0, true})
				}
			}
		}
	}
	if only := os.Getenv("VERIF_ONLY_CASE"); only != "" && only != fmt.Sprint(id) {
		return // replaying one case by hand: the others are generated (same random stream) but not run
	}
	w.Emit(runCase(id, T, Q, self, minLen, minID, plants))
}

// GapSeries: comparisons under Optimise(100, 0.9) - word length 10, so that the trapezoid handed to the aligner is
// the neighbourhood of the copy and the extension starts from the copy's own middle row - of 3 kb random sequences
// with one copy of 150-160 letters that is exact but for one run of MaxIGap inserted or deleted letters at 38-62 %
// of its length: neither side of the run reaches the minimum hit length, so the copy is found only by extending
// through the run, forwards in one half of the cases and backwards in the other.
//
// The series is the same in every run (its own fixed random stream): a run of exactly MaxIGap letters is the limit
// of what the aligner is built to extend through, and the unchanged tree itself loses about 1 in 1500 copies of
// this kind drawn at random (2 of 3200 measured, both with an insertion). The fixed series holds none of those, so
// it is a set of inputs the tree as received recovers in full, and a loss is a change of behaviour.
func GapSeries(w *vt.W, m int) {
	rng := rand.New(rand.NewSource(20260927))
	for i := 0; i < m; i++ {
		T, Q := randSeq(rng, 3000), randSeq(rng, 3000)
		ln := 150 + rng.Intn(11)
		ta := rng.Intn(len(T) - ln)
		cp := append([]byte{}, T[ta:ta+ln]...)
		at := ln*38/100 + rng.Intn(ln*24/100+1)
		if i%2 == 0 {
			cp = append(cp[:at], cp[at+pals.MaxIGap:]...)
		} else {
			cp = append(cp[:at], append(randSeq(rng, pals.MaxIGap), cp[at:]...)...)
		}
		rev := i%4 >= 2
		if rev {
			cp = revcomp(cp)
		}
		qa := rng.Intn(len(Q) - len(cp))
		copy(Q[qa:], cp)
		w.Emit(runCase(2000000+i, T, Q, false, 100, 0.9, []Plant{{ta, ta + ln, qa, qa + len(cp), rev, 0, pals.MaxIGap, false}}))
	}
}

// StrandSeries: a fixed series (own constant random stream, like GapSeries) of small comparisons under
// Optimise(100, 0.92) - a filter that needs several shared words per tube - with one exact copy of 150-250 letters on
// the complement strand: both passes run on one PALS value, so whatever the forward pass leaves behind in the
// filter, the sorter or the merger meets a repeat that only the second pass can find.
func StrandSeries(w *vt.W, m int) {
	rng := rand.New(rand.NewSource(20260928))
	for i := 0; i < m; i++ {
		T, Q := randSeq(rng, 1500+rng.Intn(1500)), randSeq(rng, 1500+rng.Intn(1500))
		ln := 150 + rng.Intn(101)
		ta := rng.Intn(len(T) - ln)
		cp := revcomp(append([]byte{}, T[ta:ta+ln]...))
		qa := rng.Intn(len(Q) - ln)
		copy(Q[qa:], cp)
		// In every other comparison the forward pass is left something unfinished: one word of 12 letters shared
		// with the target near the end of the query, on the diagonal the copy will occupy in the complement pass
		// (too little for a filter hit, and still in an open tube when the forward query ends).
		if i%2 == 1 {
			qs := len(Q) - 30 - rng.Intn(40)
			ts := ta - (len(Q) - qa - ln) + qs
			if qs >= qa+ln+20 && ts >= 0 && ts+12 <= len(T) && (ts+12 <= ta || ts >= ta+ln) {
				copy(Q[qs:qs+12], T[ts:ts+12])
			}
		}
		w.Emit(runCase(3000000+i, T, Q, false, 100, 0.92, []Plant{{ta, ta + ln, qa, qa + ln, true, 0, 0, false}}))
	}
}

// Witness repeats the recorded comparison of a listed finding (witness/*.json) on the real pipeline.
func Witness(w *vt.W, file string) {
	b, err := ioutil.ReadFile(file)
	if err != nil {
		vt.Fatal("witness: %v", err)
	}
	var wit struct {
		Key    string
		MinLen int
		MinID  float64
		Self   bool
		T, Q   string
		Plants []struct {
			TA, TB, QA, QB int
			Rev            bool
			Subs, Indels   int
			Marginal       bool
		}
	}
	if err := json.Unmarshal(b, &wit); err != nil {
		vt.Fatal("witness %s: %v", file, err)
	}
	var plants []Plant
	for _, p := range wit.Plants {
		plants = append(plants, Plant{p.TA, p.TB, p.QA, p.QB, p.Rev, p.Subs, p.Indels, p.Marginal})
	}
	ev := runCase(0, []byte(wit.T), []byte(wit.Q), wit.Self, wit.MinLen, wit.MinID, plants)
	ev["witness"] = wit.Key
	w.Emit(ev)
}

// runCase runs Optimise, BuildIndex and both Align passes on one comparison and returns its record.
// Current: what the case being run looks like (for the memory guard's report).
var Current atomic.Value

func runCase(id int, T, Q []byte, self bool, minLen int, minID float64, plants []Plant) vt.Ev {
	Current.Store(fmt.Sprintf("case %d: minlen=%d minid=%.2f self=%v |T|=%d |Q|=%d", id, minLen, minID, self, len(T), len(Q)))
	ev := vt.Ev{"id": id, "minlen": minLen, "minid_ppm": int(minID*1e6 + 0.5), "self": self, "tlen": len(T), "qlen": len(Q),
		"plants": plantEvs(plants), "err": "", "panic": "", "passes": []vt.Ev{}}
	if os.Getenv("VERIF_DUMP_CASE") == fmt.Sprint(id) {
		// for replaying one case by hand: the sequences themselves (also written at once, in case the run dies)
		ev["T"], ev["Q"] = string(T), string(Q)
		if f := os.Getenv("VERIF_DUMP_FILE"); f != "" {
			ioutil.WriteFile(f, []byte(fmt.Sprintf("%d\n%v\n%v\n%s\n%s\n", minLen, minID, self, T, Q)), 0644)
		}
	}
	func() {
		defer func() {
			if p := recover(); p != nil {
				ev["panic"] = fmt.Sprint(p)
			}
		}()
		dir, err := ioutil.TempDir(vt.ScratchBase(), "vpals")
		if err != nil {
			vt.Fatal("tempdir: %v", err)
		}
		defer os.RemoveAll(dir)
		m, err := morass.New(filter.Hit{}, "p", dir, 1<<14, false)
		if err != nil {
			vt.Fatal("morass.New: %v", err)
		}
		defer m.CleanUp()
		ts := linear.NewSeq("t", alphabet.BytesToLetters(append([]byte{}, T...)), alphabet.DNA)
		qs := ts
		if !self {
			qs = linear.NewSeq("q", alphabet.BytesToLetters(append([]byte{}, Q...)), alphabet.DNA)
		}
		// a memory cap for Optimise, as a user of PALS on a shared machine would give: without one it picks the
		// longest word the seed allows (k = 15 for minimum length 60 at identity 0.94) and the k-mer index alone
		// takes 4^15 * 8 bytes = 8.6 GB
		maxMem := uintptr(1 << 30)
		p := pals.New(ts, qs, self, m, 0, &maxMem, nil)
		if err := p.Optimise(minLen, minID); err != nil {
			ev["err"] = "optimise: " + err.Error()
			return
		}
		ev["filter"] = vt.Ev{"k": p.FilterParams.WordSize, "n": p.FilterParams.MinMatch, "e": p.FilterParams.MaxError, "off": p.FilterParams.TubeOffset}
		if err := p.BuildIndex(); err != nil {
			ev["err"] = "index: " + err.Error()
			return
		}
		passes := []vt.Ev{}
		for _, comp := range []bool{false, true} {
			hits, err := p.Align(comp)
			pe := vt.Ev{"comp": comp, "err": "", "hits": []vt.Ev{}}
			if err != nil {
				pe["err"] = err.Error()
			}
			work := Q
			if comp {
				work = revcomp(Q)
			}
			hs := []vt.Ev{}
			for _, h := range hits {
				he := vt.Ev{"ab": h.Abpos, "ae": h.Aepos, "bb": h.Bbpos, "be": h.Bepos, "score": h.Score,
					"err_ppm": int(h.Error*1e6 + 0.5), "ra": []int{}, "rb": []int{}}
				// the letters of the two hit regions, when the hit lies inside the sequences and is not too long for TLC
				if h.Abpos >= 0 && h.Aepos <= len(T) && h.Bbpos >= 0 && h.Bepos <= len(work) && h.Abpos <= h.Aepos && h.Bbpos <= h.Bepos &&
					h.Aepos-h.Abpos <= 170 && h.Bepos-h.Bbpos <= 170 && len(hs) < 1 && id < 1000000 && id%RegionEvery == 0 {
					he["ra"] = idx(T[h.Abpos:h.Aepos])
					he["rb"] = idx(work[h.Bbpos:h.Bepos])
				}
				hs = append(hs, he)
			}
			pe["hits"] = hs
			passes = append(passes, pe)
		}
		ev["passes"] = passes
	}()
	return ev
}

// SelfSweep: self comparisons of random sequences that carry a short tandem repeat (so that the filter has
// hits a few diagonals above the main one) over a run of consecutive lengths (so that every position of the
// tube grid relative to the main diagonal occurs), for settings whose error allowance is below the
// aligner's band padding: the sequence matching itself must never be reported.
func SelfSweep(w *vt.W, rng *rand.Rand, sets int) {
	id := 0
	for s := 0; s < sets; s++ {
		minLen := []int{40, 50, 40, 60}[s%4]
		minID := []float64{0.9, 0.94, 0.95, 0.94}[s%4]
		base := 2500 + rng.Intn(2000)
		period := 9 + rng.Intn(12)
		for L := base; L < base+45; L++ {
			T := randSeq(rng, L)
			at := 200 + rng.Intn(L-600)
			for i := period; i < 8*period; i++ {
				T[at+i] = T[at+i-period]
			}
			w.Emit(runCase(1000000+id, T, T, true, minLen, minID, nil))
			id++
		}
	}
}

func plantEvs(ps []Plant) []vt.Ev {
	out := []vt.Ev{}
	for _, p := range ps {
		out = append(out, vt.Ev{"ta": p.TA, "tb": p.TB, "qa": p.QA, "qb": p.QB, "rev": p.Rev, "subs": p.Subs, "indels": p.Indels, "marginal": p.Marginal})
	}
	return out
}
