// Package palsd runs the real PALS pipeline on sequences with planted
// repeats and records parameters, plants, hits and the hit regions.
package palsd

import (
	"fmt"
	"io/ioutil"
	"math/rand"
	"os"

	"github.com/biogo/biogo/align/pals"
	"github.com/biogo/biogo/align/pals/filter"
	"github.com/biogo/biogo/alphabet"
	"github.com/biogo/biogo/morass"
	"github.com/biogo/biogo/seq/linear"

	"verif/harness/vt"
)

const acgt = "ACGT"

// regionEvery: the letters of a hit's regions are logged (and the hit's score judged against the optimal
// alignment of the regions by TLC, which costs seconds per hit) for the first hit of every n-th case.
var RegionEvery = 3

func randSeq(rng *rand.Rand, n int) []byte {
	s := make([]byte, n)
	for i := range s {
		s[i] = acgt[rng.Intn(4)]
	}
	return s
}

func revcomp(s []byte) []byte {
	out := make([]byte, len(s))
	for i, c := range s {
		var d byte
		switch c {
		case 'A':
			d = 'T'
		case 'C':
			d = 'G'
		case 'G':
			d = 'C'
		default:
			d = 'A'
		}
		out[len(s)-1-i] = d
	}
	return out
}

// Plant describes a copy of T[TA,TB) placed in the query at [QA,QB) (coordinates of the query as given,
// forward strand); Rev: the copy is reverse complemented; Subs/Indels: edits applied to the copy.
type Plant struct {
	TA, TB, QA, QB int
	Rev            bool
	Subs, Indels   int
	// Marginal: a copy around the minimum hit length, shorter than it on the target and longer on the
	// query; its recovery is not demanded, but any hit reported for it must still be sound.
	Marginal bool
}

func mutate(rng *rand.Rand, s []byte, subs, indels int) []byte {
	out := append([]byte{}, s...)
	for i := 0; i < subs; i++ {
		p := rng.Intn(len(out))
		out[p] = acgt[(indexOf(out[p])+1+rng.Intn(3))%4]
	}
	for i := 0; i < indels; i++ {
		p := 1 + rng.Intn(len(out)-2)
		if rng.Intn(2) == 0 {
			out = append(out[:p], out[p+1:]...)
		} else {
			out = append(out[:p], append([]byte{acgt[rng.Intn(4)]}, out[p:]...)...)
		}
	}
	return out
}

func indexOf(c byte) int {
	for i := 0; i < 4; i++ {
		if acgt[i] == c {
			return i
		}
	}
	return 0
}

func idx(s []byte) []int {
	out := make([]int, len(s))
	for i, c := range s {
		out[i] = indexOf(c) + 1
	}
	return out
}

// Case runs one comparison and emits its record.
func Case(w *vt.W, rng *rand.Rand, id, maxLen int) {
	minLen := []int{40, 50, 60, 80, 100}[rng.Intn(5)]
	minID := []float64{0.8, 0.85, 0.9, 0.94}[rng.Intn(4)]
	self := rng.Intn(4) == 0
	lt := 2000 + rng.Intn(maxLen-1999)
	T := randSeq(rng, lt)
	var Q []byte
	var plants []Plant
	nplants := 1 + rng.Intn(3)
	place := func(q []byte, tsrc []byte, ta int) (int, int, bool, int, int, []byte) {
		ln := minLen*3/2 + rng.Intn(minLen*2)
		if ta+ln > len(tsrc) {
			ta = len(tsrc) - ln
		}
		cp := append([]byte{}, tsrc[ta:ta+ln]...)
		// identity comfortably above the threshold: at most a third of the allowed differences
		budget := int(float64(ln) * (1 - minID) / 3)
		subs, indels := 0, 0
		switch rng.Intn(3) {
		case 1:
			subs = rng.Intn(budget + 1)
		case 2:
			subs = rng.Intn(budget/2 + 1)
			indels = rng.Intn(budget/4 + 1)
		}
		cp = mutate(rng, cp, subs, indels)
		rev := rng.Intn(3) == 0
		if rev {
			cp = revcomp(cp)
		}
		return ta, ta + ln, rev, subs, indels, cp
	}
	if self {
		// repeats inside one sequence: segments of the first third are copied into disjoint slots of the second half
		half := len(T) / 2
		for i := 0; i < nplants; i++ {
			ta := rng.Intn(len(T) / 3)
			a, b, rev, subs, indels, cp := place(nil, T[:half], ta)
			slot := half / nplants
			qa := half + i*slot + rng.Intn(slot-len(cp)-1)
			copy(T[qa:qa+len(cp)], cp)
			plants = append(plants, Plant{a, b, qa, qa + len(cp), rev, subs, indels, false})
		}
		Q = T
	} else {
		Q = randSeq(rng, 2000+rng.Intn(maxLen-1999))
		used := 0
		for i := 0; i < nplants; i++ {
			ta := rng.Intn(len(T) - 10)
			a, b, rev, subs, indels, cp := place(Q, T, ta)
			qa := used + rng.Intn(len(Q)/nplants-len(cp)-1)
			copy(Q[qa:qa+len(cp)], cp)
			used = (i + 1) * len(Q) / nplants
			plants = append(plants, Plant{a, b, qa, qa + len(cp), rev, subs, indels, false})
		}
		if rng.Intn(2) == 0 && minID <= 0.9 {
			// a marginal repeat: minLen-2 letters of the target, with 5 letters inserted in the query copy
			ln := minLen - 2
			ta := rng.Intn(len(T) - ln)
			cp := append([]byte{}, T[ta:ta+ln]...)
			for k := 0; k < 5; k++ {
				pos := (k + 1) * ln / 6
				cp = append(cp[:pos+k], append([]byte{acgt[rng.Intn(4)]}, cp[pos+k:]...)...)
			}
			qa := rng.Intn(len(Q) - len(cp))
			clash := false
			for _, pl := range plants {
				if qa < pl.QB+50 && pl.QA < qa+len(cp)+50 {
					clash = true
				}
			}
			if !clash {
				copy(Q[qa:qa+len(cp)], cp)
				plants = append(plants, Plant{ta, ta + ln, qa, qa + len(cp), false, 0, 5, true})
			}
		}
	}
	ev := vt.Ev{"id": id, "minlen": minLen, "minid_ppm": int(minID*1e6 + 0.5), "self": self, "tlen": len(T), "qlen": len(Q),
		"plants": plantEvs(plants), "err": "", "panic": "", "passes": []vt.Ev{}}
	func() {
		defer func() {
			if p := recover(); p != nil {
				ev["panic"] = fmt.Sprint(p)
			}
		}()
		dir, err := ioutil.TempDir(vt.ScratchBase(), "vpals")
		if err != nil {
			vt.Fatal("tempdir: %v", err)
		}
		defer os.RemoveAll(dir)
		m, err := morass.New(filter.Hit{}, "p", dir, 1<<14, false)
		if err != nil {
			vt.Fatal("morass.New: %v", err)
		}
		defer m.CleanUp()
		ts := linear.NewSeq("t", alphabet.BytesToLetters(append([]byte{}, T...)), alphabet.DNA)
		qs := ts
		if !self {
			qs = linear.NewSeq("q", alphabet.BytesToLetters(append([]byte{}, Q...)), alphabet.DNA)
		}
		p := pals.New(ts, qs, self, m, 0, nil, nil)
		if err := p.Optimise(minLen, minID); err != nil {
			ev["err"] = "optimise: " + err.Error()
			return
		}
		ev["filter"] = vt.Ev{"k": p.FilterParams.WordSize, "n": p.FilterParams.MinMatch, "e": p.FilterParams.MaxError, "off": p.FilterParams.TubeOffset}
		if err := p.BuildIndex(); err != nil {
			ev["err"] = "index: " + err.Error()
			return
		}
		passes := []vt.Ev{}
		for _, comp := range []bool{false, true} {
			hits, err := p.Align(comp)
			pe := vt.Ev{"comp": comp, "err": "", "hits": []vt.Ev{}}
			if err != nil {
				pe["err"] = err.Error()
			}
			work := Q
			if comp {
				work = revcomp(Q)
			}
			hs := []vt.Ev{}
			for _, h := range hits {
				he := vt.Ev{"ab": h.Abpos, "ae": h.Aepos, "bb": h.Bbpos, "be": h.Bepos, "score": h.Score,
					"err_ppm": int(h.Error*1e6 + 0.5), "ra": []int{}, "rb": []int{}}
				// the letters of the two hit regions, when the hit lies inside the sequences and is not too long for TLC
				if h.Abpos >= 0 && h.Aepos <= len(T) && h.Bbpos >= 0 && h.Bepos <= len(work) && h.Abpos <= h.Aepos && h.Bbpos <= h.Bepos &&
					h.Aepos-h.Abpos <= 170 && h.Bepos-h.Bbpos <= 170 && len(hs) < 1 && id%RegionEvery == 0 {
					he["ra"] = idx(T[h.Abpos:h.Aepos])
					he["rb"] = idx(work[h.Bbpos:h.Bepos])
				}
				hs = append(hs, he)
			}
			pe["hits"] = hs
			passes = append(passes, pe)
		}
		ev["passes"] = passes
	}()
	w.Emit(ev)
}

func plantEvs(ps []Plant) []vt.Ev {
	out := []vt.Ev{}
	for _, p := range ps {
		out = append(out, vt.Ev{"ta": p.TA, "tb": p.TB, "qa": p.QA, "qb": p.QB, "rev": p.Rev, "subs": p.Subs, "indels": p.Indels, "marginal": p.Marginal})
	}
	return out
}
