// Package gened drives biogo's feat/gene, feat/feature.go and feat/position.go
// (property C20) and logs one JSON object per call for spec/Gene/GeneTrace.tla.
//
// Exons are logged as [start, len, loc] where loc identifies the feature the exon
// is located on: 0 is the transcript the calls are made on (for a bare gene.Exons
// value: a fixed transcript), 1 and 2 are other transcripts, 3 is the nil location.
// The driver computes no expectations: every judgement is made by the TLA+ operators.
package gened

import (
	"bufio"
	"encoding/json"
	"fmt"
	"os"

	"github.com/biogo/biogo/feat"
	"github.com/biogo/biogo/feat/gene"

	"verif/harness/vt"
)

// X is an exon as logged: start, length, location id.
type X = [3]int

// world is the set of features the location ids of one case refer to.
type world struct {
	kind  string          // "nc", "coding" or "bare"
	t     gene.Transcript // location 0
	nc    *gene.NonCodingTranscript
	cd    *gene.CodingTranscript
	oth   [2]gene.Transcript // locations 1 and 2
	off   int
	again bool // inside the re-view with the orientation turned round
}

func newWorld(kind string, offset int, orient feat.Orientation, loc feat.Feature, cs, ce int) *world {
	w := &world{kind: kind, off: offset}
	switch kind {
	case "coding":
		w.cd = &gene.CodingTranscript{ID: "t", Loc: loc, Offset: offset, Orient: orient, CDSstart: cs, CDSend: ce}
		w.t = w.cd
	default:
		w.nc = &gene.NonCodingTranscript{ID: "t", Loc: loc, Offset: offset, Orient: orient}
		w.t = w.nc
	}
	w.oth[0] = &gene.NonCodingTranscript{ID: "f1", Offset: 7, Orient: feat.Forward}
	w.oth[1] = &gene.CodingTranscript{ID: "f2", Offset: 11, Orient: feat.Reverse}
	return w
}

func (w *world) locOf(id int) gene.Transcript {
	switch id {
	case 0:
		return w.t
	case 1, 2:
		return w.oth[id-1]
	}
	return nil
}

func (w *world) idOf(f feat.Feature) int {
	switch {
	case f == nil:
		return 3
	case f == feat.Feature(w.t):
		return 0
	case f == feat.Feature(w.oth[0]):
		return 1
	case f == feat.Feature(w.oth[1]):
		return 2
	}
	return 9
}

func (w *world) mk(xs []X) []gene.Exon {
	es := make([]gene.Exon, len(xs))
	for i, x := range xs {
		es[i] = gene.Exon{Transcript: w.locOf(x[2]), Offset: x[0], Length: x[1]}
	}
	return es
}

// rd reads an exon slice through the exported methods.
func (w *world) rd(es []gene.Exon) []X {
	r := make([]X, len(es))
	for i, e := range es {
		r[i] = X{e.Start(), e.Len(), w.idOf(e.Location())}
	}
	return r
}

func guard(f func()) (msg string) {
	defer func() {
		if r := recover(); r != nil {
			msg = fmt.Sprint(r)
			if msg == "" {
				msg = "panic"
			}
		}
	}()
	f()
	return ""
}

// add logs r, err := s.Add(xs...) for a slice s; old is s[0:len(s)] read again after the call.
func (w *world) add(out *vt.W, holder string, s gene.Exons, xs []X) gene.Exons {
	before := w.rd(s)
	spare := cap(s) - len(s)
	args := w.mk(xs)
	var r gene.Exons
	var err error
	p := guard(func() { r, err = s.Add(args...) })
	out.Emit(vt.Ev{"op": "add", "holder": holder, "before": before, "spare": spare, "xs": xs,
		"err": vt.ErrStr(err), "ret": w.rd(r), "old": w.rd(s), "retspare": cap(r) - len(r),
		"xsafter": w.rd(args), "panic": p})
	if p != "" {
		return s
	}
	return r
}

// set logs err := t.SetExons(xs...)
func (w *world) set(out *vt.W, xs []X) {
	before := w.rd(w.t.Exons())
	args := w.mk(xs)
	var err error
	p := guard(func() { err = w.t.SetExons(args...) })
	after, xsafter := w.rd(w.t.Exons()), w.rd(args)
	// the caller goes on using its own slice: every element is overwritten with the first one (an overlapping
	// layout); the exon set the transcript holds must not follow
	for i := range args {
		args[i] = args[0]
	}
	out.Emit(vt.Ev{"op": "set", "holder": w.kind, "before": before, "xs": xs, "err": vt.ErrStr(err),
		"after": after, "spare": cap(w.t.Exons()) - len(w.t.Exons()), "xsafter": xsafter, "panic": p,
		"scribbled": w.rd(w.t.Exons())})
}

func se(f feat.Feature) []int { return []int{f.Start(), f.End()} }

// chainOf walks the locations of f: [start, orientation, is an Orienter] per feature.
func chainOf(f feat.Feature) []X {
	c := []X{}
	for n := 0; f != nil && n < 5000; n++ {
		o, ok := f.(feat.Orienter)
		x := X{f.Start(), 0, 0}
		if ok {
			x[1], x[2] = int(o.Orientation()), 1
		}
		c = append(c, x)
		f = f.Location()
	}
	return c
}

// view logs everything observable about the transcript of w.
func (w *world) view(out *vt.W) {
	ev := vt.Ev{"op": "view", "kind": w.kind, "offset": w.off}
	p := guard(func() {
		es := w.t.Exons()
		exse, inse, inlen := [][]int{}, [][]int{}, []int{}
		for _, e := range es {
			exse = append(exse, se(e))
		}
		for _, in := range w.t.Introns() {
			inse = append(inse, se(in))
			inlen = append(inlen, in.Len())
		}
		ev["exons"], ev["exse"], ev["introns"], ev["inlen"] = w.rd(es), exse, inse, inlen
		ev["tstart"], ev["tend"], ev["tlen"] = w.t.Start(), w.t.End(), w.t.Len()
		ev["spliced"] = es.SplicedLen()
		ev["chain"] = chainOf(w.t)
	})
	ev["cs"], ev["ce"] = 0, 0
	ev["utr5"], ev["cds"], ev["utr3"], ev["utrpanic"] = []int{}, []int{}, []int{}, ""
	if w.cd != nil && p == "" {
		ev["cs"], ev["ce"] = w.cd.CDSstart, w.cd.CDSend
		ev["cds"] = se(w.cd.CDS())
		// the documented panic for a transcript without base orientation is a result, not a crash
		ev["utrpanic"] = guard(func() {
			u5, u3 := w.cd.UTR5(), w.cd.UTR3()
			if w.cd.UTR5start() != u5.Start() || w.cd.UTR5end() != u5.End() ||
				w.cd.UTR3start() != u3.Start() || w.cd.UTR3end() != u3.End() || u5.Location() != feat.Feature(w.cd) {
				panic("UTR shorthands disagree with UTR5()/UTR3()")
			}
			ev["utr5"], ev["utr3"] = se(u5), se(u3)
		})
	}
	ev["panic"] = p
	out.Emit(ev)
	// the same transcript seen again after its orientation was turned round (and once more after turning it
	// back): what a view reports is a function of the present state, not of what an earlier view computed
	if w.cd != nil && !w.again && w.cd.Orient != feat.NotOriented {
		w.again = true
		old := w.cd.Orient
		w.cd.Orient = -old
		w.view(out)
		w.cd.Orient = old
		if Big {
			w.view(out)
		}
		w.again = false
	}
}

// ---------------------------------------------------------------------------
// nesting chains
// ---------------------------------------------------------------------------

type pfeat struct { // a feature that is not an Orienter (a chromosome)
	start int
	loc   feat.Feature
}

func (p *pfeat) Start() int             { return p.start }
func (p *pfeat) End() int               { return p.start + 100 }
func (p *pfeat) Len() int               { return 100 }
func (p *pfeat) Name() string           { return "p" }
func (p *pfeat) Description() string    { return "" }
func (p *pfeat) Location() feat.Feature { return p.loc }

type ofeat struct { // an oriented feature
	pfeat
	ori feat.Orientation
}

func (o *ofeat) Orientation() feat.Orientation { return o.ori }

// realise builds the features of a chain ([start, orientation, isOrienter], innermost first).
// real = 0: the harness's own feature types; 1, 2: gene.Exon / NonCodingTranscript (1) or
// CodingTranscript (2) / gene.Gene where the chain has the shape exon-transcript-gene-....
func realise(chain []X, real int) []feat.Feature {
	n := len(chain)
	fs := make([]feat.Feature, n)
	var loc feat.Feature
	for i := n - 1; i >= 0; i-- {
		c := chain[i]
		ori := feat.Orientation(c[1])
		var f feat.Feature
		tr, locIsTr := loc.(gene.Transcript)
		switch {
		case c[2] == 0:
			f = &pfeat{start: c[0], loc: loc}
		case real > 0 && i == 0 && c[1] == 1 && locIsTr:
			f = gene.Exon{Transcript: tr, Offset: c[0], Length: 1}
		case real == 1 && i <= 1:
			f = &gene.NonCodingTranscript{Loc: loc, Offset: c[0], Orient: ori}
		case real == 2 && i <= 1:
			f = &gene.CodingTranscript{Loc: loc, Offset: c[0], Orient: ori}
		case real > 0 && i == 2:
			f = &gene.Gene{Chrom: loc, Offset: c[0], Orient: ori}
		default:
			f = &ofeat{pfeat{c[0], loc}, ori}
		}
		fs[i] = f
		loc = f
	}
	return fs
}

func indexOf(fs []feat.Feature, f feat.Feature) int {
	if f == nil {
		return 0
	}
	for i, g := range fs {
		if g == f {
			return i + 1
		}
	}
	return len(fs) + 1
}

// mapping logs the four mapping functions on a realised chain, for the reference indices refs
// (0 = nil, len+1 = a feature that is not in the chain).
func mapping(out *vt.W, chain []X, real int, pos int, refs []int) {
	fs := realise(chain, real)
	f := fs[0]
	foreign := &ofeat{pfeat{5, nil}, feat.Forward}
	ref := func(k int) feat.Feature {
		switch {
		case k == 0:
			return nil
		case k <= len(fs):
			return fs[k-1]
		}
		return foreign
	}
	ev := vt.Ev{"op": "map", "real": real, "chain": chainOf(f), "asked": len(chain), "pos": pos, "refs": refs}
	bp := []int{0}
	ev["bppanic"] = guard(func() { p, r := feat.BasePositionOf(f, pos); bp = []int{1, p, indexOf(fs, r)} })
	bo := []int{0}
	ev["bopanic"] = guard(func() { o, r := feat.BaseOrientationOf(f); bo = []int{1, int(o), indexOf(fs, r)} })
	pw, ow := [][]int{}, [][]int{}
	msgs := []string{}
	for _, k := range refs {
		r := []int{0}
		if m := guard(func() {
			p, ok := feat.PositionWithin(f, ref(k), pos)
			r = []int{1, p, 0}
			if ok {
				r[2] = 1
			}
		}); m != "" {
			msgs = append(msgs, m)
		}
		pw = append(pw, r)
		r = []int{0}
		if m := guard(func() { r = []int{1, int(feat.OrientationWithin(f, ref(k)))} }); m != "" {
			msgs = append(msgs, m)
		}
		ow = append(ow, r)
	}
	ev["bp"], ev["bo"], ev["pw"], ev["ow"], ev["panics"] = bp, bo, pw, ow, uniq(msgs)
	out.Emit(ev)
}

func uniq(s []string) []string {
	r := []string{}
	seen := map[string]bool{}
	for _, m := range s {
		if !seen[m] {
			seen[m] = true
			r = append(r, m)
		}
	}
	return r
}

func allRefs(n int) []int {
	if n <= 8 {
		r := make([]int, n+2)
		for i := range r {
			r[i] = i
		}
		return r
	}
	r := []int{}
	for _, k := range []int{0, 1, 2, 3, n / 2, 997, 998, 999, 1000, 1001, 1002, 1003, n - 1, n, n + 1} {
		if k >= 0 && k <= n+1 {
			dup := false
			for _, j := range r {
				dup = dup || j == k
			}
			if !dup {
				r = append(r, k)
			}
		}
	}
	return r
}

func conv(out *vt.W, p int) {
	o2z, z2o := []int{0}, []int{0}
	m1 := guard(func() { o2z = []int{1, feat.OneToZero(p)} })
	m2 := guard(func() { z2o = []int{1, feat.ZeroToOne(p)} })
	out.Emit(vt.Ev{"op": "conv", "p": p, "o2z": o2z, "z2o": z2o, "o2zpanic": m1, "z2opanic": m2})
}

// ---------------------------------------------------------------------------
// cases (emitted by TLC from Gene.tla, or built by the enumerations below)
// ---------------------------------------------------------------------------

// Big makes Run execute every case on both transcript kinds and in every argument order
// (otherwise the kinds and orders alternate over the cases).
var Big bool

// Case is one line of a case file.
type Case struct {
	Op     string `json:"op"`
	Holder string `json:"holder"`
	Call   string `json:"call"`
	Before []X    `json:"before"`
	Spare  int    `json:"spare"`
	Xs     []X    `json:"xs"`
	Len    int    `json:"len"`
	Cs     int    `json:"cs"`
	Ce     int    `json:"ce"`
	Chain  []X    `json:"chain"`
	Pos    int    `json:"pos"`
	P      int    `json:"p"`
	Real   int    `json:"real"`
	Refs   []int  `json:"refs"`
	Calls  []Call `json:"calls"`
	Offset int    `json:"offset"`
}

// Call is one step of a history case.
type Call struct {
	Call string `json:"call"`
	Xs   []X    `json:"xs"`
}

func reversed(xs []X) []X {
	r := make([]X, len(xs))
	for i, x := range xs {
		r[len(xs)-1-i] = x
	}
	return r
}

func rotated(xs []X) []X {
	r := append([]X{}, xs[1:]...)
	return append(r, xs[0])
}

// bareSlice builds a gene.Exons with the given contents and spare capacity.
func (w *world) bareSlice(before []X, spare int) gene.Exons {
	s := make(gene.Exons, len(before), len(before)+spare)
	copy(s, w.mk(before))
	return s
}

// upper builds the locations above a transcript from chain elements: a gene.Gene for an
// Orienter directly above the transcript, the harness's feature types otherwise.
func upper(chain []X) feat.Feature {
	var loc feat.Feature
	for i := len(chain) - 1; i >= 0; i-- {
		c := chain[i]
		switch {
		case c[2] == 0:
			loc = &pfeat{c[0], loc}
		case i == 0:
			loc = &gene.Gene{Chrom: loc, Offset: c[0], Orient: feat.Orientation(c[1])}
		default:
			loc = &ofeat{pfeat{c[0], loc}, feat.Orientation(c[1])}
		}
	}
	return loc
}

// Run executes one case and returns the number of events logged for it.
func Run(out *vt.W, c Case) {
	switch c.Op {
	case "set": // SetExons(xs) on fresh transcripts of both kinds, in several argument orders
		type run struct {
			kind string
			xs   []X
		}
		runs := []run{{"nc", c.Xs}, {"coding", c.Xs}}
		if len(c.Xs) >= 2 {
			runs[1].xs = reversed(c.Xs)
			if Big {
				runs = append(runs, run{"coding", c.Xs}, run{"nc", reversed(c.Xs)})
			}
		}
		if len(c.Xs) >= 3 {
			runs = append(runs, run{[]string{"nc", "coding"}[len(c.Xs)&1], rotated(c.Xs)})
		}
		for _, r := range runs {
			w := newWorld(r.kind, 4, feat.Forward, &pfeat{0, nil}, 0, 0)
			w.set(out, r.xs)
			w.view(out)
		}
	case "call": // one call of the update machine from a given state
		switch {
		case c.Holder == "bare":
			w := newWorld("bare", 0, feat.Forward, nil, 0, 0)
			rev := len(c.Xs) > 1 && (Big || (len(c.Before)+c.Spare+c.Xs[0][0])&1 == 1)
			if !rev || Big {
				w.add(out, "bare", w.bareSlice(c.Before, c.Spare), c.Xs)
			}
			if rev {
				w.add(out, "bare", w.bareSlice(c.Before, c.Spare), reversed(c.Xs))
			}
		default:
			kinds := []string{"nc", "coding"}
			if !Big { // one kind per case, both over the cases
				k := len(c.Before) + len(c.Xs) + c.Spare
				if len(c.Xs) > 0 {
					k += c.Xs[0][0] + c.Xs[0][1]
				}
				kinds = kinds[k&1 : k&1+1]
			}
			for _, kind := range kinds {
				w := newWorld(kind, 2, feat.Reverse, &pfeat{0, nil}, 0, 0)
				if len(c.Before) > 0 {
					w.set(out, reversed(c.Before))
				}
				if c.Call == "set" {
					w.set(out, c.Xs)
				} else {
					w.add(out, kind, w.t.Exons(), reversed(c.Xs))
				}
				w.view(out)
			}
		}
	case "hist": // a history of calls on one holder; spare is the initial spare capacity of a bare value
		if c.Holder == "bare" {
			w := newWorld("bare", 0, feat.Forward, nil, 0, 0)
			var s gene.Exons
			if c.Spare >= 0 {
				s = w.bareSlice(c.Before, c.Spare)
			}
			for _, k := range c.Calls {
				s = w.add(out, "bare", s, k.Xs)
			}
			return
		}
		w := newWorld(c.Holder, 3, feat.Forward, &pfeat{0, nil}, c.Cs, c.Ce)
		if len(c.Chain) > 0 && c.Chain[0][2] == 1 {
			w = newWorld(c.Holder, c.Chain[0][0], feat.Orientation(c.Chain[0][1]), upper(c.Chain[1:]), c.Cs, c.Ce)
		}
		for _, k := range c.Calls {
			switch k.Call {
			case "set":
				w.set(out, k.Xs)
			case "add": // r, err := t.Exons().Add(xs...)
				w.add(out, c.Holder, w.t.Exons(), k.Xs)
			case "addset": // ... and adopt an accepted result with t.SetExons(r...)
				r := w.add(out, c.Holder, w.t.Exons(), k.Xs)
				w.set(out, w.rd(r))
			}
			w.view(out)
		}
	case "gcall": // one SetFeatures call on a gene holding the features before (an edge of the gene machine)
		calls := []Call{{"setfeatures", c.Xs}}
		if len(c.Before) > 0 {
			calls = []Call{{"setfeatures", c.Before}, {"setfeatures", c.Xs}}
		}
		geneHistory(out, 1000+len(c.Before)+len(c.Xs), calls)
	case "ghist": // a history of SetFeatures calls on a gene at the given offset
		geneHistory(out, c.Offset, c.Calls)
	case "utr": // a coding transcript of the given length under the given nesting chain
		if len(c.Chain) == 0 || c.Chain[0][2] == 0 {
			return // a CodingTranscript always is an Orienter
		}
		layouts := [][]X{{{0, c.Len, 0}}}
		if c.Len >= 3 && (Big || (c.Cs+c.Ce+len(c.Chain))&1 == 1) {
			layouts = append(layouts, []X{{0, 1, 0}, {2, c.Len - 2, 0}})
			if !Big {
				layouts = layouts[1:]
			}
		}
		for _, lay := range layouts {
			w := newWorld("coding", c.Chain[0][0], feat.Orientation(c.Chain[0][1]), upper(c.Chain[1:]), c.Cs, c.Ce)
			w.set(out, lay)
			w.view(out)
		}
	case "map":
		refs := c.Refs
		if len(refs) == 0 {
			refs = allRefs(len(c.Chain))
		}
		reals := []int{0, 1, 2} // the harness's feature types and the gene package's
		if !Big {
			k := c.Pos + len(c.Chain) + 1
			for _, x := range c.Chain {
				k += x[0] + x[1] + 1
			}
			reals = reals[k%3 : k%3+1]
		}
		if len(c.Chain) > 8 || len(c.Refs) > 0 {
			reals = []int{c.Real}
		}
		for _, real := range reals {
			mapping(out, c.Chain, real, c.Pos, refs)
		}
	case "conv":
		conv(out, c.P)
	default:
		vt.Fatal("unknown case op %q", c.Op)
	}
}

// Cases executes a file of cases.
func Cases(out *vt.W, path string) int {
	f, err := os.Open(path)
	if err != nil {
		vt.Fatal("open %s: %v", path, err)
	}
	defer f.Close()
	sc := bufio.NewScanner(f)
	sc.Buffer(make([]byte, 1<<20), 1<<28)
	n := 0
	for sc.Scan() {
		if len(sc.Bytes()) == 0 {
			continue
		}
		var c Case
		if err := json.Unmarshal(sc.Bytes(), &c); err != nil {
			vt.Fatal("case %d of %s: %v", n+1, path, err)
		}
		Run(out, c)
		n++
	}
	if err := sc.Err(); err != nil {
		vt.Fatal("read %s: %v", path, err)
	}
	return n
}

func init() {
	vt.Register("gene/cases", func(a vt.Args) {
		w := vt.Create(a.Out)
		Big = a.Big
		n := Cases(w, a.In)
		w.Close()
		fmt.Printf("cases=%d events=%d\n", n, w.N)
	})
	vt.Register("gene/exhaustive", func(a vt.Args) {
		w := vt.Create(a.Out)
		n := Exhaustive(w, a.Big)
		w.Close()
		fmt.Printf("cases=%d events=%d\n", n, w.N)
	})
	vt.Register("gene/random", func(a vt.Args) {
		w := vt.Create(a.Out)
		Random(w, vt.Rand(a.Seed, "gene"), a.N, a.Big)
		w.Close()
		fmt.Printf("cases=%d events=%d\n", a.N, w.N)
	})
}
