package gened

import (
	"fmt"
	"math/rand"

	"github.com/biogo/biogo/feat"
	"github.com/biogo/biogo/feat/gene"

	"verif/harness/vt"
)

// The gene level: histories of accepted and rejected SetFeatures calls on a real *gene.Gene.
//
// A feature of the gene is logged as [Start(), Len(), loc] like an exon, where loc identifies
// the feature's Location: 0 is the gene the calls are made on, 1 another gene, 2 the gene's
// chromosome, 3 the nil location.  Every feature object built gets a serial number, so that the
// trace specification can tell whether Features() holds the very objects it should.

type gworld struct {
	g      *gene.Gene
	other  *gene.Gene
	chrom  feat.Feature
	serial map[feat.Feature]int
	built  int
}

func newGworld(offset int, orient feat.Orientation) *gworld {
	chrom := &pfeat{0, nil}
	return &gworld{
		g:      &gene.Gene{ID: "g", Chrom: chrom, Offset: offset, Orient: orient},
		other:  &gene.Gene{ID: "h", Chrom: chrom, Offset: offset + 17, Orient: feat.Forward},
		chrom:  chrom,
		serial: map[feat.Feature]int{},
	}
}

func (w *gworld) locOf(id int) feat.Feature {
	switch id {
	case 0:
		return w.g
	case 1:
		return w.other
	case 2:
		return w.chrom
	}
	return nil
}

func (w *gworld) idOf(f feat.Feature) int {
	switch {
	case f == nil:
		return 3
	case f == feat.Feature(w.g):
		return 0
	case f == feat.Feature(w.other):
		return 1
	case f == w.chrom:
		return 2
	}
	return 9
}

// mk builds one transcript per requested feature: Offset = start, located on the requested
// feature, with exons reaching to the requested length (none for length 0).  The transcript
// kinds and exon layouts alternate.
func (w *gworld) mk(xs []X) ([]feat.Feature, string) {
	fs := make([]feat.Feature, len(xs))
	for i, x := range xs {
		w.built++
		var t gene.Transcript
		if w.built&1 == 0 {
			t = &gene.NonCodingTranscript{ID: fmt.Sprint("t", w.built), Loc: w.locOf(x[2]), Offset: x[0], Orient: feat.Forward}
		} else {
			t = &gene.CodingTranscript{ID: fmt.Sprint("t", w.built), Loc: w.locOf(x[2]), Offset: x[0], Orient: feat.Reverse}
		}
		var es []gene.Exon
		switch {
		case x[1] >= 3 && w.built%3 == 0:
			es = []gene.Exon{{Transcript: t, Offset: 2, Length: x[1] - 2}, {Transcript: t, Offset: 0, Length: 1}}
		case x[1] >= 1:
			es = []gene.Exon{{Transcript: t, Offset: 0, Length: x[1]}}
		}
		if len(es) > 0 {
			var err error
			if p := guard(func() { err = t.SetExons(es...) }); p != "" || err != nil {
				return nil, fmt.Sprintf("building a transcript of length %d: SetExons: %s%s", x[1], p, vt.ErrStr(err))
			}
		}
		fs[i] = t
		w.serial[t] = w.built
	}
	return fs, ""
}

func (w *gworld) rd(fs []feat.Feature) ([]X, []int) {
	r, ids := make([]X, len(fs)), make([]int, len(fs))
	for i, f := range fs {
		if f == nil {
			r[i], ids[i] = X{0, 0, 9}, -1
			continue
		}
		r[i] = X{f.Start(), f.Len(), w.idOf(f.Location())}
		ids[i] = w.serial[f] // 0: not an object this driver built
	}
	return r, ids
}

// setFeatures logs err := g.SetFeatures(xs...) with everything observable about the gene
// before and after the call.
func (w *gworld) setFeatures(out *vt.W, xs []X) {
	ev := vt.Ev{"op": "gset", "offset": w.g.Offset}
	args, bad := w.mk(xs)
	var err error
	p := bad
	if p == "" {
		p = guard(func() {
			ev["before"], ev["beforeids"] = w.rd(w.g.Features())
			ev["lenbefore"], ev["startbefore"], ev["endbefore"] = w.g.Len(), w.g.Start(), w.g.End()
			ev["xs"], ev["xsids"] = w.rd(args)
			call := append([]feat.Feature{}, args...)
			err = w.g.SetFeatures(call...)
			ev["xsafter"], _ = w.rd(call)
			ev["after"], ev["afterids"] = w.rd(w.g.Features())
			ev["glen"], ev["gstart"], ev["gend"] = w.g.Len(), w.g.Start(), w.g.End()
		})
	}
	if p == "" && fmt.Sprint(ev["xs"]) != fmt.Sprint(xs) {
		p = "the transcripts built do not read back as requested"
	}
	for _, k := range []string{"before", "xs", "xsafter", "after"} {
		if _, ok := ev[k]; !ok {
			ev[k] = []X{}
		}
	}
	for _, k := range []string{"beforeids", "xsids", "afterids"} {
		if _, ok := ev[k]; !ok {
			ev[k] = []int{}
		}
	}
	for _, k := range []string{"lenbefore", "startbefore", "endbefore", "glen", "gstart", "gend"} {
		if _, ok := ev[k]; !ok {
			ev[k] = 0
		}
	}
	ev["err"], ev["panic"] = vt.ErrStr(err), p
	out.Emit(ev)
}

// geneHistory runs a history of SetFeatures calls on a fresh gene.
func geneHistory(out *vt.W, offset int, calls []Call) {
	orient := feat.Forward
	if (offset+len(calls))&1 == 1 {
		orient = feat.Reverse
	}
	w := newGworld(offset, orient)
	for _, k := range calls {
		w.setFeatures(out, k.Xs)
	}
}

// gene-level options of the enumerated histories: valid sets of 1-3 transcripts of different
// lengths, a transcript without exons, a foreign feature first / last / alone, no zero start,
// no feature at all
var geneOpts = [][]X{
	{{0, 3, 0}},
	{{0, 1, 0}},
	{{0, 0, 0}},
	{{0, 2, 0}, {1, 2, 0}},
	{{1, 1, 0}, {0, 1, 0}, {0, 2, 0}},
	{{1, 2, 0}},
	{{2, 1, 0}, {1, 1, 0}},
	{{0, 3, 0}, {0, 1, 1}},
	{{0, 2, 1}, {0, 3, 0}},
	{{0, 1, 0}, {0, 4, 0}, {1, 1, 3}},
	{{0, 2, 2}},
	{},
}

func geneExhaustive(out *vt.W, big bool) int {
	n := 0
	depth := 3
	if big {
		depth = 4
	}
	opts := []Call{}
	for _, o := range geneOpts {
		opts = append(opts, Call{"setfeatures", o})
	}
	histories(depth, opts, func(h []Call) {
		if len(h) == depth {
			geneHistory(out, 100+n%7, h)
			n++
		}
	})
	return n
}

// geneRandom: a history of 2..7 SetFeatures calls on a gene at a random offset, with features of
// lengths up to 10^4.
func geneRandom(out *vt.W, rng *rand.Rand, big bool) {
	top := 10000
	if rng.Intn(3) == 0 {
		top = 12
	}
	maxF := 3
	if rng.Intn(5) == 0 {
		maxF = 9
		if big {
			maxF = 60
		}
	}
	valid := func() []X {
		k := 1 + rng.Intn(maxF)
		xs := make([]X, k)
		for i := range xs {
			xs[i] = X{rng.Intn(top), rng.Intn(top + 1), 0}
			if rng.Intn(12) == 0 {
				xs[i][1] = 0
			}
		}
		xs[rng.Intn(k)][0] = 0
		return xs
	}
	calls := []Call{}
	if rng.Intn(4) > 0 {
		calls = append(calls, Call{"setfeatures", valid()})
	}
	for k := 1 + rng.Intn(6); k > 0; k-- {
		xs := valid()
		switch rng.Intn(8) {
		case 0, 1: // a foreign feature somewhere in the list
			xs[rng.Intn(len(xs))][2] = 1 + rng.Intn(3)
		case 2: // a foreign feature appended / prepended
			f := X{rng.Intn(top), rng.Intn(top + 1), 1 + rng.Intn(3)}
			if rng.Intn(2) == 0 {
				xs = append(xs, f)
			} else {
				xs = append([]X{f}, xs...)
			}
		case 3: // no zero start
			d := 1 + rng.Intn(5)
			for i := range xs {
				xs[i][0] += d
			}
		case 4:
			switch rng.Intn(3) {
			case 0: // a feature starting before the gene
				xs[rng.Intn(len(xs))][0] = -1 - rng.Intn(5)
			case 1:
				xs = []X{}
			}
		}
		calls = append(calls, Call{"setfeatures", xs})
	}
	geneHistory(out, rng.Intn(100000), calls)
}
