package gened

import (
	"math/rand"

	"verif/harness/vt"
)

// tiny universe of the enumerated histories: every exon inside [0,3) on the transcript
// and one exon on a foreign transcript
var tiny = []X{{0, 1, 0}, {0, 2, 0}, {0, 3, 0}, {1, 1, 0}, {1, 2, 0}, {2, 1, 0}, {0, 1, 1}}

func histories(depth int, opts []Call, f func([]Call)) {
	var rec func(pre []Call)
	rec = func(pre []Call) {
		if len(pre) > 0 {
			f(pre)
		}
		if len(pre) == depth {
			return
		}
		for _, o := range opts {
			rec(append(append([]Call{}, pre...), o))
		}
	}
	rec(nil)
}

// Exhaustive enumerates histories on the tiny universe for every holder (only the maximal
// histories are run: their prefixes are part of them), transcripts large enough for the
// runtime to leave spare capacity behind SetExons, genes (SetFeatures), chains around the documented depth limit
// and the conversions around zero.
func Exhaustive(out *vt.W, big bool) int {
	n := 0
	depth := 3
	if big {
		depth = 4
	}
	// bare gene.Exons values: s, err = s.Add(x)
	singles := []Call{}
	for _, x := range tiny {
		singles = append(singles, Call{"add", []X{x}})
	}
	for _, spare := range []int{-1, 1, 2, 4} {
		histories(depth, singles, func(h []Call) {
			if len(h) == depth {
				Run(out, Case{Op: "hist", Holder: "bare", Spare: spare, Calls: h})
				n++
			}
		})
	}
	// a first call with two exons, so that the third append lands in spare capacity left by the runtime
	for i, x := range tiny {
		for _, y := range tiny[i+1:] {
			histories(depth-1, singles, func(h []Call) {
				if len(h) == depth-1 {
					Run(out, Case{Op: "hist", Holder: "bare", Spare: -1, Calls: append([]Call{{"add", []X{y, x}}}, h...)})
					n++
				}
			})
		}
	}
	// transcripts: SetExons with one or two exons, Exons().Add adopted through SetExons
	topts := []Call{}
	for i, x := range tiny {
		topts = append(topts, Call{"set", []X{x}}, Call{"addset", []X{x}})
		for _, y := range tiny[i+1:] {
			topts = append(topts, Call{"set", []X{y, x}})
		}
	}
	for _, kind := range []string{"nc", "coding"} {
		histories(depth-1, topts, func(h []Call) {
			if len(h) == depth-1 {
				Run(out, Case{Op: "hist", Holder: kind, Cs: 1, Ce: 2, Calls: h})
				n++
			}
		})
	}
	// transcripts with m exons [3i, 3i+2): whatever capacity append gave SetExons, a rejected
	// (overlapping / foreign) and an accepted (fits a gap) Exons().Add must leave t.Exons() alone
	maxm := 48
	if big {
		maxm = 300
	}
	for m := 1; m <= maxm; m++ {
		lay := make([]X, m)
		for i := range lay {
			lay[m-1-i] = X{3 * i, 2, 0}
		}
		for _, kind := range []string{"nc", "coding"} {
			for _, x := range []X{{0, 1, 0}, {3*(m-1) + 1, 5, 0}, {2, 1, 1}, {2, 1, 0}} {
				Run(out, Case{Op: "hist", Holder: kind, Cs: 1, Ce: 2, Calls: []Call{{"set", lay}, {"add", []X{x}}}})
				n++
			}
		}
	}
	// genes: histories of accepted and rejected SetFeatures calls
	n += geneExhaustive(out, big)
	// nesting chains around the documented limit of 1000 links
	for _, d := range []int{1, 2, 998, 999, 1000, 1001, 1002, 1003} {
		for pat := 0; pat < 8; pat++ {
			ch := make([]X, d)
			for i := range ch {
				o := X{i % 3, 1, 1}
				switch pat {
				case 1: // alternating strands
					if i%2 == 1 {
						o[1] = -1
					}
				case 2: // no feature is an Orienter
					o[1], o[2] = 0, 0
				case 3: // only the first is oriented
					if i > 0 {
						o[1], o[2] = 0, 0
					}
				case 4: // all but the last (a chromosome)
					if i == d-1 {
						o[1], o[2] = 0, 0
					}
				case 5: // the first is not oriented, the rest is
					if i == 0 {
						o[1] = 0
					}
				case 6: // not oriented from the 1000th on
					if i >= 999 {
						o[1] = 0
					}
				case 7: // not oriented up to the 1000th, reverse above
					if i < 1000 {
						o[1] = 0
					} else {
						o[1] = -1
					}
				}
				ch[i] = o
			}
			Run(out, Case{Op: "map", Chain: ch, Pos: 5, Real: pat % 3})
			n++
		}
	}
	for p := -6; p <= 6; p++ {
		conv(out, p)
		n++
	}
	for _, p := range []int{1 << 30, -(1 << 30), 1<<31 - 3, -(1<<31 - 3)} {
		conv(out, p)
		n++
	}
	return n
}

// cut returns a random cut of [0, n) into exons (with introns or abutting), at most maxExons of them.
func cut(rng *rand.Rand, n, maxExons int) []X {
	k := 1 + rng.Intn(maxExons)
	if 2*k-1 > n {
		k = (n + 1) / 2
	}
	// 2k-1 segment lengths: exons >= 1, introns >= 0 (0 = abutting exons)
	lens := make([]int, 2*k-1)
	left := n
	for i := 0; i < 2*k-1; i += 2 {
		lens[i] = 1
		left--
	}
	for left > 0 {
		i := rng.Intn(len(lens))
		d := 1 + rng.Intn(1+left/len(lens))
		if rng.Intn(4) == 0 && i%2 == 1 {
			continue // keep some introns empty
		}
		lens[i] += d
		left -= d
	}
	xs := []X{}
	pos := 0
	for i, l := range lens {
		if i%2 == 0 {
			xs = append(xs, X{pos, l, 0})
		}
		pos += l
	}
	return xs
}

func shuffled(rng *rand.Rand, xs []X) []X {
	r := append([]X{}, xs...)
	rng.Shuffle(len(r), func(i, j int) { r[i], r[j] = r[j], r[i] })
	return r
}

func randChain(rng *rand.Rand, d int, top int) []X {
	ch := make([]X, d)
	for i := range ch {
		ch[i] = X{rng.Intn(top), []int{1, -1, 1, -1, 0}[rng.Intn(5)], 1}
		if rng.Intn(6) == 0 {
			ch[i][1], ch[i][2] = 0, 0
		}
	}
	return ch
}

// Random runs n random gene models: a transcript of length up to 10^4 (big: many exons) under a
// random nesting chain, a history of accepted and rejected updates on it and on a bare Exons value
// with random spare capacity, the mapping functions on the exon-transcript-gene-chromosome chain
// and on random chains, and the conversions; then n genes with histories of SetFeatures calls.
func Random(out *vt.W, rng *rand.Rand, n int, big bool) {
	for c := 0; c < n; c++ {
		tlen := 1 + rng.Intn(10000)
		if rng.Intn(4) == 0 {
			tlen = 1 + rng.Intn(30)
		}
		maxEx := 12
		switch {
		case big && c%10 == 0:
			maxEx = 1500
		case c%5 == 0:
			maxEx = 120
		}
		lay := cut(rng, tlen, maxEx)
		// the transcript, its gene (or another oriented feature) and a chromosome
		above := []X{{rng.Intn(100000), []int{1, -1, 1, -1, 0}[rng.Intn(5)], 1}}
		for rng.Intn(3) == 0 {
			above = append(above, X{rng.Intn(1000), []int{1, -1}[rng.Intn(2)], 1})
		}
		above = append(above, X{0, 0, 0})
		chain := append([]X{{rng.Intn(50000), []int{1, -1}[rng.Intn(2)], 1}}, above...)
		kind := []string{"nc", "coding"}[rng.Intn(2)]
		ce := rng.Intn(tlen + 1)
		cs := rng.Intn(ce + 1)

		pick := func() X { return lay[rng.Intn(len(lay))] }
		overlapping := func(loc int) X {
			e := pick()
			o := e[0] + rng.Intn(e[1])
			return X{o, 1 + rng.Intn(1+tlen/4), loc}
		}
		inGap := func() (X, bool) {
			for try := 0; try < 8 && len(lay) > 1; try++ {
				i := rng.Intn(len(lay) - 1)
				a, b := lay[i][0]+lay[i][1], lay[i+1][0]
				if b > a {
					o := a + rng.Intn(b-a)
					return X{o, 1 + rng.Intn(b-o), 0}, true
				}
			}
			return X{tlen + rng.Intn(5), 1 + rng.Intn(9), 0}, true
		}
		calls := []Call{{"set", shuffled(rng, lay)}}
		for k := rng.Intn(5); k >= 0; k-- {
			switch rng.Intn(9) {
			case 0:
				calls = append(calls, Call{"add", []X{overlapping(0)}})
			case 1:
				calls = append(calls, Call{"add", []X{overlapping(0), overlapping(0)}})
			case 2:
				x, _ := inGap()
				calls = append(calls, Call{"add", []X{x}})
			case 3:
				x, _ := inGap()
				calls = append(calls, Call{"addset", []X{x}})
			case 4:
				x, _ := inGap()
				x[2] = 1 + rng.Intn(3)
				calls = append(calls, Call{"add", []X{x}})
			case 5: // no zero start
				l2 := cut(rng, tlen, maxEx)
				for i := range l2 {
					l2[i][0] += 1 + rng.Intn(3)
				}
				calls = append(calls, Call{"set", shuffled(rng, l2)})
			case 6: // overlapping argument list
				l2 := append(cut(rng, tlen, maxEx), overlapping(0))
				calls = append(calls, Call{"set", shuffled(rng, l2)})
			case 7: // one exon elsewhere
				l2 := cut(rng, tlen, maxEx)
				l2[rng.Intn(len(l2))][2] = 1 + rng.Intn(3)
				calls = append(calls, Call{"set", shuffled(rng, l2)})
			case 8: // another acceptable layout
				lay = cut(rng, 1+rng.Intn(10000), maxEx)
				tlen = lay[len(lay)-1][0] + lay[len(lay)-1][1]
				calls = append(calls, Call{"set", shuffled(rng, lay)})
			}
		}
		Run(out, Case{Op: "hist", Holder: kind, Chain: chain, Cs: cs, Ce: ce, Calls: calls})

		// a bare value with spare capacity
		bl := cut(rng, 1+rng.Intn(2000), 1+rng.Intn(30))
		end := bl[len(bl)-1][0] + bl[len(bl)-1][1]
		bcalls := []Call{}
		for k := rng.Intn(4); k >= 0; k-- {
			e := bl[rng.Intn(len(bl))]
			switch rng.Intn(4) {
			case 0:
				bcalls = append(bcalls, Call{"add", []X{{e[0] + rng.Intn(e[1]), 1 + rng.Intn(50), 0}}})
			case 1:
				bcalls = append(bcalls, Call{"add", []X{{end + rng.Intn(3), 1 + rng.Intn(5), 0}}})
				end += 8
			case 2:
				bcalls = append(bcalls, Call{"add", []X{{end + 20, 2, 0}, {e[0], e[1], 0}}})
			case 3:
				bcalls = append(bcalls, Call{"add", []X{{end + rng.Intn(3), 1, 1 + rng.Intn(3)}}})
			}
		}
		Run(out, Case{Op: "hist", Holder: "bare", Before: bl, Spare: rng.Intn(4), Calls: bcalls})

		// exon - transcript - gene - chromosome, and a random chain
		e := lay[rng.Intn(len(lay))]
		mapping(out, append([]X{{e[0], 1, 1}}, chain...), 1+rng.Intn(2), rng.Intn(e[1]), allRefs(len(chain)+1))
		d := 1 + rng.Intn(12)
		rc := randChain(rng, d, 100000)
		mapping(out, rc, rng.Intn(3), rng.Intn(2001)-1000, allRefs(d))
		conv(out, rng.Intn(2000000001)-1000000000)
		conv(out, rng.Intn(7)-3)
	}
	// n genes, each with a history of accepted and rejected SetFeatures calls
	for c := 0; c < n; c++ {
		geneRandom(out, rng, big)
	}
}
