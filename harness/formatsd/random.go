package formatsd

import (
	"bytes"
	"encoding/json"
	"fmt"
	"hash/fnv"
	"math/rand"
	"strings"
	"sync/atomic"

	"verif/harness/vt"
)

const printable = "!\"#$%&'()*+,-./0123456789:;<=>?@ABCDEFGHIJKLMNOPQRSTUVWXYZ[\\]^_`abcdefghijklmnopqrstuvwxyz{|}~"

func word(rng *rand.Rand, min, max int, extra string) string {
	n := min + rng.Intn(max-min+1)
	b := make([]byte, n)
	special := ">@+#;," + extra
	for i := range b {
		if rng.Intn(4) == 0 {
			b[i] = special[rng.Intn(len(special))]
		} else {
			b[i] = printable[rng.Intn(len(printable))]
		}
	}
	return string(b)
}

// phrase: printable text with inner blanks, trimmed.
func phrase(rng *rand.Rand, min, max int) string {
	n := min + rng.Intn(max-min+1)
	if n == 0 {
		return ""
	}
	b := []byte(word(rng, n, n, ""))
	for i := 1; i < len(b)-1; i++ {
		if rng.Intn(5) == 0 {
			b[i] = ' '
		}
	}
	return string(b)
}

func field(rng *rand.Rand) string { // non-empty, tab-free, trimmed, not starting with '#'
	if rng.Intn(16) == 0 {
		// words that begin header lines in other dialects of these formats: plain names here
		return []string{"track", "track1", "browser", "browserX", "trackDb", "chr", "gff-version"}[rng.Intn(7)]
	}
	for {
		s := phrase(rng, 1, 6)
		if s[0] != '#' {
			return s
		}
	}
}

func letters(rng *rand.Rand, n int, alpha string) []int {
	l := make([]int, n)
	for i := range l {
		l[i] = int(alpha[rng.Intn(len(alpha))])
	}
	return l
}

func coord(rng *rand.Rand) int {
	switch rng.Intn(6) {
	case 0:
		return 0
	case 1:
		return -1 - rng.Intn(1000)
	case 2:
		return 99999999 - rng.Intn(10)
	}
	return rng.Intn(100000)
}

func genSeqRec(rng *rand.Rand, withQ bool, offset, maxLen int) Rec {
	n := 0
	if rng.Intn(6) != 0 {
		n = 1 + rng.Intn(maxLen)
	}
	name := ""
	if rng.Intn(8) != 0 {
		name = word(rng, 1, 6, "")
	}
	r := Rec{"name": ints(name), "desc": ints(phrase(rng, 0, 8)), "letters": letters(rng, n, "ACGTNacgtn-RYKM*")}
	if withQ {
		q := make([]int, n)
		lo, hi := 0, 93
		if offset == 64 {
			lo, hi = 2, 62
		}
		for i := range q {
			switch rng.Intn(4) {
			case 0:
				q[i] = lo
			case 1:
				q[i] = hi
			default:
				q[i] = lo + rng.Intn(hi-lo+1)
			}
		}
		r["quals"] = q
	}
	return r
}

func genBed(rng *rand.Rand) Rec {
	nb := 1 + rng.Intn(3)
	sizes, starts := make([]int, nb), make([]int, nb)
	for i := range sizes {
		sizes[i], starts[i] = coord(rng), coord(rng)
	}
	rgb := []int{}
	switch rng.Intn(6) {
	case 0:
		rgb = []int{0, 0, 0} // opaque black
	case 1:
		rgb = []int{0, 0, rng.Intn(2)}
	case 2:
		rgb = []int{255, 255, 255}
	case 3, 4:
		rgb = []int{rng.Intn(256), rng.Intn(256), rng.Intn(256)}
	}
	ts, te := coord(rng), coord(rng)
	if rng.Intn(4) == 0 {
		ts, te = 0, 0 // both thick fields genuinely zero
	}
	return Rec{"chrom": ints(field(rng)), "start": coord(rng), "end": coord(rng), "name": ints(field(rng)),
		"score": coord(rng), "strand": int("+-."[rng.Intn(3)]), "thickStart": ts, "thickEnd": te,
		"rgb": rgb, "blockSizes": sizes, "blockStarts": starts}
}

func firstColumns(r Rec, w int) Rec {
	cols := map[string]int{"chrom": 1, "start": 2, "end": 3, "name": 4, "score": 5, "strand": 6, "thickStart": 7,
		"thickEnd": 8, "rgb": 9, "blockSizes": 11, "blockStarts": 12}
	blank := Rec{"chrom": []int{}, "start": 0, "end": 0, "name": []int{}, "score": 0, "strand": int('.'),
		"thickStart": 0, "thickEnd": 0, "rgb": []int{}, "blockSizes": []int{}, "blockStarts": []int{}}
	o := Rec{}
	for k, c := range cols {
		if c <= w {
			o[k] = r[k]
		} else {
			o[k] = blank[k]
		}
	}
	return o
}

func tag(rng *rand.Rand) string {
	const tb = "ABCXYZabcxyz_"
	n := 1 + rng.Intn(5)
	b := make([]byte, n)
	for i := range b {
		b[i] = tb[rng.Intn(len(tb))]
	}
	return string(b)
}

func genGff(rng *rand.Rand) Rec {
	switch rng.Intn(6) {
	case 0:
		s := coord(rng)
		return Rec{"kind": "region", "name": ints(word(rng, 1, 5, "")), "start": s, "end": s + 1 + []int{0, rng.Intn(1000), rng.Intn(1000)}[rng.Intn(3)]}
	case 1:
		mt := 1 + rng.Intn(3)
		alpha := []string{"", "ACGTN-", "ACGUN-", "ACDEFGHIKLMNPQRSTVWY*-"}[mt]
		return Rec{"kind": "sequence", "moltype": mt, "name": ints(word(rng, 1, 5, "")), "letters": letters(rng, 1+rng.Intn(40), alpha)}
	}
	s := coord(rng)
	scores := []string{".", "0", "1.5", "-2.25e-07", "1e+21", "+Inf", "-Inf", "42", "0.1"}
	score := scores[rng.Intn(len(scores))]
	if rng.Intn(3) == 0 {
		score = fmt.Sprintf("%v", rng.NormFloat64()*1000)
	}
	attrs := [][][]int{}
	for i := rng.Intn(4); i > 0; i-- {
		v := strings.ReplaceAll(phrase(rng, 0, 6), ";", ":")
		attrs = append(attrs, [][]int{ints(tag(rng)), ints(v)})
	}
	comments := ""
	if rng.Intn(3) == 0 {
		comments = field(rng)
	}
	return Rec{"kind": "feature", "seqname": ints(field(rng)), "source": ints(field(rng)), "feature": ints(field(rng)),
		"start": s, "end": s + 1 + []int{0, 0, 1, rng.Intn(5000), rng.Intn(5000)}[rng.Intn(5)], "score": ints(score), "strand": int("+-."[rng.Intn(3)]),
		"frame": int(".012"[rng.Intn(4)]), "attrs": attrs, "comments": ints(comments)}
}

// ------------------------------------------------------------- layouts and damage

func splitKeep(text []byte) [][]byte { // lines including their terminators
	var out [][]byte
	for len(text) > 0 {
		i := bytes.IndexByte(text, '\n')
		if i < 0 {
			out = append(out, text)
			break
		}
		out = append(out, text[:i+1])
		text = text[i+1:]
	}
	return out
}

// relayout applies random record-preserving layout changes (C04).
func relayout(rng *rand.Rand, format string, text []byte) ([]byte, []string) {
	ops := []string{}
	lines := splitKeep(text)
	if format == "fasta" && rng.Intn(2) == 0 {
		// re-wrap every sequence at another width
		w := []int{1, 2, 3, 7, 60, 61, 4095, 4096, 4097, 20000}[rng.Intn(10)]
		ops = append(ops, fmt.Sprintf("rewrap %d", w))
		var out [][]byte
		var seqbuf []byte
		flush := func() {
			for len(seqbuf) > 0 {
				k := w
				if k > len(seqbuf) {
					k = len(seqbuf)
				}
				out = append(out, append(append([]byte{}, seqbuf[:k]...), '\n'))
				seqbuf = seqbuf[k:]
			}
		}
		for _, l := range lines {
			if len(l) > 0 && l[0] == '>' {
				flush()
				out = append(out, l)
			} else {
				seqbuf = append(seqbuf, bytes.TrimRight(l, "\n")...)
			}
		}
		flush()
		lines = out
	}
	if format == "fasta" || format == "fastq" {
		if rng.Intn(2) == 0 {
			ops = append(ops, "trailing blanks")
			for i := range lines {
				if rng.Intn(3) == 0 && bytes.HasSuffix(lines[i], []byte{'\n'}) {
					lines[i] = append(append([]byte{}, lines[i][:len(lines[i])-1]...), []byte(" \t\n")[rng.Intn(2):]...)
				}
			}
		}
		if rng.Intn(2) == 0 {
			ops = append(ops, "blank lines")
			var out [][]byte
			// a blank line is an empty line or (blank line + trailing whitespace) one holding only blanks
			blank := func() []byte { return []byte([]string{"\n", "\n", " \n", "\t\n", "  \t \n"}[rng.Intn(5)]) }
			for i, l := range lines {
				ok := format == "fasta" || i%4 == 0
				if ok && rng.Intn(3) == 0 {
					out = append(out, blank())
				}
				out = append(out, l)
			}
			if rng.Intn(2) == 0 {
				out = append(out, blank())
			}
			lines = out
		}
	}
	text = bytes.Join(lines, nil)
	if rng.Intn(2) == 0 && bytes.HasSuffix(text, []byte{'\n'}) {
		ops = append(ops, "no final newline")
		text = text[:len(text)-1]
	}
	if rng.Intn(2) == 0 {
		ops = append(ops, "crlf")
		text = bytes.ReplaceAll(text, []byte{'\n'}, []byte{'\r', '\n'})
		if rng.Intn(3) == 0 && bytes.HasSuffix(text, []byte{'\r', '\n'}) {
			// the final newline omitted from a CRLF file literally: the last line ends in a bare CR
			ops = append(ops, "no final LF")
			text = text[:len(text)-1]
		}
	}
	return text, ops
}

// damage applies one or two random mutations (C03).
func damage(rng *rand.Rand, format string, text []byte) ([]byte, string) {
	t := append([]byte{}, text...)
	if len(t) == 0 {
		return []byte{byte(rng.Intn(256))}, "byte into empty file"
	}
	lines := bytes.Split(t, []byte{'\n'})
	li := rng.Intn(len(lines))
	cols := bytes.Split(lines[li], []byte{'\t'})
	ci := rng.Intn(len(cols))
	toks := []string{"", "0", "-1", "x", "+", ".", "9223372036854775807", "9223372036854775808", "-9223372036854775809",
		"99999999999999999999999", "0x10", "1e3", "1_0", " ", "#", "256", "-0", "007",
		"255,128", "0,0", "1,2,3,4", ",", "1,", ",1", "1,,2", "0,0,0", "300,1,1", "1,2,x",
		// bytes that are white space as Latin-1 runes (U+0085, U+00A0) but not for bytes.TrimSpace, and other odd blanks
		"gene_id\xa0", "g\x85", "\xa0", "a \xa0b", "t\x0bv", "k\x0c", "x \x85;y\xa0"}
	if bytes.HasPrefix(lines[li], []byte("##")) && rng.Intn(2) == 0 {
		// directive lines (##sequence-region name start end, ##DNA name, ...) are separated by blanks
		ws := bytes.Split(lines[li], []byte{' '})
		wi := rng.Intn(len(ws))
		ws[wi] = []byte(toks[rng.Intn(len(toks))])
		lines[li] = bytes.Join(ws, []byte{' '})
		return bytes.Join(lines, []byte{'\n'}), "replace directive token"
	}
	switch rng.Intn(9) {
	case 0:
		return t[:rng.Intn(len(t))], "truncate"
	case 1:
		t[rng.Intn(len(t))] = byte(rng.Intn(256))
		return t, "random byte"
	case 2:
		t[rng.Intn(len(t))] = "\n\t @+>#;,.-0\xa0\x85\x0b\x0c\r"[rng.Intn(17)]
		return t, "structural byte"
	case 3:
		cols[ci] = []byte(toks[rng.Intn(len(toks))])
		lines[li] = bytes.Join(cols, []byte{'\t'})
		return bytes.Join(lines, []byte{'\n'}), "replace field"
	case 4:
		cols = append(cols[:ci], cols[ci+1:]...)
		lines[li] = bytes.Join(cols, []byte{'\t'})
		return bytes.Join(lines, []byte{'\n'}), "delete column"
	case 5:
		cols = append(cols[:ci+1], cols[ci:]...)
		lines[li] = bytes.Join(cols, []byte{'\t'})
		return bytes.Join(lines, []byte{'\n'}), "duplicate column"
	case 6:
		lines = append(lines[:li], lines[li+1:]...)
		return bytes.Join(lines, []byte{'\n'}), "delete line"
	case 7:
		lines = append(lines[:li+1], lines[li:]...)
		return bytes.Join(lines, []byte{'\n'}), "duplicate line"
	}
	k := rng.Intn(len(t))
	return append(t[:k], t[k+1:]...), "delete byte"
}

func digest(recs []Rec) []interface{} {
	out := []interface{}{}
	for _, r := range recs {
		if k, ok := r["kind"]; ok && (k == "err" || k == "panic" || k == "hang") {
			// same shape as a record digest so that the specification can compare them (length -1: a mark)
			out = append(out, []interface{}{[]int{}, []int{}, -1, map[interface{}]int{"err": 1, "panic": 2, "hang": 3}[k]})
			continue
		}
		h := fnv.New32a()
		for _, v := range nums(r["letters"]) {
			h.Write([]byte{byte(v)})
		}
		for _, v := range nums(r["quals"]) {
			h.Write([]byte{byte(v)})
		}
		out = append(out, []interface{}{r["name"], r["desc"], len(nums(r["letters"])), int(h.Sum32() % 1000000007)})
	}
	return out
}

func randomCfg(rng *rand.Rand, format string) Cfg {
	switch format {
	case "fasta":
		return Cfg{"w": []int{1, 2, 3, 10, 60, 70, 80}[rng.Intn(7)]}
	case "fastq":
		return Cfg{"qid": rng.Intn(2) == 0, "offset": []int{33, 64}[rng.Intn(2)]}
	case "bed":
		ws := []int{3, 4, 5, 6, 12}
		m := ws[rng.Intn(5)]
		w := ws[rng.Intn(5)]
		for w > m {
			w = ws[rng.Intn(5)]
		}
		r := ws[rng.Intn(5)]
		for r > w {
			r = ws[rng.Intn(5)]
		}
		return Cfg{"m": m, "w": w, "r": r}
	}
	return Cfg{"w": []int{1, 2, 7, 60}[rng.Intn(4)], "header": rng.Intn(2) == 0}
}

// Random generates files with the real writers and reads them back under
// layout changes and after damage.
func Random(w *vt.W, rng *rand.Rand, n int, big bool) {
	AllowI15 = true
	defer func() { AllowI15 = false }()
	formats := []string{"fasta", "fastq", "bed", "gff"}
	for id := 0; id < n && atomic.LoadInt32(&Hangs) < MaxHangs; id++ {
		format := formats[id%4]
		cfg := randomCfg(rng, format)
		var recs []Rec
		k := rng.Intn(4)
		for i := 0; i < k; i++ {
			switch format {
			case "fasta":
				recs = append(recs, genSeqRec(rng, false, 0, 24))
			case "fastq":
				recs = append(recs, genSeqRec(rng, true, num(cfg["offset"]), 24))
			case "bed":
				recs = append(recs, firstColumns(genBed(rng), num(cfg["m"])))
			case "gff":
				recs = append(recs, genGff(rng))
			}
		}
		if recs == nil {
			recs = []Rec{}
		}
		text, ns, werr := WriteAll(format, cfg, recs, id)
		w.Emit(vt.Ev{"op": "write", "fmt": format, "cfg": cfg, "recs": recs, "text": vt.Ints(text), "ns": ns, "err": werr})
		expect := recs
		if format == "bed" {
			expect = make([]Rec, len(recs))
			for i, r := range recs {
				expect[i] = firstColumns(r, num(cfg["r"]))
			}
		}
		// read back as written, then under a different layout (small widths only so TLC can judge the bytes)
		for pass := 0; pass < 2; pass++ {
			t := text
			ops := []string{}
			if pass == 1 {
				t, ops = relayout(rng, format, text)
				if len(t) > 1500 {
					continue
				}
			}
			results, stop, detail := ReadAll(format, cfg, t, id+pass)
			w.Emit(vt.Ev{"op": "read", "fmt": format, "cfg": cfg, "valid": true, "text": vt.Ints(t), "recs": expect,
				"results": results, "stop": stop, "detail": detail, "layout": ops})
		}
		for d := 0; d < 2; d++ {
			t, what := damage(rng, format, text)
			if d == 1 {
				t, _ = damage(rng, format, t)
			}
			results, stop, detail := ReadAll(format, cfg, t, id)
			w.Emit(vt.Ev{"op": "read", "fmt": format, "cfg": cfg, "valid": false, "text": vt.Ints(t), "recs": []Rec{},
				"results": results, "stop": stop, "detail": detail, "damage": what})
		}
	}
	if !big {
		return
	}
	// large FASTA/FASTQ files: long sequences, wide and narrow wrapping, lines longer than bufio's buffer
	for id := 0; id < n/8+4; id++ {
		format := []string{"fasta", "fastq"}[id%2]
		cfg := randomCfg(rng, format)
		if format == "fasta" {
			cfg["w"] = []int{1, 60, 4095, 4096, 4097, 8193, 20000}[rng.Intn(7)]
		}
		var recs []Rec
		for i := rng.Intn(3) + 1; i > 0; i-- {
			recs = append(recs, genSeqRec(rng, format == "fastq", offsetOf(cfg), []int{100, 4096, 8193, 20000}[rng.Intn(4)]))
		}
		if id%3 == 0 {
			// a header line longer than bufio's buffer: short words separated by single blanks, so that blanks fall on
			// and around the 4096-byte fragment boundaries
			var d []byte
			for target := []int{4070, 4100, 8170, 8200, 12300}[rng.Intn(5)] + rng.Intn(30); len(d) < target; {
				d = append(d, word(rng, 1, 2, "")...)
				d = append(d, ' ')
			}
			recs[len(recs)-1]["desc"] = ints(string(bytes.TrimRight(d, " ")))
		}
		text, ns, werr := WriteAll(format, cfg, recs, id)
		total := 0
		for _, x := range ns {
			total += x
		}
		bad := werr
		if total != len(text) {
			bad = fmt.Sprintf("Write returned %d bytes in total, %d were emitted", total, len(text))
		}
		t, ops := relayout(rng, format, text)
		results, _, detail := ReadAll(format, cfg, t, id)
		w.Emit(vt.Ev{"op": "big", "fmt": format, "cfg": cfg, "valid": true, "bytes": len(t), "layout": ops,
			"want": digest(recs), "got": digest(results), "bad": bad, "detail": detail})
		// the same large file after damage: only totality is judged (C03)
		dt, what := damage(rng, format, t)
		dres, dstop, ddetail := ReadAll(format, cfg, dt, id)
		marks := []string{}
		for _, r := range dres {
			if k, ok := r["kind"].(string); ok && (k == "panic" || k == "hang") {
				marks = append(marks, k)
			}
		}
		w.Emit(vt.Ev{"op": "bigmut", "fmt": format, "cfg": cfg, "valid": false, "bytes": len(dt), "damage": what,
			"nlines": bytes.Count(dt, []byte{'\n'}) + 1, "stop": dstop, "marks": marks, "detail": ddetail})
	}
	BigLines(w, rng, n/4+24)
	BigExact(w, rng)
}

// BigExact: FASTA and FASTQ files whose LAST physical line fills bufio's buffer exactly (4096 or 8192 bytes, or
// one less under CRLF) and is not followed by a line terminator: the reader gets the line as "prefix" fragments
// and then io.EOF, and must still deliver it (C04: omitting the final newline; lines longer than any buffer).
func BigExact(w *vt.W, rng *rand.Rand) {
	for id, n := range []int{4096, 8192, 12288, 4095, 8191, 4097} {
		for _, format := range []string{"fasta", "fastq"} {
			for _, crlf := range []bool{false, true} {
				cfg := randomCfg(rng, format)
				if format == "fasta" {
					cfg["w"] = 20000
				}
				recs := []Rec{genSeqRec(rng, format == "fastq", offsetOf(cfg), 50), genSeqRec(rng, format == "fastq", offsetOf(cfg), n)}
				last := recs[1]
				for len(nums(last["letters"])) != n { // genSeqRec draws a length up to n: redo until it is n exactly
					last["letters"] = letters(rng, n, "ACGTNacgtn")
					if format == "fastq" {
						q := make([]int, n)
						for i := range q {
							q[i] = 2 + rng.Intn(39) // never '@' or '+' as a first letter at offset 33/64 matters not here
						}
						last["quals"] = q
					}
				}
				text, _, werr := WriteAll(format, cfg, recs, id)
				ops := []string{"no final newline"}
				t := text[:len(text)-1]
				if crlf {
					ops = append(ops, "crlf")
					t = bytes.ReplaceAll(t, []byte{'\n'}, []byte{'\r', '\n'})
				}
				results, _, detail := ReadAll(format, cfg, t, id)
				w.Emit(vt.Ev{"op": "big", "fmt": format, "cfg": cfg, "valid": true, "bytes": len(t), "layout": ops, "lastline": n,
					"want": digest(recs), "got": digest(results), "bad": werr, "detail": detail})
			}
		}
	}
}

// featDigest: digests of feature records (BED, GFF) in the shape of digest().
func featDigest(recs []Rec) []interface{} {
	out := []interface{}{}
	for _, r := range recs {
		if k, ok := r["kind"]; ok && (k == "err" || k == "panic" || k == "hang") {
			out = append(out, []interface{}{[]int{}, []int{}, -1, map[interface{}]int{"err": 1, "panic": 2, "hang": 3}[k]})
			continue
		}
		b, _ := json.Marshal(r) // map keys are sorted
		h := fnv.New32a()
		h.Write(b)
		out = append(out, []interface{}{[]int{}, []int{}, len(b), int(h.Sum32() % 1000000007)})
	}
	return out
}

// BigLines: BED and GFF files with one line whose length (without the line terminator) sits at a boundary of
// bufio's 4096-byte buffer, between ordinary lines, under LF / CRLF / no final newline (C04; C02 as written).
func BigLines(w *vt.W, rng *rand.Rand, n int) {
	targets := []int{4093, 4094, 4095, 4096, 4097, 8190, 8191, 8192, 8193}
	for id := 0; id < n; id++ {
		format := []string{"bed", "gff"}[id%2]
		cfg := randomCfg(rng, format)
		gen := func() Rec {
			for {
				var r Rec
				if format == "bed" {
					r = genBed(rng)
				} else {
					r = genGff(rng)
				}
				if k, ok := r["kind"]; !ok || k == "feature" {
					return r
				}
			}
		}
		field := "chrom"
		if format == "gff" {
			field = "seqname"
		}
		long := gen()
		if _, ok := long[field]; !ok {
			continue
		}
		target := targets[rng.Intn(len(targets))]
		// pad the name so that the written line has exactly the target length
		long[field] = ints("x")
		t0, _, werr := WriteAll(format, cfg, []Rec{long}, id)
		if werr != "" || len(t0) == 0 {
			continue
		}
		last := bytes.LastIndexByte(t0[:len(t0)-1], '\n') + 1 // the record line is the last line (a gff header may precede it)
		pad := target - (len(t0) - 1 - last)
		if pad < 0 {
			continue
		}
		long[field] = ints("x" + strings.Repeat("y", pad))
		recs := []Rec{gen(), long, gen()}
		text, ns, werr := WriteAll(format, cfg, recs, id)
		total := 0
		for _, x := range ns {
			total += x
		}
		bad := werr
		hdr, _ := cfg["header"].(bool)
		if total != len(text) && !hdr { // the header line a GFF writer emits first is not part of any Write's count
			bad = fmt.Sprintf("Write returned %d bytes in total, %d were emitted", total, len(text))
		}
		ops := []string{}
		t := text
		switch id / 2 % 4 {
		case 1:
			ops = append(ops, "crlf")
			t = bytes.ReplaceAll(t, []byte{'\n'}, []byte{'\r', '\n'})
		case 2:
			ops = append(ops, "no final newline")
			t = t[:len(t)-1]
		case 3:
			ops = append(ops, "crlf", "no final newline")
			t = bytes.ReplaceAll(t[:len(t)-1], []byte{'\n'}, []byte{'\r', '\n'})
		}
		expect := recs
		if format == "bed" {
			expect = make([]Rec, len(recs))
			for i, r := range recs {
				expect[i] = firstColumns(r, num(cfg["r"]))
			}
		}
		results, _, detail := ReadAll(format, cfg, t, id)
		for _, r := range results {
			delete(r, "_span")
		}
		w.Emit(vt.Ev{"op": "big", "fmt": format, "cfg": cfg, "valid": true, "bytes": len(t), "layout": ops, "linelen": target,
			"want": featDigest(expect), "got": featDigest(results), "bad": bad, "detail": detail})
	}
}

func offsetOf(c Cfg) int {
	if v, ok := c["offset"]; ok {
		return num(v)
	}
	return 33
}
