// Package formatsd drives the real FASTA/FASTQ/BED/GFF writers and readers
// and logs what they did in the record shapes of spec/Formats.
package formatsd

import (
	"bufio"
	"bytes"
	"encoding/json"
	"fmt"
	"image/color"
	"io"
	"os"
	"sync/atomic"
	"time"

	"github.com/biogo/biogo/alphabet"
	"github.com/biogo/biogo/feat"
	"github.com/biogo/biogo/io/featio"
	"github.com/biogo/biogo/io/featio/bed"
	"github.com/biogo/biogo/io/featio/gff"
	"github.com/biogo/biogo/io/seqio"
	"github.com/biogo/biogo/io/seqio/alignio"
	"github.com/biogo/biogo/io/seqio/fasta"
	"github.com/biogo/biogo/io/seqio/fastq"
	"github.com/biogo/biogo/seq"
	"github.com/biogo/biogo/seq/linear"
	"github.com/biogo/biogo/seq/multi"

	"verif/harness/vt"
)

// Rec is a record in the shape the specifications use; bytes are []int.
type Rec map[string]interface{}

func ints(s string) []int { return vt.Ints([]byte(s)) }
func str(v interface{}) string {
	switch x := v.(type) {
	case []interface{}:
		b := make([]byte, len(x))
		for i, e := range x {
			b[i] = byte(e.(float64))
		}
		return string(b)
	case []int:
		b := make([]byte, len(x))
		for i, e := range x {
			b[i] = byte(e)
		}
		return string(b)
	case string:
		return x
	case nil:
		return ""
	}
	panic(fmt.Sprintf("str: %T", v))
}
func num(v interface{}) int {
	switch x := v.(type) {
	case float64:
		return int(x)
	case int:
		return x
	}
	panic(fmt.Sprintf("num: %T", v))
}
func nums(v interface{}) []int {
	switch x := v.(type) {
	case []interface{}:
		r := make([]int, len(x))
		for i, e := range x {
			r[i] = num(e)
		}
		return r
	case []int:
		return x
	case nil:
		return []int{}
	}
	panic(fmt.Sprintf("nums: %T", v))
}

func mark(kind string) Rec { return Rec{"kind": kind} }

// Cfg is the configuration of a writer/reader pair.
type Cfg map[string]interface{}

// AllowI15: the random driver's records keep their scores within 2..62 under offset 64, the printable range of
// Illumina 1.5 as well; the bounded model's records (scores 0 and 31) are read and written as Illumina 1.3 only.
var AllowI15 bool

func encOf(offset int, seed int) alphabet.Encoding {
	if offset == 64 {
		if AllowI15 && seed%2 == 1 {
			return alphabet.Illumina1_5
		}
		return alphabet.Illumina1_3
	}
	return []alphabet.Encoding{alphabet.Sanger, alphabet.Illumina1_8, alphabet.Illumina1_9}[seed%3]
}

// ---------------------------------------------------------------- readers

type reader func() (Rec, error)

func seqRec(s seq.Sequence, withQ bool) Rec {
	n := s.Len()
	letters := make([]int, n)
	quals := make([]int, n)
	for i := 0; i < n; i++ {
		ql := s.At(i + s.Start())
		letters[i] = int(ql.L)
		quals[i] = int(ql.Q)
	}
	r := Rec{"name": ints(s.Name()), "desc": ints(s.Description()), "letters": letters}
	if withQ {
		r["quals"] = quals
	}
	return r
}

func strandByte(s seq.Strand) int {
	switch s {
	case seq.Plus:
		return '+'
	case seq.Minus:
		return '-'
	}
	return '.'
}

func rgbRec(c color.RGBA) []int {
	if c == (color.RGBA{}) {
		return []int{}
	}
	return []int{int(c.R), int(c.G), int(c.B)}
}

func nonNil(a []int) []int {
	if a == nil {
		return []int{}
	}
	return a
}

func bedRec(f feat.Feature) Rec {
	r := Rec{"chrom": []int{}, "start": 0, "end": 0, "name": []int{}, "score": 0, "strand": int('.'),
		"thickStart": 0, "thickEnd": 0, "rgb": []int{}, "blockSizes": []int{}, "blockStarts": []int{}}
	switch b := f.(type) {
	case *bed.Bed3:
		r["chrom"], r["start"], r["end"] = ints(b.Chrom), b.ChromStart, b.ChromEnd
	case *bed.Bed4:
		r["chrom"], r["start"], r["end"], r["name"] = ints(b.Chrom), b.ChromStart, b.ChromEnd, ints(b.FeatName)
	case *bed.Bed5:
		r["chrom"], r["start"], r["end"], r["name"], r["score"] = ints(b.Chrom), b.ChromStart, b.ChromEnd, ints(b.FeatName), b.FeatScore
	case *bed.Bed6:
		r["chrom"], r["start"], r["end"], r["name"], r["score"] = ints(b.Chrom), b.ChromStart, b.ChromEnd, ints(b.FeatName), b.FeatScore
		r["strand"] = strandByte(b.FeatStrand)
	case *bed.Bed12:
		r["chrom"], r["start"], r["end"], r["name"], r["score"] = ints(b.Chrom), b.ChromStart, b.ChromEnd, ints(b.FeatName), b.FeatScore
		r["strand"] = strandByte(b.FeatStrand)
		r["thickStart"], r["thickEnd"], r["rgb"] = b.ThickStart, b.ThickEnd, rgbRec(b.Rgb)
		r["blockSizes"], r["blockStarts"] = nonNil(b.BlockSizes), nonNil(b.BlockStarts)
	default:
		return Rec{"kind": "other", "type": fmt.Sprintf("%T", f)}
	}
	return r
}

func gffRec(f feat.Feature) Rec {
	switch g := f.(type) {
	case *gff.Feature:
		score := "."
		if g.FeatScore != nil {
			score = fmt.Sprintf("%v", *g.FeatScore)
		}
		attrs := [][][]int{}
		for _, a := range g.FeatAttributes {
			attrs = append(attrs, [][]int{ints(a.Tag), ints(a.Value)})
		}
		return Rec{"kind": "feature", "seqname": ints(g.SeqName), "source": ints(g.Source), "feature": ints(g.Feature),
			"start": g.FeatStart, "end": g.FeatEnd, "score": ints(score), "strand": strandByte(g.FeatStrand),
			"frame": int(g.FeatFrame.String()[0]), "attrs": attrs, "comments": ints(g.Comments),
			"_span": []int{g.Start(), g.End(), g.Len()}}
	case *gff.Region:
		return Rec{"kind": "region", "name": ints(g.SeqName), "start": g.RegionStart, "end": g.RegionEnd,
			"_span": []int{g.Start(), g.End(), g.Len()}}
	case seq.Sequence:
		r := seqRec(g, false)
		mt := 0
		switch g.Alphabet().Moltype() {
		case feat.DNA:
			mt = 1
		case feat.RNA:
			mt = 2
		case feat.Protein:
			mt = 3
		}
		return Rec{"kind": "sequence", "moltype": mt, "name": r["name"], "letters": r["letters"]}
	}
	return Rec{"kind": "other", "type": fmt.Sprintf("%T", f)}
}

func newReader(format string, cfg Cfg, text []byte, variant int) reader {
	rd := bytes.NewReader(text)
	switch format {
	case "fasta":
		// the template the reader clones for every record is empty but, in half of the runs, pre-sized - as a caller
		// expecting long sequences would make it
		tmpl := linear.NewSeq("", nil, alphabet.DNA)
		if (variant/4)%2 == 1 {
			tmpl.Seq = make(alphabet.Letters, 0, 64)
		}
		var t seqio.SequenceAppender = tmpl
		if variant%2 == 1 {
			t = linear.NewQSeq("", nil, alphabet.DNA, alphabet.Sanger)
		}
		r := fasta.NewReader(rd, t)
		return func() (Rec, error) {
			s, err := r.Read()
			if err != nil {
				return nil, err
			}
			rec := seqRec(s, false)
			rec["_seq"] = s // looked at again when the whole file has been read (ReadAll)
			return rec, nil
		}
	case "fastq":
		r := fastq.NewReader(rd, linear.NewQSeq("", nil, alphabet.DNA, encOf(num(cfg["offset"]), variant)))
		return func() (Rec, error) {
			s, err := r.Read()
			if err != nil {
				return nil, err
			}
			return seqRec(s, true), nil
		}
	case "bed":
		r, err := bed.NewReader(rd, num(cfg["r"]))
		if err != nil {
			vt.Fatal("bed.NewReader: %v", err)
		}
		return func() (Rec, error) {
			f, err := r.Read()
			if err != nil {
				return nil, err
			}
			if f == nil {
				return nil, nil
			}
			return bedRec(f), nil
		}
	case "gff":
		r := gff.NewReader(rd)
		return func() (Rec, error) {
			f, err := r.Read()
			if err != nil {
				return nil, err
			}
			if f == nil {
				return nil, nil
			}
			return gffRec(f), nil
		}
	}
	vt.Fatal("unknown format %q", format)
	return nil
}

// guarded performs one Read with a panic guard and a watchdog.
func guarded(rd reader) (rec Rec, err error, status string) {
	type res struct {
		rec    Rec
		err    error
		status string
	}
	ch := make(chan res, 1)
	go func() {
		defer func() {
			if p := recover(); p != nil {
				ch <- res{nil, nil, fmt.Sprintf("panic: %v", p)}
			}
		}()
		r, e := rd()
		ch <- res{r, e, ""}
	}()
	select {
	case r := <-ch:
		return r.rec, r.err, r.status
	case <-time.After(3 * time.Second):
		return nil, nil, "hang"
	}
}

// Hangs counts reads that did not return within the watchdog's 3 s; after a handful the drivers stop reading
// further files (each one costs 3 s and a parked goroutine, and the verdict is already clear).
var Hangs int32

const MaxHangs = 8

// ReadAll calls Read until io.EOF and returns the results in specification shape.
func ReadAll(format string, cfg Cfg, text []byte, variant int) (results []Rec, stop int, detail string) {
	defer func() {
		for _, r := range results {
			if r["kind"] == "hang" {
				atomic.AddInt32(&Hangs, 1)
				break
			}
		}
		// a record handed out stays what it was while later ones are read: every sequence kept from an earlier
		// Read is serialised again now
		for i, r := range results {
			if s, ok := r["_seq"].(seq.Sequence); ok {
				again := seqRec(s, false)
				for _, k := range []string{"name", "desc", "letters"} {
					results[i][k] = again[k]
				}
			}
			delete(results[i], "_seq")
		}
	}()
	rd := newReader(format, cfg, text, variant)
	nl := bytes.Count(text, []byte{'\n'}) + 1
	results = []Rec{}
	for call := 1; call <= 2*nl+6; call++ {
		rec, err, status := guarded(rd)
		switch {
		case status == "hang":
			results = append(results, mark("hang"))
			if stop == 0 {
				stop = call
			}
			return results, stop, "Read did not return within 3s"
		case status != "":
			results = append(results, mark("panic"))
			if stop == 0 {
				stop = call
			}
			return results, stop, status
		case err == io.EOF:
			if stop == 0 {
				stop = call
			}
			return results, stop, detail
		case err != nil:
			if stop == 0 {
				stop = call
			}
			if detail == "" {
				detail = err.Error()
			}
			results = append(results, mark("err"))
		case rec == nil:
			// neither a record nor an error: C03 forbids it
			results = append(results, mark("panic"))
			return results, stop, "Read returned (nil, nil)"
		default:
			delete(rec, "_span")
			results = append(results, rec)
		}
	}
	results = append(results, mark("hang"))
	return results, stop, "no io.EOF after 2*lines+6 calls"
}

// ScanAll runs the real seqio/featio Scanner over the text: the records it yields, whether Error() is
// non-nil afterwards, and whether Next stays false once it has returned false (extension, spec/Formats/Scanner.tla).
func ScanAll(format string, cfg Cfg, text []byte, variant int) (yielded []Rec, hasErr, sticky bool, status string) {
	yielded = []Rec{}
	defer func() {
		if p := recover(); p != nil {
			status = fmt.Sprintf("panic: %v", p)
		}
	}()
	rd := bytes.NewReader(text)
	limit := 2*bytes.Count(text, []byte{'\n'}) + 8
	var next func() bool
	var cur func() Rec
	var errf func() error
	switch format {
	case "fasta", "fastq":
		var r seqio.Reader
		if format == "fasta" {
			var t seqio.SequenceAppender = linear.NewSeq("", nil, alphabet.DNA)
			if variant%2 == 1 {
				t = linear.NewQSeq("", nil, alphabet.DNA, alphabet.Sanger)
			}
			r = fasta.NewReader(rd, t)
		} else {
			r = fastq.NewReader(rd, linear.NewQSeq("", nil, alphabet.DNA, encOf(num(cfg["offset"]), variant)))
		}
		sc := seqio.NewScanner(r)
		if variant%3 == 1 {
			sc = seqio.NewScannerFromFunc(r.Read)
		}
		next, errf = sc.Next, sc.Error
		cur = func() Rec { return seqRec(sc.Seq(), format == "fastq") }
	case "bed", "gff":
		var r featio.Reader
		if format == "bed" {
			br, err := bed.NewReader(rd, num(cfg["r"]))
			if err != nil {
				vt.Fatal("bed.NewReader: %v", err)
			}
			r = br
		} else {
			r = gff.NewReader(rd)
		}
		sc := featio.NewScanner(r)
		if variant%3 == 1 {
			sc = featio.NewScannerFromFunc(r.Read)
		}
		next, errf = sc.Next, sc.Error
		cur = func() Rec {
			if format == "bed" {
				return bedRec(sc.Feat())
			}
			return gffRec(sc.Feat())
		}
	default:
		vt.Fatal("unknown format %q", format)
	}
	for n := 0; next(); n++ {
		if n > limit {
			return yielded, false, false, "hang"
		}
		rec := cur()
		delete(rec, "_span")
		yielded = append(yielded, rec)
	}
	hasErr = errf() != nil
	sticky = !next() && !next() && (errf() != nil) == hasErr
	return yielded, hasErr, sticky, ""
}

// AlignReadAll calls alignio.Reader.Read `calls` times over the text (extension, spec/Formats/AlignIO.tla):
// each call's outcome is {"kind":"err"} or {"kind":"multi","rows":[records]}.
func AlignReadAll(format string, cfg Cfg, text []byte, variant, calls int) (out []Rec, status string) {
	out = []Rec{}
	defer func() {
		if p := recover(); p != nil {
			status = fmt.Sprintf("panic: %v", p)
		}
	}()
	rd := bytes.NewReader(text)
	var r seqio.Reader
	withQ := format == "fastq"
	if format == "fasta" {
		r = fasta.NewReader(rd, linear.NewSeq("", nil, alphabet.DNA))
	} else {
		r = fastq.NewReader(rd, linear.NewQSeq("", nil, alphabet.DNA, encOf(num(cfg["offset"]), variant)))
	}
	m, err := multi.NewMulti("aln", nil, nil)
	if err != nil {
		vt.Fatal("NewMulti: %v", err)
	}
	ar := alignio.NewReader(r, m)
	for c := 0; c < calls; c++ {
		got, err := ar.Read()
		if err != nil {
			out = append(out, Rec{"kind": "err"})
			continue
		}
		rows := []Rec{}
		for i := 0; i < got.Rows(); i++ {
			rec := seqRec(got.Row(i), withQ)
			delete(rec, "_span")
			rows = append(rows, rec)
		}
		out = append(out, Rec{"kind": "multi", "rows": rows})
	}
	return out, ""
}

// AlignWrite writes recs as one Multi through alignio.Writer over the real FASTA/FASTQ writer.
func AlignWrite(format string, cfg Cfg, recs []Rec, variant int) (text []byte, n int, errs string) {
	var w countingWriter
	var sw seqio.Writer
	rows := []seq.Sequence{}
	if format == "fasta" {
		sw = fasta.NewWriter(&w, num(cfg["w"]))
		for _, r := range recs {
			rows = append(rows, seqOf(r, false, alphabet.Sanger, alphabet.DNA))
		}
	} else {
		fw := fastq.NewWriter(&w)
		fw.QID = cfg["qid"].(bool)
		sw = fw
		for _, r := range recs {
			rows = append(rows, seqOf(r, true, encOf(num(cfg["offset"]), variant), alphabet.DNA))
		}
	}
	m, err := multi.NewMulti("aln", rows, nil)
	if err != nil {
		return nil, 0, "NewMulti: " + err.Error()
	}
	n, err = alignio.NewWriter(sw).Write(m)
	if err != nil {
		errs = err.Error()
	}
	return w.buf.Bytes(), n, errs
}

// the wrappers under the same 3 s watchdog as plain reads (a reader that spins at EOF spins here too)
func scanAllGuarded(format string, cfg Cfg, text []byte, variant int) (ys []Rec, hasErr, sticky bool, status string) {
	type res struct {
		ys     []Rec
		he, st bool
		status string
	}
	ch := make(chan res, 1)
	go func() {
		y, h, s, st := ScanAll(format, cfg, text, variant)
		ch <- res{y, h, s, st}
	}()
	select {
	case r := <-ch:
		return r.ys, r.he, r.st, r.status
	case <-time.After(3 * time.Second):
		atomic.AddInt32(&Hangs, 1)
		return []Rec{}, false, false, "hang"
	}
}

func alignReadAllGuarded(format string, cfg Cfg, text []byte, variant, calls int) (out []Rec, status string) {
	type res struct {
		out    []Rec
		status string
	}
	ch := make(chan res, 1)
	go func() {
		o, st := AlignReadAll(format, cfg, text, variant, calls)
		ch <- res{o, st}
	}()
	select {
	case r := <-ch:
		return r.out, r.status
	case <-time.After(3 * time.Second):
		atomic.AddInt32(&Hangs, 1)
		return []Rec{}, "hang"
	}
}

// ---------------------------------------------------------------- writers

func seqOf(r Rec, withQ bool, enc alphabet.Encoding, alpha alphabet.Alphabet) seq.Sequence {
	letters := nums(r["letters"])
	if withQ {
		quals := nums(r["quals"])
		ql := make([]alphabet.QLetter, len(letters))
		for i := range ql {
			ql[i] = alphabet.QLetter{L: alphabet.Letter(letters[i]), Q: alphabet.Qphred(quals[i])}
		}
		s := linear.NewQSeq(str(r["name"]), ql, alpha, enc)
		s.Desc = str(r["desc"])
		return s
	}
	l := make([]alphabet.Letter, len(letters))
	for i := range l {
		l[i] = alphabet.Letter(letters[i])
	}
	s := linear.NewSeq(str(r["name"]), l, alpha)
	s.Desc = str(r["desc"])
	return s
}

func strandOf(b int) seq.Strand {
	switch b {
	case '+':
		return seq.Plus
	case '-':
		return seq.Minus
	}
	return seq.None
}

func bedOf(r Rec, m int) feat.Feature {
	chrom, start, end := str(r["chrom"]), num(r["start"]), num(r["end"])
	switch m {
	case 3:
		return &bed.Bed3{Chrom: chrom, ChromStart: start, ChromEnd: end}
	case 4:
		return &bed.Bed4{Chrom: chrom, ChromStart: start, ChromEnd: end, FeatName: str(r["name"])}
	case 5:
		return &bed.Bed5{Chrom: chrom, ChromStart: start, ChromEnd: end, FeatName: str(r["name"]), FeatScore: num(r["score"])}
	case 6:
		return &bed.Bed6{Chrom: chrom, ChromStart: start, ChromEnd: end, FeatName: str(r["name"]), FeatScore: num(r["score"]),
			FeatStrand: strandOf(num(r["strand"]))}
	}
	rgb := nums(r["rgb"])
	c := color.RGBA{}
	if len(rgb) == 3 {
		c = color.RGBA{R: uint8(rgb[0]), G: uint8(rgb[1]), B: uint8(rgb[2]), A: 0xff}
	}
	return &bed.Bed12{Chrom: chrom, ChromStart: start, ChromEnd: end, FeatName: str(r["name"]), FeatScore: num(r["score"]),
		FeatStrand: strandOf(num(r["strand"])), ThickStart: num(r["thickStart"]), ThickEnd: num(r["thickEnd"]), Rgb: c,
		BlockCount: len(nums(r["blockSizes"])), BlockSizes: nums(r["blockSizes"]), BlockStarts: nums(r["blockStarts"])}
}

func gffOf(r Rec) feat.Feature {
	switch r["kind"] {
	case "feature":
		f := &gff.Feature{SeqName: str(r["seqname"]), Source: str(r["source"]), Feature: str(r["feature"]),
			FeatStart: num(r["start"]), FeatEnd: num(r["end"]), FeatStrand: strandOf(num(r["strand"])), Comments: str(r["comments"])}
		if s := str(r["score"]); s != "." {
			var v float64
			if _, err := fmt.Sscanf(s, "%g", &v); err != nil {
				switch s {
				case "+Inf":
					v = inf(1)
				case "-Inf":
					v = inf(-1)
				default:
					vt.Fatal("score %q: %v", s, err)
				}
			}
			f.FeatScore = &v
		}
		switch num(r["frame"]) {
		case '0':
			f.FeatFrame = gff.Frame0
		case '1':
			f.FeatFrame = gff.Frame1
		case '2':
			f.FeatFrame = gff.Frame2
		default:
			f.FeatFrame = gff.NoFrame
		}
		if at, ok := r["attrs"].([]interface{}); ok && len(at) > 0 {
			for _, a := range at {
				p := a.([]interface{})
				f.FeatAttributes = append(f.FeatAttributes, gff.Attribute{Tag: str(p[0]), Value: str(p[1])})
			}
		} else if at, ok := r["attrs"].([][][]int); ok && len(at) > 0 {
			for _, p := range at {
				f.FeatAttributes = append(f.FeatAttributes, gff.Attribute{Tag: str(p[0]), Value: str(p[1])})
			}
		}
		return f
	case "region":
		return &gff.Region{Sequence: gff.Sequence{SeqName: str(r["name"])}, RegionStart: num(r["start"]), RegionEnd: num(r["end"])}
	case "sequence":
		alpha := []alphabet.Alphabet{nil, alphabet.DNA, alphabet.RNA, alphabet.Protein}[num(r["moltype"])]
		return seqOf(Rec{"name": r["name"], "desc": []int{}, "letters": r["letters"]}, false, alphabet.Sanger, alpha).(feat.Feature)
	}
	vt.Fatal("gff item kind %v", r["kind"])
	return nil
}

func inf(sign int) float64 {
	var z float64
	if sign > 0 {
		return 1 / z
	}
	return -1 / z
}

type countingWriter struct {
	buf bytes.Buffer
}

func (c *countingWriter) Write(p []byte) (int, error) { return c.buf.Write(p) }

// WriteAll writes recs with the real writer; returns the bytes and each call's n.
func WriteAll(format string, cfg Cfg, recs []Rec, variant int) (text []byte, ns []int, errs string) {
	var w countingWriter
	ns = []int{}
	put := func(n int, err error) {
		ns = append(ns, n)
		if err != nil && errs == "" {
			errs = err.Error()
		}
	}
	switch format {
	case "fasta":
		fw := fasta.NewWriter(&w, num(cfg["w"]))
		for _, r := range recs {
			if variant%2 == 1 {
				// a quality-carrying sequence written as FASTA
				q := Rec{"name": r["name"], "desc": r["desc"], "letters": r["letters"], "quals": make([]int, len(nums(r["letters"])))}
				put(fw.Write(seqOf(q, true, alphabet.Sanger, alphabet.DNA)))
			} else {
				put(fw.Write(seqOf(r, false, alphabet.Sanger, alphabet.DNA)))
			}
		}
	case "fastq":
		fw := fastq.NewWriter(&w)
		fw.QID = cfg["qid"].(bool)
		for _, r := range recs {
			put(fw.Write(seqOf(r, true, encOf(num(cfg["offset"]), variant), alphabet.DNA)))
		}
	case "bed":
		bw, err := bed.NewWriter(&w, num(cfg["w"]))
		if err != nil {
			vt.Fatal("bed.NewWriter: %v", err)
		}
		for _, r := range recs {
			put(bw.Write(bedOf(r, num(cfg["m"]))))
		}
	case "gff":
		gw := gff.NewWriter(&w, num(cfg["w"]), cfg["header"].(bool))
		for _, r := range recs {
			put(gw.Write(gffOf(r)))
		}
	}
	return w.buf.Bytes(), ns, errs
}

// ---------------------------------------------------------------- TLC-emitted files

type emitted struct {
	Fmt    string `json:"fmt"`
	Cfg    Cfg    `json:"cfg"`
	Valid  bool   `json:"valid"`
	Text   []int  `json:"text"`
	Expect []Rec  `json:"expect"`
	Steps  int    `json:"steps"`
	CRLF   bool   `json:"crlf"`
}

// ReadEmitted runs the real readers over the files TLC emitted from Formats.tla.
func ReadEmitted(w *vt.W, path string) int {
	f, err := os.Open(path)
	if err != nil {
		vt.Fatal("open %s: %v", path, err)
	}
	defer f.Close()
	sc := bufio.NewScanner(f)
	sc.Buffer(make([]byte, 1<<20), 1<<26)
	n := 0
	seen := map[string]bool{}
	for sc.Scan() {
		if atomic.LoadInt32(&Hangs) >= MaxHangs {
			break
		}
		if seen[string(sc.Bytes())] {
			continue
		}
		seen[string(sc.Bytes())] = true
		var e emitted
		if err := json.Unmarshal(sc.Bytes(), &e); err != nil {
			vt.Fatal("file %d: %v", n, err)
		}
		text := make([]byte, len(e.Text))
		for i, b := range e.Text {
			text[i] = byte(b)
		}
		results, stop, detail := ReadAll(e.Fmt, e.Cfg, text, n)
		ev := vt.Ev{"op": "read", "fmt": e.Fmt, "cfg": e.Cfg, "valid": e.Valid, "text": e.Text, "results": results,
			"stop": stop, "detail": detail, "recs": []Rec{}, "layout": []string{}}
		if e.Steps > 0 {
			ev["layout"] = append(ev["layout"].([]string), fmt.Sprintf("model steps %d", e.Steps))
		}
		if e.CRLF {
			ev["layout"] = append(ev["layout"].([]string), "crlf")
		}
		if e.Valid {
			ev["recs"] = e.Expect
		}
		w.Emit(ev)
		if detail == "" || stop > 0 {
			// extension: the same file through the Scanner wrappers
			ys, hasErr, sticky, status := scanAllGuarded(e.Fmt, e.Cfg, text, n)
			w.Emit(vt.Ev{"op": "scan", "fmt": e.Fmt, "results": results, "yielded": ys, "err": hasErr, "sticky": sticky, "status": status,
				"valid": e.Valid, "layout": ev["layout"]})
			if e.Fmt == "fasta" || e.Fmt == "fastq" {
				calls, status := alignReadAllGuarded(e.Fmt, e.Cfg, text, n, 3)
				w.Emit(vt.Ev{"op": "alnread", "fmt": e.Fmt, "results": results, "calls": calls, "status": status,
					"valid": e.Valid, "layout": ev["layout"]})
			}
		}
		// records of the bounded model through the real writers as well (C01/C02), when the file as first
		// written carries the full records
		full := e.Fmt != "bed" || (num(e.Cfg["r"]) == num(e.Cfg["w"]) && num(e.Cfg["w"]) == num(e.Cfg["m"]))
		if e.Valid && e.Steps == 0 && !e.CRLF && full {
			wt, ns, werr := WriteAll(e.Fmt, e.Cfg, e.Expect, n)
			w.Emit(vt.Ev{"op": "write", "fmt": e.Fmt, "cfg": e.Cfg, "recs": e.Expect, "text": vt.Ints(wt), "ns": ns, "err": werr})
			if (e.Fmt == "fasta" || e.Fmt == "fastq") && len(e.Expect) > 0 {
				at, an, aerr := AlignWrite(e.Fmt, e.Cfg, e.Expect, n)
				w.Emit(vt.Ev{"op": "alnwrite", "fmt": e.Fmt, "cfg": e.Cfg, "recs": e.Expect, "text": vt.Ints(at), "n": an, "err": aerr,
					"valid": true, "layout": []string{}})
			}
		}
		n++
	}
	return n
}
