// Package alphabetd drives the real biogo/alphabet package for property C17:
// it builds alphabets, pairings and complementing alphabets from definitions
// (the built-in ones, the ones TLC enumerated, random ones) and logs what
// every accessor returns for all 256 letter values.  It computes no expected
// results: AlphabetTrace.tla judges the log.
package alphabetd

import (
	"bufio"
	"encoding/json"
	"fmt"
	"os"
	"strings"

	"github.com/biogo/biogo/alphabet"
	"github.com/biogo/biogo/feat"

	"verif/harness/vt"
)

// Case is one input: a built-in alphabet by name or a definition.
// The same shape is emitted by Alphabet.tla (EmitCases) and stored in replay files.
type Case struct {
	Kind  string `json:"kind"` // builtin | alpha | pairing | comp | allvalid
	Name  string `json:"name"` // built-in alphabet (builtin, allvalid)
	Def   []int  `json:"def"`
	Cased bool   `json:"cased"`
	Gap   int    `json:"gap"`
	Amb   int    `json:"amb"`
	Mol   int    `json:"mol"`
	S     []int  `json:"s"`
	C     []int  `json:"c"`
	W     []int  `json:"w"`
}

// Builtins lists the built-in alphabets in the order of alphabet.go.
var Builtins = []struct {
	Name string
	A    alphabet.Alphabet
}{
	{"DNA", alphabet.DNA}, {"DNAgapped", alphabet.DNAgapped}, {"DNAredundant", alphabet.DNAredundant},
	{"RNA", alphabet.RNA}, {"RNAgapped", alphabet.RNAgapped}, {"RNAredundant", alphabet.RNAredundant},
	{"Protein", alphabet.Protein},
}

func builtin(name string) alphabet.Alphabet {
	for _, b := range Builtins {
		if b.Name == name {
			return b.A
		}
	}
	return nil
}

func str(b []int) string {
	s := make([]byte, len(b))
	for i, v := range b {
		s[i] = byte(v)
	}
	return string(s)
}

func ints(s string) []int { return vt.Ints([]byte(s)) }

func nz(b []int) []int {
	if b == nil {
		return []int{}
	}
	return b
}

// errClass names the check that failed, from the text of the constructor's error.
func errClass(err error) string {
	if err == nil {
		return ""
	}
	m := err.Error()
	switch {
	case strings.Contains(m, "non-ASCII"):
		return "nonascii"
	case strings.Contains(m, "do not match"):
		return "length"
	case strings.Contains(m, "not a bijection"):
		return "bijection"
	case strings.Contains(m, "invalid pairing"):
		return "invalidpair"
	}
	return "other:" + m
}

func guard(ev vt.Ev, f func()) {
	defer func() {
		if r := recover(); r != nil {
			ev["panic"] = fmt.Sprint(r)
		}
	}()
	f()
}

func emptyAlpha(ev vt.Ev) {
	ev["len"], ev["iscased"], ev["rgap"], ev["ramb"], ev["rmol"] = 0, false, 0, 0, 0
	for _, k := range []string{"letters", "letter", "index", "letterindex"} {
		ev[k] = []int{}
	}
	ev["valid"], ev["validletters"] = []bool{}, []bool{}
}

func emptyPair(ev vt.Ev) {
	ev["pair"], ev["table"], ev["pairok"] = []int{}, []int{}, []bool{}
}

// dumpAlpha logs every accessor of a over all 256 letters.
func dumpAlpha(ev vt.Ev, a alphabet.Alphabet) {
	n := a.Len()
	ev["len"] = n
	ev["iscased"] = a.IsCased()
	ev["rgap"] = int(a.Gap())
	ev["ramb"] = int(a.Ambiguous())
	ev["rmol"] = int(a.Moltype())
	ev["letters"] = ints(a.Letters())
	letter := make([]int, 0, n)
	for i := 0; i < n; i++ {
		letter = append(letter, int(a.Letter(i)))
	}
	ev["letter"] = letter
	valid, index := make([]bool, 256), make([]int, 256)
	for l := 0; l < 256; l++ {
		valid[l] = a.IsValid(alphabet.Letter(l))
		index[l] = a.IndexOf(alphabet.Letter(l))
	}
	ev["valid"], ev["index"] = valid, index
	ev["validletters"] = append([]bool{}, a.ValidLetters()...)
	li := a.LetterIndex()
	ev["letterindex"] = append([]int{}, li[:]...)
}

type complementer interface {
	Complement(alphabet.Letter) (alphabet.Letter, bool)
	ComplementTable() []alphabet.Letter
}

// dumpPair logs the method form and the table form of a complement relation.
func dumpPair(ev vt.Ev, p complementer) {
	pair, ok := make([]int, 256), make([]bool, 256)
	for l := 0; l < 256; l++ {
		c, k := p.Complement(alphabet.Letter(l))
		pair[l], ok[l] = int(c), k
	}
	ev["pair"], ev["pairok"] = pair, ok
	t := p.ComplementTable()
	table := make([]int, len(t))
	for i, c := range t {
		table[i] = int(c)
	}
	ev["table"] = table
}

// Run performs one case on the real package and logs one event.
func Run(w *vt.W, c Case) {
	ev := vt.Ev{"op": c.Kind, "panic": "", "err": ""}
	switch c.Kind {
	case "builtin":
		ev["name"] = c.Name
		emptyAlpha(ev)
		emptyPair(ev)
		ev["comp"] = false
		a := builtin(c.Name)
		if a == nil {
			vt.Fatal("unknown built-in alphabet %q", c.Name)
		}
		guard(ev, func() {
			dumpAlpha(ev, a)
			if cm, ok := a.(alphabet.Complementor); ok {
				ev["comp"] = true
				dumpPair(ev, cm)
			}
		})
	case "alpha":
		ev["def"], ev["cased"], ev["gap"], ev["amb"], ev["mol"] = nz(c.Def), c.Cased, c.Gap, c.Amb, c.Mol
		emptyAlpha(ev)
		guard(ev, func() {
			a, err := alphabet.NewAlphabet(str(c.Def), feat.Moltype(c.Mol), alphabet.Letter(c.Gap), alphabet.Letter(c.Amb), c.Cased)
			ev["err"] = errClass(err)
			if err == nil {
				dumpAlpha(ev, a)
			}
		})
	case "pairing":
		ev["s"], ev["c"] = nz(c.S), nz(c.C)
		emptyPair(ev)
		guard(ev, func() {
			p, err := alphabet.NewPairing(str(c.S), str(c.C))
			ev["err"] = errClass(err)
			if err == nil {
				dumpPair(ev, p)
			}
		})
	case "comp":
		ev["def"], ev["cased"], ev["gap"], ev["amb"], ev["mol"] = nz(c.Def), c.Cased, c.Gap, c.Amb, c.Mol
		ev["s"], ev["c"], ev["perr"] = nz(c.S), nz(c.C), ""
		emptyAlpha(ev)
		emptyPair(ev)
		guard(ev, func() {
			p, err := alphabet.NewPairing(str(c.S), str(c.C))
			ev["perr"] = errClass(err)
			if err != nil {
				return
			}
			a, err := alphabet.NewComplementor(str(c.Def), feat.Moltype(c.Mol), p, alphabet.Letter(c.Gap), alphabet.Letter(c.Amb), c.Cased)
			ev["err"] = errClass(err)
			if err == nil {
				dumpAlpha(ev, a)
				dumpPair(ev, a)
			}
		})
	case "allvalid":
		ev["name"], ev["def"], ev["cased"], ev["w"] = c.Name, nz(c.Def), c.Cased, nz(c.W)
		ev["ok"], ev["pos"], ev["qok"], ev["qpos"] = false, 0, false, 0
		ev["wvalid"], ev["single"], ev["qsingle"] = []bool{}, []bool{}, []bool{}
		guard(ev, func() {
			a := builtin(c.Name)
			if c.Name == "" {
				var err error
				a, err = alphabet.NewAlphabet(str(c.Def), feat.Moltype(c.Mol), alphabet.Letter(c.Gap), alphabet.Letter(c.Amb), c.Cased)
				ev["err"] = errClass(err)
				if err != nil {
					return
				}
			} else if a == nil {
				vt.Fatal("unknown built-in alphabet %q", c.Name)
			}
			ls := make([]alphabet.Letter, len(c.W))
			qs := make([]alphabet.QLetter, len(c.W))
			for i, v := range c.W {
				ls[i] = alphabet.Letter(v)
				qs[i] = alphabet.QLetter{L: alphabet.Letter(v), Q: alphabet.Qphred(7 * i)}
			}
			ev["ok"], ev["pos"] = a.AllValid(ls)
			ev["qok"], ev["qpos"] = a.AllValidQLetter(qs)
			// letter by letter: IsValid, and the two slice forms on the one-letter slice
			wvalid, single, qsingle := make([]bool, len(ls)), make([]bool, len(ls)), make([]bool, len(ls))
			for i := range ls {
				wvalid[i] = a.IsValid(ls[i])
				single[i], _ = a.AllValid(ls[i : i+1 : i+1])
				qsingle[i], _ = a.AllValidQLetter(qs[i : i+1 : i+1])
			}
			ev["wvalid"], ev["single"], ev["qsingle"] = wvalid, single, qsingle
		})
	default:
		vt.Fatal("unknown case kind %q", c.Kind)
	}
	w.Emit(ev)
}

// Cases runs the cases of an ndjson file (TLC's EmitCases, a sample of it, or a replay file).
func Cases(w *vt.W, path string) int {
	f, err := os.Open(path)
	if err != nil {
		vt.Fatal("open %s: %v", path, err)
	}
	defer f.Close()
	sc := bufio.NewScanner(f)
	sc.Buffer(make([]byte, 1<<20), 1<<26)
	n := 0
	for sc.Scan() {
		if len(strings.TrimSpace(sc.Text())) == 0 {
			continue
		}
		c := Case{Gap: '-', Amb: 'n'}
		if err := json.Unmarshal(sc.Bytes(), &c); err != nil {
			vt.Fatal("%s: %v", path, err)
		}
		Run(w, c)
		n++
	}
	if err := sc.Err(); err != nil {
		vt.Fatal("%s: %v", path, err)
	}
	return n
}
