package alphabetd

import (
	"math/rand"

	"verif/harness/vt"
)

// Letter slices with letters >= 128.  A slice is a sequence of bytes; nothing in
// the package may read it as text.  The generators below put runs of high
// letters into otherwise valid slices: lone ones, runs that are well-formed
// UTF-8 (2, 3 and 4 bytes) whose code point has the low byte of a valid letter
// of the alphabet under test (or of any letter), and malformed runs; at the
// start, in the middle and at the end, with and without an invalid ASCII letter
// earlier or later in the slice.  Only inputs are built here; what AllValid
// should answer is AlphabetTrace.tla's business.

// enc writes code point r as a UTF-8 sequence of the given width (2..4) by hand,
// so that overlong forms and surrogates can be produced as well.
func enc(r, width int) []int {
	switch width {
	case 2:
		return []int{0xC0 | (r>>6)&0x1F, 0x80 | r&0x3F}
	case 3:
		return []int{0xE0 | (r>>12)&0x0F, 0x80 | (r>>6)&0x3F, 0x80 | r&0x3F}
	default:
		return []int{0xF0 | (r>>18)&0x07, 0x80 | (r>>12)&0x3F, 0x80 | (r>>6)&0x3F, 0x80 | r&0x3F}
	}
}

// withLow returns the k-th code point r of the given UTF-8 width with r%256 == low (k is reduced to the
// number there are), as its well-formed sequence.
func withLow(low, width, k int) []int {
	var hi int // r = low + 256*hi
	switch width {
	case 2: // U+0080..U+07FF
		if low >= 128 {
			hi = k % 8
		} else {
			hi = 1 + k%7
		}
	case 3: // U+0800..U+FFFF without the surrogates U+D800..U+DFFF
		hi = 8 + k%(256-8-8)
		if hi >= 0xD8 {
			hi += 8
		}
	default: // U+10000..U+10FFFF
		hi = 0x100 + k%(0x1100-0x100)
	}
	return enc(low+256*hi, width)
}

// malformed returns the i-th kind of run that is not well-formed UTF-8 although it looks like the
// sequence of a code point with low byte v (an ASCII letter), next to plain junk.
func malformed(rng *rand.Rand, v, i int) []int {
	k := rng.Intn(1 << 12)
	switch i % 14 {
	case 0: // two-byte sequence without its continuation
		return withLow(v, 2, k)[:1]
	case 1: // a continuation alone
		return withLow(v, 2, k)[1:]
	case 2: // three-byte sequence cut short
		return withLow(v, 3, k)[:2]
	case 3: // three-byte sequence without its lead
		return withLow(v, 3, k)[1:]
	case 4: // four-byte sequence cut short
		return withLow(v, 4, k)[:3]
	case 5: // the continuation replaced by the letter itself
		return []int{withLow(v, 2, k)[0], v}
	case 6: // the middle of a three-byte sequence replaced by the letter
		s := withLow(v, 3, k)
		return []int{s[0], v, s[2]}
	case 7: // overlong: the letter itself in two bytes (lead 0xC0 or 0xC1)
		return enc(v&0x7F, 2)
	case 8: // overlong in three bytes (lead 0xE0, second byte below 0xA0)
		return enc(v+256*(k%8), 3)
	case 9: // overlong in four bytes (lead 0xF0, second byte below 0x90)
		return enc(v+256*(k%256), 4)
	case 10: // a surrogate (lead 0xED, second byte from 0xA0)
		return enc(v+256*(0xD8+k%8), 3)
	case 11: // beyond U+10FFFF
		return enc(v+256*(0x1100+k%0x0F00), 4)
	case 12: // bytes that never occur in UTF-8
		return []int{0xF8 + k%8, 0x80 | v&0x3F}
	default: // two leads in a row, then the continuation
		s := withLow(v, 2, k)
		return []int{s[0], s[0], s[1]}
	}
}

func run(rng *rand.Rand, pool []int, n int) []int {
	out := []int{}
	for i := 0; i < n && len(pool) > 0; i++ {
		out = append(out, pool[rng.Intn(len(pool))])
	}
	return out
}

// asciiInvalid lists the ASCII letters that are not in valid.
func asciiInvalid(valid []int) []int {
	in := map[int]bool{}
	for _, v := range valid {
		in[v] = true
	}
	out := []int{}
	for l := 0; l < 128; l++ {
		if !in[l] {
			out = append(out, l)
		}
	}
	return out
}

// Where a run of high letters is put, and whether an invalid ASCII letter accompanies it.
const (
	atStart = iota
	inMiddle
	atEnd
)
const (
	noASCII = iota
	asciiEarlier
	asciiLater
)

// placed builds a slice of valid letters with the units (runs of high letters) at the given place;
// several units are adjacent or separated by valid letters.
func placed(rng *rand.Rand, valid []int, units [][]int, where, bad int) []int {
	pre, post := []int{}, []int{}
	if where != atStart {
		pre = run(rng, valid, 1+rng.Intn(8))
	}
	if where != atEnd {
		post = run(rng, valid, 1+rng.Intn(8))
	}
	if inv := asciiInvalid(valid); len(inv) > 0 {
		x := []int{inv[rng.Intn(len(inv))]}
		switch bad {
		case asciiEarlier:
			pre = insert(rng, pre, x)
		case asciiLater:
			post = insert(rng, post, x)
		}
	}
	w := pre
	for i, u := range units {
		if i > 0 && rng.Intn(2) == 0 {
			w = append(w, run(rng, valid, 1+rng.Intn(3))...)
		}
		w = append(w, u...)
	}
	return append(w, post...)
}

// unit draws one run of high letters for an alphabet with the given valid letters.
func unit(rng *rand.Rand, valid []int) []int {
	v := rng.Intn(128)
	if len(valid) > 0 {
		v = valid[rng.Intn(len(valid))]
	}
	k := rng.Intn(1 << 12)
	switch rng.Intn(10) {
	case 0: // one high letter
		return []int{128 + rng.Intn(128)}
	case 1, 2, 3: // well-formed, two bytes, the low byte of the code point is a valid letter
		return withLow(v, 2, k)
	case 4, 5: // three bytes
		return withLow(v, 3, k)
	case 6: // four bytes
		return withLow(v, 4, k)
	case 7: // well-formed, any low byte
		return withLow(rng.Intn(256), 2+rng.Intn(3), k)
	default:
		return malformed(rng, v, rng.Intn(14))
	}
}

// highSlice draws a slice of valid letters with one to three runs of high letters in it.
func highSlice(rng *rand.Rand, valid []int) []int {
	units := [][]int{}
	for n := 1 + rng.Intn(3); n > 0; n-- {
		units = append(units, unit(rng, valid))
	}
	return placed(rng, valid, units, rng.Intn(3), rng.Intn(4)%3)
}

// validLetters lists the letters a definition makes valid (both cases unless cased).
func validLetters(def []int, cased bool) []int {
	out := append([]int{}, def...)
	if !cased {
		for _, l := range def {
			switch {
			case l >= 'a' && l <= 'z':
				out = append(out, l-32)
			case l >= 'A' && l <= 'Z':
				out = append(out, l+32)
			}
		}
	}
	return dedup(out)
}

// highSliceCase draws an alphabet (distinct ASCII letters) and a slice with high letters for it.
func highSliceCase(rng *rand.Rand) Case {
	cased := rng.Intn(2) == 0
	c := Case{Kind: "allvalid", Cased: cased, Gap: rng.Intn(256), Amb: rng.Intn(256), Mol: rng.Intn(4) - 1}
	c.Def = letters(rng, pool(rng), 40, cased)
	c.W = highSlice(rng, validLetters(c.Def, cased))
	return c
}

// BuiltinHighSlices runs, for every built-in alphabet: for every valid letter v every two-byte, three
// three-byte and one four-byte well-formed sequence whose code point has the low byte v, at the start,
// in the middle and at the end of valid slices, with and without an invalid ASCII letter before or
// after; every kind of malformed run; and nslices random slices with high letters.
func BuiltinHighSlices(w *vt.W, rng *rand.Rand, nslices int) {
	for _, b := range Builtins {
		valid := dedup(ints(b.A.Letters()))
		n := 0
		one := func(u []int) {
			Run(w, Case{Kind: "allvalid", Name: b.Name, W: placed(rng, valid, [][]int{u}, n%3, (n/3)%3)})
			n++
		}
		for _, v := range valid {
			for k := 0; k < 7; k++ {
				one(withLow(v, 2, k))
			}
			for k := 0; k < 3; k++ {
				one(withLow(v, 3, rng.Intn(1<<12)))
			}
			one(withLow(v, 4, rng.Intn(1<<12)))
		}
		for i := 0; i < 3*14; i++ {
			one(malformed(rng, valid[rng.Intn(len(valid))], i))
		}
		for i := 0; i < nslices; i++ {
			Run(w, Case{Kind: "allvalid", Name: b.Name, W: highSlice(rng, valid)})
		}
	}
}
