package alphabetd

import (
	"math/rand"

	"verif/harness/vt"
)

// BuiltinDump logs every accessor of the seven built-in alphabets over all 256
// letters, and AllValid on every one-letter slice, on every pair of a few
// letters and on nslices random slices per alphabet; then slices with letters >= 128 (BuiltinHighSlices).
func BuiltinDump(w *vt.W, rng *rand.Rand, nslices int) {
	defer BuiltinHighSlices(w, rng, nslices)
	for _, b := range Builtins {
		Run(w, Case{Kind: "builtin", Name: b.Name})
	}
	few := []int{'-', 'a', 'A', 'n', 'u', 'T', 'z', '*', 0, 200}
	for _, b := range Builtins {
		Run(w, Case{Kind: "allvalid", Name: b.Name, W: []int{}})
		for l := 0; l < 256; l++ {
			Run(w, Case{Kind: "allvalid", Name: b.Name, W: []int{l}})
		}
		for _, x := range few {
			for _, y := range few {
				Run(w, Case{Kind: "allvalid", Name: b.Name, W: []int{x, y}})
			}
		}
		for i := 0; i < nslices; i++ {
			Run(w, Case{Kind: "allvalid", Name: b.Name, W: slice(rng, ints(b.A.Letters()))})
		}
	}
}

// slice draws letters mostly from pool, with 0..2 arbitrary bytes put in at random positions.
func slice(rng *rand.Rand, pool []int) []int {
	n := rng.Intn(60)
	w := make([]int, n)
	for i := range w {
		if len(pool) > 0 {
			w[i] = pool[rng.Intn(len(pool))]
		} else {
			w[i] = rng.Intn(256)
		}
	}
	if n > 0 {
		for k := rng.Intn(3); k > 0; k-- {
			w[rng.Intn(n)] = rng.Intn(256)
		}
	}
	return w
}

var pools = [][]int{
	ints("abcdefghijklmnopqrstuvwxyz"),
	ints("abcdefghijklmnopqrstuvwxyzABCDEFGHIJKLMNOPQRSTUVWXYZ"),
	ints("acgtnACGTN-*"),
	ints(" !\"#$%&'()*+,-./0123456789:;<=>?@[\\]^_`{|}~abcxyzABCXYZ"),
}

func pool(rng *rand.Rand) []int {
	if rng.Intn(5) == 0 {
		p := make([]int, 128)
		for i := range p {
			p[i] = i
		}
		return p
	}
	return pools[rng.Intn(len(pools))]
}

func lower(l int) int {
	if l >= 'A' && l <= 'Z' {
		return l + 32
	}
	return l
}

// letters draws up to max letters from p that are distinct (up to case unless cased).
func letters(rng *rand.Rand, p []int, max int, cased bool) []int {
	n := rng.Intn(max + 1)
	seen := map[int]bool{}
	out := []int{}
	for _, i := range rng.Perm(len(p)) {
		if len(out) == n {
			break
		}
		k := p[i]
		if !cased {
			k = lower(k)
		}
		if !seen[k] {
			seen[k] = true
			out = append(out, p[i])
		}
	}
	return out
}

var nonASCII = [][]int{{200}, {128}, {255}, {0xc3, 0xa9}, {0xce, 0xa9}, {0xe2, 0x82, 0xac}, {0xf0, 0x9f, 0x98, 0x80}, {0xc3}, {0xff, 0xfe}}

func insert(rng *rand.Rand, s []int, x []int) []int {
	i := rng.Intn(len(s) + 1)
	out := append([]int{}, s[:i]...)
	out = append(out, x...)
	return append(out, s[i:]...)
}

func alphaCase(rng *rand.Rand) Case {
	cased := rng.Intn(2) == 0
	c := Case{Kind: "alpha", Cased: cased, Gap: rng.Intn(256), Amb: rng.Intn(256), Mol: rng.Intn(4) - 1}
	c.Def = letters(rng, pool(rng), 40, cased)
	switch rng.Intn(8) {
	case 0: // repeat a letter (possibly in the other case)
		if len(c.Def) > 0 {
			x := c.Def[rng.Intn(len(c.Def))]
			if rng.Intn(2) == 0 && x >= 'a' && x <= 'z' {
				x -= 32
			}
			c.Def = insert(rng, c.Def, []int{x})
		}
	case 1, 2: // not ASCII
		c.Def = insert(rng, c.Def, nonASCII[rng.Intn(len(nonASCII))])
	}
	return c
}

// pairing builds a symmetric pairing definition over some of the given letters:
// matched pairs and self-paired letters, both directions listed, in random order.
func pairing(rng *rand.Rand, ls []int) (s, c []int) {
	type pr struct{ x, y int }
	var ps []pr
	perm := rng.Perm(len(ls))
	for i := 0; i < len(perm); {
		x := ls[perm[i]]
		switch {
		case rng.Intn(4) == 0: // unpaired
			i++
		case rng.Intn(4) == 0 || i+1 == len(perm): // its own complement
			ps = append(ps, pr{x, x})
			i++
		default:
			y := ls[perm[i+1]]
			ps = append(ps, pr{x, y}, pr{y, x})
			i += 2
		}
	}
	rng.Shuffle(len(ps), func(i, j int) { ps[i], ps[j] = ps[j], ps[i] })
	for _, p := range ps {
		s, c = append(s, p.x), append(c, p.y)
	}
	return s, c
}

// damage turns a pairing definition into one of the kinds a constructor has to reject (or leaves it alone).
func damage(rng *rand.Rand, s, c, spare []int) ([]int, []int) {
	s, c = append([]int{}, s...), append([]int{}, c...)
	switch rng.Intn(10) {
	case 0: // lengths differ
		if rng.Intn(2) == 0 {
			s = append(s, 'q')
		} else if len(c) > 0 {
			c = c[:len(c)-1]
		} else {
			c = append(c, 'q')
		}
	case 1: // one direction only
		if len(s) > 0 {
			i := rng.Intn(len(s))
			s, c = append(s[:i], s[i+1:]...), append(c[:i], c[i+1:]...)
		}
	case 2: // a letter with a second, different complement listed first; the spare letter is otherwise unpaired
		if len(s) > 0 && len(spare) > 0 {
			i := rng.Intn(len(s))
			s, c = append([]int{s[i]}, s...), append([]int{spare[rng.Intn(len(spare))]}, c...)
		}
	case 3: // a letter with a second complement anywhere
		if len(s) > 1 {
			i, j := rng.Intn(len(s)), rng.Intn(len(s))
			k := rng.Intn(len(s) + 1)
			s, c = insertAt(s, k, s[i]), insertAt(c, k, c[j])
		}
	case 4: // two letters share a complement
		if len(s) > 1 {
			c[rng.Intn(len(c))] = c[rng.Intn(len(c))]
		}
	case 5: // not ASCII; same byte length, possibly fewer runes
		x := nonASCII[rng.Intn(len(nonASCII))]
		pad := make([]int, len(x))
		for i := range pad {
			pad[i] = 'a' + rng.Intn(26)
		}
		k := rng.Intn(len(s) + 1)
		if rng.Intn(2) == 0 {
			x, pad = pad, x
		}
		s = append(append(append([]int{}, s[:k]...), x...), s[k:]...)
		c = append(append(append([]int{}, c[:k]...), pad...), c[k:]...)
	}
	return s, c
}

func insertAt(s []int, k, x int) []int {
	out := append([]int{}, s[:k]...)
	out = append(out, x)
	return append(out, s[k:]...)
}

func pairingCase(rng *rand.Rand) Case {
	p := pool(rng)
	ls := letters(rng, p, 24, true)
	var spare []int
	if len(ls) > 2 {
		spare, ls = ls[:2], ls[2:]
	}
	s, c := pairing(rng, ls)
	s, c = damage(rng, s, c, spare)
	return Case{Kind: "pairing", S: s, C: c}
}

func compCase(rng *rand.Rand) Case {
	cased := rng.Intn(2) == 0
	p := pool(rng)
	def := letters(rng, p, 20, cased)
	c := Case{Kind: "comp", Cased: cased, Def: def, Gap: rng.Intn(128), Amb: rng.Intn(128), Mol: rng.Intn(3)}
	var over []int
	switch rng.Intn(4) {
	case 0, 1: // pairs among the letters of the definition (and the other case of them, if uncased)
		over = append(over, def...)
		if !cased && rng.Intn(2) == 0 {
			for _, l := range def {
				if l >= 'a' && l <= 'z' {
					over = append(over, l-32)
				} else if l >= 'A' && l <= 'Z' {
					over = append(over, l+32)
				}
			}
		}
	case 2: // some letters of the definition, some others
		over = append(over, def[:len(def)/2]...)
		over = append(over, letters(rng, p, 6, true)...)
		over = dedup(over)
	case 3: // unrelated letters
		over = letters(rng, p, 10, true)
	}
	c.S, c.C = pairing(rng, over)
	if rng.Intn(6) == 0 {
		c.S, c.C = damage(rng, c.S, c.C, nil)
	}
	if rng.Intn(12) == 0 {
		c.Def = insert(rng, c.Def, nonASCII[rng.Intn(len(nonASCII))])
	}
	return c
}

func dedup(s []int) []int {
	seen := map[int]bool{}
	out := []int{}
	for _, x := range s {
		if !seen[x] {
			seen[x] = true
			out = append(out, x)
		}
	}
	return out
}

func allValidCase(rng *rand.Rand) Case {
	a := alphaCase(rng)
	a.Kind = "allvalid"
	src := append([]int{}, a.Def...)
	if !a.Cased {
		for _, l := range a.Def {
			if l >= 'a' && l <= 'z' {
				src = append(src, l-32)
			}
		}
	}
	a.W = slice(rng, src)
	return a
}

// Random logs n random cases of each kind: alphabets (distinct letters, repeated
// letters, non-ASCII), pairings (symmetric ones and damaged ones), complementing
// alphabets (pairs inside, partly outside and outside the alphabet) and letter slices, then n slices
// with runs of letters >= 128 (highSliceCase).
func Random(w *vt.W, rng *rand.Rand, n int) {
	for i := 0; i < n; i++ {
		Run(w, alphaCase(rng))
		Run(w, pairingCase(rng))
		Run(w, compCase(rng))
		Run(w, allValidCase(rng))
	}
	for i := 0; i < n; i++ {
		Run(w, highSliceCase(rng))
	}
}
