// Package qgramd runs the real PALS q-gram filter and records its hits.
package qgramd

import (
	"fmt"
	"io"
	"io/ioutil"
	"math/rand"
	"os"

	"github.com/biogo/biogo/align/pals/filter"
	"github.com/biogo/biogo/alphabet"
	"github.com/biogo/biogo/index/kmerindex"
	"github.com/biogo/biogo/morass"
	"github.com/biogo/biogo/seq/linear"

	"verif/harness/vt"
)

const acgt = "ACGT"

func toSeq(idx []int, id string) *linear.Seq {
	l := make([]alphabet.Letter, len(idx))
	for i, x := range idx {
		l[i] = alphabet.Letter(acgt[x-1])
	}
	return linear.NewSeq(id, l, alphabet.DNA)
}

// Run performs one filter run and returns its record.
func Run(T, Q []int, k, n, e, off int, self, model bool) vt.Ev {
	return RunWarm(T, Q, k, n, e, off, self, model, nil)
}

// RunWarm is Run on a Filter that has already served another query (warm, discarded): pals.PALS uses one
// Filter for its forward and its complement pass, so every call must start from a clean slate.
func RunWarm(T, Q []int, k, n, e, off int, self, model bool, warm []int) vt.Ev {
	ev := vt.Ev{"T": T, "Q": Q, "k": k, "n": n, "e": e, "off": off, "self": self, "model": model,
		"hits": [][]int{}, "cands": [][]int{}, "err": "", "panic": "", "warm": len(warm)}
	func() {
		defer func() {
			if p := recover(); p != nil {
				ev["panic"] = fmt.Sprint(p)
			}
		}()
		dir, err := ioutil.TempDir(vt.ScratchBase(), "vqgram")
		if err != nil {
			vt.Fatal("tempdir: %v", err)
		}
		defer os.RemoveAll(dir)
		target := toSeq(T, "t")
		query := target
		if !self {
			query = toSeq(Q, "q")
		}
		ki, err := kmerindex.New(k, target)
		if err != nil {
			ev["err"] = "kmerindex.New: " + err.Error()
			return
		}
		ki.Build()
		m, err := morass.New(filter.Hit{}, "h", dir, 1<<16, false)
		if err != nil {
			vt.Fatal("morass.New: %v", err)
		}
		defer m.CleanUp()
		f := filter.New(ki, &filter.Params{WordSize: k, MinMatch: n, MaxError: e, TubeOffset: off})
		if warm != nil {
			if err := f.Filter(toSeq(warm, "w"), false, false, m); err != nil {
				ev["err"] = "warm-up: " + err.Error()
				return
			}
			for {
				var h filter.Hit
				if err := m.Pull(&h); err != nil {
					break
				}
			}
			if err := m.Clear(); err != nil {
				vt.Fatal("morass.Clear: %v", err)
			}
		}
		if err := f.Filter(query, self, false, m); err != nil {
			ev["err"] = err.Error()
			return
		}
		hits := [][]int{}
		for {
			var h filter.Hit
			err := m.Pull(&h)
			if err == io.EOF {
				break
			}
			if err != nil {
				ev["err"] = "pull: " + err.Error()
				return
			}
			hits = append(hits, []int{h.From, h.To, h.Diagonal})
		}
		ev["hits"] = hits
	}()
	// epsilon-matches found by a plain scan (the specification re-checks each one)
	q := Q
	if self {
		q = T
	}
	cands := [][]int{}
	for t0 := 0; t0+n <= len(T); t0++ {
		for q0 := 0; q0+n <= len(q); q0++ {
			if self && q0 <= t0 {
				continue
			}
			mm := 0
			for i := 0; i < n && mm <= e; i++ {
				if T[t0+i] != q[q0+i] {
					mm++
				}
			}
			if mm <= e {
				cands = append(cands, []int{t0, q0})
			}
		}
	}
	ev["cands"] = cands
	if self {
		ev["Q"] = T
	}
	return ev
}

func randSeq(rng *rand.Rand, n, letters int) []int {
	s := make([]int, n)
	for i := range s {
		s[i] = 1 + rng.Intn(letters)
	}
	return s
}

// params draws (k, n, e, off) with a positive q-gram threshold.
func params(rng *rand.Rand, small bool) (k, n, e, off int) {
	for {
		if small {
			k, n, e = 2, 4+rng.Intn(3), rng.Intn(2)
		} else {
			k, n, e = 4+rng.Intn(4), 12+rng.Intn(30), rng.Intn(4)
		}
		off = e + rng.Intn(6)
		if !small && rng.Intn(4) == 0 {
			// a tube wider than the match window, as Optimise chooses for short seeds (window 25, offset 36)
			off = n + rng.Intn(12)
		}
		if off < 1 {
			off = 1
		}
		if n+1-k*(e+1) > 0 {
			return
		}
	}
}

// Small runs tiny inputs (k = 2) on which TLC also runs the tube machine.
func Small(w *vt.W, rng *rand.Rand, cases int) {
	old := kmerindex.MinKmerLen
	kmerindex.MinKmerLen = 2
	defer func() { kmerindex.MinKmerLen = old }()
	for i := 0; i < cases; i++ {
		k, n, e, off := params(rng, true)
		lt, lq := n+rng.Intn(12), n+rng.Intn(12)
		T := randSeq(rng, lt, 2)
		Q := randSeq(rng, lq, 2)
		var warm []int
		if rng.Intn(3) == 0 {
			// the Filter has served a long query before; the judged query is short (at most a tube wide)
			warm = randSeq(rng, 6*(off+e)+rng.Intn(20)+n, 2)
			lq = n + rng.Intn(3)
			Q = randSeq(rng, lq, 2)
		}
		if rng.Intn(2) == 0 && lq >= n && lt >= n { // plant a copy with up to e substitutions
			plant(rng, T, Q, n, e)
		}
		self := rng.Intn(4) == 0 && warm == nil
		w.Emit(RunWarm(T, Q, k, n, e, off, self, true, warm))
	}
}

func plant(rng *rand.Rand, T, Q []int, n, e int) (t0, q0 int) {
	t0, q0 = rng.Intn(len(T)-n+1), rng.Intn(len(Q)-n+1)
	// choose positions at the very ends often: the tail of the query is where tubes are retired last
	switch rng.Intn(4) {
	case 0:
		q0 = len(Q) - n
	case 1:
		t0 = len(T) - n
	case 2:
		q0, t0 = len(Q)-n, 0
	}
	copy(Q[q0:q0+n], T[t0:t0+n])
	for i := 0; i < e; i++ {
		if rng.Intn(2) == 0 {
			p := q0 + rng.Intn(n)
			Q[p] = 1 + (Q[p] % 4)
		}
	}
	return
}

// Planted runs realistic sizes with repeats planted at every diagonal residue and query phase.
func Planted(w *vt.W, rng *rand.Rand, cases, maxLen int) {
	for i := 0; i < cases; i++ {
		k, n, e, off := params(rng, false)
		lt, lq := n+20+rng.Intn(maxLen-n-19), n+20+rng.Intn(maxLen-n-19)
		short := off > n && rng.Intn(2) == 0
		if short {
			// a query about one tube wide: the ticker retires nothing, or just the first tube, before the final flush
			lq = off + e + 1 + rng.Intn(k+1)
		}
		T := randSeq(rng, lt, 4)
		Q := randSeq(rng, lq, 4)
		self := rng.Intn(5) == 0 && !short
		if self {
			// a repeat inside one sequence
			Q = T
			ln := n + rng.Intn(20)
			if 2*ln+5 < len(T) {
				a := rng.Intn(len(T) - 2*ln - 4)
				b := a + ln + 1 + rng.Intn(len(T)-a-2*ln-1)
				copy(T[b:b+ln], T[a:a+ln])
			}
		} else {
			for r := 0; r < 1+rng.Intn(3); r++ {
				ln := n + rng.Intn(25)
				if ln > lt || ln > lq {
					continue
				}
				if short && r == 0 && rng.Intn(2) == 0 {
					// the target's tail against the query's head: the match lies in the first tube
					copy(Q[0:n], T[len(T)-n:])
					continue
				}
				plant(rng, T, Q, ln, e)
			}
		}
		w.Emit(Run(T, Q, k, n, e, off, self, false))
	}
}
