// Package pilerd drives a real pals.Piler (property C16): feature pairs are
// added in a given order, Piles is called several times (nil filter, again,
// pair filters, nil again; or the pair filters first, on the fresh piler) and
// everything the property speaks about is logged: Add errors, every reported
// pile (location, From, To, member feature ids), for every feature of an
// accepted pair the pile its Location() points at and the feature its Mate()
// returns, and what every filter saw of the pairs it was consulted about
// (were both features located in a pile, and in which).  No judgement is
// made here; PilerTrace.tla recomputes the components and decides.
package pilerd

import (
	"bufio"
	"encoding/json"
	"fmt"
	"math/rand"
	"os"
	"strconv"

	"github.com/biogo/biogo/align/pals"
	"github.com/biogo/biogo/feat"

	"verif/harness/vt"
)

// Coord is one mate of a pair as TLC emits it.
type Coord struct {
	Loc int `json:"loc"`
	S   int `json:"s"`
	E   int `json:"e"`
}

// PairIn is a pair <<a, b>>.
type PairIn [2]Coord

func contig(loc int) pals.Contig { return pals.Contig("L" + strconv.Itoa(loc)) }

func locNumber(f feat.Feature) int {
	c, ok := f.(pals.Contig)
	if !ok || len(c) < 2 || c[0] != 'L' {
		return 0
	}
	n, err := strconv.Atoi(string(c[1:]))
	if err != nil {
		return 0
	}
	return n
}

func safeAdd(p *pals.Piler, fp *pals.Pair) (res string) {
	defer func() {
		if r := recover(); r != nil {
			res = fmt.Sprintf("panic: %v", r)
		}
	}()
	return vt.ErrStr(p.Add(fp))
}

func safePiles(p *pals.Piler, f pals.PairFilter) (piles []*pals.Pile, res string) {
	defer func() {
		if r := recover(); r != nil {
			piles, res = nil, fmt.Sprintf("panic: %v", r)
		}
	}()
	return p.Piles(f), ""
}

// Call is one Piles call of an instance.  Kind "nil": no filter; "set": the filter lets the
// pairs with the (1-based) indexes in Pass through; "spanA", "spanB", "spanBoth", "spanAny":
// the filter reads Location().Len() of the pair's A and B feature and keeps the pair when
// the A / the B / both / either of these is at least L (which pairs that are is computed by
// the specification from the components, never here).
type Call struct {
	Kind string `json:"kind"`
	L    int    `json:"L"`
	Pass []int  `json:"pass"`
}

// Plan orders the Piles calls of an instance: either Piles(nil), Piles(nil), the filters,
// Piles(nil), or - filtersFirst - the filters on the fresh piler, then Piles(nil), Piles(nil).
func Plan(filters []Call, filtersFirst bool) []Call {
	nilc := Call{Kind: "nil"}
	if filtersFirst {
		return append(append([]Call{}, filters...), nilc, nilc)
	}
	return append(append([]Call{nilc, nilc}, filters...), nilc)
}

func lenOf(f feat.Feature) int {
	if f == nil {
		return 0
	}
	if p, ok := f.(*pals.Pile); ok && p == nil {
		return 0
	}
	return f.Len()
}

// sight is what a filter saw when it was invoked: the pair and where its features were located.
type sight struct {
	k      int
	pa, pb *pals.Pile // nil: Location() was not a *pals.Pile
}

// Run adds seq to a fresh pals.NewPiler(0), makes the Piles calls of plan and logs one event.
// Every filter, whatever its kind, records at each invocation whether Location() of both
// features of the pair it is handed is a *pals.Pile, and which.
// corrupt != "" deliberately falsifies one logged field (binding self-test only).
func Run(w *vt.W, src string, id int, seq []PairIn, plan []Call, corrupt string) {
	p := pals.NewPiler(0)
	featID := map[*pals.Feature]int{}
	pairID := map[*pals.Pair]int{}
	var feats []*pals.Feature // index = id-1
	adds := []vt.Ev{}
	accepted := []int{}
	for i, pi := range seq {
		k := i + 1
		a := &pals.Feature{ID: strconv.Itoa(2*k - 1), From: pi[0].S, To: pi[0].E, Loc: contig(pi[0].Loc)}
		b := &pals.Feature{ID: strconv.Itoa(2 * k), From: pi[1].S, To: pi[1].E, Loc: contig(pi[1].Loc)}
		fp := &pals.Pair{A: a, B: b, Score: k}
		a.Pair, b.Pair = fp, fp
		featID[a], featID[b] = 2*k-1, 2*k
		pairID[fp] = k
		feats = append(feats, a, b)
		err := safeAdd(p, fp)
		if err == "" {
			accepted = append(accepted, k)
		}
		adds = append(adds, vt.Ev{"a": []int{pi[0].Loc, pi[0].S, pi[0].E}, "b": []int{pi[1].Loc, pi[1].S, pi[1].E}, "err": err})
	}
	all := make([]int, len(seq))
	for i := range all {
		all[i] = i + 1
	}
	calls := []vt.Ev{}
	firstNil, firstFiltered, firstSpan := true, true, true
	for _, c := range plan {
		c := c
		nilf := c.Kind == "nil"
		var f pals.PairFilter
		var sights []sight
		unplaced := 0
		if !nilf {
			pass := map[int]bool{}
			for _, k := range c.Pass {
				pass[k] = true
			}
			f = func(fp *pals.Pair) bool {
				la, lb := fp.A.Location(), fp.B.Location()
				pa, _ := la.(*pals.Pile)
				pb, _ := lb.(*pals.Pile)
				if pa == nil || pb == nil {
					unplaced++
				}
				if len(sights) < 4*len(seq)+16 {
					sights = append(sights, sight{pairID[fp], pa, pb})
				}
				switch c.Kind {
				case "spanA":
					return lenOf(la) >= c.L
				case "spanB":
					return lenOf(lb) >= c.L
				case "spanBoth":
					return lenOf(la) >= c.L && lenOf(lb) >= c.L
				case "spanAny":
					return lenOf(la) >= c.L || lenOf(lb) >= c.L
				}
				return pass[pairID[fp]]
			}
		}
		piles, perr := safePiles(p, f)
		index := map[*pals.Pile]int{}
		pl := []vt.Ev{}
		for j, pile := range piles {
			if pile == nil {
				pl = append(pl, vt.Ev{"loc": 0, "from": 0, "to": 0, "im": []int{}})
				continue
			}
			if _, dup := index[pile]; !dup {
				index[pile] = j + 1
			}
			im := []int{}
			for _, f := range pile.Images {
				im = append(im, featID[f]) // 0 = a feature that was never handed to Add
			}
			pl = append(pl, vt.Ev{"loc": locNumber(pile.Loc), "from": pile.From, "to": pile.To, "im": im})
		}
		// what the filter saw, the piles named by their index in the returned slice
		// (0: a pile that was not returned, -1: not a pile), distinct triples only
		seen := [][]int{}
		dedup := map[[3]int]bool{}
		at := func(q *pals.Pile) int {
			if q == nil {
				return -1
			}
			return index[q]
		}
		for _, s := range sights {
			t := [3]int{s.k, at(s.pa), at(s.pb)}
			if !dedup[t] {
				dedup[t] = true
				seen = append(seen, t[:])
			}
		}
		fs := [][]int{}
		for _, k := range accepted {
			for _, ft := range []*pals.Feature{feats[2*k-2], feats[2*k-1]} {
				at := 0
				if pile, ok := ft.Location().(*pals.Pile); ok {
					at = index[pile]
				}
				mate := 0
				func() {
					defer func() {
						if recover() != nil {
							mate = -1
						}
					}()
					mate = featID[ft.Mate()]
				}()
				fs = append(fs, []int{featID[ft], at, mate})
			}
		}
		if corrupt != "" && nilf && firstNil && len(pl) > 0 {
			switch corrupt {
			case "to":
				pl[0]["to"] = pl[0]["to"].(int) + 1
			case "member":
				im := pl[0]["im"].([]int)
				if len(im) > 0 {
					pl[0]["im"] = im[1:]
				}
			case "mate":
				if len(fs) > 0 {
					fs[0][2] = fs[0][0]
				}
			case "loc":
				if len(fs) > 0 {
					fs[0][1] = fs[0][1]%len(pl) + 1
				}
			case "dup":
				adds[len(adds)-1]["err"] = "pals: attempt to add duplicate feature pair to pile"
			}
		}
		if corrupt != "" && !nilf && firstFiltered {
			switch corrupt {
			case "unplaced":
				unplaced++
			case "seen":
				if len(seen) > 0 {
					seen[0][1] = 0
				}
			}
		}
		if corrupt == "spanim" && !nilf && c.Kind != "set" && firstSpan && len(pl) > 0 {
			// drop a member the filter kept, or list one it rejected
			firstSpan = false
			if im := pl[0]["im"].([]int); len(im) > 0 {
				pl[0]["im"] = im[1:]
			} else {
				for _, x := range fs {
					if x[1] == 1 {
						pl[0]["im"] = []int{x[0]}
						break
					}
				}
			}
		}
		if nilf {
			firstNil = false
		} else {
			firstFiltered = false
		}
		ps := append([]int{}, c.Pass...)
		if nilf {
			ps = all
		}
		calls = append(calls, vt.Ev{"nilf": nilf, "kind": c.Kind, "L": c.L, "pass": ps, "panic": perr,
			"unplaced": unplaced, "seen": seen, "piles": pl, "feats": fs})
	}
	w.Emit(vt.Ev{"op": "pile", "src": src, "id": id, "adds": adds, "calls": calls})
}

// filtersFor returns the filters used on an instance: as "set" filters every subset of the
// pairs when there are at most three, else four random subsets (always including the empty
// one); and two pile-reading filters whose threshold is taken near the length of a feature
// of the instance (a pile spans at least the length of each of its members).  The order is
// shuffled, so that any of them may be the first call on the fresh piler.
func filtersFor(rng *rand.Rand, seq []PairIn) []Call {
	k := len(seq)
	var out []Call
	if k <= 3 {
		for m := 0; m < 1<<uint(k); m++ {
			s := []int{}
			for i := 0; i < k; i++ {
				if m&(1<<uint(i)) != 0 {
					s = append(s, i+1)
				}
			}
			out = append(out, Call{Kind: "set", Pass: s})
		}
	} else {
		out = append(out, Call{Kind: "set", Pass: []int{}})
		for j := 0; j < 3; j++ {
			s := []int{}
			for i := 1; i <= k; i++ {
				if rng.Intn(2) == 0 {
					s = append(s, i)
				}
			}
			out = append(out, Call{Kind: "set", Pass: s})
		}
	}
	kinds := []string{"spanA", "spanB", "spanBoth", "spanAny"}
	for j := 0; j < 2 && k > 0; j++ {
		c := seq[rng.Intn(k)][rng.Intn(2)]
		l := c.E - c.S
		switch rng.Intn(3) {
		case 1:
			l++
		case 2:
			l *= 2
		}
		if l < 1 {
			l = 1
		}
		out = append(out, Call{Kind: kinds[rng.Intn(len(kinds))], L: l, Pass: []int{}})
	}
	rng.Shuffle(len(out), func(i, j int) { out[i], out[j] = out[j], out[i] })
	return out
}

// planFor draws the filters of an instance and whether they come first (on the fresh piler).
func planFor(rng *rand.Rand, seq []PairIn) []Call {
	fs := filtersFor(rng, seq)
	return Plan(fs, rng.Intn(2) == 0)
}

// permutations calls f with every distinct ordering of seq.
func permutations(seq []PairIn, f func([]PairIn)) {
	seen := map[string]bool{}
	var rec func(k int)
	cur := append([]PairIn{}, seq...)
	rec = func(k int) {
		if k == len(cur) {
			key := fmt.Sprint(cur)
			if !seen[key] {
				seen[key] = true
				f(append([]PairIn{}, cur...))
			}
			return
		}
		for i := k; i < len(cur); i++ {
			cur[k], cur[i] = cur[i], cur[k]
			rec(k + 1)
			cur[k], cur[i] = cur[i], cur[k]
		}
	}
	rec(0)
}

// Replay runs the Add sequences TLC emitted (one JSON line each); with perm every
// distinct ordering of each sequence is run as an instance of its own.
func Replay(w *vt.W, in string, rng *rand.Rand, perm bool, corrupt string) (behaviours, instances int) {
	f, err := os.Open(in)
	if err != nil {
		vt.Fatal("open %s: %v", in, err)
	}
	defer f.Close()
	sc := bufio.NewScanner(f)
	sc.Buffer(make([]byte, 1<<20), 1<<24)
	src := "tlc"
	if perm {
		src = "tlc-perm"
	}
	for sc.Scan() {
		if len(sc.Bytes()) == 0 {
			continue
		}
		var seq []PairIn
		var given []Call
		if sc.Bytes()[0] == '{' {
			// a stored instance (replay of a reported violation): the Adds and the Piles calls made
			// (older stored instances: only the "set" filters, run after two unfiltered calls)
			var o struct {
				Seq     []PairIn `json:"seq"`
				Plan    []Call   `json:"plan"`
				Filters [][]int  `json:"filters"`
			}
			if err := json.Unmarshal(sc.Bytes(), &o); err != nil {
				vt.Fatal("instance %d of %s: %v", behaviours, in, err)
			}
			seq, given = o.Seq, o.Plan
			if given == nil {
				fs := []Call{}
				for _, f := range o.Filters {
					fs = append(fs, Call{Kind: "set", Pass: f})
				}
				given = Plan(fs, false)
			}
			for i := range given {
				if given[i].Pass == nil {
					given[i].Pass = []int{}
				}
			}
		} else if err := json.Unmarshal(sc.Bytes(), &seq); err != nil {
			vt.Fatal("behaviour %d of %s: %v", behaviours, in, err)
		}
		if given != nil {
			behaviours++
			instances++
			Run(w, "stored", instances, seq, given, corrupt)
			continue
		}
		behaviours++
		if perm {
			permutations(seq, func(s []PairIn) {
				instances++
				Run(w, src, instances, s, planFor(rng, s), corrupt)
			})
		} else {
			instances++
			Run(w, src, instances, seq, planFor(rng, seq), corrupt)
		}
	}
	if err := sc.Err(); err != nil {
		vt.Fatal("read %s: %v", in, err)
	}
	return
}

// Random runs n random instances: up to maxPairs pairs on three locations, coordinates 0..200,
// a mix of grid-aligned features (so that exact abutment, nesting and equal intervals are
// common) and free ones, empty features now and then, and re-offered pairs in both orientations.
func Random(w *vt.W, rng *rand.Rand, n, maxPairs int) {
	for c := 1; c <= n; c++ {
		k := 1 + rng.Intn(maxPairs)
		if c%4 == 0 {
			k = 1 + rng.Intn(8)
		}
		grid := []int{1, 5, 10, 20}[rng.Intn(4)]
		maxLen := []int{10, 25, 60}[rng.Intn(3)]
		nloc := 1 + rng.Intn(3)
		one := func() Coord {
			var s, e int
			if rng.Intn(2) == 0 {
				s = rng.Intn(200/grid+1) * grid
				e = s + rng.Intn(maxLen/grid+1)*grid
			} else {
				s = rng.Intn(201)
				e = s + rng.Intn(maxLen+1)
			}
			if e > 200 {
				e = 200
			}
			if rng.Intn(25) != 0 && e == s {
				if s < 200 {
					e = s + 1
				} else {
					s = 199
				}
			}
			return Coord{Loc: 1 + rng.Intn(nloc), S: s, E: e}
		}
		var seq []PairIn
		for len(seq) < k {
			switch r := rng.Intn(12); {
			case r == 0 && len(seq) > 0:
				seq = append(seq, seq[rng.Intn(len(seq))])
			case r == 1 && len(seq) > 0:
				q := seq[rng.Intn(len(seq))]
				seq = append(seq, PairIn{q[1], q[0]})
			case r == 2 && len(seq) > 0:
				// share one mate's coordinates with an earlier pair
				q := seq[rng.Intn(len(seq))]
				seq = append(seq, PairIn{q[rng.Intn(2)], one()})
			default:
				seq = append(seq, PairIn{one(), one()})
			}
		}
		Run(w, "random", c, seq, planFor(rng, seq), "")
	}
}

// ProbeAddAfterPiles reports what a piler does when Add is called after Piles and Piles is
// called again.  This is outside the statement of C16 (all Adds precede the first Piles call);
// the outcome is recorded as an observation, never as a verdict.
func ProbeAddAfterPiles() string {
	mk := func(k, s, e int) *pals.Pair {
		a := &pals.Feature{ID: strconv.Itoa(2*k - 1), From: s, To: e, Loc: contig(1)}
		b := &pals.Feature{ID: strconv.Itoa(2 * k), From: s, To: e, Loc: contig(2)}
		fp := &pals.Pair{A: a, B: b, Score: k}
		a.Pair, b.Pair = fp, fp
		return fp
	}
	p := pals.NewPiler(0)
	if e := safeAdd(p, mk(1, 0, 2)); e != "" {
		return "first Add: " + e
	}
	if _, e := safePiles(p, nil); e != "" {
		return "first Piles: " + e
	}
	if e := safeAdd(p, mk(2, 5, 7)); e != "" {
		return "Add after Piles: " + e
	}
	piles, e := safePiles(p, nil)
	if e != "" {
		return "Piles after a later Add: " + e
	}
	return fmt.Sprintf("Piles after a later Add returned %d piles", len(piles))
}
