package kmerd

import (
	"math/rand"

	"verif/harness/vt"
)

const (
	lower   = "acgt"
	both    = "acgtACGT"
	invalid = "nNxX-*bB. 0u\x00\x7f\xff" // the last one is not ASCII
)

// genSeq draws a sequence of n letters and reports where runs of invalid letters were planted.
func genSeq(rng *rand.Rand, n, k int) ([]byte, []int) {
	s := make([]byte, n)
	mode := rng.Intn(8)
	switch mode {
	case 0: // lower case only
		for i := range s {
			s[i] = lower[rng.Intn(4)]
		}
	case 1: // homopolymers and the extreme words (first and last bucket)
		c := both[rng.Intn(len(both))]
		for i := range s {
			if rng.Intn(2*k+2) == 0 {
				c = "aAtTcg"[rng.Intn(6)]
			}
			s[i] = c
		}
	case 2: // low complexity: a short motif repeated, so that words occur many times
		m := make([]byte, 1+rng.Intn(k+2))
		for i := range m {
			m[i] = both[rng.Intn(len(both))]
		}
		for i := range s {
			s[i] = m[i%len(m)]
			if rng.Intn(40) == 0 {
				s[i] = both[rng.Intn(len(both))]
			}
		}
	case 3: // two letters only
		two := []byte{both[rng.Intn(len(both))], both[rng.Intn(len(both))]}
		for i := range s {
			s[i] = two[rng.Intn(2)]
		}
	default: // both cases
		for i := range s {
			s[i] = both[rng.Intn(len(both))]
		}
	}
	marks := []int{}
	plant := func(at, l int) {
		for i := at; i < at+l && i < n; i++ {
			if i >= 0 {
				s[i] = invalid[rng.Intn(len(invalid))]
			}
		}
		marks = append(marks, at, at+l)
	}
	switch rng.Intn(6) {
	case 0: // none
	case 1: // single invalid letters
		for j := 0; j < 1+n/(3*k+1); j++ {
			plant(rng.Intn(n), 1)
		}
	case 2: // runs, also at both ends
		if rng.Intn(2) == 0 {
			plant(0, 1+rng.Intn(k+1))
		}
		if rng.Intn(2) == 0 {
			l := 1 + rng.Intn(k+1)
			plant(n-l, l)
		}
		for j := 0; j < 1+rng.Intn(2+n/(4*k)); j++ {
			plant(rng.Intn(n), 1+rng.Intn(2*k))
		}
	case 3: // dense: valid stretches of about k letters between invalid ones
		for i := rng.Intn(k + 1); i < n; i += k + rng.Intn(4) {
			plant(i, 1+rng.Intn(2))
		}
	case 4: // mostly invalid
		for i := 0; i < n; i++ {
			if rng.Intn(3) != 0 {
				plant(i, 1)
			}
		}
		marks = marks[:0]
	default: // one run
		plant(rng.Intn(n), 1+rng.Intn(k+2))
	}
	return s, marks
}

func clampRange(st, en, n int) [2]int {
	if st < 0 {
		st = 0
	}
	if st > n {
		st = n
	}
	if en < st {
		en = st
	}
	if en > n {
		en = n
	}
	return [2]int{st, en}
}

// randomPlan chooses the questions for a random sequence.
func randomPlan(rng *rand.Rand, s []byte, k int, marks []int) plan {
	n := len(s)
	pl := plan{full: n <= 400, pick: rng.Intn}
	pl.sfull = pl.full && n <= 150
	// words: the extremes, one past the last word, random words (mostly absent for larger k), keys of the index
	pl.kmers = []int{0, pow4(k) - 1, pow4(k), pow4(k) + 1 + rng.Intn(1000)}
	for i := 0; i < 6; i++ {
		pl.kmers = append(pl.kmers, rng.Intn(pow4(k)))
	}
	pl.nkeys = 8
	if n > 400 {
		pl.nkeys = 24
	}
	// texts: windows as written, a random lower-case word, wrong lengths, an invalid letter inside
	for i := 0; i < 6; i++ {
		p := rng.Intn(n - k + 1)
		pl.texts = append(pl.texts, append([]byte{}, s[p:p+k]...))
	}
	t := make([]byte, k)
	for i := range t {
		t[i] = lower[rng.Intn(4)]
	}
	pl.texts = append(pl.texts, t, t[:k-1], append(append([]byte{}, t...), 'a'), []byte{})
	u := append([]byte{}, t...)
	u[rng.Intn(k)] = invalid[rng.Intn(len(invalid)-1)] // an ASCII invalid letter
	pl.texts = append(pl.texts, u)
	// sub-ranges: whole, edges, too short for a word, around the planted runs, random
	pl.ranges = [][2]int{{0, n}, {0, k}, {0, k - 1}, {0, 0}, {n - k, n}, {n - k + 1, n}, {n, n}, {n - 1, n}, {1, n - 1}}
	for i := 0; i+1 < len(marks) && i < 8; i += 2 {
		a, b := marks[i], marks[i+1]
		pl.ranges = append(pl.ranges, clampRange(a-k, b+k, n), clampRange(a-k+1, a+1, n), clampRange(b-1, b+k, n),
			clampRange(b, b+k, n), clampRange(a+1-rng.Intn(2), n, n))
	}
	nr := 6
	if n > 1000 {
		nr = 3
		pl.ranges = pl.ranges[:len(pl.ranges):len(pl.ranges)]
	}
	for i := 0; i < nr; i++ {
		st := rng.Intn(n + 1)
		en := st + rng.Intn(n-st+1)
		if n > 1000 && en-st > 1500 {
			en = st + 1500
		}
		pl.ranges = append(pl.ranges, [2]int{st, en})
	}
	return pl
}

// Random logs the battery for n random sequences (k in 4..10, MinKmerLen as shipped), preceded by
// the argument checks of New.
func Random(w *vt.W, seed int64, n int, big bool) {
	rng := vt.Rand(seed, "kmer")
	// New's argument checks
	for _, c := range []struct {
		n, k, mink int
	}{{10, 3, 4}, {10, 17, 4}, {4, 4, 4}, {5, 4, 4}, {3, 2, 2}, {2, 2, 2}, {9, 1, 2}, {6, 5, 4}} {
		s, _ := genSeq(rng, c.n, c.k)
		pl := plan{pick: rng.Intn}
		if c.n >= c.k+1 {
			pl = tinyPlan(c.n, c.k)
		}
		w.Emit(Case(s, c.k, c.mink, pl))
	}
	// exhaustive k=4 over {a,c,g,t,n}, length 5..6 (7 when big): the shipped minimum word length
	maxn := 6
	if big {
		maxn = 7
	}
	cnt := 0
	plan4 := func(l int) plan {
		pl := tinyPlan(l, 4)
		if cnt++; cnt%16 == 0 { // every 16th case: look up all 4^k words one by one
			pl.kmers = pl.kmers[:0]
			for km := 0; km <= pow4(4); km++ {
				pl.kmers = append(pl.kmers, km)
			}
		}
		return pl
	}
	for l := 5; l <= maxn; l++ {
		s := make([]byte, l)
		var rec func(i int)
		rec = func(i int) {
			if i == l {
				w.Emit(Case(s, 4, 4, plan4(l)))
				return
			}
			for _, c := range []byte("acgtn") {
				s[i] = c
				rec(i + 1)
			}
		}
		// a seeded third of the longest length in the quick tier keeps the log small
		if l == maxn && !big {
			for j := 0; j < 1500; j++ {
				for i := range s {
					s[i] = "acgtnA"[rng.Intn(6)]
				}
				w.Emit(Case(s, 4, 4, plan4(l)))
			}
			continue
		}
		rec(0)
	}
	for i := 0; i < n; i++ {
		k := 4 + rng.Intn(7)
		var l int
		switch r := rng.Intn(20); {
		case r < 9:
			l = k + 1 + rng.Intn(60)
		case r < 16:
			l = 60 + rng.Intn(341)
		case r < 19:
			l = 401 + rng.Intn(1600)
		default:
			l = 2000 + rng.Intn(3001)
		}
		s, marks := genSeq(rng, l, k)
		pl := randomPlan(rng, s, k, marks)
		if i%40 == 7 && k <= 6 && l <= 400 { // all 4^k words one by one
			for km := 0; km < pow4(k); km++ {
				pl.kmers = append(pl.kmers, km)
			}
		}
		w.Emit(Case(s, k, 4, pl))
	}
}

// Words logs Format / KmerOf / ComplementOf / GCof for all words of small k and random words of
// larger k, and KmerOf for texts that are not words.
func Words(w *vt.W, seed int64, n int, big bool) {
	rng := vt.Rand(seed, "kmerwords")
	all := 5
	if big {
		all = 7
	}
	for k := 2; k <= all; k++ {
		for km := 0; km < pow4(k); km++ {
			w.Emit(Word(k, km))
		}
	}
	for k := all + 1; k <= 15; k++ {
		w.Emit(Word(k, 0))
		w.Emit(Word(k, pow4(k)-1))
		for i := 0; i < n; i++ {
			w.Emit(Word(k, rng.Intn(pow4(k))))
		}
	}
	for k := 2; k <= 15; k++ {
		for i := 0; i < n/4+4; i++ {
			t := make([]byte, k)
			for j := range t {
				t[j] = both[rng.Intn(len(both))]
			}
			w.Emit(KmerOfText(k, t))
			switch i % 4 {
			case 0:
				t[rng.Intn(k)] = invalid[rng.Intn(len(invalid)-1)]
				w.Emit(KmerOfText(k, t))
			case 1:
				w.Emit(KmerOfText(k, t[:k-1]))
			case 2:
				w.Emit(KmerOfText(k, append(t, 'c')))
			case 3:
				// a byte that is not ASCII: outside the statement, logged for the record
				t[rng.Intn(k)] = byte(0x80 + rng.Intn(0x80))
				w.Emit(KmerOfText(k, t))
			}
		}
	}
}
