// Package kmerd drives the real index/kmerindex code for property C10 and
// logs what it returned.  It computes no expected results: every logged
// value is judged by spec/Kmer/KmerTrace.tla.
package kmerd

import (
	"bufio"
	"encoding/json"
	"fmt"
	"math"
	"os"
	"sort"

	"github.com/biogo/biogo/alphabet"
	"github.com/biogo/biogo/index/kmerindex"
	"github.com/biogo/biogo/seq/linear"

	"verif/harness/vt"
)

func init() {
	vt.Register("kmer/cases", func(a vt.Args) {
		w := vt.Create(a.Out)
		n := Cases(w, a.In)
		w.Close()
		fmt.Printf("cases=%d\n", n)
	})
	vt.Register("kmer/random", func(a vt.Args) {
		w := vt.Create(a.Out)
		Random(w, a.Seed, a.N, a.Big)
		w.Close()
		fmt.Printf("cases=%d\n", w.N)
	})
	vt.Register("kmer/words", func(a vt.Args) {
		w := vt.Create(a.Out)
		Words(w, a.Seed, a.N, a.Big)
		w.Close()
		fmt.Printf("words=%d\n", w.N)
	})
}

// guard runs f and returns the text of a panic that escaped it ("" if none).
func guard(what string, f func()) (p string) {
	defer func() {
		if r := recover(); r != nil {
			p = fmt.Sprintf("%s: %v", what, r)
		}
	}()
	f()
	return ""
}

func pow4(k int) int { return 1 << (2 * uint(k)) }

// plan says what to ask of one index.
type plan struct {
	tiny   bool     // log the internal arrays too; the trace specification judges with the direct definitions
	full   bool     // log the complete frequency and position maps
	sfull  bool     // log the complete string-keyed map
	kmers  []int    // KmerPositions / frequency look-ups (besides keys taken from the index itself)
	nkeys  int      // how many keys of the real index to look up again one by one
	texts  [][]byte // KmerPositionsString look-ups
	ranges [][2]int // ForEachKmerOf sub-ranges
	pick   func(n int) int
}

// Sentinel is what the driver writes over every element of every slice and map it was handed by a
// query, as a caller is free to do with its own results.  No position and no count is negative.
const Sentinel = -7

// scribble overwrites every element of a slice the driver was handed.
func scribble(p []int) {
	for i := range p {
		p[i] = Sentinel
	}
}

func scribbleKmers(f []kmerindex.Kmer) {
	s := Sentinel
	for i := range f {
		f[i] = kmerindex.Kmer(s)
	}
}

// copyInts is the driver's own copy of a result, taken before the result is overwritten.
func copyInts(a []int) []int {
	r := make([]int, len(a))
	copy(r, a)
	return r
}

// Case builds an index of s with word length k (MinKmerLen lowered to mink) and logs the battery.
//
// The index is used as a caller may use it: every slice and every map a query hands out is the
// caller's, so after each such query (and after its answer has been copied to the log) the driver
// overwrites every element of what it was handed with Sentinel.  When all questions have been asked
// once, the whole set of questions - frequencies before Build; Check, the maps, the single look-ups and
// the array accessors after Build - is asked again.  Both rounds are logged (the second under the same
// names with the suffix "2") and both are judged by the trace specification.
func Case(s []byte, k, mink int, pl plan) vt.Ev {
	ev := vt.Ev{"op": "case", "s": vt.Ints(s), "k": k, "mink": mink, "err": "", "panic": "",
		"tiny": pl.tiny, "full": pl.full, "sfull": pl.sfull, "sentinel": Sentinel, "ranges": []interface{}{},
		"s2": []int{}, "ranges2": []interface{}{}}
	for _, sfx := range []string{"", "2"} {
		for name, v := range map[string]interface{}{
			"freqok": false, "freq": [][2]int{}, "freqn": 0, "freqsum": 0, "fq": [][2]int{},
			"chkok": false, "chkfound": 0, "indexn": 0, "index": []interface{}{}, "sindex": []interface{}{},
			"q": []interface{}{}, "qt": []interface{}{}, "fpre": []int{}, "fpost": []int{}, "posarr": []int{}} {
			ev[name+sfx] = v
		}
	}
	panics := ""
	note := func(p string) {
		if p != "" && panics == "" {
			panics = p
		}
	}
	old := kmerindex.MinKmerLen
	kmerindex.MinKmerLen = mink
	defer func() { kmerindex.MinKmerLen = old }()

	sq := linear.NewSeq("s", alphabet.BytesToLetters(s), alphabet.DNA)
	var ki *kmerindex.Index
	var err error
	note(guard("New", func() { ki, err = kmerindex.New(k, sq) }))
	ev["err"] = vt.ErrStr(err)
	if panics != "" || err != nil || ki == nil {
		ev["panic"] = panics
		return ev
	}

	// before Build: frequencies, twice; the first map (and the first copy of the counts) is overwritten in between
	freqs := func(sfx string) map[kmerindex.Kmer]int {
		var fm map[kmerindex.Kmer]int
		var fok bool
		note(guard("KmerFrequencies"+sfx, func() { fm, fok = ki.KmerFrequencies() }))
		ev["freqok"+sfx] = fok
		ev["freqn"+sfx] = len(fm)
		sum := 0
		fr := make([][2]int, 0, len(fm))
		mine := make(map[kmerindex.Kmer]int, len(fm))
		for km, c := range fm {
			sum += c
			fr = append(fr, [2]int{int(km), c})
			mine[km] = c
		}
		sort.Slice(fr, func(i, j int) bool { return fr[i][0] < fr[j][0] })
		ev["freqsum"+sfx] = sum
		if pl.full {
			ev["freq"+sfx] = fr
		}
		for km := range fm {
			fm[km] = Sentinel
		}
		if pl.tiny {
			note(guard("Finger"+sfx, func() {
				f := ki.Finger()
				ev["fpre"+sfx] = kmersToInts(f)
				scribbleKmers(f)
			}))
		}
		return mine
	}
	fm := freqs("")
	fm2 := freqs("2")

	note(guard("Build", func() { ki.Build() }))

	// the words looked up one by one are chosen in the first round (asked words, and some words the
	// index itself lists) and asked again in the second
	var kmers []int
	round := func(sfx string, fm map[kmerindex.Kmer]int) {
		var cok bool
		var found int
		note(guard("Check"+sfx, func() { cok, found = ki.Check() }))
		ev["chkok"+sfx], ev["chkfound"+sfx] = cok, found

		var im map[kmerindex.Kmer][]int
		note(guard("KmerIndex"+sfx, func() { im, _ = ki.KmerIndex() }))
		ev["indexn"+sfx] = len(im)
		keys := make([]int, 0, len(im))
		for km := range im {
			keys = append(keys, int(km))
		}
		sort.Ints(keys)
		if pl.full {
			ix := make([]interface{}, 0, len(keys))
			for _, km := range keys {
				ix = append(ix, []interface{}{km, copyInts(im[kmerindex.Kmer(km)])})
			}
			ev["index"+sfx] = ix
		}
		for _, p := range im {
			scribble(p)
		}
		if pl.sfull {
			var sm map[string][]int
			note(guard("StringKmerIndex"+sfx, func() { sm, _ = ki.StringKmerIndex() }))
			sk := make([]string, 0, len(sm))
			for t := range sm {
				sk = append(sk, t)
			}
			sort.Strings(sk)
			sx := make([]interface{}, 0, len(sk))
			for _, t := range sk {
				sx = append(sx, []interface{}{vt.Ints([]byte(t)), copyInts(sm[t])})
			}
			ev["sindex"+sfx] = sx
			for _, p := range sm {
				scribble(p)
			}
		}

		if sfx == "" {
			kmers = append([]int{}, pl.kmers...)
			for i := 0; i < pl.nkeys && len(keys) > 0; i++ {
				kmers = append(kmers, keys[pl.pick(len(keys))])
			}
		}
		q := make([]interface{}, 0, len(kmers))
		fq := make([][2]int, 0, len(kmers))
		for _, km := range kmers {
			var pos []int
			var e error
			note(guard("KmerPositions"+sfx, func() { pos, e = ki.KmerPositions(kmerindex.Kmer(km)) }))
			q = append(q, []interface{}{km, vt.ErrStr(e), copyInts(pos)})
			scribble(pos)
			if km >= 0 && km < pow4(k) {
				fq = append(fq, [2]int{km, fm[kmerindex.Kmer(km)]})
			}
		}
		ev["q"+sfx], ev["fq"+sfx] = q, fq
		qt := make([]interface{}, 0, len(pl.texts))
		for _, t := range pl.texts {
			var pos []int
			var e error
			// a panic is logged with the look-up: texts that are not ASCII are outside the statement
			p := guard("KmerPositionsString"+sfx, func() { pos, e = ki.KmerPositionsString(string(t)) })
			qt = append(qt, []interface{}{vt.Ints(t), vt.ErrStr(e), copyInts(pos), p})
			scribble(pos)
		}
		ev["qt"+sfx] = qt

		if sfx == "" {
			rs := make([]interface{}, 0, len(pl.ranges))
			for _, r := range pl.ranges {
				vis := [][2]int{}
				var e error
				note(guard("ForEachKmerOf", func() {
					e = ki.ForEachKmerOf(sq, r[0], r[1], func(_ *kmerindex.Index, pos, kmer int) {
						vis = append(vis, [2]int{pos, kmer})
					})
				}))
				rs = append(rs, []interface{}{r[0], r[1], vt.ErrStr(e), vis})
			}
			ev["ranges"] = rs
			// the same walk over another sequence than the indexed one: the indexed letters followed by k+3 more
			// (ForEachKmerOf takes the sequence to walk as an argument; only k comes from the index)
			if len(pl.ranges) > 0 {
				s2 := append(append([]byte{}, s...), []byte("gattacagattacagattaca")[:k+3]...)
				sq2 := linear.NewSeq("s2", alphabet.BytesToLetters(s2), alphabet.DNA)
				rs2 := []interface{}{}
				for _, r := range [][2]int{{0, len(s2)}, {len(s) - k, len(s2)}, {len(s) - 1, len(s2)}, {len(s), len(s2)}} {
					if r[0] < 0 {
						continue
					}
					vis := [][2]int{}
					var e error
					note(guard("ForEachKmerOf", func() {
						e = ki.ForEachKmerOf(sq2, r[0], r[1], func(_ *kmerindex.Index, pos, kmer int) {
							vis = append(vis, [2]int{pos, kmer})
						})
					}))
					rs2 = append(rs2, []interface{}{r[0], r[1], vt.ErrStr(e), vis})
				}
				ev["s2"], ev["ranges2"] = vt.Ints(s2), rs2
			}
		}

		if pl.tiny {
			note(guard("Finger/Pos"+sfx, func() {
				f, p := ki.Finger(), ki.Pos()
				ev["fpost"+sfx] = kmersToInts(f)
				ev["posarr"+sfx] = copyInts(p)
				scribbleKmers(f)
				scribble(p)
			}))
		}
	}
	round("", fm)
	round("2", fm2)
	ev["panic"] = panics
	return ev
}

func kmersToInts(f []kmerindex.Kmer) []int {
	r := make([]int, len(f))
	for i, v := range f {
		r[i] = int(v)
	}
	return r
}

// tinyPlan: everything there is to ask of a short sequence.
func tinyPlan(n, k int) plan {
	i := 0
	pl := plan{tiny: true, full: true, sfull: true, pick: func(m int) int { i++; return (i * 5) % m }}
	if k <= 3 {
		for km := 0; km <= pow4(k)+1; km++ {
			pl.kmers = append(pl.kmers, km)
		}
	} else {
		pl.kmers = []int{0, 1, pow4(k) - 1, pow4(k)}
		for i := 0; i < 6; i++ {
			pl.kmers = append(pl.kmers, (i*7919+n*131)%pow4(k))
		}
		pl.nkeys = 3
	}
	for st := 0; st <= n; st++ {
		for en := st; en <= n; en++ {
			pl.ranges = append(pl.ranges, [2]int{st, en})
		}
	}
	return pl
}

// Cases runs the cases of the bounded model ({"s": [...], "k": n} per line, emitted by TLC or stored
// in a replay file) through the real code with MinKmerLen lowered to the case's k.
func Cases(w *vt.W, in string) int {
	f, err := os.Open(in)
	if err != nil {
		vt.Fatal("open %s: %v", in, err)
	}
	defer f.Close()
	sc := bufio.NewScanner(f)
	sc.Buffer(make([]byte, 1<<20), 1<<26)
	n := 0
	for sc.Scan() {
		if len(sc.Bytes()) == 0 {
			continue
		}
		var c struct {
			S      []int
			K      int
			Mink   int
			Kmer   *int  // a word event
			Text   []int // a kmerof event
			Plan   bool  // a stored case: ask exactly the stored questions again
			Tiny   bool
			Full   bool
			Sfull  bool
			Ranges [][2]int
			Kmers  []int
			Texts  [][]int
		}
		if err := json.Unmarshal(sc.Bytes(), &c); err != nil {
			vt.Fatal("bad case line %q: %v", sc.Text(), err)
		}
		n++
		if c.Kmer != nil {
			w.Emit(Word(c.K, *c.Kmer))
			continue
		}
		if c.S == nil && c.Text != nil {
			w.Emit(KmerOfText(c.K, toBytes(c.Text)))
			continue
		}
		s := toBytes(c.S)
		mink := c.Mink
		if mink == 0 {
			mink = c.K
			if mink > 4 {
				mink = 4
			}
		}
		if c.Plan {
			pl := plan{tiny: c.Tiny, full: c.Full, sfull: c.Sfull, kmers: c.Kmers, ranges: c.Ranges,
				pick: func(int) int { return 0 }}
			for _, t := range c.Texts {
				pl.texts = append(pl.texts, toBytes(t))
			}
			w.Emit(Case(s, c.K, mink, pl))
			continue
		}
		pl := tinyPlan(len(s), c.K)
		// texts: every window as written (both cases, invalid letters), one wrong length
		for p := 0; p+c.K <= len(s); p++ {
			pl.texts = append(pl.texts, s[p:p+c.K])
		}
		if c.K >= 1 && c.K-1 <= len(s) {
			pl.texts = append(pl.texts, s[:c.K-1])
		}
		w.Emit(Case(s, c.K, mink, pl))
	}
	if err := sc.Err(); err != nil {
		vt.Fatal("read %s: %v", in, err)
	}
	return n
}

func toBytes(a []int) []byte {
	b := make([]byte, len(a))
	for i, v := range a {
		b[i] = byte(v)
	}
	return b
}

// Word logs the word-level functions for one packed word.
func Word(k, kmer int) vt.Ev {
	ev := vt.Ev{"op": "word", "k": k, "kmer": kmer, "text": []int{}, "back": 0, "backerr": "", "comp": 0,
		"comptext": []int{}, "gcppm": 0, "panic": ""}
	ev["panic"] = guard("word", func() {
		km := kmerindex.Kmer(kmer)
		t, err := kmerindex.Format(km, k, alphabet.DNA)
		if err != nil {
			ev["backerr"] = "Format: " + err.Error()
			return
		}
		ev["text"] = vt.Ints([]byte(t))
		back, err := kmerindex.KmerOf(k, alphabet.DNA.LetterIndex(), t)
		ev["back"], ev["backerr"] = int(back), vt.ErrStr(err)
		c := kmerindex.ComplementOf(k, km)
		ev["comp"] = int(c)
		ct, _ := kmerindex.Format(c, k, alphabet.DNA)
		ev["comptext"] = vt.Ints([]byte(ct))
		// a float64 is logged as parts per million, rounded half up
		ev["gcppm"] = int(math.Floor(kmerindex.GCof(k, km)*1e6 + 0.5))
	})
	return ev
}

// KmerOfText logs KmerOf for an arbitrary text.
func KmerOfText(k int, text []byte) vt.Ev {
	ev := vt.Ev{"op": "kmerof", "k": k, "text": vt.Ints(text), "kmer": 0, "err": "", "panic": ""}
	ev["panic"] = guard("KmerOf", func() {
		km, err := kmerindex.KmerOf(k, alphabet.DNA.LetterIndex(), string(text))
		ev["kmer"], ev["err"] = int(km), vt.ErrStr(err)
	})
	return ev
}
