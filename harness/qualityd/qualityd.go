// Package qualityd drives the quality score code of biogo (alphabet.Qphred,
// alphabet.Qsolexa, alphabet.Encoding, seq/quality.Phred, seq/quality.Solexa and
// the quality accessors of seq/linear.QSeq) and logs what it returns, one JSON
// object per call group.  Nothing here judges anything: probabilities are logged
// as a decimal (mantissa, exponent) pair read off the shortest decimal form of the
// float64, and the order of table entries is logged as a rank.
package qualityd

import (
	"bufio"
	"encoding/json"
	"fmt"
	"math"
	"math/rand"
	"os"
	"sort"
	"strconv"
	"strings"

	"github.com/biogo/biogo/alphabet"
	"github.com/biogo/biogo/seq/linear"
	"github.com/biogo/biogo/seq/quality"

	"verif/harness/vt"
)

// Encs is the order of the per-encoding arrays in every event.
var Encs = []alphabet.Encoding{alphabet.None, alphabet.Sanger, alphabet.Solexa, alphabet.Illumina1_3,
	alphabet.Illumina1_5, alphabet.Illumina1_8, alphabet.Illumina1_9}

// Pair describes a float64 as kind + floor(mantissa*10^4) + decimal exponent.
func Pair(p float64) map[string]interface{} {
	r := map[string]interface{}{"k": "num", "m": 0, "e": 0}
	switch {
	case math.IsNaN(p):
		r["k"] = "nan"
	case math.IsInf(p, 0):
		r["k"] = "inf"
	case p == 0:
		r["k"] = "zero"
	case p < 0:
		r["k"] = "neg"
	default:
		s := strconv.FormatFloat(p, 'e', -1, 64) // d.ddddde-XX, shortest form that round trips
		i := strings.IndexByte(s, 'e')
		digits := strings.Replace(s[:i], ".", "", 1)
		for len(digits) < 5 {
			digits += "0"
		}
		m, err1 := strconv.Atoi(digits[:5])
		e, err2 := strconv.Atoi(s[i+1:])
		if err1 != nil || err2 != nil {
			vt.Fatal("cannot read %q", s)
		}
		r["m"], r["e"] = m, e
	}
	return r
}

// guard runs f and returns the panic text, if any.
func guard(f func()) (msg string) {
	defer func() {
		if r := recover(); r != nil {
			msg = fmt.Sprint(r)
			if msg == "" {
				msg = "panic"
			}
		}
	}()
	f()
	return ""
}

// ranks returns the dense ascending rank of every entry (NaN gets -1).
func ranks(v []float64) []int {
	var fin []float64
	for _, x := range v {
		if !math.IsNaN(x) {
			fin = append(fin, x)
		}
	}
	sort.Float64s(fin)
	var uniq []float64
	for i, x := range fin {
		if i == 0 || x != fin[i-1] {
			uniq = append(uniq, x)
		}
	}
	r := make([]int, len(v))
	for i, x := range v {
		if math.IsNaN(x) {
			r[i] = -1
			continue
		}
		r[i] = sort.SearchFloat64s(uniq, x)
	}
	return r
}

var phredRank, solexaRank []int

func init() {
	p := make([]float64, 256)
	s := make([]float64, 256)
	guard(func() {
		for i := 0; i < 256; i++ {
			p[i] = alphabet.Qphred(i).ProbE()
			s[i] = alphabet.Qsolexa(int8(i - 128)).ProbE()
		}
	})
	phredRank, solexaRank = ranks(p), ranks(s)
}

// PhredRow logs everything the alphabet package computes from Phred score q.
func PhredRow(w *vt.W, q int) {
	ev := vt.Ev{"op": "phred", "q": q, "pe": Pair(math.NaN()), "rank": phredRank[q], "ep": -1, "qs": -999,
		"pqs": Pair(math.NaN()), "enc": []int{}, "dec": []int{}, "decs": []int{}, "panic": ""}
	qp := alphabet.Qphred(q)
	ev["panic"] = guard(func() {
		ev["pe"] = Pair(qp.ProbE())
		ev["ep"] = int(alphabet.Ephred(qp.ProbE()))
		qs := qp.Qsolexa()
		ev["qs"] = int(qs)
		ev["pqs"] = Pair(qs.ProbE())
		enc, dec, decs := []int{}, []int{}, []int{}
		for _, e := range Encs {
			b := qp.Encode(e)
			enc = append(enc, int(b))
			dec = append(dec, int(e.DecodeToQphred(b)))
			decs = append(decs, int(e.DecodeToQsolexa(b)))
		}
		ev["enc"], ev["dec"], ev["decs"] = enc, dec, decs
	})
	w.Emit(ev)
}

// SolexaRow logs everything the alphabet package computes from Solexa score s.
func SolexaRow(w *vt.W, s int) {
	ev := vt.Ev{"op": "solexa", "s": s, "pe": Pair(math.NaN()), "cpe": Pair(math.NaN()), "rank": solexaRank[s+128],
		"es": -999, "qp": -1, "pqp": Pair(math.NaN()), "enc": []int{}, "dec": []int{}, "decp": []int{}, "panic": ""}
	qs := alphabet.Qsolexa(int8(s))
	ev["panic"] = guard(func() {
		ev["pe"] = Pair(qs.ProbE())
		ev["cpe"] = Pair(1 - qs.ProbE())
		ev["es"] = int(alphabet.Esolexa(qs.ProbE()))
		qp := qs.Qphred()
		ev["qp"] = int(qp)
		ev["pqp"] = Pair(qp.ProbE())
		enc, dec, decp := []int{}, []int{}, []int{}
		for _, e := range Encs {
			b := qs.Encode(e)
			enc = append(enc, int(b))
			dec = append(dec, int(e.DecodeToQsolexa(b)))
			decp = append(decp, int(e.DecodeToQphred(b)))
		}
		ev["enc"], ev["dec"], ev["decp"] = enc, dec, decp
	})
	w.Emit(ev)
}

// ByteRow logs how each encoding decodes byte b, plus the package's own conversion of the
// offset-corrected value (so that decoding across score types can be judged as a composition).
func ByteRow(w *vt.W, b int) {
	ev := vt.Ev{"op": "byte", "b": b, "dp": []int{}, "ds": []int{}, "rp": []int{}, "rs": []int{},
		"s2p64": -1, "p2s33": -999, "p2s64": -999, "panic": ""}
	ev["panic"] = guard(func() {
		dp, ds, rp, rs := []int{}, []int{}, []int{}, []int{}
		for _, e := range Encs {
			p, s := e.DecodeToQphred(byte(b)), e.DecodeToQsolexa(byte(b))
			dp = append(dp, int(p))
			ds = append(ds, int(s))
			rp = append(rp, int(p.Encode(e)))
			rs = append(rs, int(s.Encode(e)))
		}
		ev["dp"], ev["ds"], ev["rp"], ev["rs"] = dp, ds, rp, rs
		ev["s2p64"] = int((alphabet.Qsolexa(b) - 64).Qphred())
		ev["p2s33"] = int((alphabet.Qphred(b) - 33).Qsolexa())
		ev["p2s64"] = int((alphabet.Qphred(b) - 64).Qsolexa())
	})
	w.Emit(ev)
}

// prob builds the float64 nearest to m*10^(e-4), or to 1 - m*10^(e-4).
func prob(m, e int, comp bool) float64 {
	p, err := strconv.ParseFloat(fmt.Sprintf("%de%d", m, e-4), 64)
	if err != nil {
		vt.Fatal("bad probability %d %d", m, e)
	}
	if comp {
		return 1 - p
	}
	return p
}

// ProbRow logs Ephred / Esolexa of the probability m*10^(e-4) (comp: of one minus it).
func ProbRow(w *vt.W, op string, m, e int, comp bool) {
	ev := vt.Ev{"op": op, "m": m, "e": e, "comp": comp, "r": -999, "panic": ""}
	p := prob(m, e, comp)
	ev["panic"] = guard(func() {
		if op == "ephred" {
			ev["r"] = int(alphabet.Ephred(p))
		} else {
			ev["r"] = int(alphabet.Esolexa(p))
		}
	})
	w.Emit(ev)
}

// Tables dumps every function over its whole 8-bit domain.
func Tables(w *vt.W) {
	for q := 0; q < 256; q++ {
		PhredRow(w, q)
	}
	for s := -128; s < 128; s++ {
		SolexaRow(w, s)
	}
	for b := 0; b < 256; b++ {
		ByteRow(w, b)
	}
}

// Samples logs Ephred/Esolexa over a dense sample of probabilities in (0,1): a regular grid of
// mantissas per decade, the neighbourhood of every half-step 10^(-(2q+1)/20), and n random ones.
func Samples(w *vt.W, rng *rand.Rand, n int) {
	for e := -1; e >= -26; e-- {
		for m := 10000; m < 100000; m += 1499 {
			ProbRow(w, "ephred", m, e, false)
			if e >= -13 {
				ProbRow(w, "esolexa", m, e, false)
			}
			if e >= -9 && e <= -2 {
				ProbRow(w, "esolexa", m, e, true)
			}
		}
	}
	// beyond the largest and the smallest representable score: down to the denormals, and up to 1 - 10^-15
	for _, e := range []int{-27, -28, -30, -33, -40, -100, -200, -300, -319} {
		for m := 10000; m < 100000; m += 14990 {
			ProbRow(w, "ephred", m, e, false)
			ProbRow(w, "esolexa", m, e, false)
		}
	}
	for e := -14; e >= -26; e-- {
		for m := 10000; m < 100000; m += 14990 {
			ProbRow(w, "esolexa", m, e, false)
		}
	}
	for _, e := range []int{-14, -15} {
		for m := 10000; m < 100000; m += 14990 {
			ProbRow(w, "esolexa", m, e, true)
		}
	}
	for i := 0; i < n; i++ {
		m := 10000 + rng.Intn(90000)
		if i%8 == 7 {
			ProbRow(w, []string{"ephred", "esolexa"}[rng.Intn(2)], m, -27-rng.Intn(290), false)
			continue
		}
		switch rng.Intn(4) {
		case 0, 1:
			ProbRow(w, "ephred", m, -1-rng.Intn(26), false)
		case 2:
			ProbRow(w, "esolexa", m, -1-rng.Intn(13), false)
		default:
			ProbRow(w, "esolexa", m, -2-rng.Intn(8), true)
		}
	}
}

// ---------------------------------------------------------------------------
// seq/quality and seq/linear.QSeq

// scorer is what the three sequence types have in common for this purpose.
type scorer interface {
	at(i int) int
	eat(i int) float64
	set(i, v int)
	sete(i int, p float64)
	qenc(i int) byte
	qdec(b byte) int
	str() []byte
}

type ph struct{ *quality.Phred }

func (q ph) at(i int) int          { return int(q.At(i)) }
func (q ph) eat(i int) float64     { return q.EAt(i) }
func (q ph) set(i, v int)          { q.Set(i, alphabet.Qphred(v)) }
func (q ph) sete(i int, p float64) { q.SetE(i, p) }
func (q ph) qenc(i int) byte       { return q.QEncode(i) }
func (q ph) qdec(b byte) int       { return int(q.QDecode(b)) }
func (q ph) str() []byte           { return []byte(q.String()) }

type so struct{ *quality.Solexa }

func (q so) at(i int) int          { return int(q.At(i)) }
func (q so) eat(i int) float64     { return q.EAt(i) }
func (q so) set(i, v int)          { q.Set(i, alphabet.Qsolexa(int8(v))) }
func (q so) sete(i int, p float64) { q.SetE(i, p) }
func (q so) qenc(i int) byte       { return q.QEncode(i) }
func (q so) qdec(b byte) int       { return int(q.QDecode(b)) }
func (q so) str() []byte           { return []byte(q.String()) }

type qs struct{ *linear.QSeq }

func (q qs) at(i int) int      { return int(q.At(i).Q) }
func (q qs) eat(i int) float64 { return q.EAt(i) }
func (q qs) set(i, v int) {
	q.Set(i, alphabet.QLetter{L: 'a', Q: alphabet.Qphred(v)})
}
func (q qs) sete(i int, p float64) { q.SetE(i, p) }
func (q qs) qenc(i int) byte       { return q.QEncode(i) }
func (q qs) qdec(b byte) int       { return int(q.Encode.DecodeToQphred(b)) }
func (q qs) str() []byte {
	// the quality line of the FASTQ rendering
	s := fmt.Sprintf("%q", q.QSeq)
	l := strings.Split(s, "\n")
	return []byte(l[len(l)-1])
}

func build(typ string, enc int, off int, scores []int) scorer {
	e := alphabet.Encoding(enc)
	switch typ {
	case "phred":
		v := make([]alphabet.Qphred, len(scores))
		for i, s := range scores {
			v[i] = alphabet.Qphred(s)
		}
		q := quality.NewPhred("q", v, e)
		q.Offset = off
		return ph{q}
	case "solexa":
		v := make([]alphabet.Qsolexa, len(scores))
		for i, s := range scores {
			v[i] = alphabet.Qsolexa(int8(s))
		}
		q := quality.NewSolexa("q", v, e)
		q.Offset = off
		return so{q}
	case "qseq":
		v := make([]alphabet.QLetter, len(scores))
		for i, s := range scores {
			v[i] = alphabet.QLetter{L: 'a', Q: alphabet.Qphred(s)}
		}
		q := linear.NewQSeq("q", v, alphabet.DNA, e)
		q.Offset = off
		return qs{q}
	}
	vt.Fatal("unknown sequence type %q", typ)
	return nil
}

// SeqCall performs one accessor call on a fresh small sequence and logs it.
// call: at | eat | set | sete | enc | str.  v: value for set; m, e, comp: probability for sete.
func SeqCall(w *vt.W, typ string, enc, off int, scores []int, call string, i, v, m, e int, comp bool) {
	ev := vt.Ev{"op": "seq", "t": typ, "enc": enc, "off": off, "scores": scores, "call": call, "i": i, "v": v,
		"m": m, "e": e, "comp": comp, "r": -999, "pe": Pair(math.NaN()), "b": -1, "d": -999, "str": []int{}, "after": []int{},
		"panic": ""}
	ev["panic"] = guard(func() {
		q := build(typ, enc, off, scores)
		switch call {
		case "at":
			ev["r"] = q.at(i)
		case "eat":
			ev["pe"] = Pair(q.eat(i))
		case "set":
			q.set(i, v)
			ev["r"] = q.at(i)
		case "sete":
			q.sete(i, prob(m, e, comp))
			ev["r"] = q.at(i)
		case "enc":
			b := q.qenc(i)
			ev["b"] = int(b)
			ev["d"] = q.qdec(b)
		case "str":
			ev["str"] = vt.Ints(q.str())
		default:
			vt.Fatal("unknown call %q", call)
		}
		after := make([]int, len(scores))
		for k := range scores {
			after[k] = q.at(off + k)
		}
		ev["after"] = after
	})
	w.Emit(ev)
}

// Seqs exercises the sequence types: every call on a few fixed sequences, then n random ones.
func Seqs(w *vt.W, rng *rand.Rand, n int) {
	types := []string{"phred", "solexa", "qseq"}
	calls := []string{"at", "eat", "set", "sete", "enc", "str"}
	score := func(typ string) int {
		if typ == "solexa" {
			switch rng.Intn(4) {
			case 0:
				return -5 + rng.Intn(68)
			case 1:
				return -5 + rng.Intn(10)
			default:
				return -127 + rng.Intn(254)
			}
		}
		if rng.Intn(3) == 0 {
			return rng.Intn(254)
		}
		return rng.Intn(94)
	}
	one := func(typ string, enc int, call string) {
		l := 1 + rng.Intn(4)
		sc := make([]int, l)
		for k := range sc {
			sc[k] = score(typ)
		}
		off := rng.Intn(3)
		i := off + rng.Intn(l)
		m, e, comp := 10000+rng.Intn(90000), -1-rng.Intn(9), false
		if typ == "solexa" && rng.Intn(3) == 0 {
			comp, e = true, -2-rng.Intn(6)
		} else if rng.Intn(8) == 0 {
			e = -14 - rng.Intn(30) // beyond the representable scores of either kind from 10^-27 on
		}
		SeqCall(w, typ, enc, off, sc, call, i, score(typ), m, e, comp)
	}
	// both ends of every printable range, through every call
	ends := map[alphabet.Encoding][]int{alphabet.Sanger: {0, 93}, alphabet.Solexa: {-5, 62}, alphabet.Illumina1_3: {0, 62},
		alphabet.Illumina1_5: {2, 62}, alphabet.Illumina1_8: {0, 93}, alphabet.Illumina1_9: {0, 93}}
	for _, typ := range types {
		for _, e := range Encs {
			if sc, ok := ends[e]; ok && (typ == "solexa") == (e == alphabet.Solexa) {
				for _, c := range calls {
					SeqCall(w, typ, int(e), 1, sc, c, 1, sc[1], 31623, -3, false)
					SeqCall(w, typ, int(e), 1, sc, c, 2, sc[0], 50119, -2, false)
				}
			}
			for _, c := range calls {
				one(typ, int(e), c)
			}
		}
	}
	for k := 0; k < n; k++ {
		one(types[rng.Intn(3)], int(Encs[rng.Intn(len(Encs))]), calls[rng.Intn(len(calls))])
	}
}

// Replay re-executes the inputs of logged events (one JSON object per line) on the real code.
func Replay(w *vt.W, path string) int {
	f, err := os.Open(path)
	if err != nil {
		vt.Fatal("open %s: %v", path, err)
	}
	defer f.Close()
	sc := bufio.NewScanner(f)
	sc.Buffer(make([]byte, 1<<20), 1<<26)
	n := 0
	num := func(m map[string]interface{}, k string) int {
		v, ok := m[k].(float64)
		if !ok {
			vt.Fatal("event lacks %q", k)
		}
		return int(v)
	}
	for sc.Scan() {
		if len(strings.TrimSpace(sc.Text())) == 0 {
			continue
		}
		var m map[string]interface{}
		if err := json.Unmarshal(sc.Bytes(), &m); err != nil {
			vt.Fatal("bad event: %v", err)
		}
		n++
		switch m["op"] {
		case "phred":
			PhredRow(w, num(m, "q"))
		case "solexa":
			SolexaRow(w, num(m, "s"))
		case "byte":
			ByteRow(w, num(m, "b"))
		case "ephred", "esolexa":
			comp, _ := m["comp"].(bool)
			ProbRow(w, m["op"].(string), num(m, "m"), num(m, "e"), comp)
		case "seq":
			comp, _ := m["comp"].(bool)
			var scores []int
			for _, x := range m["scores"].([]interface{}) {
				scores = append(scores, int(x.(float64)))
			}
			SeqCall(w, m["t"].(string), num(m, "enc"), num(m, "off"), scores, m["call"].(string),
				num(m, "i"), num(m, "v"), num(m, "m"), num(m, "e"), comp)
		default:
			vt.Fatal("unknown op %v", m["op"])
		}
	}
	return n
}
