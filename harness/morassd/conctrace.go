package morassd

// Un-gated executions of concurrent-mode morass with every hook arrival
// logged in one global order, for validation against MorassConcTrace.tla.

import (
	"fmt"
	"io/ioutil"
	"math/rand"
	"os"
	"runtime"
	"sync"
	"time"

	"github.com/biogo/biogo/morass"

	"verif/harness/vt"
)

// ConcTraces runs n random concurrent workloads and logs their hook events.
func ConcTraces(w *vt.W, rng *rand.Rand, n int) {
	gateMu.Lock()
	defer gateMu.Unlock()
	defer func() { morass.VerifStep = nil }()
	for id := 0; id < n; id++ {
		cs := 1 + rng.Intn(4)
		np := rng.Intn(4*cs + 2)
		jitter := rng.Intn(4) // 0: none, else chance of yielding/sleeping in hooks
		vt.Beat(fmt.Sprintf("un-gated run %d: chunk size %d, %d pushes, then Finalise and Pull to the end", id, cs, np))
		runConcTrace(w, id, cs, np, jitter, rng.Int63())
	}
}

func runConcTrace(w *vt.W, id, cs, np, jitter int, seed int64) {
	dir, err := ioutil.TempDir(vt.ScratchBase(), "vmorasst")
	if err != nil {
		vt.Fatal("tempdir: %v", err)
	}
	defer os.RemoveAll(dir)
	m, err := morass.New(ival(0), "r", dir, cs, true)
	if err != nil {
		vt.Fatal("morass.New: %v", err)
	}
	defer m.CleanUp()

	var mu sync.Mutex
	procOf := map[int64][2]interface{}{}
	nextW := 0
	jr := rand.New(rand.NewSource(seed))
	var events []vt.Ev
	logGate := func(gid int64, site string) {
		mu.Lock()
		p, ok := procOf[gid]
		if !ok {
			nextW++
			p = [2]interface{}{"w", nextW}
			procOf[gid] = p
		}
		events = append(events, vt.Ev{"op": "gate", "p": p[0], "k": p[1], "g": site})
		d := 0
		if jitter > 0 {
			d = jr.Intn(4 * jitter)
		}
		mu.Unlock()
		switch {
		case d == 1:
			runtime.Gosched()
		case d >= 2 && d < 4:
			time.Sleep(time.Duration(d*20) * time.Microsecond)
		}
	}
	morass.VerifStep = func(mm *morass.Morass, site string, i int) {
		if mm != m {
			return
		}
		logGate(goid(), site)
	}
	me := goid()
	procOf[me] = [2]interface{}{"c", 0}
	w.Emit(vt.Ev{"op": "reset", "id": id, "cs": cs, "npush": np})
	logGate(me, "api")
	failed := ""
	for i := 0; i < np && failed == ""; i++ {
		v := (np-i)*KD + i
		if es, _ := guard(func() error { return m.Push(ival(v)) }); es != "" {
			failed = "push: " + es
		}
		logGate(me, "api")
	}
	if failed == "" {
		if es, _ := guard(m.Finalise); es != "" {
			failed = "finalise: " + es
		}
	}
	// Finalise has returned: nothing the caller does from here is a model step.
	got, sorted, last := 0, true, -1
	for failed == "" {
		var v ival
		es, _ := guard(func() error { return m.Pull(&v) })
		if es == "EOF" {
			break
		}
		if es != "" {
			failed = "pull: " + es
			break
		}
		if int(v)/KD < last {
			sorted = false
		}
		last = int(v) / KD
		got++
		if got > np+4 {
			break
		}
	}
	// writers that are still running (only possible if Finalise did not wait) get a moment
	time.Sleep(200 * time.Microsecond)
	mu.Lock()
	for _, e := range events {
		w.Emit(e)
	}
	events = nil
	mu.Unlock()
	w.Emit(vt.Ev{"op": "drained", "n": got, "sorted": sorted, "err": failed, "note": fmt.Sprintf("cs=%d np=%d", cs, np)})
}
