// Package morassd drives real *morass.Morass values through usage
// histories (generated randomly, or emitted by TLC from MorassImpl.tla)
// and logs one event per API call for validation against MorassTrace.tla.
package morassd

import (
	"bufio"
	"encoding/json"
	"fmt"
	"io"
	"io/ioutil"
	"math/rand"
	"os"

	"github.com/biogo/biogo/morass"

	"verif/harness/vt"
)

// KD is the key divisor: logged value = key*KD + identity.
const KD = 4096

type ival int

func (i ival) Less(j interface{}) bool { return int(i)/KD < int(j.(ival))/KD }

type sval struct {
	K, ID int
	Pad   string
}

func (s sval) Less(j interface{}) bool { return s.K < j.(sval).K }

// Op is one step of a plan.
type Op struct {
	Op string `json:"op"`
	V  int    `json:"v"` // push: key*kd+id as emitted by the model (only the key is used)
	// header fields (op == "new")
	CS     int   `json:"cs"`
	AC     bool  `json:"ac"`
	Conc   bool  `json:"conc"`
	Struct *bool `json:"struct"`
	ACL    bool  `json:"acl"`
}

type runner struct {
	w      *vt.W
	m      *morass.Morass
	strukt bool
	conc   bool
	filled bool // at least one spill may be in flight (concurrent fill phase)
	nextID int
}

// guard runs one API call, converting a panic into an error string.
func guard(f func() error) (es string, panicked bool) {
	defer func() {
		if r := recover(); r != nil {
			es = fmt.Sprintf("PANIC: %v", r)
			panicked = true
		}
	}()
	err := f()
	if err == io.EOF {
		return "EOF", false
	}
	return vt.ErrStr(err), false
}

// ndisk counts the entries of the sorter's temporary directory (-1: no directory).
func ndisk(m *morass.Morass) int {
	fis, err := ioutil.ReadDir(m.VerifDir())
	if err != nil {
		return -1
	}
	return len(fis)
}

func view(m *morass.Morass) vt.Ev {
	v := m.VerifView()
	return vt.Ev{"fast": v.Fast, "chunknil": v.ChunkNil, "chunklen": v.ChunkLen, "nfiles": v.NFiles, "pool": v.Pool, "ndisk": ndisk(m)}
}

func (r *runner) emit(e vt.Ev, quiescent bool) {
	e["pos"] = r.m.Pos()
	e["len"] = r.m.Len()
	e["ndisk"] = -2 // not observed
	if quiescent {
		e["ndisk"] = ndisk(r.m)
		e["view"] = view(r.m)
	}
	r.w.Emit(e)
}

// Run executes one plan on a fresh sorter and logs it as one trace segment.
func Run(w *vt.W, id int, cs int, ac, conc, strukt, acl bool, ops []Op, modelKD int) {
	dir, err := ioutil.TempDir(vt.ScratchBase(), "vmorass")
	if err != nil {
		vt.Fatal("tempdir: %v", err)
	}
	defer os.RemoveAll(dir)
	var m *morass.Morass
	if strukt {
		m, err = morass.New(sval{}, "r", dir, cs, conc)
	} else {
		m, err = morass.New(ival(0), "r", dir, cs, conc)
	}
	if err != nil {
		vt.Fatal("morass.New: %v", err)
	}
	defer m.CleanUp()
	m.AutoClear = ac
	m.AutoClean = acl
	r := &runner{w: w, m: m, strukt: strukt, conc: conc}
	w.Emit(vt.Ev{"op": "reset", "id": id, "cs": cs, "ac": ac, "conc": conc, "struct": strukt, "acl": acl})
	draining := false
	for _, o := range ops {
		var es string
		var bad bool
		switch o.Op {
		case "push":
			k := o.V / modelKD
			v := k*KD + r.nextID
			r.nextID++
			es, bad = guard(func() error {
				if strukt {
					return m.Push(sval{K: k, ID: v % KD, Pad: "xyzzy"})
				}
				return m.Push(ival(v))
			})
			// In concurrent mode background writers may be running while
			// filling: the internal view is only logged when quiescent.
			r.emit(vt.Ev{"op": "push", "v": v, "err": es}, !conc && !bad)
			draining = false
		case "finalise":
			es, bad = guard(m.Finalise)
			r.emit(vt.Ev{"op": "finalise", "err": es}, !bad)
			draining = true
		case "pull", "eof":
			var v int
			es, bad = guard(func() error {
				if strukt {
					var s sval
					err := m.Pull(&s)
					v = s.K*KD + s.ID
					return err
				}
				var i ival
				err := m.Pull(&i)
				v = int(i)
				return err
			})
			r.emit(vt.Ev{"op": "pull", "v": v, "err": es}, !bad)
		case "cleanup":
			es, bad = guard(m.CleanUp)
			r.emit(vt.Ev{"op": "cleanup", "err": es}, true)
			return
		case "clear":
			es, bad = guard(m.Clear)
			r.emit(vt.Ev{"op": "clear", "err": es}, !bad)
			r.nextID = 0
			draining = false
		}
		if bad || ndisk(m) < 0 {
			return // rejected already, or AutoClean has removed the sorter's directory
		}
		if ac && draining && m.Len() == 0 && m.Pos() == 0 {
			// AutoClear fired inside Pull: identities may be reused.
			r.nextID = 0
		}
	}
}

// Replay runs every behaviour of a TLC-emitted file (one JSON array per line).
func Replay(w *vt.W, path string, modelKD int, seed int64) int {
	f, err := os.Open(path)
	if err != nil {
		vt.Fatal("open %s: %v", path, err)
	}
	defer f.Close()
	sc := bufio.NewScanner(f)
	sc.Buffer(make([]byte, 1<<20), 1<<26)
	n := 0
	for sc.Scan() {
		var ops []Op
		if err := json.Unmarshal(sc.Bytes(), &ops); err != nil {
			vt.Fatal("behaviour %d: %v", n, err)
		}
		if len(ops) == 0 || ops[0].Op != "new" {
			vt.Fatal("behaviour %d: no header", n)
		}
		h := ops[0]
		strukt := (int64(n)+seed)%2 == 1
		if h.Struct != nil {
			strukt = *h.Struct
		}
		Run(w, n, h.CS, h.AC, h.Conc, strukt, h.ACL, ops[1:], modelKD)
		n++
	}
	return n
}

// Random generates and runs n random histories.
func Random(w *vt.W, rng *rand.Rand, n int, big, forceConc bool) {
	for id := 0; id < n; id++ {
		// chunk sizes that are not powers of two matter: a buffer grown by append has a larger capacity than
		// the chunk size, and Finalise decides "all in memory" by capacity
		css := []int{1, 2, 3, 4, 5, 5, 6, 7, 8}
		if big {
			css = append(css, 16, 100, 100)
		}
		cs := css[rng.Intn(len(css))]
		ac := rng.Intn(2) == 0
		conc := rng.Intn(3) == 0 || forceConc
		cycles := 1 + rng.Intn(4)
		vt.Beat(fmt.Sprintf("usage history %d: chunk size %d, concurrent %v, %d cycles", id, cs, conc, cycles))
		var ops []Op
		for c := 0; c < cycles; c++ {
			counts := []int{0, 1, cs - 1, cs, cs + 1, cs + 1, cs + 2, 2*cs - 1, 2 * cs, 2*cs + 1, 3*cs + 2}
			cnt := counts[rng.Intn(len(counts))]
			if cnt < 0 {
				cnt = 0
			}
			nk := 1 + rng.Intn(6) // few keys: many duplicates
			for i := 0; i < cnt; i++ {
				ops = append(ops, Op{Op: "push", V: rng.Intn(nk)})
			}
			ops = append(ops, Op{Op: "finalise"})
			full := rng.Intn(3) != 0
			if full {
				for i := 0; i < cnt; i++ {
					ops = append(ops, Op{Op: "pull"})
				}
				ops = append(ops, Op{Op: "eof"})
				if !ac {
					if rng.Intn(3) == 0 {
						ops = append(ops, Op{Op: "eof"})
					}
					ops = append(ops, Op{Op: "clear"})
				}
			} else {
				d := 0
				if cnt > 0 {
					d = rng.Intn(cnt)
				}
				for i := 0; i < d; i++ {
					ops = append(ops, Op{Op: "pull"})
				}
				ops = append(ops, Op{Op: "clear"})
			}
		}
		acl := rng.Intn(5) == 0
		if rng.Intn(6) == 0 {
			// CleanUp at a random point; in concurrent mode not while
			// background writers may be running (between a push and Finalise)
			k := rng.Intn(len(ops))
			for conc && ops[k].Op == "push" {
				k++
			}
			ops = append(ops[:k+1], Op{Op: "cleanup"})
		}
		Run(w, id, cs, ac, conc, rng.Intn(2) == 0, acl, ops, 1)
	}
}
