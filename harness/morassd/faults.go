package morassd

// Random single-fault runs (property C13): one real I/O failure is
// provoked at a chosen operation of a multi-chunk workload by closing a
// run file, hiding the temporary directory, or corrupting a run, and
// every API result is recorded.

import (
	"io/ioutil"
	"math/rand"
	"os"
	"strings"
	"sync"

	"github.com/biogo/biogo/morass"

	"verif/harness/vt"
)

var faultSites = []string{"tempfile", "encode", "sync", "seek", "decode", "pullread", "pulltrunc", "clearremove"}

// Faults runs n random single-fault workloads.
func Faults(w *vt.W, rng *rand.Rand, n int) {
	gateMu.Lock()
	defer gateMu.Unlock()
	defer func() { morass.VerifStep = nil }()
	for id := 0; id < n; id++ {
		cs := 1 + rng.Intn(4)
		np := cs + 1 + rng.Intn(4*cs)
		site := faultSites[rng.Intn(len(faultSites))]
		conc := rng.Intn(2) == 0 && (site == "seek" || site == "decode" || site == "pullread" || site == "pulltrunc" || site == "tempfile")
		if site == "pullread" || site == "pulltrunc" {
			// the gob decoder reads ahead 4 kB: runs must be longer than that for a
			// closed descriptor to be noticed, so large padded elements are used
			cs = 48 + rng.Intn(32)
			np = 2*cs + 1 + rng.Intn(2*cs)
		}
		runFault(w, id, cs, np, conc, site, rng.Intn(8), rng.Intn(2) == 0)
	}
}

func runFault(w *vt.W, id, cs, np int, conc bool, site string, k int, ac bool) {
	dir, err := ioutil.TempDir(vt.ScratchBase(), "vmorassf")
	if err != nil {
		vt.Fatal("tempdir: %v", err)
	}
	defer os.RemoveAll(dir)
	big := site == "pullread" || site == "pulltrunc"
	var m *morass.Morass
	if big {
		m, err = morass.New(sval{}, "r", dir, cs, conc)
	} else {
		m, err = morass.New(ival(0), "r", dir, cs, conc)
	}
	if err != nil {
		vt.Fatal("morass.New: %v", err)
	}
	m.AutoClear = ac
	pad := strings.Repeat("p", 300)
	hidden := dir + ".hidden"
	mdir := m.VerifDir()
	count := 0
	injected := false
	noFile := false
	hider := int64(0)
	var hookMu sync.Mutex // background writers call the hook concurrently
	morass.VerifStep = func(mm *morass.Morass, s string, i int) {
		if mm != m {
			return
		}
		hookMu.Lock()
		defer hookMu.Unlock()
		switch {
		case site == "tempfile" && s == "write.recv":
			if count == k && !injected {
				if os.Rename(mdir, hidden) == nil {
					injected = true
					hider = goid()
				}
			}
			count++
		case site == "tempfile" && s == "write.created" && hider == goid():
			os.Rename(hidden, mdir)
			hider = 0
		case site == "encode" && (s == "write.registered" || s == "write.encoded"):
			if count == k && !injected {
				fs := m.VerifFiles()
				if len(fs) == 0 {
					noFile = true // a writer encodes before any run file is registered: judged, not injected
				} else {
					fs[len(fs)-1].Close()
					// a close after the last element makes the following Sync fail instead: still one failed operation
					injected = true
				}
			}
			count++
		case site == "sync" && s == "write.presync":
			if count == k && !injected {
				fs := m.VerifFiles()
				if len(fs) == 0 {
					noFile = true
				} else {
					fs[len(fs)-1].Close()
					injected = true
				}
			}
			count++
		case (site == "seek" || site == "decode") && s == "final.scan":
			fs := m.VerifFiles()
			if len(fs) > 0 && !injected {
				f := fs[k%len(fs)]
				if site == "seek" {
					f.Close()
				} else {
					ioutil.WriteFile(f.Name(), []byte{0x2a, 0xff, 0x81, 0x03, 0x01, 0x01, 0x7f, 0x00, 0x13, 0x37}, 0600)
				}
				injected = true
			}
		}
	}
	reported := ""
	note := func(what, es string) {
		if es != "" && reported == "" {
			reported = what + ": " + es
		}
	}
	pushed := 0
	for i := 0; i < np && reported == ""; i++ {
		v := (np-i)*KD + i
		es, _ := guard(func() error {
			if big {
				return m.Push(sval{K: v / KD, ID: v % KD, Pad: pad})
			}
			return m.Push(ival(v))
		})
		note("push", es)
		if es == "" {
			pushed++
		}
	}
	finalised := false
	if reported == "" {
		es, _ := guard(m.Finalise)
		note("finalise", es)
		finalised = es == ""
	}
	got, sorted, last := 0, true, -1
	seen := map[int]bool{}
	drained := false // Pull was called until it returned io.EOF (failed calls in between included)
	if finalised {
		for n := 0; n < np+4; n++ {
			if site == "clearremove" && n == k%np {
				break // leave runs registered so that the Clear below has files to remove
			}
			if site == "pulltrunc" && n == 0 && !injected {
				// a run file loses its second half after Finalise (a full disk, a file cut by another process): the
				// merge meets the end of the file in the middle of a value
				fs := m.VerifFiles()
				if len(fs) > 0 {
					f := fs[k%len(fs)]
					// the cut is placed inside a message (3 bytes after a message boundary past the middle of the
					// file): a file that ends exactly between two messages reads as a shorter, intact run, which no
					// reader of a gob stream can tell from the real thing
					if data, err := ioutil.ReadFile(f.Name()); err == nil && len(data) > 12000 {
						for _, b := range gobBoundaries(data) {
							if b > len(data)/2 && b+3 < len(data) {
								if os.Truncate(f.Name(), int64(b+3)) == nil {
									injected = true
								}
								break
							}
						}
					}
				}
			}
			if site == "pullread" && n == k%np && !injected {
				fs := m.VerifFiles()
				if len(fs) > 0 {
					fs[k%len(fs)].Close()
					injected = true
				}
			}
			var v ival
			es, _ := guard(func() error {
				if big {
					var s sval
					err := m.Pull(&s)
					v = ival(s.K*KD + s.ID)
					return err
				}
				return m.Pull(&v)
			})
			if es == "EOF" {
				drained = true
				break
			}
			if es != "" {
				note("pull", es)
				continue
			}
			if int(v)/KD < last || seen[int(v)] {
				sorted = false
			}
			seen[int(v)] = true
			last = int(v) / KD
			got++
		}
	}
	hookMu.Lock()
	os.Rename(hidden, mdir)
	wasInjected := injected
	hookMu.Unlock()
	complete := finalised && sorted && got == np && pushed == np
	// residue clause, AutoClear half: a drain with AutoClear set leaves no run files, whatever failed on the way
	runsLeft := 0
	if drained && ac {
		if fis, err := ioutil.ReadDir(mdir); err == nil {
			runsLeft = len(fis)
		}
	}
	// epilogue (residue clause of C13): whatever went wrong before, after CleanUp the directory is gone;
	// sometimes a Clear comes first, and for site "clearremove" a run file has been deleted under it so
	// that this Clear fails half way
	clearErr := ""
	clearInjected := false
	if site == "clearremove" {
		// not an I/O failure of the sort clause one speaks about: only the residue clause is judged, the
		// values were deliberately not all pulled
		complete = finalised && sorted && pushed == np
		if fs := m.VerifFiles(); len(fs) > 0 {
			clearInjected = os.Remove(fs[k%len(fs)].Name()) == nil
		}
	}
	if conc && !finalised {
		// CleanUp is not issued while background writers may still be running (DESIGN.md, scoping): a Push
		// that reported the failure leaves the other writer going, and a file it creates during RemoveAll keeps
		// the directory alive. Finalise waits for the writers first; its result is not judged here.
		guard(m.Finalise)
	}
	if site == "clearremove" || k%2 == 0 {
		clearErr, _ = guard(m.Clear)
	}
	cleanErr, _ := guard(m.CleanUp)
	_, statErr := os.Stat(mdir)
	w.Emit(vt.Ev{"op": "faultrun", "id": id, "cs": cs, "npush": np, "conc": conc, "site": site, "k": k,
		"injected": wasInjected, "reported": reported, "pulled": got, "complete": complete,
		"clearerr": clearErr, "clearinjected": clearInjected, "nofile": noFile, "cleanuperr": cleanErr, "dirleft": statErr == nil,
		"ac": ac, "drained": drained, "runsleft": runsLeft})
}

// gobBoundaries returns the offsets at which the messages of a gob stream begin (each message is a byte count in
// gob's unsigned integer encoding followed by that many bytes).
func gobBoundaries(data []byte) []int {
	var out []int
	for pos := 0; pos < len(data); {
		out = append(out, pos)
		b := data[pos]
		n, hdr := 0, 1
		if b <= 0x7f {
			n = int(b)
		} else {
			k := -int(int8(b))
			if k < 1 || k > 8 || pos+1+k > len(data) {
				return out
			}
			for _, c := range data[pos+1 : pos+1+k] {
				n = n<<8 | int(c)
			}
			hdr = 1 + k
		}
		pos += hdr + n
	}
	return out
}
