package morassd

// Gate-controlled execution of concurrent-mode morass: the verif-tagged
// step hooks of package morass block every goroutine at every named site
// until the scheduler releases it, so that a behaviour of MorassConc.tla
// (a sequence of releases with the arrivals each must cause) is executed
// deterministically on the real code.

import (
	"bufio"
	"bytes"
	"encoding/json"
	"fmt"
	"io/ioutil"
	"os"
	"runtime"
	"sort"
	"strconv"
	"sync"
	"sync/atomic"
	"time"

	"github.com/biogo/biogo/morass"

	"verif/harness/vt"
)

func goid() int64 {
	var buf [64]byte
	n := runtime.Stack(buf[:], false)
	// "goroutine 123 [running]:..."
	f := bytes.Fields(buf[:n])
	id, _ := strconv.ParseInt(string(f[1]), 10, 64)
	return id
}

type arrival struct {
	gid    int64
	site   string
	resume chan struct{}
}

// Step is one release of a model schedule.
type Step struct {
	P       [2]interface{}   `json:"p"`
	G       string           `json:"g"`
	Arr     [][2]interface{} `json:"arr"`
	Blocked [][2]interface{} `json:"blocked"`
}

// Fault names the one I/O operation that is made to fail in a run:
// creating writer W's run file, encoding its I-th element, or syncing it.
type Fault struct {
	W    int    `json:"w"`
	Site string `json:"site"`
	I    int    `json:"i"`
}

type Schedule struct {
	CS       int    `json:"cs"`
	NPush    int    `json:"npush"`
	Conc     *bool  `json:"conc"`
	Fault    *Fault `json:"fault"`
	Reported bool   `json:"reported"` // the model's caller is told about the failure
	Sched    []Step `json:"sched"`
}

func procName(p interface{}) string {
	switch v := p.(type) {
	case [2]interface{}:
		return fmt.Sprintf("%v%v", v[0], v[1])
	case []interface{}:
		return fmt.Sprintf("%v%v", v[0], v[1])
	}
	return fmt.Sprint(p)
}

type gatedRun struct {
	arrivals chan arrival
	pending  map[string]arrival // proc -> where it stands
	procOf   map[int64]string   // goroutine -> proc
	nextW    int
	timeout  time.Duration
}

// await waits until proc stands at gate.
func (g *gatedRun) await(proc, gate string) error {
	deadline := time.After(g.timeout)
	for {
		if a, ok := g.pending[proc]; ok {
			if a.site != gate {
				return fmt.Errorf("%s arrived at %q, the model expects %q", proc, a.site, gate)
			}
			return nil
		}
		select {
		case a := <-g.arrivals:
			if err := g.note(a); err != nil {
				return err
			}
		case <-deadline:
			return fmt.Errorf("%s did not arrive at %q within %v (blocked or deadlocked)", proc, gate, g.timeout)
		}
	}
}

func (g *gatedRun) note(a arrival) error {
	p, ok := g.procOf[a.gid]
	if !ok {
		if a.site != "write.recv" {
			return fmt.Errorf("unknown goroutine arrived at %q", a.site)
		}
		g.nextW++
		p = fmt.Sprintf("w%d", g.nextW)
		g.procOf[a.gid] = p
	}
	if old, dup := g.pending[p]; dup {
		return fmt.Errorf("%s arrived at %q while still held at %q", p, a.site, old.site)
	}
	g.pending[p] = a
	return nil
}

// drain collects arrivals that already happened.
func (g *gatedRun) drain() error {
	for {
		select {
		case a := <-g.arrivals:
			if err := g.note(a); err != nil {
				return err
			}
		default:
			return nil
		}
	}
}

// Patient: wait 400 ms instead of 1.5 ms before concluding that a goroutine the model calls blocked is blocked.
var Patient bool

var gateMu sync.Mutex // one gated run at a time (the hook is a package variable)

// RunSchedule executes one model schedule on a real concurrent Morass and
// returns the event describing what happened.
func RunSchedule(id int, s Schedule, timeout time.Duration) vt.Ev {
	gateMu.Lock()
	defer gateMu.Unlock()
	dir, err := ioutil.TempDir(vt.ScratchBase(), "vmorassc")
	if err != nil {
		vt.Fatal("tempdir: %v", err)
	}
	defer os.RemoveAll(dir)

	g := &gatedRun{arrivals: make(chan arrival, 64), pending: map[string]arrival{}, procOf: map[int64]string{}, timeout: timeout}
	var live int32 = 1
	var cur atomic.Value // the sorter of this run; goroutines of earlier runs are ignored
	morass.VerifStep = func(m *morass.Morass, site string, i int) {
		if atomic.LoadInt32(&live) == 0 || cur.Load() != m {
			return
		}
		a := arrival{gid: goid(), site: site, resume: make(chan struct{})}
		g.arrivals <- a
		<-a.resume
	}
	defer func() { morass.VerifStep = nil }()

	conc := s.Conc == nil || *s.Conc
	m, err := morass.New(ival(0), "r", dir, s.CS, conc)
	if err != nil {
		vt.Fatal("morass.New: %v", err)
	}
	defer m.CleanUp()
	cur.Store(m)

	// the caller goroutine: one API call per release of the "api" gate
	type callRes struct {
		what string
		err  string
	}
	results := make(chan callRes, 1024)
	callerReady := make(chan int64, 1)
	callerDone := make(chan struct{})
	go func() {
		defer close(callerDone)
		me := goid()
		callerReady <- me
		api := func() {
			a := arrival{gid: me, site: "api", resume: make(chan struct{})}
			g.arrivals <- a
			<-a.resume
		}
		api()
		for i := 0; i < s.NPush; i++ {
			v := (s.NPush-i)*KD + i // descending keys
			es, _ := guard(func() error { return m.Push(ival(v)) })
			results <- callRes{"push", es}
			if es != "" {
				return // the caller has been told: it stops using the sorter
			}
			api()
		}
		es, _ := guard(m.Finalise)
		results <- callRes{"finalise", es}
	}()
	g.procOf[<-callerReady] = "c0"

	ev := vt.Ev{"op": "sched", "id": id, "cs": s.CS, "npush": s.NPush, "steps": len(s.Sched)}
	fail := func(step int, err error) vt.Ev {
		ev["ok"] = false
		ev["step"] = step
		ev["mismatch"] = err.Error()
		// let everything run to completion so that goroutines do not leak into the next run
		atomic.StoreInt32(&live, 0)
		for _, a := range g.pending {
			close(a.resume)
		}
		done := time.After(2 * time.Second)
	loop:
		for {
			select {
			case a := <-g.arrivals:
				close(a.resume)
			case <-callerDone:
				break loop
			case <-done:
				break loop
			}
		}
		return ev
	}

	if err := g.await("c0", "api"); err != nil {
		return fail(-1, err)
	}
	// fault injection: real failures, produced by closing the run file or hiding the directory
	faultProc, encoded := "", map[string]int{}
	fileOf := map[string]*os.File{}
	if s.Fault != nil && s.Fault.W >= 0 {
		faultProc = fmt.Sprintf("w%d", s.Fault.W)
		if s.Fault.W == 0 {
			faultProc = "c0"
		}
	}
	hidden := dir + ".hidden"
	for i, st := range s.Sched {
		p := procName(st.P)
		if err := g.drain(); err != nil {
			return fail(i, err)
		}
		a, ok := g.pending[p]
		if !ok || a.site != st.G {
			if err := g.await(p, st.G); err != nil {
				return fail(i, fmt.Errorf("before release: %v", err))
			}
			a = g.pending[p]
		}
		// nobody may stand at a gate unless the model says so: collect who the model expects
		restore := false
		if p == faultProc {
			f := s.Fault
			switch {
			case f.Site == "tempfile" && st.G == "write.recv":
				if err := os.Rename(dir, hidden); err != nil {
					vt.Fatal("hide dir: %v", err)
				}
				restore = true
			case f.Site == "encode" && ((f.I == 1 && st.G == "write.registered") || (f.I > 1 && st.G == "write.encoded" && encoded[p] == f.I-1)),
				f.Site == "sync" && st.G == "write.presync":
				if fileOf[p] == nil {
					// the implementation reached this gate without having registered a run file, which the
					// model says it has: a divergence of the code, not a harness failure
					return fail(i, fmt.Errorf("%s stands at %q but has not registered its run file (the model's writer has)", p, st.G))
				}
				fileOf[p].Close()
			}
		}
		delete(g.pending, p)
		close(a.resume)
		for _, ar := range st.Arr {
			q := procName(ar[0])
			if err := g.await(q, fmt.Sprint(ar[1])); err != nil {
				if restore {
					os.Rename(hidden, dir)
				}
				return fail(i, fmt.Errorf("after releasing %s from %q: %v", p, st.G, err))
			}
			switch fmt.Sprint(ar[1]) {
			case "write.registered":
				fs := m.VerifFiles()
				if len(fs) > 0 {
					fileOf[q] = fs[len(fs)-1]
				}
			case "write.encoded":
				encoded[q]++
			}
		}
		if restore {
			if err := os.Rename(hidden, dir); err != nil {
				vt.Fatal("restore dir: %v", err)
			}
		}
		if len(st.Blocked) > 0 {
			// the model says these goroutines are blocked: give them a moment to prove otherwise
			if Patient {
				// blocked means blocked for as long as nobody moves, not for a moment: a time-out hidden in a
				// blocking operation would show only now
				time.Sleep(400 * time.Millisecond)
			} else {
				time.Sleep(1500 * time.Microsecond)
			}
			if err := g.drain(); err != nil {
				return fail(i, err)
			}
			for _, b := range st.Blocked {
				q := procName(b)
				if a, ok := g.pending[q]; ok {
					return fail(i, fmt.Errorf("%s reached %q although the model says it is blocked after releasing %s from %q", q, a.site, p, st.G))
				}
			}
		}
	}
	// The model's caller is done: Finalise returned, or some call reported the failure.
	select {
	case <-callerDone:
	case a := <-g.arrivals:
		g.note(a)
		return fail(len(s.Sched), fmt.Errorf("the caller goes on (%q) although the model's caller has finished", a.site))
	case <-time.After(g.timeout):
		return fail(len(s.Sched), fmt.Errorf("the caller did not finish within %v", g.timeout))
	}
	atomic.StoreInt32(&live, 0)
	close(results)
	reported := ""
	for r := range results {
		if r.err != "" {
			reported = fmt.Sprintf("%s returned %q", r.what, r.err)
		}
	}
	ev["reported"] = reported
	if s.Fault != nil && s.Fault.W >= 0 {
		ev["fault"] = s.Fault
	}
	if (reported != "") != s.Reported {
		ev["ok"] = false
		ev["mismatch"] = fmt.Sprintf("error reported to the caller: %q; the model says reported=%v", reported, s.Reported)
		return ev
	}
	if reported != "" {
		ev["ok"] = true
		return ev
	}
	// drain and compare with what was pushed
	var got []int
	for {
		var v ival
		es, bad := guard(func() error { return m.Pull(&v) })
		if es == "EOF" {
			break
		}
		if es != "" || bad {
			ev["ok"] = false
			ev["mismatch"] = fmt.Sprintf("pull returned %q after %d values", es, len(got))
			return ev
		}
		got = append(got, int(v))
		if len(got) > s.NPush+4 {
			break
		}
	}
	want := make([]int, 0, s.NPush)
	for i := 0; i < s.NPush; i++ {
		want = append(want, (s.NPush-i)*KD+i)
	}
	sort.Ints(want)
	ev["pulled"] = len(got)
	if fmt.Sprint(got) != fmt.Sprint(want) {
		ev["ok"] = false
		ev["mismatch"] = fmt.Sprintf("pulled %v, pushed (sorted) %v", got, want)
		return ev
	}
	ev["ok"] = true
	return ev
}

// ReplaySchedules runs every schedule of a TLC-emitted file.
func ReplaySchedules(w *vt.W, path string, timeout time.Duration) (n, bad int) {
	f, err := os.Open(path)
	if err != nil {
		vt.Fatal("open %s: %v", path, err)
	}
	defer f.Close()
	sc := bufio.NewScanner(f)
	sc.Buffer(make([]byte, 1<<20), 1<<26)
	for sc.Scan() {
		var s Schedule
		if err := json.Unmarshal(sc.Bytes(), &s); err != nil {
			vt.Fatal("schedule %d: %v", n, err)
		}
		Patient = n%20 == 7
		ev := RunSchedule(n, s, timeout)
		if ev["ok"] != true {
			// A missed arrival may be scheduling noise on a loaded machine: a
			// failure counts only if it shows again in one of two further runs.
			confirmed := false
			for k := 0; k < 2 && !confirmed; k++ {
				ev2 := RunSchedule(n, s, 2*timeout)
				if ev2["ok"] != true {
					confirmed = true
					ev = ev2
				}
			}
			if confirmed {
				bad++
				ev["schedule"] = s
			} else {
				ev["ok"] = true
				ev["retried"] = true
			}
		}
		w.Emit(ev)
		n++
		if bad >= 5 {
			// every confirmed divergence costs three time-outs: a handful is enough for a verdict
			break
		}
	}
	return n, bad
}
