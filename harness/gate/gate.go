// Package gate turns blocking step hooks into a deterministic scheduler:
// every hooked goroutine stops at every hook ("gate") until released, so
// that a behaviour of a TLA+ process model, given as a sequence of
// releases with the arrivals each must cause and the processes that must
// stay blocked, is executed step by step on the real code.
package gate

import (
	"bytes"
	"fmt"
	"runtime"
	"strconv"
	"sync/atomic"
	"time"
)

// GoID returns the id of the calling goroutine.
func GoID() int64 {
	var buf [64]byte
	n := runtime.Stack(buf[:], false)
	f := bytes.Fields(buf[:n])
	id, _ := strconv.ParseInt(string(f[1]), 10, 64)
	return id
}

type Arrival struct {
	GID    int64
	Site   string
	resume chan struct{}
}

// Step is one release of a model schedule.
type Step struct {
	P       []interface{}   `json:"p"`
	G       string          `json:"g"`
	Arr     [][]interface{} `json:"arr"`
	Blocked [][]interface{} `json:"blocked"`
}

// ProcName renders a model process <<"w", 2>> as "w2".
func ProcName(p interface{}) string {
	if v, ok := p.([]interface{}); ok && len(v) == 2 {
		return fmt.Sprintf("%v%v", v[0], v[1])
	}
	return fmt.Sprint(p)
}

type Run struct {
	arrivals chan Arrival
	Pending  map[string]Arrival
	ProcOf   map[int64]string
	Timeout  time.Duration
	Grace    time.Duration
	// NameNew names a goroutine seen for the first time at site.
	NameNew func(site string) (string, error)
	// Symmetric reports whether two processes are interchangeable when
	// both are blocked in the same kind of operation (e.g. pool workers
	// waiting on one channel: the runtime, not the model, picks the one
	// that proceeds).  If the model expects q at a gate and an
	// interchangeable q2 arrives there instead, their names are swapped.
	Symmetric func(q, q2 string) bool
	// OnArrive, if set, is told about every arrival in the order observed.
	OnArrive func(proc, site string)
	live     int32
}

func New(timeout time.Duration) *Run {
	return &Run{arrivals: make(chan Arrival, 256), Pending: map[string]Arrival{}, ProcOf: map[int64]string{},
		Timeout: timeout, Grace: 1500 * time.Microsecond, live: 1}
}

// Hook is called by a goroutine reaching a gate: it reports and waits.
func (r *Run) Hook(site string) {
	if atomic.LoadInt32(&r.live) == 0 {
		return
	}
	a := Arrival{GID: GoID(), Site: site, resume: make(chan struct{})}
	r.arrivals <- a
	<-a.resume
}

func (r *Run) note(a Arrival) error {
	p, ok := r.ProcOf[a.GID]
	if !ok {
		if r.NameNew == nil {
			return fmt.Errorf("unknown goroutine arrived at %q", a.Site)
		}
		var err error
		if p, err = r.NameNew(a.Site); err != nil {
			return err
		}
		r.ProcOf[a.GID] = p
	}
	if old, dup := r.Pending[p]; dup {
		return fmt.Errorf("%s arrived at %q while still held at %q", p, a.Site, old.Site)
	}
	r.Pending[p] = a
	if r.OnArrive != nil {
		r.OnArrive(p, a.Site)
	}
	return nil
}

// Register names the calling goroutine before its first arrival.
func (r *Run) Register(gid int64, proc string) { r.ProcOf[gid] = proc }

// Collect gathers arrivals for the duration d.
func (r *Run) Collect(d time.Duration) error {
	t := time.After(d)
	for {
		select {
		case a := <-r.arrivals:
			if err := r.note(a); err != nil {
				return err
			}
		case <-t:
			return nil
		}
	}
}

// ReleaseProc lets proc leave the gate it stands at.
func (r *Run) ReleaseProc(proc string) (site string, ok bool) {
	a, ok := r.Pending[proc]
	if !ok {
		return "", false
	}
	delete(r.Pending, proc)
	close(a.resume)
	return a.Site, true
}

// Drain collects the arrivals that have already happened.
func (r *Run) Drain() error {
	for {
		select {
		case a := <-r.arrivals:
			if err := r.note(a); err != nil {
				return err
			}
		default:
			return nil
		}
	}
}

// Await waits until proc stands at gate.
func (r *Run) Await(proc, gate string) error {
	deadline := time.After(r.Timeout)
	for {
		if a, ok := r.Pending[proc]; ok {
			if a.Site != gate {
				return fmt.Errorf("%s arrived at %q, the model expects %q", proc, a.Site, gate)
			}
			return nil
		}
		select {
		case a := <-r.arrivals:
			if err := r.note(a); err != nil {
				return err
			}
			if q2 := r.ProcOf[a.GID]; q2 != proc && a.Site == gate && r.Symmetric != nil && r.Symmetric(proc, q2) {
				if _, busy := r.Pending[proc]; !busy {
					r.swap(proc, q2)
				}
			}
		case <-deadline:
			return fmt.Errorf("%s did not arrive at %q within %v (blocked, deadlocked or gone)", proc, gate, r.Timeout)
		}
	}
}

// swap exchanges the names of two interchangeable processes.
func (r *Run) swap(q, q2 string) {
	var g, g2 int64 = -1, -1
	for gid, n := range r.ProcOf {
		if n == q {
			g = gid
		}
		if n == q2 {
			g2 = gid
		}
	}
	if g >= 0 {
		r.ProcOf[g] = q2
	}
	if g2 >= 0 {
		r.ProcOf[g2] = q
	}
	a, ok := r.Pending[q]
	a2, ok2 := r.Pending[q2]
	delete(r.Pending, q)
	delete(r.Pending, q2)
	if ok {
		r.Pending[q2] = a
	}
	if ok2 {
		r.Pending[q] = a2
	}
}

// Exec performs one step: release, expected arrivals, blocked check.
// before is called just before the release (fault injection etc).
func (r *Run) Exec(i int, st Step, before func(p string, st Step), after func(q, gate string)) error {
	p := ProcName(st.P)
	if err := r.Drain(); err != nil {
		return err
	}
	if a, ok := r.Pending[p]; !ok || a.Site != st.G {
		if err := r.Await(p, st.G); err != nil {
			return fmt.Errorf("before release: %v", err)
		}
	}
	a := r.Pending[p]
	if before != nil {
		before(p, st)
	}
	delete(r.Pending, p)
	close(a.resume)
	for _, ar := range st.Arr {
		q, g := ProcName(ar[0]), fmt.Sprint(ar[1])
		if err := r.Await(q, g); err != nil {
			return fmt.Errorf("after releasing %s from %q: %v", p, st.G, err)
		}
		if after != nil {
			after(q, g)
		}
	}
	if len(st.Blocked) > 0 {
		time.Sleep(r.Grace)
		if err := r.Drain(); err != nil {
			return err
		}
		for _, b := range st.Blocked {
			q := ProcName(b)
			if a, ok := r.Pending[q]; ok {
				return fmt.Errorf("%s reached %q although the model says it is blocked after releasing %s from %q", q, a.Site, p, st.G)
			}
		}
	}
	return nil
}

// Abort stops gating and lets every goroutine run on.
func (r *Run) Abort(wait <-chan struct{}, max time.Duration) {
	atomic.StoreInt32(&r.live, 0)
	for k, a := range r.Pending {
		close(a.resume)
		delete(r.Pending, k)
	}
	done := time.After(max)
	for {
		select {
		case a := <-r.arrivals:
			close(a.resume)
		case <-wait:
			return
		case <-done:
			return
		}
	}
}

// Stop ends gating without waiting.
func (r *Run) Stop() { atomic.StoreInt32(&r.live, 0) }
