// Package utild drives small pure functions of biogo's util package (extensions beyond the listed properties).
package utild

import (
	"fmt"

	"github.com/biogo/biogo/util"

	"verif/harness/vt"
)

// DeBruijn logs util.DeBruijn(k, n) for a grid of alphabet sizes and word lengths.
func DeBruijn(w *vt.W, maxLen int) {
	for k := 0; k <= 6; k++ {
		for n := 1; n <= 7; n++ {
			size := 1
			for i := 0; i < n; i++ {
				size *= k
			}
			if size > maxLen {
				continue
			}
			ev := vt.Ev{"op": "debruijn", "k": k, "n": n, "s": []int{}, "panic": ""}
			func() {
				defer func() {
					if p := recover(); p != nil {
						ev["panic"] = fmt.Sprint(p)
					}
				}()
				ev["s"] = vt.Ints(util.DeBruijn(byte(k), byte(n)))
			}()
			w.Emit(ev)
		}
	}
}
