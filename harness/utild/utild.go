// Package utild drives small pure functions of biogo's util package (extensions beyond the listed properties).
package utild

import (
	"errors"
	"fmt"
	"math/rand"

	"github.com/biogo/biogo/util"

	"verif/harness/vt"
)

// DeBruijn logs util.DeBruijn(k, n) for a grid of alphabet sizes and word lengths.
func DeBruijn(w *vt.W, maxLen int) {
	for k := 0; k <= 6; k++ {
		for n := 1; n <= 7; n++ {
			size := 1
			for i := 0; i < n; i++ {
				size *= k
			}
			if size > maxLen {
				continue
			}
			ev := vt.Ev{"op": "debruijn", "k": k, "n": n, "s": []int{}, "panic": ""}
			func() {
				defer func() {
					if p := recover(); p != nil {
						ev["panic"] = fmt.Sprint(p)
					}
				}()
				ev["s"] = vt.Ints(util.DeBruijn(byte(k), byte(n)))
			}()
			w.Emit(ev)
		}
	}
}

// capWriter is the writer underneath a Wrapper: it takes rem more bytes (rem < 0: any number) and then fails.
type capWriter struct {
	rem int
	buf []byte
}

var errFull = errors.New("full")

func (c *capWriter) Write(p []byte) (int, error) {
	k := len(p)
	if c.rem >= 0 && c.rem < k {
		k = c.rem
	}
	c.buf = append(c.buf, p[:k]...)
	if c.rem >= 0 {
		c.rem -= k
	}
	if k < len(p) {
		return k, errFull
	}
	return k, nil
}

func wrapRun(w *vt.W, width, limit, cap int, sizes []int) {
	ev := vt.Ev{"op": "wrap", "width": width, "limit": limit, "cap": cap, "panic": ""}
	cw := &capWriter{rem: cap, buf: []byte{}}
	calls, rets := [][]int{}, []vt.Ev{}
	from := 0
	func() {
		defer func() {
			if p := recover(); p != nil {
				ev["panic"] = fmt.Sprint(p)
			}
		}()
		wr := util.NewWrapper(cw, width, limit)
		for _, k := range sizes {
			p := make([]byte, k)
			for i := range p {
				p[i] = byte(97 + (from+i)%26)
			}
			from += k
			calls = append(calls, vt.Ints(p))
			n, err := wr.Write(p)
			rets = append(rets, vt.Ev{"ret": n, "err": err != nil})
		}
	}()
	ev["calls"], ev["rets"], ev["out"] = calls, rets, vt.Ints(cw.buf)
	w.Emit(ev)
}

// Wrappers logs histories of Write calls on util.Wrapper: every history of up to 3 calls of 0..4 bytes under a grid
// of widths, limits and capacities of the underlying writer, then n random larger ones.
func Wrappers(w *vt.W, rng *rand.Rand, n int) {
	var seqs [][]int
	var gen func(prefix []int)
	gen = func(prefix []int) {
		if len(prefix) > 0 {
			seqs = append(seqs, append([]int{}, prefix...))
		}
		if len(prefix) == 3 {
			return
		}
		for k := 0; k <= 4; k++ {
			gen(append(prefix, k))
		}
	}
	gen(nil)
	for _, width := range []int{-1, 0, 1, 2, 3} {
		for _, limit := range []int{-1, 0, 2, 5} {
			for _, cap := range []int{-1, 0, 3, 7} {
				for _, s := range seqs {
					wrapRun(w, width, limit, cap, s)
				}
			}
		}
	}
	for i := 0; i < n; i++ {
		sizes := make([]int, 1+rng.Intn(6))
		for j := range sizes {
			sizes[j] = rng.Intn(26)
		}
		wrapRun(w, rng.Intn(12)-1, rng.Intn(60)-10, []int{-1, -1, rng.Intn(80)}[rng.Intn(3)], sizes)
	}
}
