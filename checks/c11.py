"""C11 - external sort yields the sorted multiset of its input for every usage history.

(A) TLC explores MorassImpl (implementation-shaped sorter under the usage grammar) exhaustively
    and checks that it refines the abstract sorter Morass; the two as-found variants
    must be refuted (negative controls).
(B) TLC emits every behaviour of a small instance; each is executed on a real *morass.Morass.
(C) Random histories on the real sorter.  (B) and (C) logs are validated by MorassTrace.tla.
"""
import json, os, shutil
import vlib
from morass_common import judge_trace, replay_plan, KD


def run(ck, tier):
    thorough = tier == "thorough"
    ck.rule = ("segments = usage histories (reset; push*/finalise/pull*/clear cycles) executed on a real Morass; "
               "non-trivial = history with at least one spilled run or more than one cycle; distinct by op sequence")
    ck.assumptions = [
        "values pushed in one cycle are distinct integers (key*4096+id); the order among equal keys is unconstrained",
        "usage follows the grammar of the property: Push*, Finalise, Pull*, Clear (or AutoClear at EOF)",
        "verdicts come from the abstract level (Morass.tla); the internal-view comparison only reports model drift",
    ]
    # (A) exhaustive refinement check
    consts = {"MaxPush": 9, "ChunkSizes": "{1, 2, 3, 4}", "KD": 16} if thorough else {"ACLs": "{FALSE}", "CleanUps": "FALSE", "MaxPush": 6}
    cfg = vlib.subst_cfg("Morass", "MorassMC.cfg", consts)
    r = vlib.tlc("Morass", "MorassImpl", None, cfg_text=cfg, workers=16, timeout=3000)
    vlib.tlc_expect_ok(r, "MorassMC")
    ck.mc("MorassMC", r, "refinement MorassImpl => Morass, all histories")
    for neg in ("MorassNegFast.cfg", "MorassNegStale.cfg"):
        r = vlib.tlc("Morass", "MorassImpl", neg, workers=4, timeout=600)
        if r.violated != "ActionProperty":
            raise vlib.Infra("negative control %s was not refuted by TLC (%s)" % (neg, r.violated))
        ck.mc(neg[:-4], r, "as-found variant refuted (negative control)")
    work = vlib.scratch("c11-")
    try:
        # (B) behaviours of the bounded model replayed on the real sorter
        gen = os.path.join(work, "gen.ndjson")
        gconsts = {"MaxCycles": 3} if thorough else {}
        cfg = vlib.subst_cfg("Morass", "MorassGen.cfg", gconsts)
        r = vlib.tlc("Morass", "MorassImpl", None, cfg_text=cfg, env={"OUT": gen}, workers=8, timeout=3000)
        vlib.tlc_expect_ok(r, "MorassGen")
        ck.mc("MorassGen", r, "behaviour emission")
        nb = sum(1 for _ in open(gen))
        if nb == 0:
            raise vlib.Infra("TLC emitted no behaviours")
        tr = os.path.join(work, "replay.ndjson")
        p = vlib.harness(["morass", "replay", "-in", gen, "-out", tr, "-kd", 8, "-seed", ck.seed])
        vlib.log("  [replay] %d model behaviours on real Morass: %s" % (nb, p.stdout.strip()))
        ck.exhaustive = True
        v, segs = judge_trace(ck, tr, "model-behaviours")
        ck.samples.append({"source": "TLC behaviour replayed", "events": segs[len(segs) // 2][1][:14]})
        nontriv = set()
        for _, s in segs:
            ops = tuple((e["op"], e.get("err", "")) for e in s)
            if sum(1 for o in ops if o[0] == "clear" or o[1] == "EOF") > 1 or any(
                    e.get("view", {}).get("nfiles", 0) > 0 for e in s):
                nontriv.add((s[0]["cs"], s[0]["ac"], s[0]["conc"], ops))
        # (C) random histories
        tr2 = os.path.join(work, "random.ndjson")
        n = 3000 if thorough else 300
        p = vlib.harness(["morass", "random", "-n", n, "-big", "-seed", ck.seed, "-out", tr2])
        vlib.log("  [random] %s" % p.stdout.strip().splitlines()[-1])
        st = vlib.take_stall(tr2)
        if st:
            ck.violation("the sorter stopped making progress for %d s in the middle of a usage history (no value, no io.EOF, no error): %s"
                         % (st["seconds"], st["after"]), {"kind": "morass-stall", "after": st["after"], "stacks": st["stacks"][-6000:]})
        v2, segs2 = judge_trace(ck, tr2, "random-histories")
        ck.samples.append({"source": "random history", "events": segs2[0][1][:10]})
        # the same usage histories with the concurrent constructor flag (background writers, buffer pool)
        tr3 = os.path.join(work, "random-conc.ndjson")
        p = vlib.harness(["morass", "random", "-n", n, "-big", "-conc", "-seed", ck.seed + 17, "-out", tr3])
        vlib.log("  [random, concurrent mode] %s" % p.stdout.strip().splitlines()[-1])
        st = vlib.take_stall(tr3)
        if st:
            ck.violation("the sorter stopped making progress for %d s in the middle of a usage history (no value, no io.EOF, no error): %s"
                         % (st["seconds"], st["after"]), {"kind": "morass-stall", "after": st["after"], "stacks": st["stacks"][-6000:]})
        v3, segs3 = judge_trace(ck, tr3, "random-histories-concurrent")
        for _, s in segs2 + segs3:
            ops = tuple((e["op"], e.get("v", 0) // KD, e.get("err", "")) for e in s)
            if sum(1 for o in ops if o[0] == "clear" or o[2] == "EOF") > 1 or any(
                    e.get("view", {}).get("nfiles", 0) > 0 for e in s):
                nontriv.add((s[0]["cs"], s[0]["ac"], s[0]["conc"], ops))
        ck.nontrivial = len(nontriv)
    finally:
        shutil.rmtree(work, ignore_errors=True)


def replay(path):
    obj = json.load(open(path))["replay"]
    v = replay_plan(obj)
    if v["fails"]:
        vlib.log("VIOLATION property=C11 replay=%s" % path)
        vlib.log("  what: %s" % v["fails"])
        return 1
    vlib.log("replay accepted by the specification")
    return 0
