"""C18 - quality scores encode, decode and convert consistently.

(A) Quality.tla checked by TLC: the seven encodings as case analysis (offset, printable range, Illumina 1.5
    floor) with Decode(Encode(q)) = q on every printable range; a 20 entry table of 10^(r/20)*10^4 certified by
    the functional equation of the exponential; from it, in 32 bit integers, the probabilities of Phred and
    Solexa scores, the nearest score of a probability and the correctly rounded Phred<->Solexa conversions;
    laws: monotone probabilities, score->probability->score identity, conversions agree with each other's
    probabilities and are mutually inverse from Q=10.  Decisions without margin are TIEs and are excluded.
    Negative control: the as-found Solexa->Phred table (no "+1", unsigned wrap) and the as-found Solexa encoder
    (unsigned comparison) must be refuted.
(C) vquality dumps every function of alphabet/letters.go over its whole 8 bit domain (256 Phred scores,
    256 Solexa scores, 256 bytes x 7 encodings), a dense sample of probabilities through Ephred/Esolexa and
    accessor calls on small seq/quality.Phred, seq/quality.Solexa and seq/linear.QSeq values; QualityTrace.tla
    recomputes every expected value with the operators of Quality.tla.
    A binding self-test corrupts single fields of real events and requires the trace specification to reject them.
"""
import copy, json, os, shutil
import vlib

SPEC = "Quality"
NEG_OK = ("AgreeInv", "RoundTripInv", "IdentityInv", "InverseInv", "TablesInv", "ByteInv")


def _drive(args, out):
    p = vlib.harness(list(args) + ["-out", out], cmd="vquality")
    if not os.path.exists(out):
        raise vlib.Infra("vquality wrote no trace:\n" + p.stdout[-2000:])
    return vlib.read_ndjson(out)


def _key(e):
    """The input of an event (what replay needs), as a hashable string."""
    keys = {"phred": ("q",), "solexa": ("s",), "byte": ("b",), "ephred": ("m", "e", "comp"),
            "esolexa": ("m", "e", "comp"),
            "seq": ("t", "enc", "off", "scores", "call", "i", "v", "m", "e", "comp")}[e["op"]]
    return json.dumps([e["op"]] + [e[k] for k in keys])


def _nontrivial(e):
    op = e["op"]
    if op == "phred":
        return e["q"] <= 253
    if op == "solexa":
        return -127 <= e["s"] <= 126
    if op == "byte":
        return 33 <= e["b"] <= 126
    if op == "seq":
        return e["enc"] >= 0
    return True


def _classes(v, evs):
    """Group the fails of a verdict by class: {class: [(event index, message)]}."""
    by = {}
    for k, cls, msg in v["fails"]:
        by.setdefault(cls, []).append((k, msg))
    return by


def _report(ck, v, evs):
    for cls, items in sorted(_classes(v, evs).items()):
        idx = []
        for k, _ in items:
            # monotonicity is judged against the preceding row: keep it for the replay
            if cls.startswith("monotone") and k >= 2 and (k - 1) not in idx:
                idx.append(k - 1)
            if k not in idx:
                idx.append(k)
        what = "%s: %d failing input(s); first: %s" % (cls, len(items), items[0][1])
        if len(items) > 1:
            what += "; last: %s" % items[-1][1]
        ck.violation(what, {"kind": "quality-events", "class": cls, "failing": [m for _, m in items],
                            "event": evs[items[0][0] - 1], "events": [evs[k - 1] for k in idx]})


def _selftest(ck, evs, work):
    """Corrupt one logged field at a time in events the trace specification accepted; every corruption
    must be rejected, in the expected class."""
    def find(pred):
        for e in evs:
            if pred(e):
                return copy.deepcopy(e)
        raise vlib.Infra("self-test: no suitable event in the trace")
    cases = []
    e = find(lambda e: e["op"] == "phred" and e["q"] == 40); e["pe"]["m"] += 30; cases.append((e, "Qphred.ProbE"))
    e = find(lambda e: e["op"] == "phred" and e["q"] == 41); e["ep"] = 42; cases.append((e, "Ephred(ProbE(q))"))
    e = find(lambda e: e["op"] == "phred" and e["q"] == 9); e["qs"] = 9; cases.append((e, "Qphred.Qsolexa"))
    e = find(lambda e: e["op"] == "phred" and e["q"] == 30); e["dec"][1] = 29; cases.append((e, "Qphred.Encode/DecodeToQphred round trip"))
    e = find(lambda e: e["op"] == "solexa" and e["s"] == 20); e["pe"]["e"] -= 1; cases.append((e, "Qsolexa.ProbE"))
    e = find(lambda e: e["op"] == "solexa" and e["s"] == 30); e["dec"][2] = 31; cases.append((e, "Qsolexa.Encode/DecodeToQsolexa round trip"))
    e = find(lambda e: e["op"] == "byte" and e["b"] == 70); e["dp"][3] = 7; cases.append((e, "DecodeToQphred"))
    e = find(lambda e: e["op"] == "ephred" and e["e"] == -3 and 30000 <= e["m"] <= 33000 and e["r"] == 25); e["r"] = 26; cases.append((e, "Ephred"))
    a = find(lambda e: e["op"] == "phred" and e["q"] == 50)
    b = find(lambda e: e["op"] == "phred" and e["q"] == 51); b["rank"] = a["rank"] + 1
    path = os.path.join(work, "self.ndjson")
    vlib.write_ndjson(path, [c for c, _ in cases] + [a, b])
    v, r = vlib.validate(SPEC, "QualityTrace", "QualityTrace.cfg", path)
    got = {(k, cls) for k, cls, _ in v["fails"]}
    want = {(i + 1, cls) for i, (_, cls) in enumerate(cases)} | {(len(cases) + 2, "monotone(Qphred)")}
    missing = want - got
    if missing:
        raise vlib.Infra("binding self-test: corrupted events were accepted: %s" % sorted(missing))
    ck.mc("trace:self-test", r, "%d corrupted fields, all rejected" % len(want))


def run(ck, tier):
    thorough = tier == "thorough"
    ck.rule = ("a case is one logged row (all functions of one score or one byte under the 7 encodings), one probability "
               "through Ephred/Esolexa, or one accessor call on a small quality sequence; non-trivial = the score is finite "
               "(Phred 0..253, Solexa -127..126), the byte is printable in at least one encoding, the sequence has a real "
               "encoding; distinct by input")
    ck.assumptions = [
        "probabilities are compared to 4 significant digits (relative 1/1000 on a 5 digit mantissa read off the shortest "
        "decimal form of the float64); the order of table entries is compared exactly through their rank",
        "the 20 entry table of 10^(r/20) is certified by TLC to relative 7.6e-4; a rounding or threshold decision closer "
        "than 1/1000 to a tie is excluded and counted, not judged",
        "conversions are judged where the analytic value is finite and fits the finite scores of the target type "
        "(Phred 1..126 -> Solexa, Solexa -127..126 -> Phred); the sentinels 254/255 and 127/-128 are reported as drift only",
        "encoding a score of the other type (Qphred.Encode(Solexa), Qsolexa.Encode(Phred offset)) and decoding across types "
        "are judged as the composition of the package's own conversion of that value with the specified encoder/decoder",
        "Encode outside the printable range, encoding None and Illumina 1.5 scores 0 and 1 are not judged",
    ]
    ck.exhaustive = True
    # (A) the model
    r = vlib.tlc(SPEC, "Quality", "QualityMC.cfg", workers=8, timeout=900)
    vlib.tlc_expect_ok(r, "QualityMC")
    ck.mc("QualityMC", r, "table certified (400 pairs); all laws on 256 Phred x 256 Solexa x 256 bytes x 7 encodings")
    r = vlib.tlc(SPEC, "Quality", "QualityNeg.cfg", workers=4, timeout=900)
    if r.violated not in NEG_OK:
        raise vlib.Infra("negative control QualityNeg not refuted (%s):\n%s" % (r.violated, r.out[-1500:]))
    ck.mc("QualityNeg", r, "as-found variants refuted: %s" % r.violated)
    for inv in ("RoundTripInv", "AgreeInv"):
        cfg = ('SPECIFICATION Spec\nCONSTANTS\n  Variant = "asfound"\nINVARIANT %s\nCHECK_DEADLOCK FALSE\n' % inv)
        r = vlib.tlc(SPEC, "Quality", None, cfg_text=cfg, workers=4, timeout=900)
        if r.violated != inv:
            raise vlib.Infra("negative control: as-found variant does not violate %s (%s)" % (inv, r.violated))
        ck.mc("QualityNeg(%s)" % inv, r, "as-found %s refuted" %
              ("Solexa encoder" if inv == "RoundTripInv" else "Solexa->Phred table"))
    # (C) the real code
    work = vlib.scratch("c18-")
    try:
        out = os.path.join(work, "q.ndjson")
        n = 150000 if thorough else 4000
        evs = _drive(["all", "-seed", ck.seed, "-n", n], out)
        v, r = vlib.validate(SPEC, "QualityTrace", "QualityTrace.cfg", out, timeout=3000)
        if v["events"] != len(evs):
            raise vlib.Infra("trace specification consumed %d of %d events" % (v["events"], len(evs)))
        if v["model_ties"]["p2s"] or v["model_ties"]["s2p"]:
            vlib.log("  [note] conversion table entries excluded as near ties: %s" % v["model_ties"])
        ck.mc("trace:quality", r, "%d events: %d demands met, %d failed, %d excluded as near ties, %d drift notes" %
              (v["events"], v["ok"], len(v["fails"]), len(v["ties"]), len(v["drift"])))
        ck.traces += len(evs)
        ck.evaluations += v["ok"] + len(v["fails"]) + len(v["ties"])
        ck.nontrivial = len({_key(e) for e in evs if _nontrivial(e)})
        ops = {}
        for e in evs:
            ops[e["op"]] = ops.get(e["op"], 0) + 1
        drift = {}
        for _, cls, msg in v["drift"]:
            drift.setdefault(cls, []).append(msg)
        ck.extra.update({"events_by_kind": ops, "demands_met": v["ok"], "excluded_near_ties": len(v["ties"]),
                         "near_tie_examples": [t[2] for t in v["ties"][:5]],
                         "conversion_table_ties": v["model_ties"],
                         "drift": {k: {"count": len(x), "first": x[0]} for k, x in drift.items()}})
        for k, x in sorted(drift.items()):
            vlib.log("  [drift] %s: %d (first: %s)" % (k, len(x), x[0]))
        for want in ("phred", "solexa", "byte", "ephred", "esolexa", "seq"):
            e = next((e for e in evs if e["op"] == want and _nontrivial(e)), None)
            if e:
                ck.samples.append({"source": "vquality " + want, "event": e})
        _report(ck, v, evs)
        if not ck.violations:   # the self-test needs events the specification accepts
            _selftest(ck, evs, work)
    finally:
        shutil.rmtree(work, ignore_errors=True)


def replay(path):
    obj = json.load(open(path))["replay"]
    if obj.get("kind") != "quality-events":
        vlib.log("unknown replay kind %s" % obj.get("kind"))
        return 2
    work = vlib.scratch("c18r-")
    try:
        src = os.path.join(work, "in.ndjson")
        vlib.write_ndjson(src, obj["events"])
        out = os.path.join(work, "out.ndjson")
        evs = _drive(["replay", "-in", src], out)
        v, r = vlib.validate(SPEC, "QualityTrace", "QualityTrace.cfg", out)
        hits = [(k, cls, msg) for k, cls, msg in v["fails"] if cls == obj["class"]]
        for k, cls, msg in hits[:20]:
            vlib.log("VIOLATION property=C18 replay=%s" % path)
            vlib.log("  what: %s: %s" % (cls, msg))
        vlib.log("  replayed %d events on the real code: %d still fail in class %s" % (len(evs), len(hits), obj["class"]))
        return 1 if hits else 0
    finally:
        shutil.rmtree(work, ignore_errors=True)
