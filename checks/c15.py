"""C15 - PALS hits are real alignments and planted repeats are found.

(A) Pals.tla: the stage contract between filter and merger over the abstract sorter (two passes sharing one sorter:
    each pass merges exactly its own hits, in order), checked by TLC; hit soundness and recall as operators, the
    optimal alignment score of the hit regions from AlignDP (spec/Align), itself proved equal to the maximum over
    all alignments by AlignMC (C08).
    PalsSelf.tla: geometry of tubes, the merger's self-comparison guard and the aligner's band around the main
    diagonal (negative control: the guard as found).
(C) The real pipeline (Optimise, BuildIndex, Align(false), Align(true)) on random backgrounds of 2-6 kb (20 kb
    thorough) with 1-3 planted repeats (exact, substitutions, small indels, both strands, self and non-self):
    PalsTrace.tla judges every hit (bounds, lengths, error, score <= optimal global alignment of its regions for
    a sample of hits) and the recovery of every planted copy.
"""
import json, os, shutil
import vlib


def run(ck, tier):
    thorough = tier == "thorough"
    ck.rule = ("a case is one comparison (background, planted repeats, minimum length/identity, self or not) run through "
               "both strands; non-trivial = at least one planted repeat; distinct by content")
    ck.assumptions = [
        "planted copies are at least 1.5 x the minimum hit length and carry at most a third of the differences the "
        "identity threshold allows ('comfortably above'); recovered = some hit overlaps more than half of the copy on both axes",
        "the score bound is judged by TLC for a sample of hits with regions of at most 170 letters (a quadratic "
        "recurrence in TLC costs seconds per hit); bounds, lengths and error are judged for every hit",
        "a case for which Optimise finds no filter parameters is not searched and not judged",
    ]
    r = vlib.tlc("Pals", "Pals", "PalsMC.cfg", include=["Align"], workers=4, timeout=900)
    vlib.tlc_expect_ok(r, "PalsMC")
    ck.mc("PalsMC", r, "filter -> sorter -> merger contract over two passes sharing the sorter")
    r = vlib.tlc("Pals", "Pals", "PalsNeg.cfg", include=["Align"], workers=4, timeout=900)
    if r.violated != "MergeSeesOwnHitsInOrder":
        raise vlib.Infra("negative control (unsorted sorter) not refuted: %s" % r.violated)
    ck.mc("PalsNeg", r, "a sorter returning hits in any order is refuted")
    r = vlib.tlc("Pals", "PalsSelf", "PalsSelfMC.cfg", workers=4, timeout=900)
    vlib.tlc_expect_ok(r, "PalsSelfMC")
    ck.mc("PalsSelfMC", r, "self comparison: no band given to the aligner contains the main diagonal; nothing further out is lost")
    r = vlib.tlc("Pals", "PalsSelf", "PalsSelfNeg.cfg", workers=4, timeout=900)
    if r.violated != "BandClearOfMainDiagonal":
        raise vlib.Infra("negative control (merger margin = filter error only) not refuted: %s" % r.violated)
    ck.mc("PalsSelfNeg", r, "as-found merger guard (margin = MaxError) refuted when MaxError < MaxIGap")
    work = vlib.scratch("c15-")
    try:
        p = os.path.join(work, "pals.ndjson")
        n = 1200 if thorough else 80
        vlib.harness(["run", "-n", n, "-len", 20000 if thorough else 6000, "-regions", 12 if thorough else 27, "-seed", ck.seed, "-out", p],
                     cmd="vpals", timeout=3400)
        # self comparisons over runs of consecutive lengths with hits a few diagonals above the main one
        ps = os.path.join(work, "selfsweep.ndjson")
        vlib.harness(["selfsweep", "-n", 12 if thorough else 4, "-seed", ck.seed, "-out", ps], cmd="vpals", timeout=3400)
        with open(p, "a") as f:
            f.write(open(ps).read())
        # a driver stopped by its memory guard leaves a final "runaway" record: not a case, a verdict of its own
        allrec = vlib.read_ndjson(p)
        for e in allrec:
            if e.get("op") == "runaway":
                ck.violation("the PALS pipeline allocated more than %d MB on one comparison of a few kb (%s): no result, unbounded work"
                             % (e["heap"] >> 20, e.get("case")), {"kind": "pals-runaway", "seed": ck.seed, "record": e})
        vlib.write_ndjson(p, [e for e in allrec if e.get("op") != "runaway"])
        v, r = vlib.validate("Pals", "PalsTrace", "PalsTrace.cfg", p, include=["Align"], timeout=3400)
        evs = vlib.read_ndjson(p)
        nh = sum(len(ps["hits"]) for e in evs for ps in e["passes"])
        nr = sum(1 for e in evs for ps in e["passes"] for h in ps["hits"] if h["ra"])
        ck.mc("trace:pals", r, "%d comparisons, %d hits, %d with regions judged against the optimal alignment" % (v["events"], nh, nr))
        ck.traces += len(evs)
        ck.evaluations += len(evs)
        ck.nontrivial = len(set(json.dumps([e["plants"], e["minlen"], e["minid_ppm"], e["self"], e["tlen"], e["qlen"]]) for e in evs if e["plants"]))
        ck.extra["hits_judged"] = nh
        ck.extra["hit_scores_judged_against_optimum"] = nr
        for l, why in v["fails"]:
            e = evs[l - 1]
            ck.violation("%s; minlen=%d minid=%.2f self=%s |T|=%d |Q|=%d filter=%s plants=%s hits=%s" %
                         (why, e["minlen"], e["minid_ppm"] / 1e6, e["self"], e["tlen"], e["qlen"], e.get("filter"),
                          e["plants"], [[(h["ab"], h["ae"], h["bb"], h["be"], h["score"]) for h in ps["hits"]][:5] for ps in e["passes"]]),
                         {"kind": "pals-case", "seed": ck.seed, "case": e["id"], "record": e, "why": why,
                          "cmd": "vpals run -n %d -seed %d (case %d)" % (n, ck.seed, e["id"])})
        # the recorded comparison of every listed finding, repeated on the real pipeline and judged like any other:
        # a line KNOWN-FINDING only while it still fails the way the entry says
        for k in vlib.known_findings("C15"):
            wf = os.path.join(vlib.VERIF, k["witness"])
            wo = os.path.join(work, "witness.ndjson")
            vlib.harness(["witness", "-in", wf, "-out", wo], cmd="vpals", timeout=600)
            wv, r = vlib.validate("Pals", "PalsTrace", "PalsTrace.cfg", wo, include=["Align"], timeout=600)
            ck.mc("trace:witness", r, "recorded comparison of %s" % k["key"])
            ck.traces += 1
            we = vlib.read_ndjson(wo)[0]
            whys = [why for _, why in wv["fails"]]
            if any(w.startswith("a planted repeat was not recovered") for w in whys) and len(whys) == 1:
                ck.known_finding(k["key"], "minlen=%d minid=%.2f filter=%s: the copy T[%d:%d] -> Q[%d:%d] of %s is not reported (hits: %s)" %
                                 (we["minlen"], we["minid_ppm"] / 1e6, we.get("filter"), we["plants"][0]["ta"], we["plants"][0]["tb"],
                                  we["plants"][0]["qa"], we["plants"][0]["qb"], k["witness"],
                                  [[(h["ab"], h["ae"], h["bb"], h["be"]) for h in ps["hits"]][:3] for ps in we["passes"]]))
            elif whys:
                ck.violation("recorded comparison %s: %s" % (k["witness"], whys[0]), {"kind": "pals-witness", "witness": k["witness"], "record": we})
            else:
                vlib.log("  [note] the recorded comparison of %s no longer fails" % k["key"])
        # extension (beyond C15): Packer layout and NewPair's mapping of packed coordinates back to contigs
        r = vlib.tlc("Pals", "Pack", "PackMC.cfg", workers=4, timeout=900)
        vlib.tlc_expect_ok(r, "PackMC")
        ck.mc("PackMC (extension)", r, "bin alignment, bin table, separation, hits mapped back on both strands; all <= 3 contigs of length <= 9, bin 4")
        r = vlib.tlc("Pals", "Pack", "PackNeg.cfg", workers=4, timeout=900)
        if r.violated != "Separated":
            raise vlib.Infra("negative control (short padding not extended) not refuted: %s" % r.violated)
        ck.mc("PackNeg (extension)", r, "padding shorter than the minimum left as it is: refuted")
        pk = os.path.join(work, "packs.ndjson")
        vlib.harness(["packs", "-n", 1500 if thorough else 200, "-seed", ck.seed, "-out", pk], cmd="vpals", timeout=3000)
        vp, r = vlib.validate("Pals", "PackTrace", "PackTrace.cfg", pk, timeout=3000)
        ck.mc("trace:packs (extension)", r, "%d pack events, 12 mapped hits each" % vp["events"])
        ck.extra["extension_events"] = vp["events"]
        ck.extra["extension_drift"] = len(vp["drift"])
        if vp["drift"]:
            vlib.log("  [note] extension (Pack.tla): %d of %d pack events differ from the specification (drift, no verdict); first: %s"
                     % (len(vp["drift"]), vp["events"], json.dumps(vlib.read_ndjson(pk)[vp["drift"][0] - 1])[:600]))
        e = next((x for x in evs if any(ps["hits"] for ps in x["passes"])), evs[0])
        ck.samples.append({"source": "PALS comparison", "record": {k: e[k] for k in ("minlen", "minid_ppm", "self", "tlen", "qlen", "plants")},
                           "hits": [[{k: h[k] for k in ("ab", "ae", "bb", "be", "score", "err_ppm")} for h in ps["hits"]][:3] for ps in e["passes"]]})
        if not any(e["plants"] and any(pl["rev"] for pl in e["plants"]) and e["self"] for e in evs):
            vlib.log("  [note] no self comparison with an inverted repeat in this sample")
        # binding self-test: a case whose hits are removed must be rejected (planted repeat not recovered)
        bad = None
        for e in evs:
            if e["plants"] and e["err"] == "" and e["panic"] == "":
                bad = json.loads(json.dumps(e))
                for ps in bad["passes"]:
                    ps["hits"] = []
                break
        sp = os.path.join(work, "selftest.ndjson")
        vlib.write_ndjson(sp, [bad])
        v, r = vlib.validate("Pals", "PalsTrace", "PalsTrace.cfg", sp, include=["Align"])
        if len(v["fails"]) != 1:
            raise vlib.Infra("binding self-test failed: a case without hits was accepted")
        ck.parts.append({"part": "binding-selftest", "note": v["fails"][0][1]})
    finally:
        shutil.rmtree(work, ignore_errors=True)


def replay(path):
    obj = json.load(open(path))["replay"]
    vlib.log("replay: %s regenerates the case from the seed; recorded verdict: %s" % (obj["cmd"], obj["why"]))
    return 0
