"""Shared machinery of the file-format checks C01-C04 (spec/Formats)."""
import json, os, shutil
import vlib

FMTS = {"C01": ["fasta", "fastq"], "C02": ["bed", "gff"], "C03": ["fasta", "fastq", "bed", "gff"],
        "C04": ["fasta", "fastq", "bed", "gff"]}


def prop_of(e):
    """Which property an event speaks about."""
    seq = e.get("fmt") in ("fasta", "fastq")
    if e["op"] == "write":
        return "C01" if seq else "C02"
    if e["op"] == "bigmut":
        return "C03"
    if e["op"] == "big":
        return "C04" if e.get("layout") else ("C01" if seq else "C02")
    if not e.get("valid"):
        return "C03"
    if e.get("layout"):
        return "C04"
    return "C01" if seq else "C02"


def mc_cfg(fmt, mutate, steps, recs, letters, emit, drop=False):
    return "\n".join([
        "SPECIFICATION Spec", "CONSTANTS",
        "  DropUnterminated = %s" % ("TRUE" if drop else "FALSE"),
        '  Fmts = {"%s"}' % fmt, "  MaxRecs = %d" % recs, "  MaxLetters = %d" % letters, "  MaxSteps = %d" % steps,
        "  Mutate = %s" % ("TRUE" if mutate else "FALSE"),
        "INVARIANTS RoundTrip Total" + (" EmitFiles" if emit else ""), "CHECK_DEADLOCK FALSE", ""])


def judge(ck, pid, trace_events, label, work):
    """Validate events with FormatsTrace.tla; report fails as violations, drift as a note."""
    if not trace_events:
        return
    p = os.path.join(work, label + ".ndjson")
    vlib.write_ndjson(p, trace_events)
    v, r = vlib.validate("Formats", "FormatsTrace", "FormatsTrace.cfg", p, timeout=3000)
    ck.mc("trace:" + label, r, "%d events" % v["events"])
    ck.traces += len(trace_events)
    ck.evaluations += len(trace_events)
    for l, why in v["fails"]:
        e = trace_events[l - 1]
        if why.startswith("SPEC:"):
            raise vlib.Infra("harness/spec inconsistency on %s: %s" % (json.dumps(e)[:600], why))
        txt = bytes(e.get("text", [])).decode("latin1") if "text" in e else ""
        ck.violation("%s %s: %s; input %r; %s" % (e["op"], e.get("fmt"), why, txt[:300], e.get("detail", "")[:200]),
                     {"kind": "formats-event", "event": e, "why": why})
    scans = [e for e in trace_events if e["op"] in ("scan", "alnread", "alnwrite")]
    if scans:
        sd = [l for l in v.get("drift", []) if trace_events[l - 1]["op"] in ("scan", "alnread", "alnwrite")]
        ck.extra["extension_events"] = ck.extra.get("extension_events", 0) + len(scans)
        ck.extra["extension_drift"] = ck.extra.get("extension_drift", 0) + len(sd)
        if sd:
            vlib.log("  [note] extension (Scanner.tla/AlignIO.tla): %d of %d scanner/alignio events differ from the specification (drift, no verdict); "
                     "first: %s" % (len(sd), len(scans), json.dumps(trace_events[sd[0] - 1])[:300]))
        v["drift"] = [l for l in v.get("drift", []) if l not in set(sd)]
    if v.get("drift"):
        ck.extra["reader_model_drift_events"] = ck.extra.get("reader_model_drift_events", 0) + len(v["drift"])
        e = trace_events[v["drift"][0] - 1]
        vlib.log("  [note] %d inputs on which the real reader and the reader specification differ outside what the "
                 "property fixes (first: %r): model drift, not a verdict" %
                 (len(v["drift"]), bytes(e.get("text", [])).decode("latin1")[:120]))
    return v


def selftest(ck, pid, events, work):
    """Binding self-test: a corrupted record of the real run must be rejected by the specification."""
    bad = None
    for e in events:
        if pid in ("C01", "C02") and e["op"] == "write" and e["text"]:
            bad = json.loads(json.dumps(e))
            bad["text"][len(bad["text"]) // 2] ^= 1
            break
        if pid == "C04" and e["op"] == "read" and e["valid"] and e["results"]:
            bad = json.loads(json.dumps(e))
            bad["results"] = bad["results"][:-1]
            break
        if pid == "C03" and e["op"] == "read" and not e["valid"]:
            bad = json.loads(json.dumps(e))
            bad["results"] = bad["results"] + [{"kind": "panic"}]
            break
    if bad is None:
        raise vlib.Infra("self-test: no event to corrupt")
    p = os.path.join(work, "selftest.ndjson")
    vlib.write_ndjson(p, [bad])
    v, r = vlib.validate("Formats", "FormatsTrace", "FormatsTrace.cfg", p)
    if len(v["fails"]) != 1:
        raise vlib.Infra("binding self-test failed: a corrupted event was accepted")
    ck.parts.append({"part": "binding-selftest", "note": "corrupted event rejected: " + v["fails"][0][1]})


def run_formats(ck, tier, pid):
    thorough = tier == "thorough"
    work = vlib.scratch(pid.lower() + "-")
    try:
        emitted = os.path.join(work, "emitted.ndjson")
        mutate = pid == "C03"
        for fmt in FMTS[pid]:
            if pid in ("C01", "C02"):
                steps, recs, letters = 0, (2 if thorough or fmt in ("fasta",) else 1), (3 if thorough and fmt == "fasta" else 2)
                if fmt == "bed":
                    recs = 1
                if fmt == "gff" and thorough:
                    recs = 2
            elif pid == "C04":
                steps, recs, letters = (2 if thorough else 1), (2 if fmt in ("fasta", "fastq") and thorough else 1), 2
                if fmt == "bed":
                    steps = 1
            else:
                steps, recs, letters = (2 if thorough and fmt != "bed" else 1), (2 if thorough and fmt != "bed" else 1), 2
            if fmt == "fastq" and recs == 2 and not mutate:
                letters = 1
            r = vlib.tlc("Formats", "Formats", None, cfg_text=mc_cfg(fmt, mutate, steps, recs, letters, True),
                         env={"OUT": emitted}, workers=8, timeout=3400)
            vlib.tlc_expect_ok(r, "FormatsMC %s" % fmt)
            ck.mc("FormatsMC(%s)" % fmt, r, "%s; <=%d records, <=%d letters, <=%d steps" %
                  ("mutations: reader spec total" if mutate else "round trip / layout invariance", recs, letters, steps))
        if pid == "C04":
            r = vlib.tlc("Formats", "Formats", None, cfg_text=mc_cfg("bed", False, 1, 1, 2, False, drop=True), workers=4,
                         timeout=900)
            if r.violated != "RoundTrip":
                raise vlib.Infra("negative control (reader dropping an unterminated last line) not refuted: %s" % r.violated)
            ck.mc("FormatsNeg(bed)", r, "as-found reader (last unterminated line dropped) refuted")
            # extension: the Scanner state machine computes ScanOutcome (used by the trace specification)
            r = vlib.tlc("Formats", "Scanner", "ScannerMC.cfg", workers=2, timeout=300)
            vlib.tlc_expect_ok(r, "ScannerMC")
            ck.mc("ScannerMC (extension)", r, "Scanner = leading records + error flag; <=4 reader outcomes")
            r = vlib.tlc("Formats", "Scanner", "ScannerNeg.cfg", workers=2, timeout=300)
            if not r.violated:
                raise vlib.Infra("negative control (Scanner reading on after an error) not refuted")
            ck.mc("ScannerNeg (extension)", r, "a Scanner that forgets its stored error is refuted")
            r = vlib.tlc("Formats", "AlignIO", "AlignIOMC.cfg", workers=2, timeout=300)
            vlib.tlc_expect_ok(r, "AlignIOMC")
            ck.mc("AlignIOMC (extension)", r, "alignio.Reader: no record lost or duplicated across failed Reads; <=4 outcomes, <=4 calls")
            r = vlib.tlc("Formats", "AlignIO", "AlignIONeg.cfg", workers=2, timeout=300)
            if not r.violated:
                raise vlib.Infra("negative control (alignio dropping rows on error) not refuted")
            ck.mc("AlignIONeg (extension)", r, "a reader that drops the rows added before an error is refuted")
        ck.exhaustive = True
        # (B) the files of the bounded model through the real readers
        tr = os.path.join(work, "emitted-read.ndjson")
        p = vlib.harness(["formats", "emitted", "-in", emitted, "-out", tr])
        vlib.log("  [emitted] %s of the bounded model read by the real readers" % p.stdout.strip())
        import hashlib, random
        nontriv_h = set()
        mid = None
        if not thorough:
            evs = [e for e in vlib.read_ndjson(tr) if prop_of(e) == pid]
            if len(evs) > 16000:
                random.Random(ck.seed).shuffle(evs)
                evs = evs[:16000]
                ck.exhaustive = False
            chunks = [evs]
        else:
            # every event, judged in slices so that neither this process nor TLC holds millions of events at once
            def slices():
                cur = []
                with open(tr) as f:
                    for line in f:
                        e = json.loads(line)
                        if prop_of(e) == pid:
                            cur.append(e)
                            if len(cur) >= 200000:
                                yield cur
                                cur = []
                if cur:
                    yield cur
            chunks = slices()
        for k, evs in enumerate(chunks):
            judge(ck, pid, evs, "model-files" + ("" if not thorough else "[%d]" % k), work)
            for e in evs:
                if len(e.get("text", [])) > 0:
                    nontriv_h.add(hashlib.blake2b(json.dumps(e["text"]).encode(), digest_size=8).digest())
            if mid is None:
                withres = [e for e in evs if "results" in e and "text" in e] or [{"text": [], "results": []}]
                mid = withres[len(withres) // 2]
            del evs
        mid = mid or {"text": [], "results": []}
        ck.samples.append({"source": "file emitted by TLC, read by the real reader",
                           "text": bytes(mid["text"]).decode("latin1"), "results": mid["results"][:3]})
        nontriv = nontriv_h
        # (C) random files through the real writers and readers
        rt = os.path.join(work, "random.ndjson")
        n = 12000 if thorough else 1600
        p = vlib.harness(["formats", "random", "-n", n, "-big", "-seed", ck.seed, "-out", rt], timeout=3000)
        allev = vlib.read_ndjson(rt)
        revs = [e for e in allev if prop_of(e) == pid and e.get("fmt") in FMTS[pid]]
        vlib.log("  [random] %d events of %d concern %s" % (len(revs), len(allev), pid))
        judge(ck, pid, revs, "random-files", work)
        ck.samples.append({"source": "random file", "event": {k: v for k, v in revs[0].items() if k != "text"},
                           "text": bytes(revs[0].get("text", [])).decode("latin1")[:200]})
        nontriv |= set(hashlib.blake2b(json.dumps([e.get("text"), e.get("want")]).encode(), digest_size=8).digest()
                       for e in revs if e.get("text") or e.get("want"))
        ck.nontrivial = len(nontriv)
        selftest(ck, pid, revs, work)
    finally:
        shutil.rmtree(work, ignore_errors=True)


def replay(pid, path):
    obj = json.load(open(path))["replay"]
    e = obj["event"]
    work = vlib.scratch("fr-")
    try:
        if e["op"] == "read":
            # feed the same bytes to the real reader again
            src = os.path.join(work, "in.ndjson")
            open(src, "w").write(json.dumps({"fmt": e["fmt"], "cfg": e["cfg"], "valid": e["valid"], "text": e["text"],
                                             "expect": e.get("recs", []), "steps": 0, "crlf": False}) + "\n")
            out = os.path.join(work, "out.ndjson")
            vlib.harness(["formats", "emitted", "-in", src, "-out", out])
            evs = vlib.read_ndjson(out)
            evs[0]["layout"] = e.get("layout", [])
        else:
            evs = [e]
            vlib.log("write/big events are re-judged as recorded; re-run the check with the same VERIF_SEED to regenerate")
        p = os.path.join(work, "t.ndjson")
        vlib.write_ndjson(p, evs)
        v, r = vlib.validate("Formats", "FormatsTrace", "FormatsTrace.cfg", p)
        vlib.log(json.dumps(evs[0])[:1500])
        if v["fails"]:
            vlib.log("VIOLATION property=%s replay=%s" % (pid, path))
            vlib.log("  what: %s" % v["fails"][0][1])
            return 1
        vlib.log("replay accepted by the specification")
        return 0
    finally:
        shutil.rmtree(work, ignore_errors=True)
