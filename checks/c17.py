"""C17 - alphabets map letters, indices and complements consistently.

(A) Alphabet.tla: NewAlphabet / NewPairing / NewComplementor as TLA+ operators building the 256-entry
    tables, the seven built-in definitions transcribed as constants; the laws of C17 are invariants checked
    by TLC over all 256 letters for the built-ins and for every definition drawn from small letter samples
    (alphabets cased and uncased, all pairs of pairing strings incl. mismatched, non-ASCII and non-bijective
    ones, alphabet x pairing for complementors; letter slices of up to five letters with letters >= 128 that
    form well-formed 2- and 3-byte UTF-8 sequences or malformed ones).  Wrong variants (two of them as found
    in alphabet.go; AllValid reading the slice as text) must be refuted.
(B) Every case of the bounded model is emitted by TLC (EmitCases); a sample stratified by what the
    specification says about the case is run through the real constructors.
(C) The real built-in alphabets are dumped over all 256 letters (every accessor), random alphabets,
    pairings, complementors and letter slices are built (slices also with runs of letters >= 128: lone ones,
    well-formed UTF-8 of 2..4 bytes whose code point has the low byte of a valid letter, malformed runs; at
    the start, in the middle, at the end, with an invalid ASCII letter before or after); AlphabetTrace.tla
    recomputes every table from the definition and evaluates the laws on the logged tables; on slices it
    demands the first index whose byte is not a valid letter and that IsValid, AllValid and AllValidQLetter
    agree on every letter.
A binding self-test corrupts logged fields and expects AlphabetTrace to reject each corruption.
"""
import concurrent.futures, copy, json, os, random, re, shutil
import vlib

SPEC = "Alphabet"
NEG = {  # variant -> invariants one of which TLC must report
    "asfound_complementor": ("ComplementorLaws",),
    "asfound_pairing": ("PairingRejects", "PairingLaws"),
    "index_by_position": ("BuiltinAlphabetLaws", "AlphabetLaws", "NucleotideIndexComplement"),
    "table_no_highbit": ("BuiltinComplementLaws", "PairingLaws"),
    "allvalid_as_text": ("SliceLaw",),
}
THOROUGH = {"MaxDef": "5", "PairSample": "{97, 65, 116, 84, 200}", "MaxPair": "4",
            "CompSample": "{97, 65, 116, 84}", "MaxCompPair": "3",
            "SliceSample": "{97, 116, 197, 161, 180, 224}", "MaxSlice": "6"}


def _case_of(e):
    """The input of an event, in the shape valphabet cases reads."""
    op = e["op"]
    if op == "builtin":
        return {"kind": op, "name": e["name"]}
    if op == "pairing":
        return {"kind": op, "s": e["s"], "c": e["c"]}
    if op == "allvalid":
        return {"kind": op, "name": e["name"], "def": e["def"], "cased": e["cased"], "w": e["w"]}
    c = {"kind": op, "def": e["def"], "cased": e["cased"], "gap": e["gap"], "amb": e["amb"], "mol": e["mol"]}
    if op == "comp":
        c["s"], c["c"] = e["s"], e["c"]
    return c


def _text(b):
    return "".join(chr(x) if 32 <= x < 127 else "\\x%02x" % x for x in b)


def _describe(e):
    op = e["op"]
    if op == "builtin":
        return "built-in alphabet %s" % e["name"]
    if op == "alpha":
        return "NewAlphabet(%r, caseSensitive=%s) -> %s" % (_text(e["def"]), e["cased"], e["err"] or "ok")
    if op == "pairing":
        return "NewPairing(%r, %r) -> %s" % (_text(e["s"]), _text(e["c"]), e["err"] or "ok")
    if op == "comp":
        return "NewComplementor(%r, NewPairing(%r, %r), caseSensitive=%s) -> %s" % (
            _text(e["def"]), _text(e["s"]), _text(e["c"]), e["cased"], e["perr"] or e["err"] or "ok")
    return "AllValid(%r) on %s -> (%s, %d)" % (_text(e["w"]), e["name"] or repr(_text(e["def"])), e["ok"], e["pos"])


def _nontrivial(e):
    op = e["op"]
    return (op == "builtin" or (op == "alpha" and len(e["def"]) >= 2) or (op == "pairing" and len(e["s"]) >= 2)
            or (op == "comp" and len(e["def"]) >= 1 and len(e["s"]) >= 1) or (op == "allvalid" and len(e["w"]) >= 2))


def _validate(ck, name, path, work, chunk=1200, par=6):
    """Validate the events of path with AlphabetTrace in parallel chunks; returns (events, fails, drift)
    with 1-based indices into the whole file."""
    evs = vlib.read_ndjson(path)
    parts = [(i, evs[i:i + chunk]) for i in range(0, len(evs), chunk)] or [(0, [])]
    files = []
    for k, (off, part) in enumerate(parts):
        f = os.path.join(work, "%s.%d.ndjson" % (name, k))
        vlib.write_ndjson(f, part)
        files.append((off, f, len(part)))
    fails, drift = [], []
    with concurrent.futures.ThreadPoolExecutor(max_workers=par) as ex:
        futs = [(off, n, ex.submit(vlib.validate, SPEC, "AlphabetTrace", "AlphabetTrace.cfg", f)) for off, f, n in files]
        for k, (off, n, fu) in enumerate(futs):
            v, r = fu.result()
            if v["events"] != n:
                raise vlib.Infra("trace validation judged %d of %d events (%s)" % (v["events"], n, name))
            ck.mc("trace:%s[%d]" % (name, k), r, "%d events" % n)
            fails += [(off + i, why) for i, why in v["fails"]]
            drift += [(off + i, why) for i, why in v.get("drift", [])]
    return evs, fails, drift


def _class(why):
    return re.sub(r"\s*\(first witness -?\d+\)", "", why)


def _report(ck, evs, fails, drift, source):
    """Turn fails into violations (smallest inputs of every class first) and drift into notes."""
    by = {}
    for i, why in fails:
        by.setdefault(_class(why), []).append((len(json.dumps(_case_of(evs[i - 1]))), i, why))
    order = []
    for k in by:
        by[k].sort()
    while any(by.values()):
        for k in sorted(by):
            if by[k]:
                order.append(by[k].pop(0))
    for _, i, why in order:
        e = evs[i - 1]
        ck.violation("%s: %s [%s]" % (why, _describe(e), source),
                     {"kind": "alphabet-case", "case": _case_of(e), "why": why, "event": e})
    cls = ck.extra.setdefault("fail_classes", {})
    for i, why in fails:
        cls[_class(why)] = cls.get(_class(why), 0) + 1
    dr = ck.extra.setdefault("drift_classes", {})
    for i, why in drift:
        k = re.sub(r":.*", "", _class(why))
        dr[k] = dr.get(k, 0) + 1


def _selftest(ck, evs, work):
    """Corrupt logged fields of good events; AlphabetTrace must reject every corruption."""
    def find(pred):
        for e in evs:
            if pred(e):
                return copy.deepcopy(e)
        raise vlib.Infra("binding self-test: no suitable event")
    bad = []
    e = find(lambda e: e["op"] == "builtin" and e["name"] == "DNA")
    e["index"][ord("T")] = 7
    e["letterindex"][ord("T")] = 7
    bad.append(("IndexOf('T') of DNA", e))
    e = find(lambda e: e["op"] == "builtin" and e["name"] == "DNAredundant")
    e["valid"][ord("x")] = e["validletters"][ord("x")] = True
    bad.append(("IsValid('x') of DNAredundant", e))
    e = find(lambda e: e["op"] == "builtin" and e["name"] == "RNA")
    e["pair"][ord("a")], e["table"][ord("a")] = ord("g"), ord("g")
    bad.append(("Complement('a') of RNA", e))
    e = find(lambda e: e["op"] == "builtin" and e["name"] == "DNAgapped")
    e["table"][ord("b")] = ord("b")
    bad.append(("ComplementTable['b'] of DNAgapped without the unpaired mark", e))
    e = find(lambda e: e["op"] == "builtin" and e["name"] == "DNA")
    e["pair"][ord("a")], e["pair"][ord("A")] = ord("T"), ord("t")
    e["pair"][ord("t")], e["pair"][ord("T")] = ord("A"), ord("a")
    for x in "aAtT":
        e["table"][ord(x)] = e["pair"][ord(x)]
    bad.append(("case swapping complement in DNA", e))
    e = find(lambda e: e["op"] == "builtin" and e["name"] == "Protein")
    e["letter"][3] = ord("Z")
    bad.append(("Letter(3) of Protein", e))
    e = find(lambda e: e["op"] == "allvalid" and not e["ok"] and e["pos"] >= 1)
    e["pos"] = e["qpos"] = e["pos"] - 1
    bad.append(("AllValid position", e))
    high = lambda e: (e["op"] == "allvalid" and not e["ok"] and e["err"] == "" and e["w"][e["pos"]] >= 128
                      and e["pos"] + 1 < len(e["w"]) and e["w"][e["pos"] + 1] >= 128)
    e = find(high)
    e["ok"], e["pos"] = True, -1
    bad.append(("AllValid passing over a run of letters >= 128 (AllValidQLetter and IsValid as logged)", e))
    e = find(high)
    e["wvalid"][e["pos"]] = True
    bad.append(("IsValid of a letter >= 128 of a slice", e))
    e = find(high)
    e["qsingle"][e["pos"]] = True
    bad.append(("AllValidQLetter of a one-letter slice", e))
    e = find(lambda e: e["op"] == "alpha" and e["err"] == "nonascii")
    a = find(lambda e: e["op"] == "alpha" and e["err"] == "")
    for k in a:
        if k not in ("def", "cased", "gap", "amb", "mol", "op"):
            e[k] = a[k]
    bad.append(("non-ASCII definition accepted", e))
    e = find(lambda e: e["op"] == "pairing" and e["err"] == "length")
    a = find(lambda e: e["op"] == "pairing" and e["err"] == "")
    for k in ("err", "pair", "pairok", "table"):
        e[k] = a[k]
    bad.append(("mismatched pairing accepted", e))
    f = os.path.join(work, "selftest.ndjson")
    vlib.write_ndjson(f, [e for _, e in bad])
    v, r = vlib.validate(SPEC, "AlphabetTrace", "AlphabetTrace.cfg", f)
    ck.mc("trace:binding-selftest", r, "%d corrupted events" % len(bad))
    caught = {i for i, _ in v["fails"]}
    missed = [what for k, (what, _) in enumerate(bad) if k + 1 not in caught]
    if missed:
        raise vlib.Infra("binding self-test: AlphabetTrace accepted corrupted events: %s" % missed)
    ck.extra["binding_selftest"] = "%d corrupted events, all rejected" % len(bad)


def run(ck, tier):
    thorough = tier == "thorough"
    ck.rule = ("a case is one built-in alphabet (all accessors over 256 letters), one constructor call (NewAlphabet, "
               "NewPairing, NewPairing+NewComplementor; all accessors over 256 letters when it succeeds) or one "
               "AllValid/AllValidQLetter call; non-trivial = built-in, definition of >= 2 letters, pairing of >= 2 entries, "
               "complementor with a non-empty alphabet and pairing, slice of >= 2 letters; distinct by input")
    ck.assumptions = [
        "a definition is a byte string; it contains a non-ASCII rune exactly when a byte is >= 128",
        "the alphabet laws are demanded of definitions with distinct letters (distinct up to case when case "
        "insensitive); for definitions repeating a letter only rejection of non-ASCII input is demanded, other "
        "differences from Alphabet.tla are drift notes",
        "a pairing definition is bijective when no letter is given two complements and no two letters share one; "
        "the constructor may demand more (symmetry), as NewPairing does",
        "case preservation and index(complement) = 3 - index are demanded of the built-in alphabets only "
        "(they are properties of the definitions, not of the constructors)",
        "a complementor built with a nil *Pairing (its Complement panics) is outside the judged domain",
    ]
    work = vlib.scratch("c17-")
    try:
        # (A) model checking, emitting every case of the bounded model
        cases = os.path.join(work, "cases.ndjson")
        cfg = vlib.subst_cfg(SPEC, "AlphabetMC.cfg", THOROUGH if thorough else {})
        r = vlib.tlc(SPEC, "Alphabet", None, cfg_text=cfg, env={"OUT": cases}, workers=16, timeout=3400)
        vlib.tlc_expect_ok(r, "AlphabetMC")
        ck.mc("AlphabetMC", r, "laws over 256 letters: 7 built-ins, all definitions of the samples")
        with concurrent.futures.ThreadPoolExecutor(max_workers=3) as ex:
            futs = [(variant, want, ex.submit(
                vlib.tlc, SPEC, "Alphabet", None, workers=4, timeout=900,
                cfg_text=vlib.subst_cfg(SPEC, "AlphabetNeg.cfg", {"Variant": '"%s"' % variant})))
                for variant, want in NEG.items()]
            for variant, want, fu in futs:
                r = fu.result()
                if r.violated not in want:
                    raise vlib.Infra("negative control %s not refuted (%s):\n%s" % (variant, r.violated, r.out[-1500:]))
                ck.mc("AlphabetNeg:" + variant, r, "refuted: %s" % r.violated)
        if not os.path.exists(cases):
            raise vlib.Infra("TLC emitted no cases")
        # (B) a stratified sample of the emitted cases through the real constructors
        strata = {}
        with open(cases) as f:
            for line in f:
                c = json.loads(line)
                strata.setdefault((c["kind"], c["expect"]), []).append(line)
        rng = random.Random(ck.seed)
        cap = 3000 if thorough else 350
        capslice = 1500 if thorough else 200    # slices: per verdict of the specification x widest UTF-8 sequence
        picked = []
        for k in sorted(strata):
            ls = sorted(strata[k])
            n = capslice if k[0] == "allvalid" else cap
            picked += ls if len(ls) <= n else rng.sample(ls, n)
        if not any(k[0] == "allvalid" and k[1].startswith("text") for k in strata):
            raise vlib.Infra("TLC emitted no slice whose reading as text differs from its reading as letters")
        ck.extra["emitted_cases"] = {"%s/%s" % (k[0], k[1] or "accepted"): len(v) for k, v in sorted(strata.items())}
        ck.extra["emitted_cases_run"] = len(picked)
        sample = os.path.join(work, "sample.ndjson")
        open(sample, "w").write("".join(picked))
        nontriv = set()
        total_fails = 0

        def part(name, args, source):
            nonlocal total_fails
            out = os.path.join(work, name + ".trace")
            p = vlib.harness(args + ["-out", out], cmd="valphabet", ok_codes=(0, 2))
            if p.returncode != 0:
                # a built-in alphabet whose definition its own constructor rejects panics in package initialisation
                if "panic:" in p.stdout and "alphabet.init" in p.stdout:
                    first = [x for x in p.stdout.splitlines() if x.startswith("panic:")][0]
                    ck.violation("package alphabet does not initialise, a built-in definition is rejected: %s" % first,
                                 {"kind": "init-panic", "output": p.stdout[-3000:]})
                    return []
                raise vlib.Infra("valphabet %s failed:\n%s" % (name, p.stdout[-3000:]))
            evs, fails, drift = _validate(ck, name, out, work)
            ck.traces += len(evs)
            ck.evaluations += len(evs)
            for e in evs:
                if _nontrivial(e):
                    nontriv.add(json.dumps(_case_of(e), sort_keys=True))
            _report(ck, evs, fails, drift, source)
            total_fails += len(fails)
            vlib.log("  [%s] %d events, %d fails, %d drift notes" % (name, len(evs), len(fails), len(drift)))
            return evs

        evs = part("emitted", ["cases", "-in", sample], "case of the bounded model emitted by TLC")
        if not evs:
            return
        ck.samples.append({"source": "TLC-emitted case through the real constructor",
                           "event": {k: v for k, v in evs[len(evs) // 2].items() if not isinstance(v, list) or len(v) < 40}})
        # (C) built-ins exhaustively, random definitions
        bevs = part("builtins", ["builtins", "-seed", ck.seed, "-n", 200 if thorough else 40], "built-in alphabet")
        ck.samples.append({"source": "built-in alphabet dump", "event": {k: v for k, v in bevs[0].items()
                                                                       if not isinstance(v, list) or len(v) < 40}})
        revs = part("random", ["random", "-seed", ck.seed, "-n", 4000 if thorough else 500], "random definition")
        for e in revs[:4]:
            ck.samples.append({"source": "random definition", "call": _describe(e)})
        if not ck.violations:   # the self-test needs events the specification accepts
            _selftest(ck, bevs + revs + evs, work)
        ck.nontrivial = len(nontriv)
        ck.extra["builtins_exhaustive"] = "7 built-in alphabets x 256 letters x every accessor"
    finally:
        shutil.rmtree(work, ignore_errors=True)


def replay(path):
    obj = json.load(open(path))["replay"]
    if obj["kind"] != "alphabet-case":
        vlib.log("replay of %s artifacts: re-run the check" % obj["kind"])
        return 0
    work = vlib.scratch("c17r-")
    try:
        f = os.path.join(work, "case.ndjson")
        vlib.write_ndjson(f, [obj["case"]])
        out = os.path.join(work, "case.trace")
        vlib.harness(["cases", "-in", f, "-out", out], cmd="valphabet")
        v, r = vlib.validate(SPEC, "AlphabetTrace", "AlphabetTrace.cfg", out)
        e = vlib.read_ndjson(out)[0]
        vlib.log("  replayed: %s" % _describe(e))
        for _, why in v["fails"]:
            vlib.log("VIOLATION property=C17 replay=%s" % path)
            vlib.log("  what: %s" % why)
        for _, why in v.get("drift", []):
            vlib.log("  [note] drift: %s" % why)
        return 1 if v["fails"] else 0
    finally:
        shutil.rmtree(work, ignore_errors=True)
