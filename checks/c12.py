"""C12 - concurrent-mode external sort is schedule independent.

(A) TLC explores MorassConc.tla (caller vs background writers at the grain of the verif step
    hooks) exhaustively for chunk sizes 1..3 and 0..7 pushes: Finalise completeness, no torn
    run, race freedom (as a state predicate), no deadlock, termination under fairness.  The
    as-found variant (Finalise does not wait) must be refuted.
(B) TLC simulates schedules of the model; each is forced on the real code through the hooks
    (release / expected arrivals / blocked processes), results compared with the model.
(C) Un-gated runs with all hook arrivals logged, validated by MorassConcTrace.tla; API-level
    traces of concurrent sorters validated by MorassTrace.tla, run under the race detector.
"""
import json, os, shutil
import vlib
from morass_common import judge_trace


def run(ck, tier):
    thorough = tier == "thorough"
    ck.rule = ("a case is one schedule (sequence of hook releases) forced on a real concurrent Morass, or one "
               "un-gated run; non-trivial = at least one background writer exists; distinct by release sequence")
    ck.assumptions = [
        "code between two consecutive step hooks touches shared state only through the channel/lock operation "
        "that ends the step (each gate-to-gate segment is one atomic model step)",
        "goroutines the model calls blocked are given 1.5 ms to show otherwise; an expected arrival is awaited for 10 s "
        "and a mismatch must reproduce in a further run before it counts",
        "the race detector monitors un-hooked runs (hooks synchronise and would hide races)",
    ]
    consts = {"NPushes": "{0, 1, 2, 3, 4, 5, 6, 7, 8, 9, 10}", "CSs": "{1, 2, 3, 4}"} if thorough else {}
    r = vlib.tlc("Morass", "MorassConc", None, cfg_text=vlib.subst_cfg("Morass", "MorassConcMC.cfg", consts),
                 workers=16, timeout=3000)
    vlib.tlc_expect_ok(r, "MorassConcMC")
    ck.mc("MorassConcMC", r, "all interleavings; invariants + termination")
    r = vlib.tlc("Morass", "MorassConc", "MorassConcNeg.cfg", workers=4, timeout=600)
    if r.violated not in ("RaceFree", "FinaliseComplete", "NoTornRun"):
        raise vlib.Infra("negative control MorassConcNeg was not refuted (%s)" % r.violated)
    ck.mc("MorassConcNeg", r, "as-found variant refuted: %s" % r.violated)
    work = vlib.scratch("c12-")
    try:
        # (B) schedules simulated by TLC, forced on the real code
        sched = os.path.join(work, "sched.ndjson")
        num = 3000 if thorough else 400
        r = vlib.tlc("Morass", "MorassConcGen", "MorassConcGen.cfg", env={"OUT": sched}, workers=1, timeout=1800,
                     extra=["-simulate", "num=%d" % num, "-depth", "400", "-seed", str(ck.seed)])
        if not os.path.exists(sched):
            raise vlib.Infra("no schedules emitted:\n" + r.out[-2000:])
        ck.mc("MorassConcGen(simulate)", r, "schedule emission")
        out = os.path.join(work, "sched.out")
        p = vlib.harness(["morass", "sched", "-in", sched, "-out", out], timeout=3000)
        vlib.log("  [sched] %s" % p.stdout.strip())
        evs = vlib.read_ndjson(out)
        ck.traces += len(evs)
        ck.evaluations += len(evs)
        distinct = set()
        for line, e in zip(open(sched), evs):
            s = json.loads(line)
            if any(st["p"][0] == "w" for st in s["sched"]):
                distinct.add(line)
            if e.get("ok") is not True:
                ck.violation("forced schedule diverges from MorassConc: %s" % e.get("mismatch"),
                             {"kind": "morass-sched", "schedule": e.get("schedule", s), "observed": e.get("mismatch")})
        ck.nontrivial += len(distinct)
        ck.samples.append({"source": "TLC schedule forced through hooks",
                           "schedule": json.loads(open(sched).readline())["sched"][:12]})
        # (C1) un-gated hook traces
        ct = os.path.join(work, "conc.ndjson")
        n = 3000 if thorough else 400
        p = vlib.harness(["morass", "conctrace", "-n", n, "-seed", ck.seed, "-out", ct])
        vlib.log("  [conctrace] %s" % p.stdout.strip().splitlines()[-1])
        st = vlib.take_stall(ct)
        if st:
            ck.violation("a concurrent-mode sorter stopped making progress for %d s (deadlock): %s" % (st["seconds"], st["after"]),
                         {"kind": "morass-stall", "after": st["after"], "stacks": st["stacks"][-6000:],
                          "cmd": "vharness morass conctrace -n %d -seed %d" % (n, ck.seed)})
        v, r = vlib.validate("Morass", "MorassConcTrace", "MorassConcTrace.cfg", ct)
        ck.mc("trace:un-gated-hooks", r, "%d events" % v["events"])
        cevs = vlib.read_ndjson(ct)
        segs = vlib.segments(cevs)
        ck.traces += len(segs)
        ck.evaluations += len(cevs)
        ck.nontrivial += len(set(json.dumps(s) for _, s in segs if any(e.get("p") == "w" for e in s)))
        import bisect
        starts = [s for s, _ in segs]
        for l, why in v["fails"]:
            s0, seg = segs[bisect.bisect_right(starts, l) - 1]
            ck.violation("un-gated run: event %d %s: %s" % (l - s0, json.dumps(cevs[l - 1]), why),
                         {"kind": "morass-conctrace", "segment": seg, "rejected_index": l - s0, "why": why})
        ck.samples.append({"source": "un-gated hook trace", "events": segs[-1][1][:12]})
        # (C2) API-level traces of concurrent sorters under the race detector (no hooks installed)
        tr = os.path.join(work, "api.ndjson")
        n = 1500 if thorough else 200
        p = vlib.harness(["morass", "random", "-n", n, "-big", "-conc", "-seed", ck.seed, "-out", tr], race=True,
                         ok_codes=(0, 66), timeout=3000)
        vlib.log("  [race-run] %s" % p.stdout.strip().splitlines()[-1])
        st = vlib.take_stall(tr)
        if st:
            ck.violation("a concurrent-mode sorter stopped making progress for %d s (deadlock): %s" % (st["seconds"], st["after"]),
                         {"kind": "morass-stall", "after": st["after"], "stacks": st["stacks"][-6000:],
                          "cmd": "vharness-race morass random -n %d -big -conc -seed %d" % (n, ck.seed)})
        if p.returncode == 66 or "WARNING: DATA RACE" in p.stdout:
            ck.violation("data race reported by the Go race detector in concurrent-mode morass",
                         {"kind": "race-report", "report": p.stdout[:6000],
                          "cmd": "vharness-race morass random -n %d -big -conc -seed %d" % (n, ck.seed)})
        judge_trace(ck, tr, "concurrent-api")
    finally:
        shutil.rmtree(work, ignore_errors=True)


def replay(path):
    obj = json.load(open(path))["replay"]
    work = vlib.scratch("c12r-")
    try:
        if obj["kind"] == "morass-sched":
            f = os.path.join(work, "s.ndjson")
            open(f, "w").write(json.dumps(obj["schedule"]) + "\n")
            out = os.path.join(work, "o.ndjson")
            vlib.harness(["morass", "sched", "-in", f, "-out", out])
            e = vlib.read_ndjson(out)[0]
            vlib.log(json.dumps({k: v for k, v in e.items() if k != "schedule"}))
            if e.get("ok") is not True:
                vlib.log("VIOLATION property=C12 replay=%s" % path)
                return 1
            return 0
        if obj["kind"] == "morass-plan":
            from morass_common import replay_plan
            v = replay_plan(obj)
            if v["fails"]:
                vlib.log("VIOLATION property=C12 replay=%s" % path)
                return 1
            return 0
        vlib.log("replay of %s artifacts is by re-running the check with the same VERIF_SEED" % obj["kind"])
        return 0
    finally:
        shutil.rmtree(work, ignore_errors=True)
