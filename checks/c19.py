"""C19 - workers deliver each result once and stop cleanly; promises settle once.

(A) Processor.tla, Promise.tla explored exhaustively by TLC (all interleavings at hook granularity):
    no panic, closed once, exactly-once results, termination; single assignment, waits agree,
    no call blocks for ever.  MapChunks.tla: the chunk arithmetic partitions every small input.
    As-found variants (non-atomic last-worker test; lock-free Wait) must be refuted.
    PromiseSeq.tla: every method of a promise used from one goroutine as a function of the mailbox and the
    three flags, all call sequences up to four; Recover/Break/mutable are specified beyond C19.
(B) TLC-simulated Processor schedules forced on the real code through the hooks (child process,
    a worker panic kills it and is attributed to the schedule announced last).
(C) Steered executions of a real Promise (goroutines held at the hooks, released in random
    order, everything observed logged) validated by PromiseTrace.tla, which searches for the
    internal steps the Go runtime chose; un-gated Processor runs under the race detector and Map
    calls validated by MapTrace.tla.
"""
import json, os, shutil, subprocess
import vlib


def _proc_sched(ck, sched, work):
    """Run the schedule file in child processes; a crash is a violation of the schedule it died in."""
    out = os.path.join(work, "ps.out")
    lines = open(sched).read().splitlines()
    skip, crashes = 0, 0
    while skip < len(lines):
        exe = vlib.build_harness()
        p = subprocess.run([exe, "conc", "procsched", "-in", sched, "-out", out, "-skip", str(skip)],
                           stdout=subprocess.PIPE, stderr=subprocess.STDOUT, text=True, timeout=3000)
        evs = vlib.read_ndjson(out) if os.path.exists(out) else []
        done = [e for e in evs if e.get("op") == "procsched"]
        if p.returncode == 0:
            break
        begun = [e["id"] for e in evs if e.get("op") == "begin"]
        if not begun:
            raise vlib.Infra("procsched child failed before starting:\n" + p.stdout[-2000:])
        crashed = begun[-1]
        crashes += 1
        if "panic:" not in p.stdout and "fatal error" not in p.stdout:
            raise vlib.Infra("procsched child exited %d without a panic:\n%s" % (p.returncode, p.stdout[-2000:]))
        first = [l for l in p.stdout.splitlines() if l.startswith(("panic:", "fatal error"))][:1]
        ck.violation("Processor crashed under a forced schedule: %s" % (first[0] if first else "crash"),
                     {"kind": "proc-sched", "schedule": json.loads(lines[crashed]), "output": p.stdout[-3000:]})
        skip = crashed + 1
        if crashes >= 6:
            vlib.log("  (stopping after %d crashing schedules)" % crashes)
            break
    evs = [e for e in (vlib.read_ndjson(out) if os.path.exists(out) else []) if e.get("op") == "procsched"]
    for e in evs:
        if e.get("ok") is not True:
            ck.violation("Processor diverges from Processor.tla under a forced schedule: %s" % e.get("mismatch"),
                         {"kind": "proc-sched", "schedule": json.loads(lines[e["id"]]), "observed": e.get("mismatch")})
    return len(evs) + crashes


def run(ck, tier):
    thorough = tier == "thorough"
    ck.rule = ("a case is one forced Processor schedule, one steered Promise execution, one un-gated Processor run or one "
               "Map call; non-trivial = more than one goroutine interacts (>= 2 workers with >= 1 operation, >= 2 promise "
               "calls, >= 2 chunks); distinct by content")
    ck.assumptions = [
        "code between two step hooks touches shared state only through the channel/mutex operation ending the step",
        "promise fulfil values are non-nil ints; Fail is called with a nil value and a non-nil error; operations return "
        "a value or a value and an error (panicking operations are not in the judged domain)",
        "relay promises are judged on the value only; mutable promises only for conformance (reported as drift)",
        "goroutines the model calls blocked get 1.5 ms (Processor) to show otherwise; steered Promise runs wait 60 ms of "
        "inactivity before declaring the remaining calls blocked",
    ]
    # (A)
    pc = {} if thorough else {"NOps": "{0, 1, 2, 3}", "Buffers": "{0, 1}", "QCaps": "{1}"}
    r = vlib.tlc("Concurrent", "Processor", None, cfg_text=vlib.subst_cfg("Concurrent", "ProcessorMC.cfg", pc),
                 workers=16, timeout=3400)
    vlib.tlc_expect_ok(r, "ProcessorMC")
    ck.mc("ProcessorMC", r, "all interleavings; safety + termination")
    r = vlib.tlc("Concurrent", "Processor", "ProcessorNeg.cfg", workers=4, timeout=900)
    if r.violated not in ("NoPanic", "CloseIsLast", "ClosedAtMostOnce"):
        raise vlib.Infra("negative control ProcessorNeg not refuted (%s)" % r.violated)
    ck.mc("ProcessorNeg", r, "as-found last-worker test refuted: %s" % r.violated)
    r = vlib.tlc("Concurrent", "Processor", "ProcessorNegLate.cfg", workers=4, timeout=900)
    if r.violated not in ("CloseIsLast", "NoPanic"):
        raise vlib.Infra("negative control ProcessorNegLate not refuted (%s)" % r.violated)
    ck.mc("ProcessorNegLate", r, "a panicking operation's Result sent after the worker is counted out is refuted: %s" % r.violated)
    mc = {} if thorough else {"KindSets <-": "MCKinds3"}
    cfg = open(os.path.join(vlib.VERIF, "spec", "Concurrent", "PromiseMC.cfg")).read()
    if not thorough:
        cfg = cfg.replace("KindSets <- MCKinds", "KindSets <- MCKinds3")
    r = vlib.tlc("Concurrent", "PromiseMC", None, cfg_text=cfg, workers=16, timeout=3400)
    vlib.tlc_expect_ok(r, "PromiseMC")
    ck.mc("PromiseMC", r, "all interleavings of 2..%d Fulfill/Fail/Wait calls" % (4 if thorough else 3))
    r = vlib.tlc("Concurrent", "PromiseMC", "PromiseNeg.cfg", workers=4, timeout=900)
    if r.violated not in ("SettlesOnce", "Unchanged", "WaitsAgree", "Deadlock", "SettlesExactlyOnce"):
        raise vlib.Infra("negative control PromiseNeg not refuted (%s)" % r.violated)
    ck.mc("PromiseNeg", r, "as-found lock-free Wait refuted: %s" % r.violated)
    r = vlib.tlc("Concurrent", "Lazily", "Lazily.cfg", workers=4, timeout=600)
    vlib.tlc_expect_ok(r, "Lazily")
    ck.mc("Lazily(extension)", r, "beyond the listed properties: lazy evaluator delivers in order, bounded lookahead")
    r = vlib.tlc("Concurrent", "MapChunks", "MapChunks.cfg", workers=4, timeout=600)
    vlib.tlc_expect_ok(r, "MapChunks")
    ck.mc("MapChunks", r, "chunk arithmetic partitions all n<=40, threads<=8, maxChunk<=9")
    work = vlib.scratch("c19-")
    try:
        nontriv = set()
        # (B) Processor schedules
        sched = os.path.join(work, "ps.ndjson")
        num = 2500 if thorough else 300
        r = vlib.tlc("Concurrent", "ProcessorGen", "ProcessorGen.cfg", env={"OUT": sched}, workers=1, timeout=1800,
                     extra=["-simulate", "num=%d" % num, "-depth", "500", "-seed", str(ck.seed)])
        if not os.path.exists(sched):
            raise vlib.Infra("no Processor schedules emitted:\n" + r.out[-2000:])
        ck.mc("ProcessorGen(simulate)", r, "schedule emission")
        n = _proc_sched(ck, sched, work)
        vlib.log("  [procsched] %d schedules forced on a real Processor" % n)
        ck.traces += n
        ck.evaluations += n
        for line in open(sched):
            s = json.loads(line)
            if s["t"] >= 2 and s["n"] >= 1:
                nontriv.add(line)
        ck.samples.append({"source": "TLC Processor schedule forced through hooks",
                           "schedule": json.loads(open(sched).readline())["sched"][:10]})
        # (C1) steered Promise executions
        pt = os.path.join(work, "promise.ndjson")
        n = 4000 if thorough else 500
        p = vlib.harness(["conc", "promise", "-n", n, "-seed", ck.seed, "-out", pt], timeout=3000)
        v, r = vlib.validate("Concurrent", "PromiseTrace", "PromiseTrace.cfg", pt)
        ck.mc("trace:steered-promise", r, "%d executions" % v["events"])
        segs = vlib.read_ndjson(pt)
        ck.traces += len(segs)
        ck.evaluations += len(segs)
        for s in segs:
            if s.get("harness"):
                raise vlib.Infra("promise harness: %s" % s["harness"])
            nontriv.add(json.dumps([s["kinds"], s["re"], [(e["e"], e.get("p"), e.get("g")) for e in s["ev"]]]))
        for k, why in v["fails"]:
            s = segs[k - 1]
            ck.violation("steered Promise execution %d (calls %s, relay=%s): %s" % (s["id"], s["kinds"], s["re"], why),
                         {"kind": "promise-trace", "execution": s, "why": why})
        ck.samples.append({"source": "steered Promise execution", "execution": segs[0]})
        # (C2) un-gated Processor runs (race detector) and Map calls
        pr = os.path.join(work, "procrun.ndjson")
        n = 3000 if thorough else 400
        exe = vlib.build_harness(race=True)
        p = subprocess.run([exe, "conc", "procrun", "-n", str(n), "-seed", str(ck.seed), "-out", pr],
                           stdout=subprocess.PIPE, stderr=subprocess.STDOUT, text=True, timeout=3000)
        if p.returncode != 0:
            ann = [l for l in p.stdout.splitlines() if l.startswith("procrun id=")]
            what = [l for l in p.stdout.splitlines() if l.startswith(("panic:", "fatal error", "WARNING: DATA RACE"))][:1]
            if not what:
                raise vlib.Infra("procrun failed:\n" + p.stdout[-2000:])
            ck.violation("un-gated Processor run: %s (%s)" % (what[0], ann[-1] if ann else "?"),
                         {"kind": "procrun", "run": ann[-1] if ann else "", "output": p.stdout[-4000:],
                          "cmd": "vharness-race conc procrun -n %d -seed %d" % (n, ck.seed)})
        mp = os.path.join(work, "map.ndjson")
        vlib.harness(["conc", "map", "-n", 2000 if thorough else 300, "-seed", ck.seed, "-out", mp])
        both = os.path.join(work, "both.ndjson")
        with open(both, "w") as f:
            f.write(open(mp).read())
            if os.path.exists(pr):
                f.write(open(pr).read())
        v, r = vlib.validate("Concurrent", "MapTrace", "MapTrace.cfg", both)
        ck.mc("trace:map+procrun", r, "%d events" % v["events"])
        evs = vlib.read_ndjson(both)
        ck.traces += len(evs)
        ck.evaluations += len(evs)
        for e in evs:
            if (e["op"] == "map" and len(e["chunks"]) >= 2) or (e["op"] == "procrun" and e["t"] >= 2 and e["n"] >= 1) \
                    or (e["op"] == "lazy" and len(e["values"]) > 1):
                nontriv.add(json.dumps([e.get(k) for k in ("op", "n", "threads", "maxchunk", "t", "b", "q")]))
        for l, why in v["fails"]:
            ck.violation("%s: %s" % (why, json.dumps(evs[l - 1])), {"kind": "conc-event", "event": evs[l - 1], "why": why})
        if v.get("drift"):
            ck.extra["map_or_lazily_drift"] = len(v["drift"])
            vlib.log("  [note] %d Map/Lazily events differ from MapChunks.tla / Lazily.tla outside what C19 states: model drift "
                     "(first: %s)" % (len(v["drift"]), json.dumps(evs[v["drift"][0] - 1])[:300]))
        ck.samples.append({"source": "Map call", "event": evs[len(evs) // 4]})
        # (C3) sequential promise laws for all eight flag combinations (PromiseSeq.tla)
        r = vlib.tlc("Concurrent", "PromiseSeq", "PromiseSeqMC.cfg", workers=4, timeout=900)
        vlib.tlc_expect_ok(r, "PromiseSeqMC")
        ck.mc("PromiseSeqMC", r, "every sequence of <= 4 non-blocking calls (Fulfill, Fail, Recover, Break, Wait), all flags: immutable law, set stays set")
        r = vlib.tlc("Concurrent", "PromiseSeq", "PromiseSeqNeg.cfg", workers=4, timeout=900)
        if r.violated != "RefusedRecoverKeeps":
            raise vlib.Infra("PromiseSeqNeg not refuted: %s" % r.violated)
        ck.mc("PromiseSeqNeg (extension)", r, "as found, a refused Recover empties the promise: 'refused Recover changes nothing' is refuted")
        sq = os.path.join(work, "pseq.ndjson")
        vlib.harness(["conc", "promiseseq", "-n", 4000 if thorough else 400, "-seed", ck.seed, "-out", sq], timeout=3000)
        v, r = vlib.validate("Concurrent", "PromiseSeqTrace", "PromiseSeqTrace.cfg", sq)
        ck.mc("trace:promise-sequences", r, "%d call sequences on real promises, all flag combinations" % v["events"])
        sevs = vlib.read_ndjson(sq)
        ck.traces += len(sevs)
        ck.evaluations += len(sevs)
        for e in sevs:
            nontriv.add(json.dumps([e["mutable"], e["recoverable"], e["relay"], [(o["op"], o["x"]) for o in e["ops"]]]))
        for l, why in v["fails"]:
            ck.violation("%s: %s" % (why, json.dumps(sevs[l - 1])), {"kind": "conc-event", "event": sevs[l - 1], "why": why})
        ck.extra["promise_sequences_beyond_c19_drift"] = len(v["drift"])
        if v["drift"]:
            vlib.log("  [note] %d promise call sequences differ from PromiseSeq.tla outside what C19 states (Recover, Break, "
                     "mutable promises, error texts): model drift (first: %s)" % (len(v["drift"]), json.dumps(sevs[v["drift"][0] - 1])[:400]))
        if not ck.violations:
            bad = next(json.loads(json.dumps(e)) for e in sevs
                       if not e["mutable"] and e["ops"][-1]["op"] == "W" and not e["ops"][-1]["blocked"]
                       and all(o["op"] in "FXW" for o in e["ops"]))
            bad["ops"][-1]["v"] += 1
            bp = os.path.join(work, "pseq-bad.ndjson")
            vlib.write_ndjson(bp, [bad])
            v2, _ = vlib.validate("Concurrent", "PromiseSeqTrace", "PromiseSeqTrace.cfg", bp)
            if len(v2["fails"]) != 1:
                raise vlib.Infra("binding self-test (promise sequences): corrupted Wait value accepted")
            ck.parts.append({"part": "binding-selftest(promise sequences)", "note": "corrupted Wait value rejected"})
        ck.nontrivial = len(nontriv)
    finally:
        shutil.rmtree(work, ignore_errors=True)


def replay(path):
    obj = json.load(open(path))["replay"]
    work = vlib.scratch("c19r-")
    try:
        if obj["kind"] == "proc-sched":
            f = os.path.join(work, "s.ndjson")
            open(f, "w").write(json.dumps(obj["schedule"]) + "\n")
            ck = vlib.Check("C19", "quick")
            n = _proc_sched(ck, f, work)
            return 1 if ck.violations else 0
        vlib.log("replay of %s artifacts: re-run the check with the same VERIF_SEED" % obj["kind"])
        return 0
    finally:
        shutil.rmtree(work, ignore_errors=True)
