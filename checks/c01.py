"""C01 - see spec/Formats (Formats.tla, FormatsTrace.tla) and checks/formats_common.py."""
import formats_common


def run(ck, tier):
    ck.rule = ("a case is one file: every text of the bounded model (TLC-emitted) or a random file produced by the real "
               "writers, read by the real reader; non-trivial = non-empty text; distinct by bytes")
    ck.assumptions = [
        "text fields, names, letters, scores and coordinates are generated inside the domain the property states "
        "(coordinates within +-10^8 because TLC integers are 32 bit)",
        "GFF score numerals are formatted by Go's %v in the harness; the specification carries them as text",
        "files larger than 1.5 kB are judged by record digests (name, description, length, hash), not byte by byte",
        "disagreements between the real readers and the reader specification on input the property does not "
        "constrain are reported as model drift, not as violations",
    ]
    formats_common.run_formats(ck, tier, "C01")


def replay(path):
    return formats_common.replay("C01", path)
