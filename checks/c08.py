"""C08 - see spec/Align (AlignDP.tla, AlignMC.tla, AlignTrace.tla) and checks/align_common.py."""
import align_common


def run(ck, tier):
    align_common.run_align(ck, tier, "C08")


def replay(path):
    return align_common.replay("C08", path)
