"""C16 - piles are exactly the overlap-connected components of the added features.

(A) spec/Piler/Piler.tla explored exhaustively by TLC: every insertion order of every multiset of
    feature pairs of several bounded universes (one to three locations, positions 0..2 .. 0..4, up to
    five Adds, re-offered pairs in both orientations): after every Add the piles built operationally
    (as Piler.merge does) are pairwise apart, each the hull = union of its members, equal to the
    connected components of overlap-or-abut over the accepted features, every feature in exactly one
    pile; a pair is accepted exactly when it was never offered before in either orientation.
    Negative controls (start of the last hit, strict '<' in the overlap test, duplicate test in one
    orientation, absorbed piles not deleted) must be refuted.
    spec/Piler/PilerPiles.tla: Piles(filter) as a state machine on top of these piler states - first
    and repeated calls, every filter (none, every set of pairs, pile-reading filters), every order of
    visiting the piles: the filter is only consulted about pairs both of whose features are placed in
    the pile of their component, and the members listed are those the filter keeps.  Negative control:
    one fused pass (place the features of a pile and consult the filter at once).
(B) Add sequences emitted by TLC from the same module - all sequences of a small universe and random
    walks over positions 0..5 on two locations, the latter replayed in every distinct order - are run
    on a real pals.NewPiler(0); Piles(nil), Piles(nil), Piles(filter)..., Piles(nil) or, for about half
    of the instances, Piles(filter)... on the fresh piler, Piles(nil), Piles(nil) are logged.  Filters:
    sets of pairs, and filters that read the span of the piles the pair's features lie in (what these
    let through is computed by PilerTrace.tla from the components); every filter records whether the
    features of the pair it is handed are located in piles, and in which.
(C) Random instances of up to 40 pairs on up to three locations with coordinates 0..200.
    PilerTrace.tla judges every logged instance by recomputing the components with the operators of
    Piler.tla.
"""
import json, os, shutil
from concurrent.futures import ThreadPoolExecutor
import vlib

SPEC = "Piler"
LAWS = ("Disjoint", "HullIsUnion", "PilesAreComponents", "ExactlyOnePile", "MatesPresent",
        "DuplicatesRejected", "FastAgrees", "SharedIffLinked")
CHUNK = 3000

# name -> (constants, note)
MC_QUICK = [
    ("PilerMC:1loc-pos0..3-4adds", {"Locs": "{1}", "MaxPos": 3, "MinLen": 1, "MaxPairs": 4},
     "36 pairs, chains of up to 8 features on one location"),
    ("PilerMC:2loc-pos0..2-4adds", {"Locs": "{1, 2}", "MaxPos": 2, "MinLen": 1, "MaxPairs": 4},
     "36 pairs over two locations"),
    ("PilerMC:2loc-pos0..3-empty-2adds", {"Locs": "{1, 2}", "MaxPos": 3, "MinLen": 0, "MaxPairs": 2},
     "400 pairs incl. empty features"),
]
MC_THOROUGH = MC_QUICK + [
    ("PilerMC:2loc-pos0..3-3adds", {"Locs": "{1, 2}", "MaxPos": 3, "MinLen": 1, "MaxPairs": 3}, "144 pairs"),
    ("PilerMC:1loc-pos0..4-3adds", {"Locs": "{1}", "MaxPos": 4, "MinLen": 1, "MaxPairs": 3}, "100 pairs"),
    ("PilerMC:2loc-pos0..4-empty-2adds", {"Locs": "{1, 2}", "MaxPos": 4, "MinLen": 0, "MaxPairs": 2},
     "900 pairs incl. empty features"),
    ("PilerMC:3loc-pos0..2-3adds", {"Locs": "{1, 2, 3}", "MaxPos": 2, "MinLen": 1, "MaxPairs": 3}, "81 pairs"),
    ("PilerMC:1loc-pos0..3-5adds", {"Locs": "{1}", "MaxPos": 3, "MinLen": 1, "MaxPairs": 5},
     "36 pairs, chains of up to 10 features"),
]
# Piles(filter) state machine: name -> (constants, note)
PILES_QUICK = [
    ("PilerPilesMC:2loc-pos0..2-2adds-2calls", {"Locs": "{1, 2}", "MaxPos": 2, "MinLen": 1, "MaxPairs": 2, "MaxCalls": 2},
     "every filter, every visiting order, first and repeated call"),
]
PILES_THOROUGH = PILES_QUICK + [
    ("PilerPilesMC:1loc-pos0..3-3adds-2calls", {"Locs": "{1}", "MaxPos": 3, "MinLen": 1, "MaxPairs": 3, "MaxCalls": 2},
     "piles of up to 6 features, 8 set filters"),
]
NEGATIVES = [("last_start", "start of the last hit instead of the minimum"),
             ("strict", "'<' in the overlap test: abutting features stay apart"),
             ("one_orientation", "duplicate test in the added orientation only"),
             ("no_delete", "absorbed piles stay in the tree")]


def _mc_cfg(consts):
    return vlib.subst_cfg(SPEC, "PilerMC.cfg", consts)


def _gen_cfg(consts, walk=False):
    t = vlib.subst_cfg(SPEC, "PilerGen.cfg", consts)
    return t.replace("SPECIFICATION Spec", "SPECIFICATION GenSpec") if walk else t


def _emit(name, consts, out, seed, walks=0):
    """Have TLC append the Add sequences of a bounded model to out."""
    if os.path.exists(out):
        os.remove(out)
    if walks:
        r = vlib.tlc(SPEC, "Piler", None, cfg_text=_gen_cfg(consts, walk=True), env={"OUT": out}, workers=1,
                     timeout=1800, extra=["-simulate", "num=%d" % walks, "-depth", "20", "-seed", str(seed)])
    else:
        r = vlib.tlc(SPEC, "Piler", None, cfg_text=_gen_cfg(consts), env={"OUT": out}, workers=4, timeout=1800)
        vlib.tlc_expect_ok(r, name)
    if not os.path.exists(out) or os.path.getsize(out) == 0:
        raise vlib.Infra("no Add sequences emitted by %s:\n%s" % (name, r.out[-2000:]))
    return r


def _validate_chunks(path, pool):
    """Split an ndjson trace into chunks and validate them concurrently.
    Returns (events, [(global index, why)], [global drift indexes], [TlcResult])."""
    lines = open(path).read().splitlines()
    lines = [l for l in lines if l.strip()]
    jobs = []
    chunk = min(CHUNK, max(40, (len(lines) + 3) // 4))
    for k in range(0, len(lines), chunk):
        cp = "%s.%d" % (path, k)
        with open(cp, "w") as f:
            f.write("\n".join(lines[k:k + chunk]) + "\n")
        jobs.append((k, cp, pool.submit(vlib.validate, SPEC, "PilerTrace", "PilerTrace.cfg", cp)))
    fails, drift, rs, n = [], [], [], 0
    for k, cp, fut in jobs:
        v, r = fut.result()
        os.remove(cp)
        n += v["events"]
        rs.append(r)
        fails += [(k + i, why) for i, why in v["fails"]]
        drift += [k + i for i in v.get("drift", [])]
    if n != len(lines):
        raise vlib.Infra("trace validation consumed %d of %d events of %s" % (n, len(lines), path))
    return [json.loads(l) for l in lines], fails, drift, rs


def _stored(ev):
    """The replayable form of a logged instance: the Adds and the Piles calls (filters) in order."""
    seq = [[{"loc": a["a"][0], "s": a["a"][1], "e": a["a"][2]}, {"loc": a["b"][0], "s": a["b"][1], "e": a["b"][2]}]
           for a in ev["adds"]]
    return {"seq": seq, "plan": [{"kind": c["kind"], "L": c["L"], "pass": [] if c["nilf"] else c["pass"]}
                                 for c in ev["calls"]]}


def _unfiltered(ev):
    """The first Piles(nil) call of an instance (the first call of all if there is none)."""
    return next((c for c in ev["calls"] if c["nilf"]), ev["calls"][0])


class _Sum:
    def __init__(self):
        self.r = None

    def add(self, r):
        if self.r is None:
            self.r = r
        else:
            self.r.generated += r.generated
            self.r.distinct += r.distinct
            self.r.wall = max(self.r.wall, r.wall)
            self.r.depth = max(self.r.depth, r.depth)


def _judge(ck, label, path, pool, stats):
    evs, fails, drift, rs = _validate_chunks(path, pool)
    s = _Sum()
    for r in rs:
        s.add(r)
    ck.mc("trace:" + label, s.r, "%d instances, %d Piles calls" % (len(evs), sum(len(e["calls"]) for e in evs)))
    ck.traces += len(evs)
    ck.evaluations += sum(len(e["adds"]) + len(e["calls"]) for e in evs)
    by = {}
    for i, why in fails:
        by.setdefault(i, []).append(why)
    for i in sorted(by):
        ev = evs[i - 1]
        adds = ["%s-%s%s" % (a["a"], a["b"], "" if a["err"] == "" else " (" + a["err"] + ")") for a in ev["adds"]]
        ck.violation("pals.Piler, Adds in order %s, Piles calls %s: %s; first unfiltered call reported %s" %
                     ("; ".join(adds), ",".join(c["kind"] + (">=%d" % c["L"] if c["kind"].startswith("span") else "")
                                                for c in ev["calls"]),
                      " | ".join(by[i]), json.dumps(_unfiltered(ev)["piles"])),
                     {"kind": "piler-instance", "instance": _stored(ev), "why": by[i], "source": ev["src"]})
    if drift:
        ck.extra["drift_" + label] = len(drift)
        vlib.log("  [note] %s: %d instances where the operational model or the filter handling differs from the "
                 "report without touching the stated property (model drift); first: %s" %
                 (label, len(drift), json.dumps(_stored(evs[drift[0] - 1]))))
    for e in evs:
        key = json.dumps([[a["a"], a["b"]] for a in e["adds"]])
        first = _unfiltered(e)["piles"]
        stats["instances"].add(key)
        if any(len(p["im"]) >= 2 for p in first):
            stats["nontrivial"].add(key)
        if any(len(p["im"]) >= 3 for p in first):
            stats["chains"].add(key)
        if any(a["err"] != "" for a in e["adds"]):
            stats["rejected"].add(key)
        stats["maxpairs"] = max(stats["maxpairs"], len(e["adds"]))
        stats["maxpile"] = max([stats["maxpile"]] + [len(p["im"]) for p in first])
        stats["filtered_calls"] += sum(1 for c in e["calls"] if not c["nilf"])
        stats["filter_first"] += 0 if e["calls"][0]["nilf"] else 1
        for c in e["calls"]:
            if c["kind"].startswith("span"):
                stats["span_calls"] += 1
                kept = sum(len(q["im"]) for q in c["piles"])
                if 0 < kept < 2 * sum(1 for a in e["adds"] if a["err"] == ""):
                    stats["span_discriminating"] += 1
    return evs


def run(ck, tier):
    thorough = tier == "thorough"
    ck.rule = ("a case is one instance: a sequence of Add calls on a fresh pals.NewPiler(0) followed by Piles(nil), "
               "Piles(nil), Piles(filter)..., Piles(nil) or by Piles(filter)..., Piles(nil), Piles(nil); non-trivial = at least one reported pile holds two or more "
               "features (a merge happened); distinct by the ordered list of added pairs")
    ck.assumptions = [
        "overlap slack 0 (pals.NewPiler(0)); features with start <= end (the interval tree silently refuses inverted ones)",
        "locations are pals.Contig values; all Adds precede the first Piles call (Add after Piles is not in the statement)",
        "under a pair filter a pile must list every member of its component the filter accepts and nothing from another "
        "component; under a filter given as a set of pairs, listing a member the filter rejects is recorded as model "
        "drift, not as a violation; under a filter that reads the piles of the pair's features the members must be "
        "exactly those the filter keeps on the components",
        "a pair filter may read Location() of both features of the pair it is handed: whenever it is consulted, both "
        "must be located in the piles reported for their components (also on the first Piles call of a piler)",
        "order of the returned piles and of Images is not specified: compared as sets",
    ]
    work = vlib.scratch("c16-")
    pool = ThreadPoolExecutor(max_workers=4)       # trace validation
    mcpool = ThreadPoolExecutor(max_workers=4)     # model checks, running meanwhile
    try:
        # (A) start the model checks; they run while the conformance traces are produced
        mcs = MC_THOROUGH if thorough else MC_QUICK
        w = 5
        neg_jobs = [(v, note, mcpool.submit(vlib.tlc, SPEC, "Piler", None, workers=2, timeout=900,
                                            cfg_text=vlib.subst_cfg(SPEC, "PilerNeg.cfg", {"Variant": '"%s"' % v})))
                    for v, note in NEGATIVES]
        mc_jobs = [(name, note, mcpool.submit(vlib.tlc, SPEC, "Piler", None, cfg_text=_mc_cfg(c), workers=w, timeout=3400))
                   for name, c, note in mcs]
        # Piles(filter): the two passes; negative control: the fused pass, refuted both by what the filter
        # sees and (that law left out) by the members listed
        fused = vlib.subst_cfg(SPEC, "PilerPilesNeg.cfg", {})        # Discipline = "fused"
        pneg_jobs = [("PilerPilesNeg:fused", ("ConsultedWhenPlaced",), "one fused pass (place a pile's features, filter them at once)",
                      mcpool.submit(vlib.tlc, SPEC, "PilerPiles", None, workers=2, timeout=900, cfg_text=fused)),
                     ("PilerPilesNeg:fused-members", ("ReportedMembers",), "one fused pass, judged by the members listed only",
                      mcpool.submit(vlib.tlc, SPEC, "PilerPiles", None, workers=2, timeout=900,
                                    cfg_text=fused.replace("  ConsultedWhenPlaced\n", "")))]
        pmc_jobs = [(name, note, mcpool.submit(vlib.tlc, SPEC, "PilerPiles", None, workers=w, timeout=3400,
                                               cfg_text=vlib.subst_cfg(SPEC, "PilerPilesMC.cfg", c)))
                    for name, c, note in (PILES_THOROUGH if thorough else PILES_QUICK)]
        # (B) sequences emitted by TLC
        stats = {"instances": set(), "nontrivial": set(), "chains": set(), "rejected": set(), "maxpairs": 0,
                 "maxpile": 0, "filtered_calls": 0, "filter_first": 0, "span_calls": 0, "span_discriminating": 0}
        gens = [("all-1..2adds-2loc-pos0..3", {"Locs": "{1, 2}", "MaxPos": 3, "MinLen": 1, "MaxPairs": 2, "EmitFrom": 1}, 0, False)]
        if thorough:
            gens.append(("all-1..3adds-1loc-pos0..3", {"Locs": "{1}", "MaxPos": 3, "MinLen": 1, "MaxPairs": 3, "EmitFrom": 1}, 0, False))
            gens.append(("all-1..2adds-2loc-pos0..2-empty", {"Locs": "{1, 2}", "MaxPos": 2, "MinLen": 0, "MaxPairs": 2, "EmitFrom": 1},
                         0, False))
        gens.append(("walks-4adds-2loc-pos0..5-all-orders", {"Locs": "{1, 2}", "MaxPos": 5, "MinLen": 0, "MaxPairs": 4, "EmitFrom": 4},
                     700 if thorough else 120, True))
        if thorough:
            gens.append(("walks-5adds-3loc-pos0..4-all-orders", {"Locs": "{1, 2, 3}", "MaxPos": 4, "MinLen": 0, "MaxPairs": 5, "EmitFrom": 5},
                         60, True))
        sample_done = False
        for label, consts, walks, perm in gens:
            beh = os.path.join(work, label + ".beh")
            r = _emit(label, consts, beh, ck.seed, walks)
            ck.mc("emit:" + label, r, "Add sequences written by TLC")
            tr = os.path.join(work, label + ".ndjson")
            p = vlib.harness(["replay", "-in", beh, "-out", tr, "-seed", ck.seed] + (["-perm"] if perm else []), cmd="vpiler")
            vlib.log("  [vpiler] %s: %s" % (label, p.stdout.strip()))
            evs = _judge(ck, label, tr, pool, stats)
            if perm and not sample_done:
                big = [e for e in evs if any(len(q["im"]) >= 3 for q in _unfiltered(e)["piles"])]
                if big:
                    ck.samples.append({"source": "TLC random walk replayed in every order", "adds": big[0]["adds"],
                                       "calls": [c["kind"] for c in big[0]["calls"]],
                                       "piles": _unfiltered(big[0])["piles"], "feats": _unfiltered(big[0])["feats"]})
                    sample_done = True
            os.remove(tr)
        # binding self-test: a falsified log must be rejected by the trace specification
        beh = os.path.join(work, "self.beh")
        with open(os.path.join(work, gens[-1][0] + ".beh")) as f:
            lines = f.read().splitlines()[:30]
        open(beh, "w").write("\n".join(lines) + "\n")
        def _selftest(field):
            tr = os.path.join(work, "self-%s.ndjson" % field)
            v, r = vlib.validate(SPEC, "PilerTrace", "PilerTrace.cfg", tr)
            os.remove(tr)
            return len(set(i for i, _ in v["fails"])), v["events"]
        fields = ("member", "to", "mate", "unplaced", "seen", "spanim")
        for field in fields:        # (the driver is run from this thread only: vlib builds it per call on trial trees)
            vlib.harness(["replay", "-in", beh, "-out", os.path.join(work, "self-%s.ndjson" % field), "-corrupt", field],
                         cmd="vpiler")
        for field, (bad, n) in zip(fields, pool.map(_selftest, fields)):
            if bad < n * 0.8:
                raise vlib.Infra("binding self-test: a log with a falsified '%s' field was accepted (%d of %d rejected)" %
                                 (field, bad, n))
        vlib.log("  [self-test] logs with a falsified pile end, member list, mate link, filter view (unplaced feature, "
                 "foreign pile) and member list under a pile-reading filter are rejected by PilerTrace")
        # (C) random instances
        tr = os.path.join(work, "random.ndjson")
        n = 1500 if thorough else 150
        p = vlib.harness(["random", "-n", n, "-seed", ck.seed, "-pairs", 40, "-out", tr], cmd="vpiler")
        for line in p.stdout.splitlines():
            if line.startswith("probe_add_after_piles="):
                ck.extra["observation_outside_statement_add_after_piles"] = line.split("=", 1)[1]
                vlib.log("  [note] outside the statement (Add after a Piles call, then Piles): %s" % line.split("=", 1)[1])
        evs = _judge(ck, "random-40pairs-3loc-0..200", tr, pool, stats)
        e = max(evs[:50], key=lambda e: len(e["adds"]))
        ck.samples.append({"source": "random instance", "adds": len(e["adds"]),
                           "rejected": sum(1 for a in e["adds"] if a["err"]),
                           "calls": [c["kind"] + (">=%d" % c["L"] if c["kind"].startswith("span") else "") for c in e["calls"]],
                           "piles": [[q["loc"], q["from"], q["to"], len(q["im"])] for q in _unfiltered(e)["piles"]]})
        # collect (A)
        for name, note, fut in mc_jobs:
            r = fut.result()
            vlib.tlc_expect_ok(r, name)
            ck.mc(name, r, "all Add orders; " + note)
        for v, note, fut in neg_jobs:
            r = fut.result()
            if r.violated not in LAWS:
                raise vlib.Infra("negative control Variant=%s not refuted (%s):\n%s" % (v, r.violated, r.out[-1500:]))
            ck.mc("PilerNeg:" + v, r, "%s: refuted by %s" % (note, r.violated))
        for name, note, fut in pmc_jobs:
            r = fut.result()
            vlib.tlc_expect_ok(r, name)
            ck.mc(name, r, "all Add orders, then Piles calls; " + note)
        for name, want, note, fut in pneg_jobs:
            r = fut.result()
            if r.violated not in want:
                raise vlib.Infra("negative control %s not refuted by %s (%s):\n%s" % (name, want, r.violated, r.out[-1500:]))
            ck.mc(name, r, "%s: refuted by %s" % (note, r.violated))
        ck.exhaustive = True
        ck.nontrivial = len(stats["nontrivial"])
        ck.extra.update({"distinct_instances": len(stats["instances"]),
                         "instances_with_pile_of_3_or_more": len(stats["chains"]),
                         "instances_with_rejected_add": len(stats["rejected"]),
                         "largest_instance_pairs": stats["maxpairs"], "largest_pile_members": stats["maxpile"],
                         "filtered_piles_calls": stats["filtered_calls"],
                         "instances_with_filter_on_fresh_piler": stats["filter_first"],
                         "pile_reading_filter_calls": stats["span_calls"],
                         "pile_reading_filter_calls_keeping_some_not_all": stats["span_discriminating"]})
        if not stats["filter_first"] or not stats["span_discriminating"]:
            raise vlib.Infra("no instance started with a filtered Piles call, or no pile-reading filter discriminated")
    finally:
        pool.shutdown(wait=True)
        mcpool.shutdown(wait=True)
        shutil.rmtree(work, ignore_errors=True)


def replay(path):
    obj = json.load(open(path))["replay"]
    work = vlib.scratch("c16r-")
    try:
        beh = os.path.join(work, "stored.beh")
        open(beh, "w").write(json.dumps(obj["instance"]) + "\n")
        tr = os.path.join(work, "stored.ndjson")
        vlib.harness(["replay", "-in", beh, "-out", tr], cmd="vpiler")
        v, r = vlib.validate(SPEC, "PilerTrace", "PilerTrace.cfg", tr)
        ev = vlib.read_ndjson(tr)[0]
        vlib.log("  adds: %s" % json.dumps(ev["adds"]))
        vlib.log("  calls: %s" % json.dumps([[c["kind"], c["L"], c["pass"]] for c in ev["calls"]]))
        vlib.log("  piles: %s" % json.dumps(_unfiltered(ev)["piles"]))
        for i, why in v["fails"]:
            vlib.log("VIOLATION property=C16 replay=%s" % path)
            vlib.log("  what: %s" % why)
        if not v["fails"]:
            vlib.log("  the stored instance is judged correct on this tree")
        return 1 if v["fails"] else 0
    finally:
        shutil.rmtree(work, ignore_errors=True)
