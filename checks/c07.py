"""C07 - see spec/Seq (SeqModel.tla, Containers.tla, SeqMC.tla, SeqTrace.tla) and checks/seq_common.py."""
import seq_common


def run(ck, tier):
    ck.rule = ("a case is one edit of a container history (or one sequtils call) performed on the real types and observed "
               "through the public API; non-trivial = an edit or call, not a construction; distinct by content")
    ck.assumptions = [
        "column-stored alignments (alignment.Seq/QSeq) are exercised at offset 0 and with at least one column",
        "letters come from the alphabet's pairing (DNAgapped); qualities are compared for quality-carrying types only",
        "the strand is judged for RevComp and Reverse only; Join is judged on letters; Compose only with features that "
        "intersect the sequence; Trim with dyadic error probabilities so that sums are exact",
    ]
    seq_common.run_seq(ck, tier, "C07")


def replay(path):
    return seq_common.replay("C07", path)
