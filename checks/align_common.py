"""Shared machinery of the aligner checks C08 and C09 (spec/Align)."""
import json, os, shutil
import vlib

C08_FAIL = "total score is below the optimum"


def mc_cfg(maxlen, scores, gaps, opens, invs):
    return "\n".join(["SPECIFICATION Spec", "CONSTANTS", "  MaxLen = %d" % maxlen, "  Scores <- %s" % scores,
                      "  Gaps <- %s" % gaps, "  Opens <- %s" % opens, "INVARIANTS " + " ".join(invs),
                      "CHECK_DEADLOCK FALSE", ""])


def run_align(ck, tier, pid):
    thorough = tier == "thorough"
    ck.rule = ("a case is one Align call (aligner, reference, query, matrix, gap-open) on plain and quality letters with "
               "align.Format of the result, or one ill-typed call; non-trivial = both sequences longer than one letter or "
               "an ill-typed input; distinct by content")
    ck.assumptions = [
        "sequences are given as alphabet indices (gap at index 0); matrix entries and gap scores are small integers so "
        "that TLC's 32-bit arithmetic is exact",
        "the affine gap model of the specification allows a gap in one sequence directly after a gap in the other (each "
        "with its own opening); where the code's three-state model is worse this is a recorded finding",
        "known findings are recognised per input by the as-found operators of AlignDP.tla (SWAffineAsFound, "
        "FittedAffineAsFound, the restricted model) - any other deviation is a violation",
    ]
    # (A) brute force over all alignments = dynamic programming, on every tiny input
    if thorough:
        cfg = mc_cfg(3, "ScoresA", "GapsA", "OpensA", ["DPisBrute", "RestrictedBelow"])
    else:
        cfg = mc_cfg(2, "ScoresA", "GapsA", "OpensA", ["DPisBrute", "RestrictedBelow"])
    r = vlib.tlc("Align", "AlignMC", None, cfg_text=cfg, workers=16, timeout=3400)
    vlib.tlc_expect_ok(r, "AlignMC")
    ck.mc("AlignMC", r, "max over ALL alignments (unmemoised enumeration) = row-folded DP; global/local/fitted, both gap models")
    r = vlib.tlc("Align", "AlignMC", "AlignNeg.cfg", workers=16, timeout=900)
    if r.violated != "RestrictedIsOptimal":
        raise vlib.Infra("negative control (three-state affine model is optimal) not refuted: %s" % r.violated)
    ck.mc("AlignNeg", r, "as-found three-state affine model refuted as suboptimal")
    work = vlib.scratch(pid.lower() + "-")
    try:
        parts = []
        b = os.path.join(work, "bounded.ndjson")
        p = vlib.harness(["bounded", "-n", 60 if thorough else 9, "-len", 3, "-seed", ck.seed, "-out", b], cmd="valign")
        parts.append(("bounded: all pairs of length <= 3 over 2 letters x random small matrices", b))
        rnd = os.path.join(work, "random.ndjson")
        vlib.harness(["random", "-n", 120 if thorough else 24, "-len", 60, "-seed", ck.seed, "-out", rnd], cmd="valign")
        parts.append(("random DNA/protein pairs up to length 60", rnd))
        if thorough:
            rl = os.path.join(work, "long.ndjson")
            vlib.harness(["random", "-n", 6, "-len", 200, "-seed", ck.seed + 7, "-out", rl], cmd="valign")
            parts.append(("random pairs up to length 200", rl))
        if pid == "C09":
            ill = os.path.join(work, "ill.ndjson")
            vlib.harness(["ill", "-seed", ck.seed, "-out", ill], cmd="valign")
            parts.append(("ill-typed inputs", ill))
        listed = {k["key"]: k for k in vlib.known_findings(pid)}
        # the witness call of every listed finding, repeated on the real aligner in every run
        wit = [k["witness"] for k in listed.values() if k.get("witness")]
        if wit:
            wc, wo = os.path.join(work, "witness-calls.ndjson"), os.path.join(work, "witness.ndjson")
            vlib.write_ndjson(wc, wit)
            vlib.harness(["calls", "-in", wc, "-out", wo], cmd="valign")
            parts.insert(0, ("witnesses: the recorded failing call of each listed finding", wo))
        nontriv = set()
        seen_known = {}
        for label, path in parts:
            v, r = vlib.validate("Align", "AlignTrace", "AlignTrace.cfg", path, timeout=3400)
            evs = vlib.read_ndjson(path)
            ck.mc("trace:" + label.split(":")[0].split(" ")[0], r, "%d records (%s)" % (v["events"], label))
            ck.traces += len(evs)
            ck.evaluations += len(evs)
            for e in evs:
                if e["ill"] or (len(e["r"]) > 1 and len(e["q"]) > 1):
                    nontriv.add(json.dumps([e["aligner"], e["r"], e["q"], e["M"], e["open"], e.get("kind")]))
            other = 0
            for l, why in v["fails"]:
                e = evs[l - 1]
                if "SPEC:" in why:
                    raise vlib.Infra("specification inconsistency: %s on %s" % (why, json.dumps(e)[:800]))
                if not why.startswith(pid + ": "):
                    other += 1
                    continue
                why = why[5:]
                ck.violation("%s %s: %s" % (e["aligner"], e.get("kind", ""), why) +
                             ("" if e["ill"] else " r=%s q=%s open=%s pairs=%s" % (e["r"], e["q"], e["open"], e["pairs"])),
                             {"kind": "align-record", "record": e, "why": why})
            for l, key in v["known"]:
                if not key.startswith(pid + "/"):
                    continue
                e = evs[l - 1]
                if key in listed:
                    seen_known.setdefault(key, [0, e])
                    seen_known[key][0] += 1
                else:
                    ck.violation("%s: behaviour of an unlisted finding %s r=%s q=%s pairs=%s" %
                                 (e["aligner"], key, e["r"], e["q"], e["pairs"]),
                                 {"kind": "align-record", "record": e, "why": key})
            if other:
                vlib.log("  [note] %d rejected records concern the other aligner property (C08/C09)" % other)
            if len(ck.samples) < 3:
                ck.samples.append({"source": label, "record": evs[len(evs) // 2]})
        for key, (n, e) in sorted(seen_known.items()):
            ck.known_finding(key, "%s (%d inputs in this run; e.g. r=%s q=%s open=%s M[1..2]=%s pairs=%s)" %
                             (listed[key]["what"], n, e["r"], e["q"], e["open"], e["M"][:3], e["pairs"]))
        ck.nontrivial = len(nontriv)
        # binding self-test
        evs = vlib.read_ndjson([pp for lb, pp in parts if lb.startswith("bounded")][0])
        bad = None
        for e in evs:
            if not e["ill"] and e["err"] == "" and e["aligner"] == "NW" and len(e["pairs"]) > 0:
                bad = json.loads(json.dumps(e))
                if pid == "C08":
                    # a worse alignment presented as the result: everything against gaps
                    n, m = len(e["r"]), len(e["q"])
                    gr = sum(e["M"][x][0] for x in e["r"])
                    gq = sum(e["M"][0][x] for x in e["q"])
                    best = sum(p[4] for p in e["pairs"])
                    if gr + gq >= best:
                        bad = None
                        continue
                    bad["pairs"] = [[0, n, 0, 0, gr], [n, n, 0, m, gq]]
                    bad["qpairs"] = bad["pairs"]
                    bad["fmt"] = [e["r"] + [0] * m, [0] * n + e["q"]]
                else:
                    bad["pairs"][0][4] += 1
                    bad["qpairs"] = bad["pairs"]
                break
        if bad is None:
            raise vlib.Infra("self-test: nothing to corrupt")
        sp = os.path.join(work, "selftest.ndjson")
        vlib.write_ndjson(sp, [bad])
        v, r = vlib.validate("Align", "AlignTrace", "AlignTrace.cfg", sp)
        own = [f for f in v["fails"] if f[1].startswith(pid + ": ")]
        if len(own) != 1:
            raise vlib.Infra("binding self-test failed: corrupted record accepted (%s)" % v)
        ck.parts.append({"part": "binding-selftest", "note": "corrupted record rejected: " + own[0][1]})
        if pid == "C08":
            # extension (beyond C08/C09): the matrices package align/matrix hands to the aligners
            mp = os.path.join(work, "matrices.ndjson")
            vlib.harness(["matrices", "-out", mp], cmd="valign")
            vm, r = vlib.validate("Align", "Matrices", "Matrices.cfg", mp, timeout=600)
            ck.mc("trace:matrices (extension)", r, "%d records: the 78 shipped scoring matrices and matrix.Match on every built-in alphabet" % vm["events"])
            ck.extra["extension_events"] = vm["events"]
            ck.extra["extension_drift"] = len(vm["drift"])
            mevs = vlib.read_ndjson(mp)
            if vm["drift"]:
                vlib.log("  [note] extension (Matrices.tla): %d of %d records differ from the specification (drift, no verdict); first: %s"
                         % (len(vm["drift"]), vm["events"], json.dumps(mevs[vm["drift"][0] - 1])[:300]))
            else:
                bad = json.loads(json.dumps(mevs[0]))
                bad["M"][1][2] += 1
                bp = os.path.join(work, "matrices-bad.ndjson")
                vlib.write_ndjson(bp, [bad])
                vb, r = vlib.validate("Align", "Matrices", "Matrices.cfg", bp, timeout=600)
                if not vb["drift"]:
                    raise vlib.Infra("Matrices specification accepts a corrupted matrix")
    finally:
        shutil.rmtree(work, ignore_errors=True)


def replay(pid, path):
    obj = json.load(open(path))["replay"]
    work = vlib.scratch("ar-")
    try:
        p = os.path.join(work, "t.ndjson")
        vlib.write_ndjson(p, [obj["record"]])
        v, r = vlib.validate("Align", "AlignTrace", "AlignTrace.cfg", p)
        vlib.log("recorded call re-judged: %s; re-run the check with the same VERIF_SEED to call the aligner again" % v)
        if v["fails"] or v["known"]:
            vlib.log("VIOLATION property=%s replay=%s" % (pid, path))
            return 1
        return 0
    finally:
        shutil.rmtree(work, ignore_errors=True)
