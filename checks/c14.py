"""C14 - the PALS q-gram filter reports every epsilon-match (no false negatives).

(A) QGram.tla: declarative epsilon-matches and coverage; the tube machine of filter.go transcribed
    (commonKmer / hitTube / ticker / tubeEnd / final flush on the circular tube list).  TLC checks for
    every target of length <= 5 and query of length <= 10 (quick: 8) over two letters, k = 2, n in {4,5},
    e in {0,1}, tube offsets 1..6, self and non-self, that the machine's hits cover every epsilon-match;
    the as-found retirement/flush is refuted.
(B) small random inputs (k = 2 with kmerindex.MinKmerLen lowered): the real hit list must cover every
    epsilon-match TLC enumerates, and is compared with the model's hit list (drift).
(C) random and repeat-planted pairs up to 400 letters, k 4..7, n 12..41, e 0..3, offsets e..e+5, repeats
    planted at the ends of query and target: every epsilon-match found by a scan (each re-checked by
    TLC) must be covered.
"""
import json, os, shutil
import vlib


def mc_cfg(tail, maxlen, maxlenq, offs):
    return "\n".join(["SPECIFICATION Spec", "CONSTANTS", "  TailRetire = %s" % tail, "  MaxLen = %d" % maxlen,
                      "  MaxLenQ = %d" % maxlenq, "  Ks = {2}", "  Ns = {4, 5}", "  Es = {0, 1}", "  Offs = %s" % offs,
                      "INVARIANT NoFalseNegatives", "CHECK_DEADLOCK FALSE", ""])


def run(ck, tier):
    thorough = tier == "thorough"
    ck.rule = ("a case is one Filter run (target, query, k, n, e, offset, self); non-trivial = at least one epsilon-match "
               "exists; distinct by content")
    ck.assumptions = [
        "sequences over A,C,G,T only; parameters with positive q-gram threshold and offset >= max(e, 1)",
        "for inputs with |T|*|Q| > 1600 the epsilon-matches are those found by a scan in the harness, each re-checked "
        "by the specification; smaller inputs are enumerated by TLC itself",
        "complement-strand filtering is exercised through C15 only",
    ]
    r = vlib.tlc("QGram", "QGramMC", None, cfg_text=mc_cfg("TRUE", 5, 10 if thorough else 8, "{1, 2, 3, 4, 5, 6}"),
                 workers=16, timeout=3400)
    vlib.tlc_expect_ok(r, "QGramMC")
    ck.mc("QGramMC", r, "tube machine covers every epsilon-match, all tiny inputs and parameters")
    if thorough:
        r = vlib.tlc("QGram", "QGramMC", None, cfg_text=mc_cfg("TRUE", 7, 7, "{1, 2, 3, 4, 5, 6}"), workers=16, timeout=3400)
        vlib.tlc_expect_ok(r, "QGramMC(7x7)")
        ck.mc("QGramMC(7x7)", r, "targets and queries up to 7")
    r = vlib.tlc("QGram", "QGramMC", None, cfg_text=mc_cfg("FALSE", 5, 8, "{1, 2, 3, 4, 5, 6}"), workers=16, timeout=900)
    if r.violated != "NoFalseNegatives":
        raise vlib.Infra("negative control (as-found tube retirement) not refuted: %s" % r.violated)
    ck.mc("QGramNeg", r, "as-found tube retirement refuted")
    work = vlib.scratch("c14-")
    try:
        nontriv = set()
        for mode, n, extra in (("small", 20000 if thorough else 3000, []),
                               ("planted", 4000 if thorough else 500, ["-len", 400 if thorough else 300])):
            p = os.path.join(work, mode + ".ndjson")
            vlib.harness([mode, "-n", n, "-seed", ck.seed, "-out", p] + extra, cmd="vqgram", timeout=3000)
            v, r = vlib.validate("QGram", "QGramTrace", "QGramTrace.cfg", p, timeout=3400)
            evs = vlib.read_ndjson(p)
            ck.mc("trace:" + mode, r, "%d runs of the real filter" % v["events"])
            ck.traces += len(evs)
            ck.evaluations += len(evs)
            for e in evs:
                if e["cands"]:
                    nontriv.add(json.dumps([e["T"], e["Q"], e["k"], e["n"], e["e"], e["off"], e["self"]]))
            for l, why in v["fails"]:
                e = evs[l - 1]
                ck.violation("%s; k=%d n=%d e=%d offset=%d self=%s |T|=%d |Q|=%d hits=%s" %
                             (why, e["k"], e["n"], e["e"], e["off"], e["self"], len(e["T"]), len(e["Q"]), e["hits"][:8]),
                             {"kind": "qgram-run", "record": {k: e[k] for k in ("T", "Q", "k", "n", "e", "off", "self", "model")},
                              "why": why})
            if v["drift"]:
                ck.extra["tube_machine_drift"] = ck.extra.get("tube_machine_drift", 0) + len(v["drift"])
                vlib.log("  [note] %d small inputs on which the real hit list differs from the tube machine of QGram.tla: "
                         "model drift, not a verdict" % len(v["drift"]))
            with_hits = [e for e in evs if e["hits"] and e["cands"]]
            ck.samples.append({"source": mode, "record": {k: (with_hits or evs)[0][k] for k in
                                                          ("T", "Q", "k", "n", "e", "off", "self", "hits")}})
        ck.nontrivial = len(nontriv)
        # binding self-test: a run with one covering hit removed must be rejected
        evs = vlib.read_ndjson(os.path.join(work, "small.ndjson"))
        bad = None
        for e in evs:
            if len(e["hits"]) == 1 and e["cands"] and e["err"] == "" and e["panic"] == "":
                bad = json.loads(json.dumps(e))
                bad["hits"] = []
                break
        if bad is None:
            raise vlib.Infra("self-test: no run with a single hit")
        sp = os.path.join(work, "selftest.ndjson")
        vlib.write_ndjson(sp, [bad])
        v, r = vlib.validate("QGram", "QGramTrace", "QGramTrace.cfg", sp)
        if len(v["fails"]) != 1:
            raise vlib.Infra("binding self-test failed: a run without its only hit was accepted")
        ck.parts.append({"part": "binding-selftest", "note": v["fails"][0][1]})
    finally:
        shutil.rmtree(work, ignore_errors=True)


def replay(path):
    obj = json.load(open(path))["replay"]
    vlib.log("replay by re-running the check with the same VERIF_SEED; recorded input: %s" % json.dumps(obj["record"])[:1500])
    return 0
