"""C13 - the external sort never hides I/O failures and leaves no temporary files behind.

(A) MorassConc.tla with its I/O-failure alternatives (one failing TempFile / Encode / Sync per run,
    every writer, both modes) explored exhaustively: NoSilentLoss in every interleaving; the
    as-found variant (a successful Sync overwrites an earlier error) must be refuted.
    MorassImpl.tla with the file-system view (run files on disk, directory) explored exhaustively
    for the residue clauses; the as-found variant (AutoClean ignored by the in-memory path) refuted.
(B) TLC-simulated (fault, schedule) pairs forced on the real code: the fault is a real failure
    (run file closed / directory hidden at the right hook), arrivals and the error report compared.
    TLC-emitted histories with AutoClean / CleanUp replayed with directory listings logged.
(C) Random single-fault runs incl. Seek/Decode/Pull read failures, and random histories with residue
    logged, validated by MorassTrace.tla.
"""
import json, os, shutil
import vlib
from morass_common import judge_trace


def run(ck, tier):
    thorough = tier == "thorough"
    ck.rule = ("a case is one (fault, schedule) pair forced through the hooks, one random single-fault run, or one usage "
               "history with the temporary directory listed after every call; non-trivial = a fault was actually "
               "injected, or the history created run files; distinct by content")
    ck.assumptions = [
        "failures are produced by closing the run file, hiding the temporary directory or corrupting a run at a step "
        "hook, so the code's own error paths run; exactly one operation is made to fail per run",
        "residue is judged for AutoClear (run files), AutoClean and CleanUp (directory) only, as the property states",
        "CleanUp is not issued while background writers may be running",
    ]
    consts = {"NPushes": "{1, 2, 3, 4, 5, 6, 7}", "CSs": "{1, 2, 3}"} if thorough else {}
    r = vlib.tlc("Morass", "MorassConc", None, cfg_text=vlib.subst_cfg("Morass", "MorassFaultMC.cfg", consts),
                 workers=16, timeout=3000)
    vlib.tlc_expect_ok(r, "MorassFaultMC")
    ck.mc("MorassFaultMC", r, "fault x schedule, both modes")
    r = vlib.tlc("Morass", "MorassConc", "MorassFaultNeg.cfg", workers=8, timeout=900)
    if r.violated != "NoSilentLoss":
        raise vlib.Infra("negative control MorassFaultNeg not refuted (%s)" % r.violated)
    ck.mc("MorassFaultNeg", r, "as-found setErr(nil) overwrite refuted")
    mcc = {} if thorough else {"MaxPush": 5}
    r = vlib.tlc("Morass", "MorassImpl", None, cfg_text=vlib.subst_cfg("Morass", "MorassMC.cfg", mcc), workers=16,
                 timeout=3000)
    vlib.tlc_expect_ok(r, "MorassMC")
    ck.mc("MorassMC(residue)", r, "file-system residue invariants over all histories")
    r = vlib.tlc("Morass", "MorassImpl", "MorassNegClean.cfg", workers=4, timeout=600)
    if r.violated != "NoDirAfterAutoCleanDrain":
        raise vlib.Infra("negative control MorassNegClean not refuted (%s)" % r.violated)
    ck.mc("MorassNegClean", r, "as-found in-memory AutoClean refuted")
    work = vlib.scratch("c13-")
    try:
        nontriv = set()
        # (B1) fault x schedule forced on the real code
        sched = os.path.join(work, "fs.ndjson")
        num = 2500 if thorough else 350
        r = vlib.tlc("Morass", "MorassConcGen", "MorassFaultGen.cfg", env={"OUT": sched}, workers=1, timeout=1800,
                     extra=["-simulate", "num=%d" % num, "-depth", "400", "-seed", str(ck.seed)])
        if not os.path.exists(sched):
            raise vlib.Infra("no schedules emitted:\n" + r.out[-2000:])
        ck.mc("MorassFaultGen(simulate)", r, "fault schedules")
        out = os.path.join(work, "fs.out")
        p = vlib.harness(["morass", "sched", "-in", sched, "-out", out], timeout=3000)
        vlib.log("  [fault-sched] %s" % p.stdout.strip())
        evs = vlib.read_ndjson(out)
        ck.traces += len(evs)
        ck.evaluations += len(evs)
        for line, e in zip(open(sched), evs):
            nontriv.add(line)
            if e.get("ok") is not True:
                s = json.loads(line)
                ck.violation("fault %s under a forced schedule: %s" % (json.dumps(s["fault"]), e.get("mismatch")),
                             {"kind": "morass-sched", "schedule": e.get("schedule", s), "observed": e.get("mismatch")})
        ck.samples.append({"source": "TLC (fault, schedule) forced through hooks", "fault": json.loads(open(sched).readline())["fault"],
                           "result": {k: v for k, v in evs[0].items() if k != "schedule"}})
        # (B2) histories with AutoClean / CleanUp from the model
        gen = os.path.join(work, "gen.ndjson")
        r = vlib.tlc("Morass", "MorassImpl", "MorassGenClean.cfg", env={"OUT": gen}, workers=8, timeout=1800)
        vlib.tlc_expect_ok(r, "MorassGenClean")
        ck.mc("MorassGenClean", r, "behaviour emission")
        tr = os.path.join(work, "replay.ndjson")
        p = vlib.harness(["morass", "replay", "-in", gen, "-out", tr, "-kd", 8, "-seed", ck.seed])
        vlib.log("  [replay] %s" % p.stdout.strip())
        v, segs = judge_trace(ck, tr, "residue-behaviours")
        for _, s in segs:
            if any(e.get("ndisk", 0) > 0 for e in s):
                nontriv.add(json.dumps([(e["op"], e.get("err", ""), e.get("ndisk")) for e in s] + [s[0]["cs"], s[0]["ac"], s[0]["acl"]]))
        ck.samples.append({"source": "TLC behaviour with residue logged", "events": segs[len(segs) // 3][1][:10]})
        # (C) random single-fault runs and random histories
        fr = os.path.join(work, "faults.ndjson")
        n = 6000 if thorough else 800
        vlib.harness(["morass", "faults", "-n", n, "-seed", ck.seed, "-out", fr])
        tr2 = os.path.join(work, "random.ndjson")
        vlib.harness(["morass", "random", "-n", 1500 if thorough else 250, "-big", "-seed", ck.seed + 1000, "-out", tr2])
        vlib.take_stall(tr2)  # a stall of a fault-free history is C11's to report
        allp = os.path.join(work, "all.ndjson")
        with open(allp, "w") as f:
            f.write(open(fr).read())
            f.write(open(tr2).read())
        fevs = vlib.read_ndjson(fr)
        inj = [e for e in fevs if e["injected"]]
        vlib.log("  [faults] %d single-fault runs, %d with the fault reached; sites: %s" %
                 (len(fevs), len(inj), sorted(set(e["site"] for e in inj))))
        for e in inj:
            nontriv.add(json.dumps([e["cs"], e["npush"], e["conc"], e["site"], e["k"]]))
        v = vlib.validate("Morass", "MorassTrace", "MorassTrace.cfg", allp)
        verdict, r = v
        ck.mc("trace:faults+random", r, "%d events" % verdict["events"])
        evs = vlib.read_ndjson(allp)
        ck.traces += len(fevs) + len(vlib.segments(evs))
        ck.evaluations += len(evs)
        for l, why in verdict["fails"]:
            e = evs[l - 1]
            ck.violation("%s: %s" % (why, json.dumps(e)), {"kind": "morass-event", "event": e, "why": why,
                                                          "cmd": "vharness morass faults|random -seed %d" % ck.seed})
        ck.samples.append({"source": "single-fault run", "event": inj[0] if inj else fevs[0]})
        # vacuity guard: every kind of provoked failure must actually make some call fail on a tree that holds
        if not ck.violations:
            for site in ("tempfile", "encode", "sync", "seek", "decode", "pullread", "pulltrunc"):
                if not any(e["site"] == site and e["injected"] and e["reported"] for e in fevs):
                    raise vlib.Infra("fault site %s never produced a reported failure: the injection is ineffective" % site)
            if not any(e["site"] == "clearremove" and e["clearinjected"] and e["clearerr"] for e in fevs):
                raise vlib.Infra("no Clear failed half way: the residue-after-failed-Clear case was not exercised")
        ck.nontrivial = len(nontriv)
    finally:
        shutil.rmtree(work, ignore_errors=True)


def replay(path):
    import c12
    rc = c12.replay(path)
    return rc
