"""Shared machinery of the sequence checks C05, C06, C07 (spec/Seq)."""
import json, os, shutil
import vlib

C05_OPS = {"revcomp", "reverse", "rowrevcomp", "rowreverse", "set", "cloneprobe", "cloneappend", "emptyprobe"}
NEGS = {"C05": ("MirrorAboutSpan", "ImplInvolution"), "C06a": ("TrimTracksStart", "PureLaws"), "C06b": ("FreshReverser", "PureLaws")}


def mc_cfg(kinds, rows, cols, off, edits, invariants, flags=None, view=True):
    fl = {"MirrorAboutSpan": "TRUE", "TrimTracksStart": "TRUE", "FreshReverser": "TRUE"}
    fl.update(flags or {})
    return "\n".join([
        "SPECIFICATION Spec", "CONSTANTS",
        "  Kinds = {%s}" % ", ".join('"%s"' % k for k in kinds),
        "  MaxRows = %d" % rows, "  MaxCols = %d" % cols, "  MaxOff = %d" % off, "  MaxEdits = %d" % edits,
    ] + ["  %s = %s" % kv for kv in fl.items()] + (["VIEW View"] if view else []) +
        ["INVARIANTS " + " ".join(invariants), "CHECK_DEADLOCK FALSE", ""])


def prop_of(e):
    if e["ev"] == "call":
        return "C06"
    if e["ev"] == "emptyprobe":
        return "C05"
    if e["ev"] == "reset":
        return "both"
    return "C05" if e.get("op") in C05_OPS else "C07"


def judge(ck, pid, path, label):
    v, r = vlib.validate("Seq", "SeqTrace", "SeqTrace.cfg", path, timeout=3000)
    evs = vlib.read_ndjson(path)
    ck.mc("trace:" + label, r, "%d events" % v["events"])
    mine = [e for e in evs if prop_of(e) in (pid, "both")]
    ck.evaluations += len(mine)
    ck.traces += sum(1 for e in evs if e["ev"] in ("reset", "call"))
    other = 0
    for l, why in v["fails"]:
        e = evs[l - 1]
        if prop_of(e) not in (pid, "both"):
            other += 1
            continue
        # the history up to the rejected event
        j = l - 1
        while j > 0 and evs[j]["ev"] not in ("reset", "call"):
            j -= 1
        ck.violation("%s: %s" % (why, json.dumps({k: v2 for k, v2 in e.items() if k not in ("obs", "cloneobs")})[:500]),
                     {"kind": "seq-history", "history": evs[j:l], "why": why})
    if other:
        vlib.log("  [note] %d rejected events belong to another property of the sequence family (see C05/C06/C07)" % other)
    return evs, mine


def extension(ck, work, thorough):
    """Beyond C05-C07: Multi.IsFlush/Column/Join/Stitch/Compose (MultiExt.tla). Drift only, never a verdict."""
    r = vlib.tlc("Seq", "MultiExtMC", "MultiExtMC.cfg", workers=8, timeout=1200)
    vlib.tlc_expect_ok(r, "MultiExtMC")
    ck.mc("MultiExtMC (extension)", r, "laws of Multi Flush/Column/Join/Stitch/Compose on all grids <= 2 rows x 2 cells")
    r = vlib.tlc("Seq", "MultiExtMC", "MultiExtNeg.cfg", workers=8, timeout=1200)
    if r.violated != "StitchIsRowStitch":
        raise vlib.Infra("negative control (Multi.Stitch without the flush) not refuted: %s" % r.violated)
    ck.mc("MultiExtNeg (extension)", r, "Stitch without flushing first is refuted")
    total, drift, first = 0, 0, None
    for small in (False, True, None):
        p = os.path.join(work, "multiext%s.ndjson" % small)
        if small is None:
            # sequtils calls on quality vectors (seq/quality)
            vlib.harness(["qualcalls", "-n", 8000 if thorough else 1000, "-seed", ck.seed, "-out", p], cmd="vseq")
        else:
            vlib.harness(["multiext", "-n", 6000 if thorough else 800, "-seed", ck.seed, "-out", p] + (["-small"] if small else []),
                         cmd="vseq")
        v, r = vlib.validate("Seq", "SeqTrace", "SeqTrace.cfg", p, timeout=3000)
        ck.mc("trace:%s (extension)" % ("qualcalls" if small is None else "multiext-small" if small else "multiext"), r, "%d events" % v["events"])
        if v["fails"]:
            raise vlib.Infra("extension events produced verdicts: %s" % v["fails"][:2])
        total += v["events"]
        drift += len(v["drift"])
        if v["drift"] and first is None:
            first = vlib.read_ndjson(p)[v["drift"][0] - 1]
    ck.extra["extension_events"] = total
    ck.extra["extension_drift"] = drift
    if drift:
        vlib.log("  [note] extension (MultiExt.tla, quality vectors): %d of %d operations differ from the specification "
                 "(drift, no verdict); first: %s" % (drift, total, json.dumps(first)[:700]))


def run_seq(ck, tier, pid):
    thorough = tier == "thorough"
    work = vlib.scratch(pid.lower() + "-")
    try:
        # (A) model level
        if pid in ("C05", "C07"):
            inv = ["RevCompLaw", "RevCompInvolution", "ReverseTwice", "RowMirrorLaw"] if pid == "C05" else \
                  ["ShapeKept", "AppendLaw", "DeleteLaw", "FlushLaw", "CutLaw"]
            kinds = ["lin", "qlin", "aln", "qaln", "multi", "qmulti"]
            cfg = mc_cfg(kinds, 2, 2, 1, 2 if thorough else 1, inv)
            r = vlib.tlc("Seq", "SeqMC", None, cfg_text=cfg, workers=16, timeout=3400)
            vlib.tlc_expect_ok(r, "SeqMC")
            ck.mc("SeqMC", r, "all containers <= 2x2, offsets -1..1, histories of %d edits" % (2 if thorough else 1))
            if thorough:
                for kinds3, off3 in ((["multi", "aln"], 1), (["multi"], 2)):
                    cfg = mc_cfg(kinds3, 3, 2, off3, 1, inv)
                    r = vlib.tlc("Seq", "SeqMC", None, cfg_text=cfg, workers=16, timeout=3400)
                    vlib.tlc_expect_ok(r, "SeqMC(3 rows)")
                    ck.mc("SeqMC(3 rows, %s)" % "+".join(kinds3), r, "3 rows x 2 columns, offsets -1..%d, one edit" % off3)
        if pid == "C06":
            r = vlib.tlc("Seq", "SeqMC", "SeqPure.cfg", workers=4, timeout=1800)
            vlib.tlc_expect_ok(r, "SeqPure")
            ck.mc("SeqPure", r, "Trim/Compose operational = declarative, Stitch and Truncate laws, all small inputs")
        negs = [("C05", "MirrorAboutSpan", "ImplInvolution")] if pid == "C05" else \
               [("C06", "TrimTracksStart", "PureLaws"), ("C06", "FreshReverser", "PureLaws")] if pid == "C06" else []
        for _, flag, inv in negs:
            cfg = mc_cfg(["multi"], 2, 1, 1, 0, [inv], {flag: "FALSE"})
            r = vlib.tlc("Seq", "SeqMC", None, cfg_text=cfg, workers=4, timeout=900)
            if r.violated != inv:
                raise vlib.Infra("negative control %s=FALSE not refuted (%s)" % (flag, r.violated))
            ck.mc("SeqNeg(%s)" % flag, r, "as-found variant refuted")
        if pid == "C07":
            # negative control on the binding side: a corrupted observation must be rejected (below)
            pass
        traces = []
        # (B) histories of the bounded model on the real containers
        if pid in ("C05", "C07"):
            gen = os.path.join(work, "gen.ndjson")
            cfg = mc_cfg(["lin", "qlin", "aln", "qaln", "multi", "qmulti"], 2, 1, 1, 2, ["EmitHistories"], view=False)
            r = vlib.tlc("Seq", "SeqMC", None, cfg_text=cfg, env={"OUT": gen}, workers=8, timeout=3400)
            vlib.tlc_expect_ok(r, "SeqGen")
            ck.mc("SeqGen", r, "history emission")
            rp = os.path.join(work, "replay.ndjson")
            stride = 4 if thorough else 30
            p = vlib.harness(["replay", "-in", gen, "-stride", stride, "-seed", ck.seed, "-out", rp], cmd="vseq")
            vlib.log("  [replay] every %dth history of the bounded model on real containers: %s" % (stride, p.stdout.strip()))
            traces.append(("model-histories", rp))
            ck.exhaustive = stride == 1
        # (C) random
        n = 12000 if thorough else 1500
        if pid in ("C05", "C07"):
            for small, tag in ((False, "random"), (True, "random-small")):
                p = os.path.join(work, tag + ".ndjson")
                args = ["histories", "-n", n, "-seed", ck.seed + (1 if small else 0), "-out", p] + (["-small"] if small else [])
                vlib.harness(args, cmd="vseq")
                traces.append((tag, p))
        else:
            for small, tag in ((False, "calls"), (True, "calls-small")):
                p = os.path.join(work, tag + ".ndjson")
                args = ["calls", "-n", 2 * n, "-seed", ck.seed + (1 if small else 0), "-out", p] + (["-small"] if small else [])
                vlib.harness(args, cmd="vseq")
                traces.append((tag, p))
        if pid == "C07":
            extension(ck, work, thorough)
        nontriv = set()
        sample_done = False
        for label, path in traces:
            evs, mine = judge(ck, pid, path, label)
            for e in mine:
                if e["ev"] != "reset":
                    nontriv.add(json.dumps({k: v for k, v in e.items() if k not in ("id",)}, sort_keys=True))
            if not sample_done and mine:
                ck.samples.append({"source": label, "events": [{k: v for k, v in e.items() if k != "cloneobs"} for e in evs[:3]]})
                sample_done = True
        ck.nontrivial = len(nontriv)
        # binding self-test: a corrupted observation must be rejected
        evs = vlib.read_ndjson(traces[-1][1])
        bad = None
        for i, e in enumerate(evs):
            if pid == "C06" and e["ev"] == "call" and e["err"] == "" and e["res"]["cells"]:
                bad = [json.loads(json.dumps(e))]
                bad[0]["res"]["cells"][0][0] ^= 2
                break
            if pid != "C06" and e["ev"] == "edit" and prop_of(e) == pid and e["obs"]["rows"] and e["obs"]["rows"][0]["cells"]:
                j = i
                while evs[j]["ev"] != "reset":
                    j -= 1
                bad = json.loads(json.dumps(evs[j:i + 1]))
                bad[-1]["obs"]["rows"][0]["cells"][0][0] ^= 2
                break
        if bad is None:
            raise vlib.Infra("self-test: nothing to corrupt")
        p = os.path.join(work, "selftest.ndjson")
        vlib.write_ndjson(p, bad)
        v, r = vlib.validate("Seq", "SeqTrace", "SeqTrace.cfg", p)
        if len(v["fails"]) != 1:
            raise vlib.Infra("binding self-test failed: corrupted observation accepted")
        ck.parts.append({"part": "binding-selftest", "note": "corrupted observation rejected: " + v["fails"][0][1]})
    finally:
        shutil.rmtree(work, ignore_errors=True)


def replay(pid, path):
    obj = json.load(open(path))["replay"]
    work = vlib.scratch("sr-")
    try:
        p = os.path.join(work, "t.ndjson")
        vlib.write_ndjson(p, obj["history"])
        v, r = vlib.validate("Seq", "SeqTrace", "SeqTrace.cfg", p)
        vlib.log("recorded history re-judged (%d events); re-run the check with the same VERIF_SEED to regenerate it from the "
                 "real code" % len(obj["history"]))
        if v["fails"]:
            vlib.log("VIOLATION property=%s replay=%s" % (pid, path))
            return 1
        return 0
    finally:
        shutil.rmtree(work, ignore_errors=True)
