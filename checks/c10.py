"""C10 - the k-mer index returns exactly the occurrences of every k-mer (index/kmerindex).

(A) spec/Kmer/Kmer.tla explored exhaustively by TLC: the rolling machine of ForEachKmerOf and the
    counting / prefix-sum / placement arrays of Build (written as the code is written) against the
    declarative Occ(S,k,w) and window sets, for ALL sequences over {a,c,g,t,n,A} up to MaxLen, k in {2,3},
    all sub-ranges [start,end); word-level laws (Enc/Dec, Format, reverse complement, GC) for all words.
    Negative controls (watermark set one position early; inclusive prefix sum; missing mask) must be refuted.
    spec/Kmer/KmerQueries.tla: the life of an index as a state machine - New reads the letters, Build, then any
    history of queries (one word, all words, Check) and of writes by the caller into what it was handed; every
    answer is a function of the indexed sequence only (LastAnswerExact, AnswersPure, action law HistoryFree).
    Negative control: a query hands out a window of the position table and a caller's write changes a later answer.
(B) TLC emits every sequence of that bounded model; the real code indexes them (the exported
    kmerindex.MinKmerLen lowered to k) and every answer - frequencies, positions of all 4^k words, maps,
    Check(), call-backs on all sub-ranges - is judged by KmerTrace.tla with the declarative operators; the
    internal finger/pos arrays are compared with the operational model (binding; differences are drift).
    The driver uses the index as a caller may: it overwrites every element of every slice and map a query hands
    out, then asks all the questions again; both rounds are judged against the same declarative answers.
(C) exhaustive k=4 over {a,c,g,t,n}, random sequences up to several thousand letters, k in 4..10, both cases,
    runs of invalid letters; all words of small k through Format/KmerOf/ComplementOf/GCof.
"""
import collections, json, os, random, shutil
from concurrent.futures import ThreadPoolExecutor
import vlib

VALID = set(b"acgtACGT")


def _mc_cfg(maxlen, pre, emit=False, invs=None, ks="{2, 3}"):
    """KmerMC.cfg with other bounds; EmitCases added when the cases are to be written to $OUT."""
    t = vlib.subst_cfg("Kmer", "KmerMC.cfg", {"MaxLen": maxlen, "Pre": pre, "Ks": ks})
    line = [l for l in t.splitlines() if l.startswith("INVARIANTS")]
    if len(line) != 1:
        raise vlib.Infra("KmerMC.cfg: INVARIANTS line not found")
    return t.replace(line[0], "INVARIANTS " + (invs or line[0][len("INVARIANTS "):]) + (" EmitCases" if emit else ""))


def _evaluations(e):
    if e["op"] == "word":
        return 4
    if e["op"] == "kmerof":
        return 1
    return 4 + sum(len(e[f]) + len(e[f + "2"]) for f in ("freq", "fq", "index", "sindex", "q", "qt")) + len(e["ranges"])


def _key(e):
    if e["op"] == "case":
        return json.dumps([e["s"], e["k"]])
    return json.dumps([e["op"], e["k"], e.get("kmer"), e.get("text")])


def _nontrivial(e):
    """a sequence with a valid window and either an invalid letter or a word occurring twice; any word event"""
    if e["op"] != "case":
        return e["op"] == "word" or e["err"] == ""
    if e["err"] or e["chkfound"] < 1:
        return False
    return e["indexn"] < e["chkfound"] or any(b not in VALID for b in e["s"])


def _what(e, why):
    if e["op"] == "case":
        s = bytes(e["s"])
        return "k=%d sequence %r%s (%d letters): %s" % (e["k"], s[:120], "..." if len(s) > 120 else "", len(s), why)
    if e["op"] == "word":
        return "k=%d word %d: %s (observed %s)" % (e["k"], e["kmer"], why, json.dumps({k: e[k] for k in
                                                   ("text", "back", "backerr", "comp", "comptext", "gcppm")}))
    return "k=%d text %r: %s (observed kmer=%d err=%r)" % (e["k"], bytes(e["text"]), why, e["kmer"], e["err"])


class Judge:
    """Validates events in parallel shards with KmerTrace.tla."""

    def __init__(self, ck, work, pool, shards):
        self.ck, self.work, self.pool, self.shards = ck, work, pool, shards
        self.pending = []
        self.drift = collections.Counter()
        self.first_drift = {}
        self.keys = set()

    def submit(self, label, events):
        if not events:
            return
        n = max(1, min(self.shards, len(events) // 200 + 1))
        bins = [[] for _ in range(n)]
        load = [0] * n
        for e in sorted(events, key=lambda e: -_evaluations(e)):
            i = load.index(min(load))
            bins[i].append(e)
            load[i] += 40 + _evaluations(e) + (len(e.get("s", [])) if e["op"] == "case" else 0)
        for i, b in enumerate(bins):
            p = os.path.join(self.work, "%s-%d.ndjson" % (label, i))
            vlib.write_ndjson(p, b)
            f = self.pool.submit(vlib.validate, "Kmer", "KmerTrace", "KmerTrace.cfg", p, None, 3400, 1)
            self.pending.append((label, i, b, f))

    def collect(self):
        per = collections.OrderedDict()
        for label, i, evs, f in self.pending:
            v, r = f.result()
            if v["events"] != len(evs):
                raise vlib.Infra("trace validation of %s-%d judged %d of %d events" % (label, i, v["events"], len(evs)))
            a = per.setdefault(label, [0, 0, 0, 0.0])
            a[0] += len(evs)
            a[1] += r.generated
            a[2] += r.distinct
            a[3] = max(a[3], r.wall)
            self.ck.traces += len(evs)
            for e in evs:
                self.ck.evaluations += _evaluations(e)
                if _nontrivial(e):
                    self.keys.add(_key(e))
            for l, why in v["fails"]:
                e = evs[l - 1]
                self.ck.violation(_what(e, why), {"kind": "kmer-event", "event": e, "why": why})
            for l, note in v.get("drift", []):
                self.drift[note] += 1
                self.first_drift.setdefault(note, evs[l - 1])
        self.pending = []
        for label, (n, gen, dist, wall) in per.items():
            self.ck.states += dist
            self.ck.transitions += gen
            self.ck.parts.append({"part": "trace:" + label, "distinct_states": dist, "states_generated": gen,
                                  "wall_s": round(wall, 1), "note": "%d events of the real code judged" % n})
            vlib.log("  [tlc] %-28s %9d events judged by KmerTrace.tla, slowest shard %.1fs" % ("trace:" + label, n, wall))


def _selftest(ck, work, events):
    """Binding self-test: corrupted records of the real run must be rejected, the originals accepted."""
    case = next((e for e in events if e["op"] == "case" and e["err"] == "" and e["index"] and
                 any(r[3] for r in e["ranges"]) and any(x[2] for x in e["q2"])), None)
    word = next((e for e in events if e["op"] == "word"), None)
    if case is None or word is None:
        raise vlib.Infra("self-test: no event to corrupt")
    a = json.loads(json.dumps(case))
    a["index"][0][1] = a["index"][0][1][:-1]                    # one occurrence lost
    b = json.loads(json.dumps(case))
    r = next(r for r in b["ranges"] if r[3])
    r[3][-1][1] ^= 1                                            # last call-back reports another word
    c = json.loads(json.dumps(case))
    c["fq"] = [[c["index"][0][0], len(c["index"][0][1]) + 1]]   # a frequency one too high
    d = json.loads(json.dumps(word))
    d["comp"] ^= 1
    # second round only: what a caller wrote into an earlier answer shows up in a later one
    f = json.loads(json.dumps(case))
    f["index2"][0][1][0] = f["sentinel"]                        # KmerIndex asked again
    g = json.loads(json.dumps(case))
    i = next(i for i, x in enumerate(g["q2"]) if x[2])
    g["q2"][i][2] = [g["sentinel"]] * len(g["q2"][i][2])        # one KmerPositions asked again
    h = json.loads(json.dumps(case))
    h["chkok2"], h["chkfound2"] = False, 0                      # Check() asked again
    p = os.path.join(work, "selftest.ndjson")
    vlib.write_ndjson(p, [a, b, c, d, f, g, h, case, word])
    v, r = vlib.validate("Kmer", "KmerTrace", "KmerTrace.cfg", p)
    if [x[0] for x in v["fails"]] != [1, 2, 3, 4, 5, 6, 7] or \
            not all(x[1].startswith("asked again after the caller overwrote") for x in v["fails"][4:]):
        raise vlib.Infra("binding self-test failed: corrupted events accepted or originals rejected: %s" % v["fails"])
    ck.parts.append({"part": "binding-selftest", "note": "7 corrupted events rejected (3 of them in the second round of "
                     "questions only), originals accepted: " + "; ".join(x[1][:60] for x in v["fails"][:4]) + "; " +
                     "; ".join(x[1][80:140] for x in v["fails"][4:])})
    vlib.log("  [selftest] 7 corrupted events rejected by KmerTrace.tla (3 of them wrong in the second round of "
             "questions only), the 2 originals accepted")


def run(ck, tier):
    thorough = tier == "thorough"
    ck.rule = ("a case is one (sequence, k) indexed by the real code with all its questions (frequencies, position maps, "
               "single look-ups, Check, call-backs on sub-ranges; every slice and map handed out is overwritten by the "
               "driver, then all questions are asked a second time and judged again), or one (k, word) through "
               "Format/KmerOf/ComplementOf/GCof; "
               "non-trivial = the sequence has a valid window and also an invalid letter or a word occurring more than "
               "once; distinct by (sequence, k) or (k, word)")
    ck.assumptions = [
        "the alphabet is alphabet.DNA (acgt, case insensitive); letters are bytes; k-mer texts are ASCII "
        "(non-ASCII texts make KmerOf index its table out of range - outside the statement, reported as a note)",
        "word lengths 2..10 for indexes (MinKmerLen is lowered by the harness for k < 4), 2..15 for the word functions; "
        "Kmer arithmetic is modelled on integers, which is exact while 4^k < 2^31",
        "the machine of ForEachKmerOf never reads a letter before start nor looks ahead, so choosing each letter when it "
        "is read explores the same behaviours as choosing the sequence first; in the quick tier the letters before "
        "start are fixed to 'n' for that reason (all letters in the thorough tier)",
        "sequences longer than 400 letters are judged on sampled words and ranges, through the table of window codes "
        "(the lemma that this table yields Occ is part of IndexExact)",
        "histories of queries: in the model any interleaving of look-ups, Check and single writes by the caller; on the "
        "real code one fixed history per index - every question, each result overwritten completely (sentinel -7) as "
        "soon as it has been logged, then every question again. Overwriting more can only corrupt more, so this history "
        "shows whatever a shorter one would; results are overwritten, not resliced or appended to",
        "an error returned by ForEachKmerOf for a range starting within k-2 letters of the end of the sequence is accepted "
        "(no call-backs are due there); reported as a note",
    ]
    work = vlib.scratch("c10-")
    pool = ThreadPoolExecutor(max_workers=14 if thorough else 8)
    try:
        vlib.build_harness(cmd="vkmer")
        emitted = os.path.join(work, "emitted.ndjson")
        # (A) model checking, started first; the drivers and their validation run beside it
        if thorough:
            fmc = pool.submit(vlib.tlc, "Kmer", "Kmer", None, cfg_text=_mc_cfg(7, "{97, 99, 103, 116, 110, 65}", emit=True),
                              env={"OUT": emitted}, workers=16, timeout=3400)
        else:
            fmc = pool.submit(vlib.tlc, "Kmer", "Kmer", None, cfg_text=_mc_cfg(6, "{110}", emit=True),
                              env={"OUT": emitted}, workers=16, timeout=1700)
        fwl = pool.submit(vlib.tlc, "Kmer", "Kmer", None, workers=4, timeout=900,
                          cfg_text=_mc_cfg(0, "{110}", invs="WordLaws",
                                           ks="{2, 3, 4, 5, 6, 7, 8}" if thorough else "{2, 3, 4, 5, 6, 7}"))
        # the life of an index: Build, then any history of queries and caller writes
        qcfg = vlib.subst_cfg("Kmer", "KmerQueriesMC.cfg", {"Ks": "{2, 3}"} if thorough else {})
        fq = pool.submit(vlib.tlc, "Kmer", "KmerQueries", None, cfg_text=qcfg, workers=8 if thorough else 3, timeout=3400)
        fqn = pool.submit(vlib.tlc, "Kmer", "KmerQueries", "KmerQueriesNeg.cfg", workers=2, timeout=900)
        negs = []
        for variant, expect in (("high_before_increment", ("VisitsExact", "Rolling")), ("inclusive_prefix", ("IndexExact",)),
                                ("no_mask", ("VisitsExact", "TypeOK"))):
            cfg = vlib.subst_cfg("Kmer", "KmerNeg.cfg", {"Variant": '"%s"' % variant})
            negs.append((variant, expect, pool.submit(vlib.tlc, "Kmer", "Kmer", None, cfg_text=cfg, workers=2, timeout=900)))
        # (C) words and random sequences through the real code
        judge = Judge(ck, work, pool, 6)
        wt = os.path.join(work, "words.ndjson")
        p = vlib.harness(["kmer", "words", "-n", 400 if thorough else 60, "-seed", ck.seed, "-out", wt] +
                         (["-big"] if thorough else []), cmd="vkmer")
        wevs = vlib.read_ndjson(wt)
        vlib.log("  [words] %s Format/KmerOf/ComplementOf/GCof events" % p.stdout.strip())
        judge.submit("words", wevs)
        rt = os.path.join(work, "random.ndjson")
        p = vlib.harness(["kmer", "random", "-n", 2500 if thorough else 300, "-seed", ck.seed, "-out", rt] +
                         (["-big"] if thorough else []), cmd="vkmer", timeout=3000)
        revs = vlib.read_ndjson(rt)
        vlib.log("  [random] %s (argument checks, exhaustive k=4 short sequences, random sequences k 4..10)" % p.stdout.strip())
        judge.submit("random", revs)

        # (A) results
        r = fmc.result()
        vlib.tlc_expect_ok(r, "KmerMC")
        ck.mc("KmerMC", r, "all sequences over {a,c,g,t,n,A} of length <= %d, k in {2,3}, all sub-ranges; operational == declarative"
              % (7 if thorough else 6))
        rw = fwl.result()
        vlib.tlc_expect_ok(rw, "KmerWordLaws")
        ck.mc("KmerMC(word laws)", rw, "Enc/Dec, Format, reverse complement, GC: digit loops == string operations, all words, k 2..%d" % (8 if thorough else 7))
        for variant, expect, f in negs:
            rn = f.result()
            if rn.violated not in expect:
                raise vlib.Infra("negative control %s not refuted (%s):\n%s" % (variant, rn.violated, rn.out[-1500:]))
            ck.mc("KmerNeg(%s)" % variant, rn, "wrong variant refuted: %s" % rn.violated)
        rq = fq.result()
        vlib.tlc_expect_ok(rq, "KmerQueriesMC")
        ck.mc("KmerQueriesMC", rq, "New, Build, then every history of look-ups, Check and caller writes: all sequences over "
              "{a,c,t,n,A} of length <= 5, k in %s; every answer is a function of the indexed sequence only"
              % ("{2,3}" if thorough else "{2}"))
        rqn = fqn.result()
        if rqn.violated != "LastAnswerExact" or "<CallerWrites " not in rqn.out:
            raise vlib.Infra("negative control alias_answers not refuted by a caller's write (%s):\n%s"
                             % (rqn.violated, rqn.out[-1500:]))
        ck.mc("KmerQueriesNeg(alias_answers)", rqn, "an answer that aliases the position table: a caller's write changes a "
              "later answer; refuted: LastAnswerExact")
        if thorough:
            r8 = vlib.tlc("Kmer", "Kmer", None, workers=16, timeout=3400,
                          cfg_text=_mc_cfg(8, "{110}", invs="TypeOK VisitsExact Rolling"))
            vlib.tlc_expect_ok(r8, "KmerMC-8")
            ck.mc("KmerMC(len 8, visits)", r8, "ForEachKmerOf only: all sequences of length <= 8, all sub-ranges")
        # (B) the sequences of the bounded model through the real code
        if not os.path.exists(emitted):
            raise vlib.Infra("TLC emitted no cases")
        cases = [json.loads(l) for l in open(emitted)]
        total = len(cases)
        if len(set(json.dumps(c) for c in cases)) != total:
            raise vlib.Infra("emitted cases are not distinct")
        rnd = random.Random(ck.seed)
        short = [c for c in cases if len(c["s"]) <= 4]
        rest = [c for c in cases if len(c["s"]) > 4]
        rnd.shuffle(rest)
        budget = 40000 if thorough else 1800
        cases = short + rest[:budget]
        ck.exhaustive = len(cases) == total
        cin = os.path.join(work, "cases.ndjson")
        vlib.write_ndjson(cin, cases)
        ct = os.path.join(work, "cases-trace.ndjson")
        p = vlib.harness(["kmer", "cases", "-in", cin, "-out", ct], cmd="vkmer", timeout=3000)
        cevs = vlib.read_ndjson(ct)
        vlib.log("  [emitted] %d of the %d sequences of the bounded model indexed by the real code (MinKmerLen lowered to k)"
                 % (len(cevs), total))
        judge.submit("model-cases", cevs)
        judge.collect()
        if not ck.violations:   # the self-test needs events the specification accepts
            _selftest(ck, work, cevs + wevs)

        # extension (beyond C10): util.DeBruijn against its definition and the transcribed construction
        r = vlib.tlc("Util", "DeBruijn", "DeBruijnMC.cfg", workers=2, timeout=600)
        vlib.tlc_expect_ok(r, "DeBruijnMC")
        ck.mc("DeBruijnMC (extension)", r, "the Lyndon-word construction yields a de Bruijn sequence for all k <= 4, n <= 4")
        dbp = os.path.join(work, "debruijn.ndjson")
        vlib.harness(["debruijn", "-max", 1100 if thorough else 300, "-out", dbp], cmd="vutil")
        vd, r = vlib.validate("Util", "DeBruijnTrace", "DeBruijnTrace.cfg", dbp, timeout=3000)
        ck.mc("trace:debruijn (extension)", r, "%d outputs of util.DeBruijn" % vd["events"])
        ck.extra["extension_events"] = vd["events"]
        ck.extra["extension_drift"] = len(vd["drift"])
        if vd["drift"]:
            vlib.log("  [note] extension (DeBruijn.tla): %d of %d outputs differ from the specification (drift, no verdict)"
                     % (len(vd["drift"]), vd["events"]))
        # extension (beyond C10): util.Wrapper, the line-wrapping and limiting io.Writer, as a state machine
        for cfg, note in (("WrapperMC.cfg", "width 3, limit 7, <= 4 calls of <= 4 bytes: wrapped lines, prefix of the input, limit"),
                          ("WrapperMC2.cfg", "width 2, no limit, underlying writer failing after 6 bytes")):
            r = vlib.tlc("Util", "Wrapper", cfg, workers=2, timeout=600)
            vlib.tlc_expect_ok(r, cfg)
            ck.mc("%s (extension)" % cfg[:-4], r, note)
        for cfg, inv, note in (("WrapperNegCount.cfg", "DocCount", "documented 'n <= len(p)' refuted: the count returned includes the line feeds inserted"),
                               ("WrapperNegLimit.cfg", "LimitRespected", "width 0: the limit bounds each call, not the stream (the counter is not advanced): refuted")):
            r = vlib.tlc("Util", "Wrapper", cfg, workers=2, timeout=600)
            if r.violated != inv:
                raise vlib.Infra("negative control %s not refuted: %s" % (cfg, r.violated))
            ck.mc("%s (extension)" % cfg[:-4], r, note)
        wp = os.path.join(work, "wrapper.ndjson")
        vlib.harness(["wrapper", "-n", 20000 if thorough else 1500, "-seed", ck.seed, "-out", wp], cmd="vutil")
        vw, r = vlib.validate("Util", "WrapperTrace", "WrapperTrace.cfg", wp, timeout=3000)
        ck.mc("trace:wrapper (extension)", r, "%d histories of Write calls on util.Wrapper (12400 exhaustive small ones)" % vw["events"])
        ck.extra["extension_events"] += vw["events"]
        ck.extra["extension_drift"] += len(vw["drift"])
        wrevs = vlib.read_ndjson(wp)
        if vw["drift"]:
            vlib.log("  [note] extension (Wrapper.tla): %d of %d histories differ from the specification (drift, no verdict); first: %s"
                     % (len(vw["drift"]), vw["events"], json.dumps(wrevs[vw["drift"][0] - 1])[:400]))
        else:
            # binding: a history with one output byte changed must be noticed
            bad = json.loads(json.dumps(next(e for e in wrevs if len(e["out"]) > 2)))
            bad["out"][1] += 1
            bp = os.path.join(work, "wrapper-bad.ndjson")
            vlib.write_ndjson(bp, [bad])
            vb, r = vlib.validate("Util", "WrapperTrace", "WrapperTrace.cfg", bp, timeout=600)
            if not vb["drift"]:
                raise vlib.Infra("Wrapper trace specification accepts a corrupted history")
        ck.nontrivial = len(judge.keys)
        ck.extra["emitted_cases_total"] = total
        ck.extra["emitted_cases_replayed"] = len(cevs)
        if judge.drift:
            ck.extra["notes_outside_the_statement"] = dict(judge.drift)
            for note, cnt in judge.drift.items():
                e = judge.first_drift[note]
                vlib.log("  [note] %d events: %s (first: k=%d %r): outside the statement, not a verdict" %
                         (cnt, note, e["k"], bytes(e.get("s", e.get("text", [])))[:40]))
        big = max((e for e in revs if e["op"] == "case"), key=lambda e: len(e["s"]))
        ck.extra["longest_sequence"] = len(big["s"])
        smp = next(e for e in cevs if e["err"] == "" and e["index"] and any(b not in VALID for b in e["s"]))
        ck.samples.append({"source": "sequence emitted by TLC, indexed by the real code",
                           "s": bytes(smp["s"]).decode("latin1"), "k": smp["k"], "index": smp["index"],
                           "freq": smp["freq"], "check": [smp["chkok"], smp["chkfound"]], "ranges": smp["ranges"][:6]})
        rs = next(e for e in revs if e["op"] == "case" and e["err"] == "" and 30 < len(e["s"]) < 80 and e["index"])
        ck.samples.append({"source": "random sequence", "s": bytes(rs["s"]).decode("latin1"), "k": rs["k"],
                           "index": rs["index"][:5], "q": rs["q"][:6], "qt": rs["qt"][:3],
                           "ranges": [x[:3] + [x[3][:4]] for x in rs["ranges"][:5]]})
        ck.samples.append({"source": "word functions", "event": wevs[len(wevs) // 3]})
        ck.samples.append({"source": "New argument checks", "events": [
            {k: e[k] for k in ("k", "mink", "err")} | {"len": len(e["s"])} for e in revs[:8]]})
    finally:
        pool.shutdown(wait=True)
        shutil.rmtree(work, ignore_errors=True)


def replay(path):
    obj = json.load(open(path))["replay"]
    e = obj["event"]
    work = vlib.scratch("c10r-")
    try:
        if e["op"] == "case":
            c = {"s": e["s"], "k": e["k"], "mink": e["mink"], "plan": True, "tiny": e["tiny"], "full": e["full"],
                 "sfull": e["sfull"], "ranges": [r[:2] for r in e["ranges"]], "kmers": [q[0] for q in e["q"]],
                 "texts": [q[0] for q in e["qt"]]}
        elif e["op"] == "word":
            c = {"k": e["k"], "kmer": e["kmer"]}
        else:
            c = {"k": e["k"], "text": e["text"]}
        cin = os.path.join(work, "in.ndjson")
        vlib.write_ndjson(cin, [c])
        out = os.path.join(work, "out.ndjson")
        vlib.harness(["kmer", "cases", "-in", cin, "-out", out], cmd="vkmer")
        evs = vlib.read_ndjson(out)
        v, r = vlib.validate("Kmer", "KmerTrace", "KmerTrace.cfg", out)
        vlib.log(json.dumps(evs[0])[:1500])
        if v["fails"]:
            vlib.log("VIOLATION property=C10 replay=%s" % path)
            vlib.log("  what: %s" % _what(evs[0], v["fails"][0][1]))
            return 1
        vlib.log("replay accepted by the specification")
        return 0
    finally:
        shutil.rmtree(work, ignore_errors=True)
