"""Helpers shared by the morass checks (C11, C12, C13)."""
import json, os, shutil
import vlib

KD = 4096


def plan_of_segment(seg):
    """Rebuild the operation list that produced a logged segment."""
    h = seg[0]
    ops = [{"op": "new", "cs": h["cs"], "ac": h["ac"], "conc": h["conc"], "struct": h.get("struct", False),
            "acl": h.get("acl", False)}]
    for e in seg[1:]:
        if e["op"] == "push":
            ops.append({"op": "push", "v": e["v"]})
        elif e["op"] in ("finalise", "clear", "pull", "cleanup"):
            ops.append({"op": e["op"]})
    return ops


def judge_trace(ck, trace, label, consts=None, max_report=5):
    """Validate a morass trace with MorassTrace.tla; report rejected segments as violations."""
    v, r = vlib.validate("Morass", "MorassTrace", "MorassTrace.cfg", trace, consts=consts)
    ck.mc("trace:" + label, r, "%d events" % v["events"])
    evs = vlib.read_ndjson(trace)
    if v["events"] != len(evs):
        raise vlib.Infra("TLC saw %d events, log has %d" % (v["events"], len(evs)))
    segs = vlib.segments(evs)
    ck.traces += len(segs)
    ck.evaluations += len(evs)
    starts = [s for s, _ in segs]
    import bisect
    for l, why in v["fails"]:
        i = bisect.bisect_right(starts, l) - 1
        s0, seg = segs[i]
        upto = seg[: l - s0 + 1]
        ck.violation("%s: event %d (%s) not a step of the sorter specification: %s" %
                     (label, l - s0, json.dumps(evs[l - 1]), why),
                     {"kind": "morass-plan", "plan": plan_of_segment(seg), "kd": KD,
                      "rejected_event": evs[l - 1], "why": why, "prefix": upto[-12:]})
    if v.get("drift"):
        ck.extra["impl_model_drift_events"] = ck.extra.get("impl_model_drift_events", 0) + len(v["drift"])
        vlib.log("  [note] internal view differs from MorassOps at %d events (first: %s); "
                 "not a verdict, the implementation-shaped model needs updating" %
                 (len(v["drift"]), json.dumps(evs[v["drift"][0] - 1])))
    return v, segs


def replay_plan(obj, validate_consts=None):
    work = vlib.scratch("replay-")
    try:
        plan = os.path.join(work, "plan.ndjson")
        open(plan, "w").write(json.dumps(obj["plan"]) + "\n")
        tr = os.path.join(work, "trace.ndjson")
        vlib.harness(["morass", "replay", "-in", plan, "-out", tr, "-kd", obj.get("kd", KD)])
        v, r = vlib.validate("Morass", "MorassTrace", "MorassTrace.cfg", tr, consts=validate_consts)
        for e in vlib.read_ndjson(tr):
            vlib.log("   " + json.dumps(e))
        return v
    finally:
        shutil.rmtree(work, ignore_errors=True)
